(* C07_Proofs.v — tags: set algebra, history independence of the tag state, activity iff enabled. *)
From Adb Require Import Base BaseProofs Generated Hashing Net_Model Net_Proofs C07_Model.

Lemma mem_dedup t l : mem_str t (dedup_str l) = mem_str t l.
Proof.
  induction l as [|x r IH]; cbn; [reflexivity|].
  destruct (mem_str x r) eqn:E.
  - rewrite IH. destruct (str_eqb t x) eqn:Etx; [|reflexivity].
    apply str_eqb_eq in Etx. subst. rewrite E. reflexivity.
  - cbn. rewrite IH. reflexivity.
Qed.
Lemma mem_app t a b : mem_str t (a ++ b) = mem_str t a || mem_str t b.
Proof. induction a as [|x r IH]; cbn; [reflexivity|]. rewrite IH, orb_assoc. reflexivity. Qed.
Lemma mem_filter_neg t ts l :
  mem_str t (filter (fun x => negb (mem_str x ts)) l) = mem_str t l && negb (mem_str t ts).
Proof.
  induction l as [|x r IH]; cbn; [reflexivity|].
  destruct (mem_str x ts) eqn:E; cbn.
  - rewrite IH. destruct (str_eqb t x) eqn:Etx; [|reflexivity].
    apply str_eqb_eq in Etx. subst. rewrite E. cbn. rewrite andb_false_r. reflexivity.
  - rewrite IH. destruct (str_eqb t x) eqn:Etx; [|reflexivity].
    apply str_eqb_eq in Etx. subst. rewrite E. cbn. reflexivity.
Qed.

Section C07.
Variable h : str -> N.

(* ---- set algebra of the three mutators and the query ---- *)
Theorem use_tags_assign b ts t : tag_exists (use_tags h b ts) t = mem_str t ts.
Proof. unfold tag_exists, use_tags, tags_with_set; cbn. apply mem_dedup. Qed.
Theorem enable_tags_union b ts t : tag_exists (enable_tags h b ts) t = mem_str t ts || tag_exists b t.
Proof. unfold tag_exists, enable_tags, tags_with_set; cbn. rewrite mem_dedup. apply mem_app. Qed.
Theorem disable_tags_diff b ts t : tag_exists (disable_tags h b ts) t = tag_exists b t && negb (mem_str t ts).
Proof. unfold tag_exists, disable_tags, tags_with_set; cbn. apply mem_filter_neg. Qed.

(* loading a serialized engine keeps the caller's enabled set *)
Theorem deserialize_keeps_tags cur fresh t :
  tag_exists (engine_deserialize h cur fresh) t = tag_exists cur t.
Proof. unfold engine_deserialize. rewrite use_tags_assign. reflexivity. Qed.

(* ---- the whole state after any history is "fresh engine + the final tag set" ---- *)
Definition same_rules (b b0 : blocker) : Prop :=
  b_csp b = b_csp b0 /\ b_exceptions b = b_exceptions b0 /\ b_importants b = b_importants b0 /\
  b_redirects b = b_redirects b0 /\ b_removeparam b = b_removeparam b0 /\
  b_filters b = b_filters b0 /\ b_generic_hide b = b_generic_hide b0 /\ b_tagged_all b = b_tagged_all b0.

Lemma tags_with_set_twice b T1 T2 : tags_with_set h (tags_with_set h b T1) T2 = tags_with_set h b T2.
Proof. reflexivity. Qed.

Definition canonical L (b : blocker) : Prop := b = tags_with_set h (blocker_new h L) (b_tags b).

Lemma tagged_active_nil l : tagged_active [] l = [].
Proof. unfold tagged_active. induction l as [|f r IH]; cbn; [reflexivity|]. destruct (rtag f); exact IH. Qed.

Lemma canonical_new L : canonical L (blocker_new h L).
Proof.
  unfold canonical, tags_with_set, blocker_new.
  cbn [b_csp b_exceptions b_importants b_redirects b_removeparam b_tagged b_filters b_generic_hide b_tags b_tagged_all].
  rewrite tagged_active_nil. reflexivity.
Qed.

Lemma apply_op_canonical L b o : canonical L b -> canonical L (apply_op h L b o).
Proof.
  unfold canonical. intros Hb. destruct o; cbn [apply_op].
  - unfold use_tags. rewrite Hb at 1. reflexivity.
  - unfold enable_tags. rewrite Hb at 1. reflexivity.
  - unfold disable_tags. rewrite Hb at 1. reflexivity.
  - unfold engine_deserialize, use_tags. reflexivity.
Qed.

Lemma run_from_canonical L ops : forall b, canonical L b -> canonical L (fold_left (apply_op h L) ops b).
Proof. induction ops as [|o r IH]; intros b Hb; cbn; auto. apply IH. apply apply_op_canonical. exact Hb. Qed.

(* membership in the tag list after the ops = membership in the plain set computed by set algebra *)
Lemma apply_op_tags L b o T t :
  (forall t, tag_exists b t = mem_str t T) ->
  tag_exists (apply_op h L b o) t = mem_str t (set_op T o).
Proof.
  intros Hb. destruct o; cbn [apply_op set_op].
  - apply use_tags_assign.
  - rewrite enable_tags_union, mem_app, Hb. reflexivity.
  - rewrite disable_tags_diff, mem_filter_neg, Hb. reflexivity.
  - rewrite deserialize_keeps_tags; auto.
Qed.

Lemma run_tags L ops : forall b T, (forall t, tag_exists b t = mem_str t T) ->
  forall t, tag_exists (fold_left (apply_op h L) ops b) t = mem_str t (fold_left set_op ops T).
Proof.
  induction ops as [|o r IH]; intros b T Hb t; cbn; auto.
  apply (IH _ (set_op T o)). intros t'. apply apply_op_tags. exact Hb.
Qed.

Theorem tag_exists_after_history L ops t :
  tag_exists (run_ops h L ops) t = mem_str t (set_ops ops).
Proof. unfold run_ops, set_ops. apply run_tags. intros t'. reflexivity. Qed.

(* ---- verdicts depend on the tag list only through membership ---- *)
Section Verdicts.
Variable matches : rule -> bool.

Lemma tag_ok_ext T1 T2 f : (forall t, mem_str t T1 = mem_str t T2) -> tag_ok T1 f = tag_ok T2 f.
Proof. intros H. unfold tag_ok. destruct (rtag f); auto. Qed.
Lemma act_ext T1 T2 f : (forall t, mem_str t T1 = mem_str t T2) -> act matches T1 f = act matches T2 f.
Proof. intros H. unfold act. rewrite (tag_ok_ext T1 T2 f H). reflexivity. Qed.
Lemma existsb_ext {A} (p q : A -> bool) l : (forall x, p x = q x) -> existsb p l = existsb q l.
Proof. intros H. induction l as [|x r IH]; cbn; [reflexivity|]. rewrite H, IH. reflexivity. Qed.
Lemma tagged_active_ext T1 T2 l : (forall t, mem_str t T1 = mem_str t T2) -> tagged_active T1 l = tagged_active T2 l.
Proof.
  intros H. unfold tagged_active. apply filter_ext. intros f. destruct (rtag f); auto.
Qed.

Theorem spec_verdict_set_semantics L T1 T2 :
  (forall t, mem_str t T1 = mem_str t T2) -> spec_verdict matches L T1 = spec_verdict matches L T2.
Proof.
  intros H. unfold spec_verdict.
  rewrite (tagged_active_ext T1 T2 _ H).
  rewrite (existsb_ext (act matches T1) (act matches T2) (of_cat CImportant L) (fun f => act_ext T1 T2 f H)).
  rewrite (existsb_ext (act matches T1) (act matches T2) (tagged_active T2 (of_cat CTagged L)) (fun f => act_ext T1 T2 f H)).
  rewrite (existsb_ext (act matches T1) (act matches T2) (of_cat CException L) (fun f => act_ext T1 T2 f H)).
  reflexivity.
Qed.

Theorem spec_verdict_p_set_semantics mr fc L T1 T2 :
  (forall t, mem_str t T1 = mem_str t T2) -> spec_verdict_p matches mr fc L T1 = spec_verdict_p matches mr fc L T2.
Proof.
  intros H. unfold spec_verdict_p.
  rewrite (tagged_active_ext T1 T2 _ H).
  rewrite (existsb_ext (act matches T1) (act matches T2) (of_cat CImportant L) (fun f => act_ext T1 T2 f H)).
  rewrite (existsb_ext (act matches T1) (act matches T2) (tagged_active T2 (of_cat CTagged L)) (fun f => act_ext T1 T2 f H)).
  rewrite (existsb_ext (act matches T1) (act matches T2) (of_cat CException L) (fun f => act_ext T1 T2 f H)).
  reflexivity.
Qed.

(* a tagged rule takes part iff its tag is enabled; an untagged one always *)
Theorem tagged_rule_active_iff T f t : rtag f = Some t -> act matches T f = matches f && mem_str t T.
Proof. intros H. unfold act, tag_ok. rewrite H. reflexivity. Qed.
Theorem untagged_rule_active T f : rtag f = None -> act matches T f = matches f.
Proof. intros H. unfold act, tag_ok. rewrite H. apply andb_true_r. Qed.

Variable pr : list N.
Hypothesis pr_zero : In 0 pr.

(* After ANY history of tag operations and reloads the verdict is the rule-by-rule verdict under
   the set-algebra tag set: tagged blocking, exception and important rules are active exactly
   when their tag is in it. *)
Theorem verdict_after_history L ops :
  id_inj L -> TG h matches pr L ->
  blocker_check matches pr (run_ops h L ops) = spec_verdict matches L (set_ops ops).
Proof.
  intros Hi Ht.
  assert (Hc : canonical L (run_ops h L ops)).
  { unfold run_ops. apply run_from_canonical. apply canonical_new. }
  rewrite Hc. rewrite (engine_eq_spec h matches pr pr_zero L _ Hi Ht).
  apply spec_verdict_set_semantics. intros t.
  change (mem_str t (b_tags (run_ops h L ops))) with (tag_exists (run_ops h L ops) t).
  apply tag_exists_after_history.
Qed.

(* the same on the subset entry point (matched_rule / force_check_exceptions) *)
Theorem verdict_after_history_p mr fc L ops :
  id_inj L -> TG h matches pr L ->
  blocker_check_p matches pr mr fc (run_ops h L ops) = spec_verdict_p matches mr fc L (set_ops ops).
Proof.
  intros Hi Ht.
  assert (Hc : canonical L (run_ops h L ops)).
  { unfold run_ops. apply run_from_canonical. apply canonical_new. }
  rewrite Hc. rewrite (engine_eq_spec_p h matches pr pr_zero mr fc L _ Hi Ht).
  apply spec_verdict_p_set_semantics. intros t.
  change (mem_str t (b_tags (run_ops h L ops))) with (tag_exists (run_ops h L ops) t).
  apply tag_exists_after_history.
Qed.

(* a tagged exception is consulted on the forced path exactly when its tag is enabled: with no
   blocking rule at all, the exception bit of a forced query is "some active exception matches" *)
Theorem forced_exception_reads_tags fc L T :
  spec_verdict_p matches true fc L T
  = let imp := existsb (act matches T) (of_cat CImportant L) in
    let exc := existsb (act matches T) (of_cat CException L) in
    {| v_matched := imp || negb exc; v_important := imp; v_exception := negb imp && exc; v_filter := imp |}.
Proof.
  unfold spec_verdict_p. cbn [negb andb orb].
  destruct (existsb (act matches T) (of_cat CImportant L)), (existsb (act matches T) (of_cat CException L)); reflexivity.
Qed.

Theorem csp_hits_after_history L ops f :
  id_inj L -> TG h matches pr L ->
  (In f (csp_hits matches pr (run_ops h L ops)) <->
   In f (filter (act matches (set_ops ops)) (of_cat CCsp L))).
Proof.
  intros Hi Ht.
  assert (Hc : canonical L (run_ops h L ops)).
  { unfold run_ops. apply run_from_canonical. apply canonical_new. }
  rewrite Hc. rewrite (csp_hits_exact h matches pr pr_zero L _ f Hi Ht). unfold spec_csp_hits.
  rewrite !filter_In. split; intros [A B]; split; auto.
  - rewrite <- B. apply act_ext. intros t. symmetry.
    change (mem_str t (b_tags (run_ops h L ops))) with (tag_exists (run_ops h L ops) t).
    apply tag_exists_after_history.
  - rewrite <- B. apply act_ext. intros t.
    change (mem_str t (b_tags (run_ops h L ops))) with (tag_exists (run_ops h L ops) t).
    apply tag_exists_after_history.
Qed.
End Verdicts.
End C07.

(* non-vacuity on the C01 example: rule 14 carries tag t1 *)
Example c07_example :
  let ops := [OpUse [bs "t2"]; OpEnable [bs "t1"; bs "t1"]; OpReload; OpDisable [bs "t2"]] in
  set_ops ops = [bs "t1"; bs "t1"] /\
  tag_exists (run_ops seahash ex_rules ops) (bs "t1") = true /\
  tag_exists (run_ops seahash ex_rules ops) (bs "t2") = false /\
  v_filter (blocker_check (fun f => memN (rid f) [14]) ex_probes (run_ops seahash ex_rules ops)) = true /\
  v_filter (blocker_check (fun f => memN (rid f) [14]) ex_probes (run_ops seahash ex_rules (ops ++ [OpDisable [bs "t1"]]))) = false.
Proof. vm_compute. auto. Qed.
