(* Struct_Deps_Proofs.v — tie between the permission gate / dependency walk of
   src/resources/resource_storage.rs as the translator extracts them on every run
   (Generated.DepsGen: the errors and the test of get_permissioned_resource, the statements of
   recursive_dependencies IN SOURCE ORDER, the order of gate / kind test / dependency loop / self
   push in get_scriptlet_resource) and the hand-written C18_Model.
   [interp_rd_body] runs the extracted statement list over a small state (the resource bound by the
   gate, the shared list of collected dependencies); a statement that needs the resource before the
   gate bound it is stuck (None).  The recursive calls of the loop go to [rec], so
   [interp_rd_body_is_unfolding] is the fixpoint equation: the body, with the model in the place of
   the recursive calls, IS one unfolding of C18_Model.recursive_dependencies.  The gate therefore
   comes first: it is applied to every dependency that is reached, collected before or not. *)
From Coq Require Import String.
From Adb Require Import Base Generated C18_Model.
Import DepsGen.
Local Open Scope string_scope.
Local Open Scope list_scope.

Definition serr_of (name : string) : option serr :=
  if String.eqb name "NoMatchingScriptlet" then Some NoMatchingScriptlet
  else if String.eqb name "InsufficientPermissions" then Some InsufficientPermissions
  else if String.eqb name "MissingScriptletName" then Some MissingScriptletName
  else if String.eqb name "ContentTypeNotInjectable" then Some ContentTypeNotInjectable
  else None.

(* get_permissioned_resource with the extracted errors and test *)
Definition interp_gpr (st : store) (name : str) (filter_permission : N) : option (sres resource) :=
  match serr_of absent_error, serr_of permission_error with
  | Some ea, Some ep =>
      if negb (String.eqb permission_test "is_injectable_by") then None else
      Some (match get_internal_resource st name with
            | None => SErr ea
            | Some r => if is_injectable_by (r_perm r) filter_permission then SOk r else SErr ep
            end)
  | _, _ => None
  end.

Theorem interp_gpr_is_model st name p :
  interp_gpr st name p = Some (get_permissioned_resource st name p).
Proof. reflexivity. Qed.

(* the statements of recursive_dependencies; [cur] = the resource bound by the gate *)
Fixpoint run_steps (rec : str -> list resource -> list resource * option serr)
         (st : store) (new_dep : str) (filter_permission : N)
         (steps : list dstep) (cur : option resource) (prev : list resource)
  : option (list resource * option serr) :=
  match steps with
  | [] => None                              (* fell off the end without `Ok(())` *)
  | s :: rest =>
      match s with
      | D_gate =>
          match interp_gpr st new_dep filter_permission with
          | None => None
          | Some (SErr e) => Some (prev, Some e)               (* the `?` *)
          | Some (SOk r) => run_steps rec st new_dep filter_permission rest (Some r) prev
          end
      | D_collected_return_ok =>
          match cur with
          | None => None
          | Some r => if negb (String.eqb collected_compares "name") then None
                      else if has_name (r_name r) prev then Some (prev, None)
                      else run_steps rec st new_dep filter_permission rest cur prev
          end
      | D_push =>
          match cur with
          | None => None
          | Some r => run_steps rec st new_dep filter_permission rest cur (prev ++ [r])
          end
      | D_recurse =>
          match cur with
          | None => None
          | Some r =>
              let '(p, e) := fold_deps rec (r_deps r) prev in
              match e with
              | Some _ => Some (p, e)                            (* the `?` inside the loop *)
              | None => run_steps rec st new_dep filter_permission rest cur p
              end
          end
      | D_ok => Some (prev, None)
      end
  end.

Definition interp_rd_body (rec : str -> list resource -> list resource * option serr)
           (st : store) (new_dep : str) (prev : list resource) (filter_permission : N) :=
  run_steps rec st new_dep filter_permission rd_steps None prev.

Theorem interp_rd_body_is_unfolding f st new_dep prev p :
  interp_rd_body (fun d q => recursive_dependencies f st d q p) st new_dep prev p =
  Some (recursive_dependencies (S f) st new_dep prev p).
Proof.
  unfold interp_rd_body, rd_steps. cbn [run_steps recursive_dependencies].
  rewrite interp_gpr_is_model.
  destruct (get_permissioned_resource st new_dep p) as [r|e]; [|reflexivity].
  cbn [String.eqb Ascii.eqb Bool.eqb negb collected_compares].
  destruct (has_name (r_name r) prev); [reflexivity|].
  destruct (fold_deps (fun d q => recursive_dependencies f st d q p) (r_deps r) (prev ++ [r])) as [q [e|]];
    reflexivity.
Qed.

(* what the order says: an insufficiently permitted dependency is refused whether or not it has
   been collected for another injection before *)
Corollary gate_before_collected_test f st new_dep prev p e :
  get_permissioned_resource st new_dep p = SErr e ->
  interp_rd_body (fun d q => recursive_dependencies f st d q p) st new_dep prev p = Some (prev, Some e).
Proof.
  intros H. rewrite interp_rd_body_is_unfolding. cbn [recursive_dependencies]. now rewrite H.
Qed.

(* get_scriptlet_resource: the scriptlet itself is gated before its kind is looked at and before
   any dependency is collected; it is added to the collected list last, unless it is there *)
Theorem scriptlet_order_is_model :
  scriptlet_order = [G_gate; G_kind; G_deps; G_push_self_if_absent].
Proof. reflexivity. Qed.

(* ====================================================================================== *)
(* ResourceStorage::add_resource (Generated.AddResGen: its statements in source order)      *)
(* ====================================================================================== *)
Import AddResGen.

Definition mime_error (r : resource) : option add_err :=
  match r_kind r with
  | RK_Mime ct =>
      if negb (null (r_deps r)) && negb (c18_supports_dependencies ct)
      then Some ContentTypeDoesNotSupportDependencies
      else match r_decoded r with
           | BadBase64 => Some InvalidBase64Content
           | NotUtf8 => if c18_is_textual ct then Some InvalidUtf8Content else None
           | Text _ => None
           end
  | RK_Template => None
  end.

(* the statements run over the two maps; a rejecting statement returns the store AS IT IS AT THAT
   POINT together with the error (what a `return Err(..)` in the middle of the function leaves) *)
Fixpoint run_add (steps : list astep) (st : store) (r : resource) : option (store * option add_err) :=
  match steps with
  | [] => None
  | s :: rest =>
      match s with
      | A_mime_checks =>
          match mime_error r with Some e => Some (st, Some e) | None => run_add rest st r end
      | A_reject_if_any_identifier_taken =>
          if existsb (contains_ident st) (r_name r :: r_aliases r) then Some (st, Some NameAlreadyAdded)
          else run_add rest st r
      | A_insert_aliases =>
          run_add rest (mkStore (st_res st) (st_alias st ++ map (fun a => (a, r_name r)) (r_aliases r))) r
      | A_insert_resource =>
          run_add rest (mkStore (st_res st ++ [r]) (st_alias st)) r
      | A_ok => Some (st, None)
      end
  end.
Definition interp_add_resource := run_add ar_steps.

Theorem interp_add_resource_is_model st r :
  interp_add_resource st r = Some (add_resource st r).
Proof.
  unfold interp_add_resource, ar_steps, add_resource. cbn [run_add]. fold (mime_error r).
  destruct (mime_error r); [reflexivity|].
  destruct (existsb (contains_ident st) (r_name r :: r_aliases r)); reflexivity.
Qed.

(* a rejected resource leaves nothing behind: every rejection precedes every insertion *)
Corollary rejected_add_changes_nothing st r e :
  interp_add_resource st r = Some (fst (add_resource st r), Some e) -> fst (add_resource st r) = st.
Proof.
  rewrite interp_add_resource_is_model. intros H. injection H as H.
  unfold add_resource in *. fold (mime_error r) in *.
  destruct (mime_error r); [reflexivity|].
  destruct (existsb (contains_ident st) (r_name r :: r_aliases r)); [reflexivity|].
  cbn in H. discriminate.
Qed.
