(* Props_C06.v — pinned statements for C06: answers depend only on current rules, tags and
   resources, not on history. *)
From Adb Require Import Base Generated Hashing Net_Model Net_Proofs C06_Model C06_Proofs C07_Model C07_Proofs.

(* (A) regex cache: every answer obtained through the address-keyed cache equals the answer of a
   regex compiled afresh from the rule currently at that address, for EVERY sequence of
   allocations, matches, discards (time-based or explicit) and rebuilds (tag change, optimize),
   provided the allocator never hands out a live address. *)
Theorem C06_cache_inv_step : forall s o, CacheInv s -> op_ok s o -> CacheInv (fst (rstep s o)).
Proof. exact cache_inv_step. Qed.
Print Assumptions C06_cache_inv_step.

Theorem C06_cache_history_independent : forall ops s,
  CacheInv s -> ops_ok s ops -> snd (run_rops s ops) = run_fresh s ops.
Proof. exact cache_history_independent. Qed.
Print Assumptions C06_cache_history_independent.

(* the same statement is false for the code before `fix: drop cached regexes when rules are
   reallocated` (finding F12) *)
Theorem C06_stale_regex_without_clear_refuted :
  exists ops, snd (run_rops {| heap := []; cache := [] |} ops) <> run_fresh {| heap := []; cache := [] |} ops.
Proof. exact stale_regex_without_clear. Qed.
Print Assumptions C06_stale_regex_without_clear_refuted.

(* (B) rules supplied one at a time or in one batch: same verdicts *)
Theorem C06_add_represents : forall h b L T f,
  Represents h b L T -> no_badfilter L -> snd (blocker_add h b f) = AddOk ->
  Represents h (fst (blocker_add h b f)) (L ++ [f]) T /\ is_badfilter f = false.
Proof. exact add_represents. Qed.
Print Assumptions C06_add_represents.

Theorem C06_represents_verdict : forall h matches pr, In 0 pr -> forall b L T,
  Represents h b L T -> id_inj L -> TG h matches pr L ->
  blocker_check matches pr b = spec_verdict matches L T.
Proof. exact represents_verdict. Qed.
Print Assumptions C06_represents_verdict.

Theorem C06_incremental_eq_batch : forall h matches pr, In 0 pr -> forall fs T,
  let acc := snd (add_all h (tags_with_set h (blocker_new h []) T) fs) in
  id_inj acc -> TG h matches pr acc ->
  blocker_check matches pr (fst (add_all h (tags_with_set h (blocker_new h []) T) fs))
  = blocker_check matches pr (tags_with_set h (blocker_new h acc) T).
Proof. exact incremental_eq_batch. Qed.
Print Assumptions C06_incremental_eq_batch.

(* (C) how many times tags were switched does not matter (from C07): the state after any history of
   tag operations and reloads is the fresh engine with the final set *)
Theorem C06_tag_history_independent : forall h matches pr, In 0 pr -> forall L ops,
  id_inj L -> TG h matches pr L ->
  blocker_check matches pr (run_ops h L ops) = spec_verdict matches L (set_ops ops).
Proof. exact verdict_after_history. Qed.
Print Assumptions C06_tag_history_independent.

(* ------------------------------------------------------------------ (D) ONE theorem for ARBITRARY
   interleavings of add_filter (accepted / FilterExists / BadFilterAddUnsupported), use_tags /
   enable_tags / disable_tags and optimize() on a live Blocker created empty: after any history the
   verdict is the rule-by-rule verdict over the rules handed to add_filter (minus $badfilter rules)
   under the tag set computed by set algebra.  Subsumes (B), (C) and C05's single optimize().
   Invariant: C06_History_Model.SemRep (semantic: every stored rule, fused or not, stands for loaded
   rules of its category and every loaded rule is covered in one bucket per token group).
   Premises: id_inj, TG (C01), wfp (no AnyOf of zero patterns: true of every parsed and fused rule;
   shown necessary at model level by C06_history_verdict_wfp_refuted). *)
From Adb Require Import C05_Model C05_Proofs C06_History_Model C06_History_Proofs.

(* ---- the history theorem ---- *)
Theorem C06_history_verdict : forall h om pm pr, In 0 pr -> forall ops,
  let L := loaded ops in let T := tagset ops in
  id_inj L -> TG h (rmatch om pm) pr L -> (forall f, In f L -> wfp f = true) ->
  blocker_check (rmatch om pm) pr (hrun h ops) = spec_verdict (rmatch om pm) L T.
Proof. exact history_verdict. Qed.
Print Assumptions C06_history_verdict.

(* the same on the subset entry point (matched_rule / force_check_exceptions) *)
Theorem C06_history_verdict_p : forall h om pm pr, In 0 pr -> forall mr fc ops,
  let L := loaded ops in let T := tagset ops in
  id_inj L -> TG h (rmatch om pm) pr L -> (forall f, In f L -> wfp f = true) ->
  blocker_check_p (rmatch om pm) pr mr fc (hrun h ops) = spec_verdict_p (rmatch om pm) mr fc L T.
Proof. exact history_verdict_p. Qed.
Print Assumptions C06_history_verdict_p.

(* the rule-by-rule verdict reads rules and tags as SETS ... *)
Theorem C06_spec_verdict_set : forall matches L1 L2 T1 T2,
  (forall x, In x L1 <-> In x L2) -> (forall t, mem_str t T1 = mem_str t T2) ->
  spec_verdict matches L1 T1 = spec_verdict matches L2 T2.
Proof. exact spec_verdict_set. Qed.
Print Assumptions C06_spec_verdict_set.

Theorem C06_spec_verdict_p_set : forall matches mr fc L1 L2 T1 T2,
  (forall x, In x L1 <-> In x L2) -> (forall t, mem_str t T1 = mem_str t T2) ->
  spec_verdict_p matches mr fc L1 T1 = spec_verdict_p matches mr fc L2 T2.
Proof. exact spec_verdict_p_set. Qed.
Print Assumptions C06_spec_verdict_p_set.

(* ... hence two histories that loaded the same SET of rules and end with the same SET of enabled
   tags answer alike, whatever the order, the repetitions, the number of tag switches and the
   number and position of optimize() calls *)
Theorem C06_history_set_determined : forall h om pm pr, In 0 pr -> forall ops1 ops2,
  id_inj (loaded ops1) -> TG h (rmatch om pm) pr (loaded ops1) ->
  (forall f, In f (loaded ops1) -> wfp f = true) ->
  (forall x, In x (loaded ops1) <-> In x (loaded ops2)) ->
  (forall t, mem_str t (tagset ops1) = mem_str t (tagset ops2)) ->
  blocker_check (rmatch om pm) pr (hrun h ops1) = blocker_check (rmatch om pm) pr (hrun h ops2).
Proof. exact history_set_determined. Qed.
Print Assumptions C06_history_set_determined.

Theorem C06_history_set_determined_p : forall h om pm pr, In 0 pr -> forall mr fc ops1 ops2,
  id_inj (loaded ops1) -> TG h (rmatch om pm) pr (loaded ops1) ->
  (forall f, In f (loaded ops1) -> wfp f = true) ->
  (forall x, In x (loaded ops1) <-> In x (loaded ops2)) ->
  (forall t, mem_str t (tagset ops1) = mem_str t (tagset ops2)) ->
  blocker_check_p (rmatch om pm) pr mr fc (hrun h ops1) = blocker_check_p (rmatch om pm) pr mr fc (hrun h ops2).
Proof. exact history_set_determined_p. Qed.
Print Assumptions C06_history_set_determined_p.

(* one at a time, in any interleaving with tag switches and optimize() = one batch *)
Theorem C06_history_eq_batch : forall h om pm pr, In 0 pr -> forall ops,
  id_inj (loaded ops) -> TG h (rmatch om pm) pr (loaded ops) -> (forall f, In f (loaded ops) -> wfp f = true) ->
  blocker_check (rmatch om pm) pr (hrun h ops)
  = blocker_check (rmatch om pm) pr (tags_with_set h (blocker_new h (loaded ops)) (tagset ops)).
Proof. exact history_eq_batch. Qed.
Print Assumptions C06_history_eq_batch.

(* ---- the invariant: start, one step, verdict ---- *)
Theorem C06_semrep_new : forall h om pm, SemRep h om pm (blocker_new h []) [] [].
Proof. exact semrep_new. Qed.
Print Assumptions C06_semrep_new.

Theorem C06_hstep_semrep : forall h om pm b L T o,
  SemRep h om pm b L T -> no_badfilter L ->
  id_inj (rules_step L o) -> (forall g, In g (rules_step L o) -> wfp g = true) ->
  SemRep h om pm (hstep h b o) (rules_step L o) (tags_step T o).
Proof. exact hstep_semrep. Qed.
Print Assumptions C06_hstep_semrep.

Theorem C06_semrep_verdict : forall h om pm pr, In 0 pr -> forall b L T,
  SemRep h om pm b L T -> TG h (rmatch om pm) pr L ->
  blocker_check (rmatch om pm) pr b = spec_verdict (rmatch om pm) L T.
Proof. exact semrep_verdict. Qed.
Print Assumptions C06_semrep_verdict.

(* the three list-level facts behind the step: optimize(), add_filter, filter_exists *)
Theorem C06_semlist_optimize : forall h om pm m Lc,
  SemList h om pm m Lc -> SemList h om pm (fl_optimize m) Lc.
Proof. exact semlist_optimize. Qed.
Print Assumptions C06_semlist_optimize.

Theorem C06_semlist_add : forall h om pm m Lc f,
  SemList h om pm m Lc -> wfp f = true -> id_inj (Lc ++ [f]) -> SemList h om pm (fl_add h m f) (Lc ++ [f]).
Proof. exact semlist_add. Qed.
Print Assumptions C06_semlist_add.

(* ---- add_filter never refuses a rule that was not loaded (also after optimize()) ---- *)
Theorem C06_history_add_exists_id : forall h ops f,
  id_inj (loaded ops) -> (forall g, In g (loaded ops) -> wfp g = true) ->
  snd (blocker_add h (hrun h ops) f) = AddExists ->
  exists g, In g (loaded ops) /\ rid g = rid f.
Proof. exact history_add_exists_id. Qed.
Print Assumptions C06_history_add_exists_id.

Theorem C06_history_add_exists_sound : forall h ops f,
  id_inj (loaded ops ++ [f]) -> (forall g, In g (loaded ops) -> wfp g = true) ->
  snd (blocker_add h (hrun h ops) f) = AddExists -> In f (loaded ops).
Proof. exact history_add_exists_sound. Qed.
Print Assumptions C06_history_add_exists_sound.

(* ---- the lists whose every hit is used, and generic_hide, after any history ---- *)
Theorem C06_history_redirect_hits : forall h matches pr, In 0 pr -> forall ops f,
  id_inj (loaded ops) -> TG h matches pr (loaded ops) -> (forall g, In g (loaded ops) -> wfp g = true) ->
  (In f (redirect_hits matches pr (hrun h ops)) <-> In f (spec_redirect_hits matches (loaded ops))).
Proof. exact history_redirect_hits. Qed.
Print Assumptions C06_history_redirect_hits.

Theorem C06_history_removeparam_hits : forall h matches pr, In 0 pr -> forall ops f,
  id_inj (loaded ops) -> TG h matches pr (loaded ops) -> (forall g, In g (loaded ops) -> wfp g = true) ->
  (In f (removeparam_hits matches pr (hrun h ops)) <-> In f (spec_removeparam_hits matches (loaded ops))).
Proof. exact history_removeparam_hits. Qed.
Print Assumptions C06_history_removeparam_hits.

Theorem C06_history_csp_hits : forall h matches pr, In 0 pr -> forall ops f,
  id_inj (loaded ops) -> TG h matches pr (loaded ops) -> (forall g, In g (loaded ops) -> wfp g = true) ->
  (In f (csp_hits matches pr (hrun h ops)) <-> In f (spec_csp_hits matches (loaded ops) (tagset ops))).
Proof. exact history_csp_hits. Qed.
Print Assumptions C06_history_csp_hits.

Theorem C06_history_generic_hide : forall h om pm pr, In 0 pr -> forall ops,
  id_inj (loaded ops) -> TG h (rmatch om pm) pr (loaded ops) -> (forall g, In g (loaded ops) -> wfp g = true) ->
  generic_hide_hit (rmatch om pm) pr (hrun h ops) = spec_generic_hide (rmatch om pm) (loaded ops) (tagset ops).
Proof. exact history_generic_hide. Qed.
Print Assumptions C06_history_generic_hide.

(* ---- the wfp premise is necessary at model level (not reachable from the parser: no finding) ---- *)
Theorem C06_history_verdict_wfp_refuted :
  exists ops,
    id_inj (loaded ops) /\ TG seahash (rmatch hx_om hx_pm) hx_probes (loaded ops) /\ In 0 hx_probes
    /\ blocker_check (rmatch hx_om hx_pm) hx_probes (hrun seahash ops)
       <> spec_verdict (rmatch hx_om hx_pm) (loaded ops) (tagset ops).
Proof. exact history_verdict_wfp_refuted. Qed.
Print Assumptions C06_history_verdict_wfp_refuted.

(* ---- non-vacuity: the history replayed on the real crate (adds, optimize, re-add of the fused head
   and of a fused member, near twin, tags, exception, second optimize, $badfilter) ---- *)

(* ------------------------------------------------------------------ translator tie: the control
   structure of src/blocker.rs as extracted on this run (Generated.BlockerGen, written by
   tools/gen_fragments/c01_blocker_structure.py) denotes the hand-written model *)
From Coq Require Import String.
From Adb Require Import Struct_Proofs.
Import Generated.BlockerGen.

(* incremental and batch construction categorise alike; the duplicate test looks where add_filter
   stores; optimize() drops the address-keyed regex cache *)
Theorem C06_src_add_agrees_with_new : forall f c e,
  run_chain (pv_of f c e) add_chain = run_chain (pv_of f c e) new_chain.
Proof. exact add_chain_agrees_with_new. Qed.
Print Assumptions C06_src_add_agrees_with_new.

Theorem C06_src_add_guard :
  add_guard = [(PAtom A_is_badfilter, "err:BadFilterAddUnsupported"); (PAtom A_exists, "err:FilterExists")]%string
  /\ add_pre = [(PAtom A_is_redirect, "redirects"%string)].
Proof. exact (conj add_guard_is_model add_pre_is_redirects). Qed.
Print Assumptions C06_src_add_guard.

Theorem C06_src_filter_exists_chain : forall v, run_chain v exists_chain = exists_list_v v.
Proof. exact exists_chain_is_model. Qed.
Print Assumptions C06_src_filter_exists_chain.

Theorem C06_src_optimize_clears_cache : optimize_clears_regex_cache = true.
Proof. exact optimize_clears_cache. Qed.
Print Assumptions C06_src_optimize_clears_cache.

(* ------------------------------------------------------------------ the WHOLE answer (verdict bits,
   chosen redirect, rewritten URL; CSP policy) after ANY history equals the rule-by-rule
   specification record over the rules loaded and the tags enabled by that history; it only depends
   on the rule SET and the tag SET; it equals the answer of an engine built in one batch *)
From Adb Require Import Engine_Model Engine_History_Model Engine_History_Proofs.
From Adb Require C13_Model C15_Model.
Theorem C06_history_whole_answer :
  forall (h : str -> N) (om : N -> bool) (pm : N -> str -> bool) (pr : list N),
  In 0 pr ->
  forall (supported : bool) (url : str) (st : C13_Model.storage) (mr fc : bool) (ops : list hop),
  let L := loaded ops in
  let T := tagset ops in
  id_inj L ->
  TG h (rmatch om pm) pr L ->
  (forall f : rule, In f L -> wfp f = true) ->
  engine_check (rmatch om pm) pr supported url st mr fc (hrun h ops) =
  spec_result (rmatch om pm) supported url st mr fc L T.
Proof. exact history_engine_check. Qed.
Print Assumptions C06_history_whole_answer.

Theorem C06_history_csp :
  forall (h : str -> N) (om : N -> bool) (pm : N -> str -> bool) (pr : list N),
  In 0 pr ->
  forall (rtype : request_type) (ops : list hop),
  let L := loaded ops in
  let T := tagset ops in
  id_inj L ->
  TG h (rmatch om pm) pr L ->
  (forall f : rule, In f L -> wfp f = true) ->
  C15_Model.same_policy (engine_csp (rmatch om pm) pr rtype (hrun h ops))
    (C15_Model.get_csp_for rtype (spec_csp_rules (rmatch om pm) L T)).
Proof. exact history_engine_csp. Qed.
Print Assumptions C06_history_csp.

Theorem C06_history_whole_answer_set_determined :
  forall (h : str -> N) (om : N -> bool) (pm : N -> str -> bool) (pr : list N),
  In 0 pr ->
  forall (supported : bool) (url : str) (st : C13_Model.storage) (mr fc : bool) (ops1 ops2 : list hop),
  id_inj (loaded ops1) ->
  TG h (rmatch om pm) pr (loaded ops1) ->
  (forall f : rule, In f (loaded ops1) -> wfp f = true) ->
  same_rule_set (loaded ops1) (loaded ops2) ->
  same_tag_set (tagset ops1) (tagset ops2) ->
  engine_check (rmatch om pm) pr supported url st mr fc (hrun h ops1) =
  engine_check (rmatch om pm) pr supported url st mr fc (hrun h ops2).
Proof. exact history_engine_set_determined. Qed.
Print Assumptions C06_history_whole_answer_set_determined.

Theorem C06_history_csp_set_determined :
  forall (h : str -> N) (om : N -> bool) (pm : N -> str -> bool) (pr : list N),
  In 0 pr ->
  forall (rtype : request_type) (ops1 ops2 : list hop),
  id_inj (loaded ops1) ->
  TG h (rmatch om pm) pr (loaded ops1) ->
  (forall f : rule, In f (loaded ops1) -> wfp f = true) ->
  same_rule_set (loaded ops1) (loaded ops2) ->
  same_tag_set (tagset ops1) (tagset ops2) ->
  C15_Model.same_policy (engine_csp (rmatch om pm) pr rtype (hrun h ops1))
    (engine_csp (rmatch om pm) pr rtype (hrun h ops2)).
Proof. exact history_engine_csp_set_determined. Qed.
Print Assumptions C06_history_csp_set_determined.

Theorem C06_history_whole_answer_eq_batch :
  forall (h : str -> N) (om : N -> bool) (pm : N -> str -> bool) (pr : list N),
  In 0 pr ->
  forall (supported : bool) (url : str) (st : C13_Model.storage) (mr fc : bool) (ops : list hop),
  id_inj (loaded ops) ->
  TG h (rmatch om pm) pr (loaded ops) ->
  (forall f : rule, In f (loaded ops) -> wfp f = true) ->
  engine_check (rmatch om pm) pr supported url st mr fc (hrun h ops) =
  engine_check (rmatch om pm) pr supported url st mr fc
    (tags_with_set h (blocker_new h (loaded ops)) (tagset ops)).
Proof. exact history_engine_eq_batch. Qed.
Print Assumptions C06_history_whole_answer_eq_batch.

Theorem C06_history_csp_eq_batch :
  forall (h : str -> N) (om : N -> bool) (pm : N -> str -> bool) (pr : list N),
  In 0 pr ->
  forall (rtype : request_type) (ops : list hop),
  id_inj (loaded ops) ->
  TG h (rmatch om pm) pr (loaded ops) ->
  (forall f : rule, In f (loaded ops) -> wfp f = true) ->
  C15_Model.same_policy (engine_csp (rmatch om pm) pr rtype (hrun h ops))
    (engine_csp (rmatch om pm) pr rtype (tags_with_set h (blocker_new h (loaded ops)) (tagset ops))).
Proof. exact history_engine_csp_eq_batch. Qed.
Print Assumptions C06_history_csp_eq_batch.

Theorem C06_spec_result_set :
  forall (matches : rule -> bool) (supported : bool) (url : str) (st : C13_Model.storage) 
    (mr fc : bool) (L1 L2 : list rule) (T1 T2 : list str),
  same_rule_set L1 L2 ->
  same_tag_set T1 T2 ->
  spec_result matches supported url st mr fc L1 T1 = spec_result matches supported url st mr fc L2 T2.
Proof. exact spec_result_set. Qed.
Print Assumptions C06_spec_result_set.

Theorem C06_spec_csp_set :
  forall (matches : rule -> bool) (rtype : request_type) (L1 L2 : list rule) (T1 T2 : list str),
  same_rule_set L1 L2 ->
  same_tag_set T1 T2 ->
  C15_Model.same_policy (C15_Model.get_csp_for rtype (spec_csp_rules matches L1 T1))
    (C15_Model.get_csp_for rtype (spec_csp_rules matches L2 T2)).
Proof. exact spec_csp_set. Qed.
Print Assumptions C06_spec_csp_set.

Theorem C06_history_whole_answer_wfp_refuted :
  exists ops : list hop,
    id_inj (loaded ops) /\
    TG seahash (rmatch C06_History_Proofs.hx_om C06_History_Proofs.hx_pm) C06_History_Proofs.hx_probes
      (loaded ops) /\
    In 0 C06_History_Proofs.hx_probes /\
    engine_check (rmatch C06_History_Proofs.hx_om C06_History_Proofs.hx_pm) C06_History_Proofs.hx_probes
      true C06_History_Proofs.hx_url C13_Model.empty_store false false (hrun seahash ops) <>
    spec_result (rmatch C06_History_Proofs.hx_om C06_History_Proofs.hx_pm) true
      C06_History_Proofs.hx_url C13_Model.empty_store false false (loaded ops) 
      (tagset ops).
Proof. exact history_engine_wfp_refuted. Qed.
Print Assumptions C06_history_whole_answer_wfp_refuted.

(* add_filter files a rule under the same best token as the batch construction does (same arms,
   same start values; counts are the current bucket sizes): extracted from the source on this run *)
From Adb Require Struct_List_Proofs.
Theorem C06_src_add_filter_best_token_is_model : forall (cnt : N -> option N) (g : list N) (best minc : N),
  Struct_List_Proofs.strict_arms ListGen.add_filter_arms = true ->
  Struct_List_Proofs.run_group ListGen.add_filter_arms cnt g (best, minc) = best_loop cnt g best minc.
Proof. exact Struct_List_Proofs.run_group_is_best_loop_add. Qed.
Print Assumptions C06_src_add_filter_best_token_is_model.

(* the assumption under the cache model ([cache a] = the pattern the regex at key a was compiled
   from, whether for the first time or after a discard): in the source a discarded entry is rebuilt
   by the very expression that builds a new one, discarding only sets the regex to None, and
   `clear` empties the map (Generated.RegexMgrGen, re-read on every run) *)
From Adb Require Struct_Matchers_Proofs.
Theorem C06_src_recreate_is_create : RegexMgrGen.recreate_expr = RegexMgrGen.create_expr.
Proof. exact Struct_Matchers_Proofs.recreate_is_create. Qed.
Print Assumptions C06_src_recreate_is_create.

Theorem C06_src_regex_lifecycle_shape :
  RegexMgrGen.discard_sets_regex_none = true /\ RegexMgrGen.clear_empties_map = true /\
  RegexMgrGen.compile_regex_params = ["filters"; "is_right_anchor"; "is_left_anchor"; "is_complete_regex"]%string.
Proof. exact Struct_Matchers_Proofs.regex_lifecycle_shape. Qed.
Print Assumptions C06_src_regex_lifecycle_shape.
