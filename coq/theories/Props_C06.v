(* Props_C06.v — pinned statements for C06: answers depend only on current rules, tags and
   resources, not on history. *)
From Adb Require Import Base Generated Hashing Net_Model Net_Proofs C06_Model C06_Proofs C07_Model C07_Proofs.

(* (A) regex cache: every answer obtained through the address-keyed cache equals the answer of a
   regex compiled afresh from the rule currently at that address, for EVERY sequence of
   allocations, matches, discards (time-based or explicit) and rebuilds (tag change, optimize),
   provided the allocator never hands out a live address. *)
Theorem C06_cache_inv_step : forall s o, CacheInv s -> op_ok s o -> CacheInv (fst (rstep s o)).
Proof. exact cache_inv_step. Qed.
Print Assumptions C06_cache_inv_step.

Theorem C06_cache_history_independent : forall ops s,
  CacheInv s -> ops_ok s ops -> snd (run_rops s ops) = run_fresh s ops.
Proof. exact cache_history_independent. Qed.
Print Assumptions C06_cache_history_independent.

(* the same statement is false for the code before `fix: drop cached regexes when rules are
   reallocated` (finding F12) *)
Theorem C06_stale_regex_without_clear_refuted :
  exists ops, snd (run_rops {| heap := []; cache := [] |} ops) <> run_fresh {| heap := []; cache := [] |} ops.
Proof. exact stale_regex_without_clear. Qed.
Print Assumptions C06_stale_regex_without_clear_refuted.

(* (B) rules supplied one at a time or in one batch: same verdicts *)
Theorem C06_add_represents : forall h b L T f,
  Represents h b L T -> no_badfilter L -> snd (blocker_add h b f) = AddOk ->
  Represents h (fst (blocker_add h b f)) (L ++ [f]) T /\ is_badfilter f = false.
Proof. exact add_represents. Qed.
Print Assumptions C06_add_represents.

Theorem C06_represents_verdict : forall h matches pr, In 0 pr -> forall b L T,
  Represents h b L T -> id_inj L -> TG h matches pr L ->
  blocker_check matches pr b = spec_verdict matches L T.
Proof. exact represents_verdict. Qed.
Print Assumptions C06_represents_verdict.

Theorem C06_incremental_eq_batch : forall h matches pr, In 0 pr -> forall fs T,
  let acc := snd (add_all h (tags_with_set h (blocker_new h []) T) fs) in
  id_inj acc -> TG h matches pr acc ->
  blocker_check matches pr (fst (add_all h (tags_with_set h (blocker_new h []) T) fs))
  = blocker_check matches pr (tags_with_set h (blocker_new h acc) T).
Proof. exact incremental_eq_batch. Qed.
Print Assumptions C06_incremental_eq_batch.

(* (C) how many times tags were switched does not matter (from C07): the state after any history of
   tag operations and reloads is the fresh engine with the final set *)
Theorem C06_tag_history_independent : forall h matches pr, In 0 pr -> forall L ops,
  id_inj L -> TG h matches pr L ->
  blocker_check matches pr (run_ops h L ops) = spec_verdict matches L (set_ops ops).
Proof. exact verdict_after_history. Qed.
Print Assumptions C06_tag_history_independent.

(* ------------------------------------------------------------------ translator tie: the control
   structure of src/blocker.rs as extracted on this run (Generated.BlockerGen, written by
   tools/gen_fragments/c01_blocker_structure.py) denotes the hand-written model *)
From Coq Require Import String.
From Adb Require Import Struct_Proofs.
Import Generated.BlockerGen.

(* incremental and batch construction categorise alike; the duplicate test looks where add_filter
   stores; optimize() drops the address-keyed regex cache *)
Theorem C06_src_add_agrees_with_new : forall f c e,
  run_chain (pv_of f c e) add_chain = run_chain (pv_of f c e) new_chain.
Proof. exact add_chain_agrees_with_new. Qed.
Print Assumptions C06_src_add_agrees_with_new.

Theorem C06_src_add_guard :
  add_guard = [(PAtom A_is_badfilter, "err:BadFilterAddUnsupported"); (PAtom A_exists, "err:FilterExists")]%string
  /\ add_pre = [(PAtom A_is_redirect, "redirects"%string)].
Proof. exact (conj add_guard_is_model add_pre_is_redirects). Qed.
Print Assumptions C06_src_add_guard.

Theorem C06_src_filter_exists_chain : forall v, run_chain v exists_chain = exists_list_v v.
Proof. exact exists_chain_is_model. Qed.
Print Assumptions C06_src_filter_exists_chain.

Theorem C06_src_optimize_clears_cache : optimize_clears_regex_cache = true.
Proof. exact optimize_clears_cache. Qed.
Print Assumptions C06_src_optimize_clears_cache.
