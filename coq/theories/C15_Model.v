(* C15_Model.v — L1 model of Blocker::get_csp_directives (src/blocker.rs) over "the csp rules
   that match this request and whose tag is enabled" (= what NetworkFilterList::check_all
   returns for the csp list), the request-type gate, the type mask every $csp rule gets from
   NetworkFilter::parse (src/filters/network.rs), and the L0 vocabulary (set expressions).
   Definitions only. *)
From Coq Require Import Permutation.
From Adb Require Import Base Generated.

Definition COMMA : N := 44.

(* What get_csp_directives reads of a matching rule: is_exception() and modifier_option.
   ([$csp] without a value parses to modifier_option = None, for blocking rules too.) *)
Record csp_rule := mk_csp { csp_exception : bool; csp_directive : option str }.

(* ---------------------------------------------------------------- L1 *)

(* HashSet<&str>::insert, the set kept as a duplicate-free list in first-insertion order *)
Definition set_insert (x : str) (s : list str) : list str :=
  if mem_str x s then s else s ++ [x].

(* The `for filter in filters` loop with its two sets; None = the early `return None` taken when
   the loop reaches an exception without a directive. *)
Fixpoint csp_loop (fs : list csp_rule) (dis en : list str) : option (list str * list str) :=
  match fs with
  | [] => Some (dis, en)
  | f :: r =>
      if csp_exception f then
        match csp_directive f with
        | Some d => csp_loop r (set_insert d dis) en
        | None => None
        end
      else
        match csp_directive f with
        | Some d => csp_loop r dis (set_insert d en)
        | None => csp_loop r dis en
        end
  end.

(* enabled_directives.difference(&disabled_directives) *)
Definition set_difference (en dis : list str) : list str :=
  filter (fun d => negb (mem_str d dis)) en.

(* get_csp_directives up to the merge: the directives that are joined, as a list.
   [req_is_doc_or_subdoc] is the request-type test at the top of the function. *)
Definition get_csp (req_is_doc_or_subdoc : bool) (matching : list csp_rule) : option (list str) :=
  if negb req_is_doc_or_subdoc then None else
  match matching with
  | [] => None                                      (* filters.is_empty() *)
  | _ =>
      match csp_loop matching [] [] with
      | None => None
      | Some (dis, en) =>
          match set_difference en dis with
          | [] => None                               (* remaining_directives.next() == None *)
          | ds => Some ds
          end
      end
  end.

Definition doc_or_subdoc (t : request_type) : bool :=
  match t with RT_Document | RT_Subdocument => true | _ => false end.

Definition get_csp_for (t : request_type) (matching : list csp_rule) : option (list str) :=
  get_csp (doc_or_subdoc t) matching.

(* The merged string.  The iteration order of the HashSet is not specified: [order] stands for
   it (any function returning a permutation of its argument; permuting the set before or after
   the difference yields the same family of outputs). *)
Definition get_csp_string (order : list str -> list str) (doc : bool) (matching : list csp_rule)
  : option str :=
  match get_csp doc matching with
  | Some ds => Some (join_with [COMMA] (order ds))
  | None => None
  end.

(* Type part of the mask NetworkFilter::parse gives a rule with a csp option: FROM_DOCUMENT is set
   explicitly, explicit content types are rejected by validate_options (CspWithContentType), and
   "no positive type" adds FROM_NETWORK_TYPES. *)
Definition csp_type_mask : N := N.lor M_FROM_DOCUMENT M_FROM_NETWORK_TYPES.

(* NetworkFilterMask::check_cpt_allowed (bitflags `contains`) *)
Definition has_flag (m f : N) : bool := N.eqb (N.land m f) f.
Definition check_cpt_allowed (mask : N) (t : request_type) : bool :=
  let m := mask_of_request_type t in
  if N.eqb m M_FROM_DOCUMENT then has_flag mask M_FROM_DOCUMENT || has_flag mask M_IS_EXCEPTION
  else has_flag mask m.

(* ---------------------------------------------------------------- L0 *)

(* directives of the matching blocking csp rules / of the matching csp exceptions *)
Definition enabled (m : list csp_rule) : list str :=
  flat_map (fun f => if csp_exception f then []
                     else match csp_directive f with Some d => [d] | None => [] end) m.
Definition disabled (m : list csp_rule) : list str :=
  flat_map (fun f => if csp_exception f
                     then match csp_directive f with Some d => [d] | None => [] end
                     else []) m.
(* some matching exception carries no directive *)
Definition blanket (m : list csp_rule) : bool :=
  existsb (fun f => csp_exception f && match csp_directive f with None => true | Some _ => false end) m.

(* d belongs to the policy: named by a matching csp rule and by no matching csp exception *)
Definition in_policy (m : list csp_rule) (d : str) : Prop :=
  In d (enabled m) /\ ~ In d (disabled m).

(* two answers are the same policy: both absent, or the same directives in some order *)
Definition same_policy (a b : option (list str)) : Prop :=
  match a, b with
  | None, None => True
  | Some x, Some y => Permutation x y
  | _, _ => False
  end.

(* ---------------------------------------------------------------- comparison helpers (cases) *)
Fixpoint nodupb (l : list str) : bool :=
  match l with [] => true | x :: r => negb (mem_str x r) && nodupb r end.
Definition subsetb (a b : list str) : bool := forallb (fun x => mem_str x b) a.
Definition set_eqb (a b : list str) : bool := subsetb a b && subsetb b a.

(* implementation string vs model list: same set of comma-separated items, no duplicates *)
Definition csp_agree (model : option (list str)) (impl : option str) : bool :=
  match model, impl with
  | None, None => true
  | Some ds, Some s => let items := split_on COMMA s in
                       set_eqb items ds && nodupb items && Nat.eqb (length items) (length ds)
  | _, _ => false
  end.
