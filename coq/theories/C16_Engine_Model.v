(* C16_Engine_Model.v — the whole answer of Engine::url_cosmetic_resources (src/engine.rs), assembled
   from the two models that each cover one half of it.  Definitions only.

     pub fn url_cosmetic_resources(&self, url: &str) -> UrlSpecificResources {
         let request = if let Ok(request) = Request::new(url, url, "document") { request }
                       else { return UrlSpecificResources::empty(); };
         let generichide = self.blocker.check_generic_hide(&request);          -> Net_Model.generic_hide_hit
         self.cosmetic_cache.hostname_cosmetic_resources(&self.resources,
                                                         &request.hostname, generichide) -> C16_Model
     }
     Blocker::check_generic_hide(r) = self.generic_hide.check(r, &self.tags_enabled, ..).is_some()

   C16_Model takes the generichide decision as a free boolean; here it is the first-match lookup of
   the NETWORK side in the `generic_hide` list, probed with the ENABLED tags (/repo b8d0ade; before
   that fix the list was probed with the empty set and a tagged generichide exception was inert).

   The request is the page as a first-party "document" request (url = source url).  As in
   Engine_Model it enters through [matches] (NetworkFilter::matches against that request, C02/C03)
   and [pr] (its probes, get_tokens_for_match; In 0 pr is C01_probes_zero); [parsed] says whether
   Request::new succeeded.  [host] is request.hostname and [dom] the psl answer for it (C12), as in
   C16_Model.

   Net_Model is NOT imported (C16_Model/C17_Model/C16_Proofs and Net_Model/Net_Proofs/C06_Model share
   names: bucket, place, cache, ex_rules ...): its names are written qualified. *)
From Adb Require Import Base C17_Model C16_Model.
From Adb Require Net_Model.

(* UrlSpecificResources::empty() *)
Definition empty_resources : resources := mkRes [] [] [] [] false.

Section Compose.
Variable h : str -> N.                        (* utils::fast_hash, shared by both halves *)
Variable matches : Net_Model.rule -> bool.    (* NetworkFilter::matches against the page-as-document request *)
Variable pr : list N.                         (* that request's probes *)

Definition url_cosmetic_resources_model (parsed : bool) (b : Net_Model.blocker) (c : cache)
           (host dom : str) : resources :=
  if negb parsed then empty_resources
  else hostname_cosmetic_resources h c host dom (Net_Model.generic_hide_hit matches pr b).
End Compose.

(* ---------------------------------------------------------------- L0: rule by rule.
   No bucket, token, probe or category list below: every network rule of the list is looked at on
   its own.

   A rule decides generichide for the page when it
     - carries the generichide option                       (is_generic_hide),
     - is neither a $csp nor a $removeparam rule            (Blocker::new sorts those into their own
                                                             lists BEFORE it looks at generichide),
     - is not cancelled: no $badfilter rule of the list has its id-without-badfilter equal to this
       rule's id, and it is not a $badfilter rule itself,
     - carries no $tag, or a tag that is enabled (Net_Model.tag_ok T: the generic_hide list is
       probed with the enabled tags T; C16_Engine_Proofs.tagged_generichide_iff_enabled),
     - matches the page-as-document request.
   That the rule is an exception is not asked by Blocker::new: the parser already refuses
   generichide on a blocking rule (NetworkFilterError::GenericHideWithoutException), so every parsed
   generichide rule is one. *)
Definition cancelled (L : list Net_Model.rule) (f : Net_Model.rule) : bool :=
  memN (Net_Model.get_id f) (Net_Model.badfilter_ids L) || Net_Model.is_badfilter f.
Definition generichide_rule (matches : Net_Model.rule -> bool) (L : list Net_Model.rule) (T : list str)
           (f : Net_Model.rule) : bool :=
  Net_Model.is_generic_hide f && negb (Net_Model.is_csp f) && negb (Net_Model.is_removeparam f)
  && negb (cancelled L f) && Net_Model.tag_ok T f && matches f.
(* the same without the tag test: generichide_rule = generichide_core && tag_ok T
   (C16_Engine_Proofs.generichide_rule_core) *)
Definition generichide_core (matches : Net_Model.rule -> bool) (L : list Net_Model.rule)
           (f : Net_Model.rule) : bool :=
  Net_Model.is_generic_hide f && negb (Net_Model.is_csp f) && negb (Net_Model.is_removeparam f)
  && negb (cancelled L f) && matches f.
Definition spec_generichide (matches : Net_Model.rule -> bool) (L : list Net_Model.rule) (T : list str) : bool :=
  existsb (generichide_rule matches L T) L.

(* ---------------------------------------------------------------- the specification of the answer
   The right-hand side of C16_cosmetic_spec, as a predicate of the generichide bit [gh] and the
   answer [R].  [A tg s] = "some cosmetic rule of the list stores content s with tag tg under a
   location that covers the host". *)
Definition cosmetic_answer_spec (uw : N -> bool) (crules : list crule) (host dom : str)
           (gh : bool) (R : resources) : Prop :=
  let A := applies_s crules host dom in
  (forall s, In s (hide_selectors R) <->
     (A THide s /\ ~ A TUnhide s) \/
     (gh = false /\ In s (generic_selectors crules) /\ key_from_selector uw s = None /\ ~ A TUnhide s)) /\
  (forall s, In s (exceptions R) <-> A TUnhide s) /\
  (forall s, In s (procedural_actions R) <-> A TProc s /\ ~ A TProcExc s) /\
  (forall s, In s (map fst (script_injections R)) <->
     A TInject s /\ ~ A TUninject s /\ ~ A TUninject []) /\
  generichide R = gh.

(* ---------------------------------------------------------------- example data (non-vacuity)
   network rule  @@||a.com^$generichide  (and the same with `,tag=x`), cosmetic rules ##.ad
   (generic, but keyed by its class: kept in the class store, never part of this answer),
   ##div[ad] (generic, misc store: the part generichide switches off) and a.com##.x ; pages https://a.com/ and https://b.com/ as first-party document requests.
   The matcher of the example: a hostname-anchored rule without pattern matches when the request
   host is the rule's hostname (what check_pattern does for `||a.com^` on these two pages). *)
Definition ex_mask : N :=
  fold_left N.lor [Generated.M_THIRD_PARTY; Generated.M_FIRST_PARTY; Generated.M_FROM_HTTPS; Generated.M_FROM_HTTP;
                   Generated.M_IS_EXCEPTION; Generated.M_GENERIC_HIDE; Generated.M_IS_HOSTNAME_ANCHOR;
                   Generated.M_IS_RIGHT_ANCHOR; Generated.M_FROM_NETWORK_TYPES] 0.
Definition ex_gh : Net_Model.rule :=
  Net_Model.mkr (Hashing.seahash (bs "@@||a.com^$generichide")) ex_mask Net_Model.FEmpty (Some (bs "a.com"))
                None None None None.
Definition ex_gh_tagged : Net_Model.rule :=
  Net_Model.mkr (Hashing.seahash (bs "@@||a.com^$generichide,tag=x")) ex_mask Net_Model.FEmpty (Some (bs "a.com"))
                None None None (Some (bs "x")).
Definition ex_page_matches (page_host : str) (f : Net_Model.rule) : bool :=
  match Net_Model.rhost f with Some hn => str_eqb hn page_host | None => false end.
Definition ex_page_probes (page_host : str) : list N :=
  Net_Model.probes Hashing.seahash (Some [Hashing.seahash page_host])
                   (bs "https://" ++ page_host ++ bs "/").
Definition ex_crules : list crule :=
  [ mkRule [] [] [] [] false false (Some (bs ".ad")) false (bs "{}") 0;               (* ##.ad *)
    mkRule [] [] [] [] false false (Some (bs "div[ad]")) false (bs "{}") 0;          (* ##div[ad] *)
    mkRule [bs "a.com"] [] [] [] false false (Some (bs ".x")) false (bs "{}") 0 ].   (* a.com##.x *)
Definition ex_uw0 (c : N) : bool := false.
Definition ex_answer (netrules : list Net_Model.rule) (T : list str) (page : str) : resources :=
  url_cosmetic_resources_model Hashing.seahash (ex_page_matches page) (ex_page_probes page) true
    (Net_Model.tags_with_set Hashing.seahash (Net_Model.blocker_new Hashing.seahash netrules) T)
    (build_cache Hashing.seahash ex_uw0 ex_crules) page page.
