(* C12_Model.v — L1 model of the URL scanner (src/url_parser/parser.rs), RequestUrl and its
   accessors (src/url_parser/mod.rs) and Request::new / Request::preparsed /
   from_detailed_parameters (src/request.rs), plus the L0 vocabulary of property C12.
   Definitions only.

   Conventions.  A Rust [&str] is a byte list [str]; where the Rust code iterates [chars()] the
   model works on the list of decoded code points ([Input] = [std::str::Chars] = [list N]) and
   the serialization is the byte list obtained by UTF-8 encoding what is pushed.  Every Rust slice
   [&s[a..b]] is [slice s a b : res str] with the bounds and char-boundary checks of core::str;
   [usize] additions of offsets are not wrapped (offsets are bounded by the length of a String
   that exists in memory).  Third-party code is a Section variable: [idna] = idna::domain_to_ascii
   (None = Err), [psl] = ResolvesDomain::get_host_domain, [hash] = utils::fast_hash (seahash),
   [tokenize] = utils::tokenize_pooled (modelled in C01). *)
From Adb Require Import Base Generated.

(* ------------------------------------------------------------------ bytes and characters *)
Definition COLON : N := 58.  Definition SLASH : N := 47.  Definition BSLASH : N := 92.
Definition QMARK : N := 63.  Definition HASH : N := 35.   Definition AT : N := 64.
Definition LBRACK : N := 91. Definition RBRACK : N := 93. Definition DOT : N := 46.
Definition PERCENT : N := 37.

Definition in_range (lo hi b : N) : bool := N.leb lo b && N.leb b hi.
Definition is_cont (b : N) : bool := in_range 128 191 b.

(* core::str::from_utf8 (strict: no overlong forms, no surrogates, nothing above U+10FFFF) *)
Fixpoint decode_utf8 (s : str) : option (list N) :=
  match s with
  | [] => Some []
  | b0 :: r =>
    if N.ltb b0 128 then option_map (cons b0) (decode_utf8 r)
    else if in_range 194 223 b0 then
      match r with
      | b1 :: r1 =>
          if is_cont b1 then option_map (cons ((b0 - 192) * 64 + (b1 - 128))) (decode_utf8 r1) else None
      | _ => None
      end
    else if in_range 224 239 b0 then
      match r with
      | b1 :: b2 :: r2 =>
          if in_range (if N.eqb b0 224 then 160 else 128) (if N.eqb b0 237 then 159 else 191) b1 && is_cont b2
          then option_map (cons ((b0 - 224) * 4096 + (b1 - 128) * 64 + (b2 - 128))) (decode_utf8 r2)
          else None
      | _ => None
      end
    else if in_range 240 244 b0 then
      match r with
      | b1 :: b2 :: b3 :: r3 =>
          if in_range (if N.eqb b0 240 then 144 else 128) (if N.eqb b0 244 then 143 else 191) b1
             && is_cont b2 && is_cont b3
          then option_map (cons ((b0 - 240) * 262144 + (b1 - 128) * 4096 + (b2 - 128) * 64 + (b3 - 128)))
                          (decode_utf8 r3)
          else None
      | _ => None
      end
    else None
  end.

Definition valid_utf8 (s : str) : Prop := decode_utf8 s <> None.

(* char::encode_utf8 *)
Definition encode_cp (c : N) : str :=
  if N.ltb c 128 then [c]
  else if N.ltb c 2048 then [192 + c / 64; 128 + c mod 64]
  else if N.ltb c 65536 then [224 + c / 4096; 128 + (c / 64) mod 64; 128 + c mod 64]
  else [240 + c / 262144; 128 + (c / 4096) mod 64; 128 + (c / 64) mod 64; 128 + c mod 64].
Definition encode_all (l : list N) : str := flat_map encode_cp l.

(* str::is_char_boundary and &s[a..b] *)
Definition is_char_boundary (s : str) (i : nat) : bool :=
  Nat.eqb i 0 || Nat.eqb i (length s) || (Nat.ltb i (length s) && negb (is_cont (nth i s 0))).
Definition slice (s : str) (a b : nat) : res str :=
  if Nat.leb a b && Nat.leb b (length s) && is_char_boundary s a && is_char_boundary s b
  then Ok (take (b - a) (drop a s)) else Panic "str slice".

(* ------------------------------------------------------------------ Input *)
Fixpoint drop_while {A} (f : A -> bool) (l : list A) : list A :=
  match l with
  | [] => []
  | x :: r => if f x then drop_while f r else l
  end.

(* c0_control_or_space, Input::new = trim_matches *)
Definition c0_control_or_space (c : N) : bool := N.leb c url_trim_max.
Definition trim_input (l : list N) : list N :=
  rev (drop_while c0_control_or_space (rev (drop_while c0_control_or_space l))).

Definition ignored_next (c : N) : bool := memN c url_ignored_next_utf8.
Definition ignored_host (c : N) : bool := memN c url_ignored_parse_host.

(* Input::next_utf8: the next character that is not tab / LF / CR *)
Fixpoint next_utf8 (l : list N) : option (N * list N) :=
  match l with
  | [] => None
  | c :: r => if ignored_next c then next_utf8 r else Some (c, r)
  end.

(* ------------------------------------------------------------------ scheme *)
Inductive parse_error := IdnaError | RelativeUrlWithoutBase | FileUrlNotSupported | ExpectedMoreChars.
Inductive pres (A : Type) := POk (a : A) | PErr (e : parse_error).
Arguments POk {A} a.  Arguments PErr {A} e.

Definition PLUS : N := 43.  Definition MINUS : N := 45.

(* the while loop of parse_scheme: Some (scheme pushed to the serialization, remaining input) *)
Fixpoint scheme_loop (l : list N) : option (str * list N) :=
  match l with
  | [] => None
  | c :: r =>
      if N.eqb c COLON then Some ([], r)
      else if is_lower c || is_digit c || N.eqb c PLUS || N.eqb c MINUS || N.eqb c DOT then
        match scheme_loop r with Some (s, r') => Some (c :: s, r') | None => None end
      else if is_upper c then
        match scheme_loop r with Some (s, r') => Some (c + 32 :: s, r') | None => None end
      else None
  end.

Definition parse_scheme (l : list N) : option (str * list N) :=
  match l with
  | [] => None
  | c :: _ => if is_alpha c then scheme_loop l else None
  end.

Inductive scheme_type := File | SpecialNotFile | NotSpecial.
Definition scheme_type_from (s : str) : scheme_type :=
  if mem_str s (map bs url_special_schemes) then SpecialNotFile
  else if mem_str s (map bs url_file_schemes) then File
  else NotSpecial.
Definition is_special (t : scheme_type) : bool := match t with NotSpecial => false | _ => true end.

(* ------------------------------------------------------------------ userinfo *)
(* percent_encoding: CONTROLS = C0 controls and DEL; every non-ASCII byte is always encoded *)
Definition in_controls (b : N) : bool := N.ltb b 32 || N.eqb b 127.
Definition in_userinfo_set (b : N) : bool :=
  in_controls b || memN b url_fragment_set_extra || memN b url_path_set_extra || memN b url_userinfo_set_extra.
Definition hex_upper (d : N) : N := if N.ltb d 10 then 48 + d else 55 + d.
Definition pct_encode_byte (b : N) : str :=
  if N.leb 128 b || in_userinfo_set b then [PERCENT; hex_upper ((b / 16) mod 16); hex_upper (b mod 16)] else [b].
Definition pct_encode_userinfo (s : str) : str := flat_map pct_encode_byte s.

(* first loop of parse_userinfo: position (in characters) of the last '@' of the authority and
   the input after it *)
Fixpoint find_last_at (special : bool) (rem : list N) (count : nat) (last : option (nat * list N))
  : option (nat * list N) :=
  match rem with
  | [] => last
  | c :: r =>
      if N.eqb c AT then find_last_at special r (S count) (Some (count, r))
      else if N.eqb c SLASH || N.eqb c QMARK || N.eqb c HASH then last
      else if N.eqb c BSLASH && special then last
      else find_last_at special r (S count) last
  end.

(* second loop: [n] = userinfo_char_count; None = Err(ExpectedMoreChars) *)
Fixpoint userinfo_loop (n : nat) (input : list N) (ser : str)
         (username_end_set has_password has_username : bool) : option (str * bool * bool) :=
  match n with
  | O => Some (ser, has_username, has_password)
  | S n' =>
      match next_utf8 input with
      | None => None
      | Some (c, input') =>
          if N.eqb c COLON && negb username_end_set then
            if Nat.ltb 0 n' then userinfo_loop n' input' (ser ++ [COLON]) true true has_username
            else userinfo_loop n' input' ser true has_password has_username
          else
            userinfo_loop n' input' (ser ++ pct_encode_userinfo (encode_cp c)) username_end_set
                          has_password (if has_password then has_username else true)
      end
  end.

Definition parse_userinfo (ser : str) (input : list N) (special : bool) : pres (str * list N) :=
  match find_last_at special input 0 None with
  | None => POk (ser, input)
  | Some (O, remaining) => POk (ser, remaining)
  | Some (n, remaining) =>
      match userinfo_loop n input ser false false false with
      | None => PErr ExpectedMoreChars
      | Some (ser', has_username, has_password) =>
          POk (if has_username || has_password then ser' ++ [AT] else ser', remaining)
      end
  end.

(* ------------------------------------------------------------------ host *)
(* the for loop of parse_host:
   (has_ignored_chars, non_ignored_chars, ignored_chars, characters consumed, remaining) *)
Fixpoint host_scan (special : bool) (l : list N) (inside has_ign : bool) (non_ign ign consumed : nat)
  : bool * nat * nat * nat * list N :=
  match l with
  | [] => (has_ign, non_ign, ign, consumed, [])
  | c :: r =>
      if N.eqb c COLON && negb inside then (has_ign, non_ign, ign, consumed, l)
      else if N.eqb c BSLASH && special then (has_ign, non_ign, ign, consumed, l)
      else if N.eqb c SLASH || N.eqb c QMARK || N.eqb c HASH then (has_ign, non_ign, ign, consumed, l)
      else if ignored_host c then host_scan special r inside true non_ign (S ign) (S consumed)
      else if N.eqb c LBRACK then host_scan special r true has_ign (S non_ign) ign (S consumed)
      else if N.eqb c RBRACK then host_scan special r false has_ign (S non_ign) ign (S consumed)
      else host_scan special r inside has_ign (S non_ign) ign (S consumed)
  end.

(* .filter(|c| !matches!(c, '\t' | '\n' | '\r')) *)
Definition host_filter (l : list N) : list N := filter (fun c => negb (memN c url_ignored_host_filter)) l.
(* a byte of the idna output that makes parse_host fail with IdnaError *)
Definition idna_rejected (b : N) : bool := memN b url_idna_rejected_bytes.

Definition is_slash (c : N) : bool := N.eqb c SLASH || N.eqb c BSLASH.
(* input.split_prefix("//") *)
Definition split_double_slash (input : list N) : option (list N) :=
  match input with
  | c1 :: c2 :: rest => if N.eqb c1 SLASH && N.eqb c2 SLASH then Some rest else None
  | _ => None
  end.

Section Oracles.
Variable idna : str -> option str.        (* idna::domain_to_ascii; None = Err *)
Variable psl : str -> nat * nat.          (* get_host_domain *)
Variable hash : str -> N.                 (* utils::fast_hash *)
Variable tokenize : str -> list N.        (* utils::tokenize_pooled on the lower-cased URL *)

(* (serialization, host_end, remaining) *)
Definition parse_host (ser : str) (input : list N) (special : bool) : pres (str * nat * list N) :=
  match host_scan special input false false 0 0 0 with
  | (has_ign, non_ign, ign, consumed, remaining) =>
      (* has_ignored: input.take(non_ignored_chars + ignored_chars).filter(..).collect();
         else &input_str[..bytes] *)
      let host_str := encode_all (if has_ign then host_filter (take (non_ign + ign) input)
                                  else take consumed input) in
      if all_ascii host_str then
        let ser' := ser ++ host_str in POk (ser', length ser', remaining)
      else match idna host_str with
           | Some encoded =>
               if existsb idna_rejected encoded then PErr IdnaError
               else let ser' := ser ++ encoded in POk (ser', length ser', remaining)
           | None => PErr IdnaError
           end
  end.

(* Hostname { serialization, scheme_end, host_start, host_end } *)
Definition hostname_t : Type := str * nat * nat * nat.

Definition after_double_slash (ser : str) (input : list N) (special : bool) (scheme_end : nat)
  : pres hostname_t :=
  let ser := ser ++ [SLASH; SLASH] in
  match parse_userinfo ser input special with
  | PErr e => PErr e
  | POk (ser, remaining) =>
      let host_start := length ser in
      match parse_host ser remaining special with
      | PErr e => PErr e
      | POk (ser, host_end, remaining) =>
          POk (ser ++ encode_all remaining, scheme_end, host_start, host_end)
      end
  end.


Definition parse_non_special (ser : str) (input : list N) (scheme_end : nat) : pres hostname_t :=
  match split_double_slash input with
  | Some rest => after_double_slash ser rest false scheme_end
  | None =>
      (* "anarchist URL": no authority; the rest is copied and ASCII-lower-cased *)
      let path_start := length ser in
      POk (ser ++ lower_str (encode_all input), scheme_end, path_start, path_start)
  end.

Definition parse_with_scheme (scheme : str) (input : list N) : pres hostname_t :=
  let scheme_end := length scheme in
  let ser := scheme ++ [COLON] in
  match scheme_type_from scheme with
  | File => PErr FileUrlNotSupported
  | SpecialNotFile => after_double_slash ser (drop_while is_slash input) true scheme_end
  | NotSpecial => parse_non_special ser input scheme_end
  end.

(* Parser::parse_url on the characters of the input *)
Definition scan_chars (input : list N) : pres hostname_t :=
  match parse_scheme (trim_input input) with
  | Some (scheme, remaining) => parse_with_scheme scheme remaining
  | None => PErr RelativeUrlWithoutBase
  end.

(* Hostname::parse on a Rust &str (the verif hook [scan]) *)
Definition scan (url : str) : res (pres hostname_t) :=
  match decode_utf8 url with
  | Some cps => Ok (scan_chars cps)
  | None => Panic "not a str"
  end.

(* ------------------------------------------------------------------ RequestUrl (mod.rs) *)
Record request_url := { ru_url : str; ru_schema_end : nat; ru_hostname_pos : nat * nat; ru_domain : nat * nat }.

Definition ru_schema (r : request_url) : res str := slice (ru_url r) 0 (ru_schema_end r).
Definition ru_hostname (r : request_url) : res str :=
  slice (ru_url r) (fst (ru_hostname_pos r)) (snd (ru_hostname_pos r)).
Definition ru_domain_str (r : request_url) : res str :=
  slice (ru_url r) (fst (ru_hostname_pos r) + fst (ru_domain r)) (fst (ru_hostname_pos r) + snd (ru_domain r)).

(* url_parser::parse_url *)
Definition parse_url (url : str) : res (option request_url) :=
  rbind (scan url) (fun p =>
  match p with
  | PErr _ => Ok None
  | POk (ser, scheme_end, host_start, host_end) =>
      if Nat.ltb host_start host_end then                       (* has_host *)
        rbind (slice ser host_start host_end) (fun _host =>     (* host_str() *)
        rbind (slice ser host_start host_end) (fun host =>      (* &h.url_str()[host_start..host_end] *)
        Ok (Some {| ru_url := ser; ru_schema_end := scheme_end;
                    ru_hostname_pos := (host_start, host_end); ru_domain := psl host |})))
      else Ok None
  end).

(* ------------------------------------------------------------------ Request (request.rs) *)
Fixpoint assoc_string {A} (k : str) (l : list (string * A)) (d : A) : A :=
  match l with
  | [] => d
  | (k', v) :: r => if str_eqb k (bs k') then v else assoc_string k r d
  end.
Definition cpt_match_type (cpt : str) : request_type := assoc_string cpt cpt_table cpt_default.

Definition rt_eqb (a b : request_type) : bool :=
  match a, b with
  | RT_Beacon, RT_Beacon | RT_Csp, RT_Csp | RT_Document, RT_Document | RT_Dtd, RT_Dtd
  | RT_Fetch, RT_Fetch | RT_Font, RT_Font | RT_Image, RT_Image | RT_Media, RT_Media
  | RT_Object, RT_Object | RT_Other, RT_Other | RT_Ping, RT_Ping | RT_Script, RT_Script
  | RT_Stylesheet, RT_Stylesheet | RT_Subdocument, RT_Subdocument | RT_Websocket, RT_Websocket
  | RT_Xlst, RT_Xlst | RT_Xmlhttprequest, RT_Xmlhttprequest => true
  | _, _ => false
  end.

Record request := {
  request_type_of : request_type;
  is_http : bool; is_https : bool; is_supported : bool; is_third_party : bool;
  url : str; hostname : str;
  source_hostname_hashes : option (list N);
  url_lower_cased : str; request_tokens : list N; original_url : str }.

(* the strings hashed after the whole source hostname: &source_hostname[i + 1..] for every '.' at
   byte offset i with i + 1 < len (char_indices: a '.' byte of a str is always the character '.') *)
Fixpoint dot_suffixes (s : str) : res (list str) :=
  match s with
  | [] => Ok []
  | c :: r =>
      if N.eqb c DOT then
        match r with
        | [] => Ok []
        | b :: _ => if is_cont b then Panic "str slice"
                    else rbind (dot_suffixes r) (fun l => Ok (r :: l))
        end
      else dot_suffixes r
  end.

Definition S_HTTP := bs "http".  Definition S_HTTPS := bs "https".
Definition S_WS := bs "ws".      Definition S_WSS := bs "wss".

(* the if/else on the schema: (is_http, is_https, is_supported, request_type) *)
Definition scheme_flags (schema raw_type : str) : bool * bool * bool * request_type :=
  match schema with
  | [] => (false, true, true, cpt_match_type raw_type)        (* "no ':' was found" *)
  | _ =>
      let is_http := str_eqb schema S_HTTP in
      let is_https := negb is_http && str_eqb schema S_HTTPS in
      let is_websocket := negb is_http && negb is_https && (str_eqb schema S_WS || str_eqb schema S_WSS) in
      (is_http, is_https, is_http || is_https || is_websocket,
       if is_websocket then RT_Websocket else cpt_match_type raw_type)
  end.

(* the strings that are hashed into source_hostname_hashes *)
Definition source_hash_inputs (source_hostname : str) : res (option (list str)) :=
  match source_hostname with
  | [] => Ok None
  | _ => rbind (dot_suffixes source_hostname) (fun l => Ok (Some (source_hostname :: l)))
  end.

Definition from_detailed_parameters (raw_type url schema hostname source_hostname : str)
           (third_party : bool) (original_url : str) : res request :=
  let fl := scheme_flags schema raw_type in
  rbind (source_hash_inputs source_hostname) (fun inputs =>
  let url_lower_cased := lower_str url in
  Ok {| request_type_of := snd fl; is_http := fst (fst (fst fl)); is_https := snd (fst (fst fl));
        is_supported := snd (fst fl); is_third_party := third_party;
        url := url; hostname := hostname; source_hostname_hashes := option_map (map hash) inputs;
        url_lower_cased := url_lower_cased; request_tokens := tokenize url_lower_cased ++ [0];
        original_url := original_url |}).

(* Request::new; Ok None = Err(HostnameParseError) *)
Definition Request_new (url source_url request_type : str) : res (option request) :=
  rbind (parse_url url) (fun pu =>
  match pu with
  | None => Ok None
  | Some parsed_url =>
      rbind (parse_url source_url) (fun ps =>
      match ps with
      | Some parsed_source =>
          rbind (ru_domain_str parsed_source) (fun source_domain =>
          rbind (ru_domain_str parsed_url) (fun url_domain =>
          let third_party := negb (str_eqb source_domain url_domain) in
          rbind (ru_schema parsed_url) (fun schema =>
          rbind (ru_hostname parsed_url) (fun hostname =>
          rbind (ru_hostname parsed_source) (fun source_hostname =>
          rbind (from_detailed_parameters request_type (ru_url parsed_url) schema hostname
                                          source_hostname third_party url) (fun r => Ok (Some r)))))))
      | None =>
          rbind (ru_schema parsed_url) (fun schema =>
          rbind (ru_hostname parsed_url) (fun hostname =>
          rbind (from_detailed_parameters request_type (ru_url parsed_url) schema hostname
                                          [] true url) (fun r => Ok (Some r))))
      end)
  end).

(* Request::preparsed *)
Definition Request_preparsed (url hostname source_hostname request_type : str) (third_party : bool)
  : res request :=
  let splitter := match find_byte COLON url with Some i => i | None => O end in
  rbind (slice url 0 splitter) (fun schema =>
  from_detailed_parameters request_type url schema hostname source_hostname third_party url).

(* the source hostname Request::new passes on: hostname of the parsed source, or "" *)
Definition source_hostname_of (source_url : str) : res str :=
  rbind (parse_url source_url) (fun ps =>
  match ps with Some q => ru_hostname q | None => Ok [] end).

(* ------------------------------------------------------------------ oracle contracts *)
Definition idna_contract : Prop := forall h e, idna h = Some e -> all_ascii e = true.
Definition psl_contract : Prop :=
  forall h a b, psl h = (a, b) ->
    (a <= b)%nat /\ b = length h /\ (a = O \/ nth (a - 1) h 0 = DOT).

End Oracles.

(* ------------------------------------------------------------------ L0 vocabulary *)
(* the registrable domain of a host: the suffix chosen by the public-suffix oracle *)
Definition domain_of (psl : str -> nat * nat) (host : str) : str := drop (fst (psl host)) host.

(* [r] with another original_url (Request::preparsed keeps the URL it is given as the original) *)
Definition with_original (r : request) (o : str) : request :=
  {| request_type_of := request_type_of r; is_http := is_http r; is_https := is_https r;
     is_supported := is_supported r; is_third_party := is_third_party r; url := url r;
     hostname := hostname r; source_hostname_hashes := source_hostname_hashes r;
     url_lower_cased := url_lower_cased r; request_tokens := request_tokens r; original_url := o |}.


Definition supported_schemes : list str := [S_HTTP; S_HTTPS; S_WS; S_WSS].
Definition websocket_schemes : list str := [S_WS; S_WSS].

(* [x] is a dot-suffix of [s]: non-empty and preceded by a '.' in [s] *)
Definition dot_suffix_of (s x : str) : Prop := exists pre, s = pre ++ DOT :: x /\ x <> [].

(* characters that end the host in the normalised URL *)
Definition host_terminator (special : bool) (c : N) : bool :=
  N.eqb c COLON || N.eqb c SLASH || N.eqb c QMARK || N.eqb c HASH || (special && N.eqb c BSLASH).
(* bytes that cannot occur in a host component *)
Definition host_forbidden (special : bool) (c : N) : bool :=
  N.eqb c SLASH || N.eqb c QMARK || N.eqb c HASH || N.eqb c AT || (special && N.eqb c BSLASH).

(* the characters of the authority: the input up to the first / ? # (\ for special schemes) *)
Fixpoint authority_chars (special : bool) (l : list N) : list N :=
  match l with
  | [] => []
  | c :: r => if N.eqb c SLASH || N.eqb c QMARK || N.eqb c HASH || (special && N.eqb c BSLASH) then []
              else c :: authority_chars special r
  end.

(* hand-written tables (WebExtensions webRequest.ResourceType / Firefox content-policy names -> type;
   WHATWG URL: special schemes, userinfo percent-encode set, ASCII tab or newline, C0 control or space) *)
Definition cpt_table_L0 : list (string * request_type) :=
  [("beacon", RT_Ping); ("csp_report", RT_Csp); ("document", RT_Document); ("main_frame", RT_Document);
   ("font", RT_Font); ("image", RT_Image); ("imageset", RT_Image); ("media", RT_Media);
   ("object", RT_Object); ("object_subrequest", RT_Object); ("ping", RT_Ping); ("script", RT_Script);
   ("stylesheet", RT_Stylesheet); ("sub_frame", RT_Subdocument); ("subdocument", RT_Subdocument);
   ("websocket", RT_Websocket); ("xhr", RT_Xmlhttprequest); ("xmlhttprequest", RT_Xmlhttprequest);
   ("other", RT_Other); ("speculative", RT_Other); ("web_manifest", RT_Other); ("xbl", RT_Other);
   ("xml_dtd", RT_Other); ("xslt", RT_Other)]%string.
Definition special_schemes_L0 : list string := ["http"; "https"; "ws"; "wss"; "ftp"; "gopher"]%string.
Definition whatwg_userinfo_encode (b : N) : bool :=
  N.leb b 31 || N.eqb b 127 || memN b (bs " ""#<>?`{}/:;=@[\\]^|").

(* nothing is lost: [x] is a suffix of [l] *)
Definition suffix_of {A} (x l : list A) : Prop := exists pre, l = pre ++ x.
Fixpoint is_suffixb (x l : str) : bool :=
  str_eqb x l || match l with [] => false | _ :: l' => is_suffixb x l' end.

(* how the host text of the input becomes the reported hostname: copied when ASCII, else idna *)
Definition host_out (idna : str -> option str) (raw h : str) : Prop :=
  (all_ascii raw = true /\ h = raw) \/ (all_ascii raw = false /\ idna raw = Some h).

(* ------------------------------------------------------------------ helpers for the cases *)
Definition oracle_of {A} (l : list (str * A)) (d : A) (k : str) : A :=
  (fix go l := match l with [] => d | (k', v) :: r => if str_eqb k k' then v else go r end) l.

Definition perr_code (e : parse_error) : N :=
  match e with IdnaError => 1 | RelativeUrlWithoutBase => 2 | FileUrlNotSupported => 3 | ExpectedMoreChars => 4 end.

(* scanner result as a comparable value: inl (ser, se, hs, he) / inr code *)
Definition scan_eqb (got : res (pres hostname_t)) (want : option (str * N * N * N)) (err : N) : bool :=
  match got, want with
  | Ok (POk (ser, se, hs, he)), Some (ser', se', hs', he') =>
      str_eqb ser ser' && N.eqb (N.of_nat se) se' && N.eqb (N.of_nat hs) hs' && N.eqb (N.of_nat he) he'
  | Ok (PErr e), None => N.eqb (perr_code e) err
  | _, _ => false
  end.

Definition rt_name (t : request_type) : N :=
  (fix idx (l : list request_type) (n : N) :=
     match l with [] => n | x :: r => if rt_eqb x t then n else idx r (n + 1) end) all_request_types 0.

(* all public fields, url_lower_cased and original_url of a request against the implementation's *)
Definition request_eqb (r : request) (rt : N) (h hs sup tp : bool) (u host : str)
           (hashes : option (list N)) (lower orig : str) : bool :=
  N.eqb (rt_name (request_type_of r)) rt && Bool.eqb (is_http r) h && Bool.eqb (is_https r) hs &&
  Bool.eqb (is_supported r) sup && Bool.eqb (is_third_party r) tp && str_eqb (url r) u &&
  str_eqb (hostname r) host && opt_eqb (list_eqb N.eqb) (source_hostname_hashes r) hashes &&
  str_eqb (url_lower_cased r) lower && str_eqb (original_url r) orig.

Definition check_new (got : res (option request)) (want : option (request -> bool)) : bool :=
  match got, want with
  | Ok (Some r), Some f => f r
  | Ok None, None => true
  | _, _ => false
  end.
Definition check_pre (got : res request) (want : request -> bool) : bool :=
  match got with Ok r => want r | Panic _ => false end.
