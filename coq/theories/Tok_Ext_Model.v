(* Tok_Ext_Model.v — definitions for the extended token guarantee (Tok_Ext_Proofs.v):
   the four parts of a rule's token group as NetworkFilter::get_tokens builds it (single domain
   token, pattern tokens, hostname tokens, scheme token), and the non-regex hostname-anchored
   pattern matchers of network_matchers.rs folded into one function.  Definitions only. *)
From Adb Require Import Base Generated Hashing Net_Model.
From Adb Require C02_Model.

(* ---------------------------------------------------------------- ||host + plain pattern *)
(* check_pattern_hostname_left_right_anchor_filter / _right_anchor_filter / _left_anchor_filter /
   _anchor_filter for one non-empty plain pattern [s] (FilterPart::Simple, IS_REGEX off):
   [la]/[ra] = IS_LEFT_ANCHOR / IS_RIGHT_ANCHOR, [w] = IS_HOSTNAME_REGEX.
   at_hostname_end is `is_left_anchor && filters.len() > 0` (resp. `filters.len() == 0 ||
   is_left_anchor` in the right-anchor variant) = [la] for one pattern.  The right-anchored,
   not left-anchored variant tests the whole URL, the others the text after the anchored host. *)
Definition hostpat_match (la ra w : bool) (hn s url host : str) : bool :=
  match C02_Model.anchored_hostname_end hn host w la with
  | Some k =>
      let after := C02_Model.get_url_after_anchor url host k in
      if la && ra then str_eqb after s
      else if ra then suffixb s url
      else if la then prefixb s after
      else containsb s after
  | None => false
  end.

(* ---------------------------------------------------------------- the parts of a token group *)
(* the pattern get_tokens tokenizes: FilterPart::Simple unless IS_COMPLETE_REGEX *)
Definition pat_of (f : rule) : option str :=
  match rfilter f with
  | FSimple s => if is_complete_regex f then None else Some s
  | _ => None
  end.

(* rules whose domain option decides where they are stored (single-domain token or per-domain
   dispatch): opt_domains present, opt_not_domains absent *)
Definition needs_source (f : rule) : bool :=
  match rdomains f, rnotdomains f with Some _, None => true | _, _ => false end.
(* rules that get a scheme token: exactly one of FROM_HTTP / FROM_HTTPS *)
Definition scheme_restricted (f : rule) : bool :=
  (flag f M_FROM_HTTP && negb (flag f M_FROM_HTTPS)) || (flag f M_FROM_HTTPS && negb (flag f M_FROM_HTTP)).

Section WithHash.
Variable h : str -> N.

Definition tok_dom (f : rule) : list N :=
  match rdomains f, rnotdomains f with
  | Some [d], None => [d]
  | _, _ => []
  end.
Definition tok_pat (f : rule) : list N :=
  match pat_of f with
  | Some s => map h (tokenize_filter s (negb (is_left_anchor f)) (negb (is_right_anchor f)))
  | None => []
  end.
Definition tok_host (f : rule) : list N :=
  if flag f M_IS_HOSTNAME_REGEX then []
  else match rhost f with Some hn => map h (tokenize hn) | None => [] end.
Definition tok_scheme (f : rule) : list N :=
  if flag f M_FROM_HTTP && negb (flag f M_FROM_HTTPS) then [h (bs "http")]
  else if flag f M_FROM_HTTPS && negb (flag f M_FROM_HTTP) then [h (bs "https")] else [].
Definition base_tokens (f : rule) : list N := tok_dom f ++ tok_pat f ++ tok_host f.

(* the $removeparam fallback (tokens of the parameter name) is not taken *)
Definition no_param_fallback (f : rule) : bool := negb (nullb (base_tokens f) && is_removeparam f).
End WithHash.
