(* Struct_Proofs.v — ties between the control structure of src/blocker.rs as the translator extracts
   it on every run (Generated.BlockerGen: decision lists of Blocker::new / add_filter /
   filter_exists, the lists Blocker::optimize touches, the tag set handed to every list query) and
   the hand-written model (Net_Model.category_of / live / blocker_new, C05_Model.blocker_optimize,
   C06_Model.filter_exists / blocker_add, the tag arguments in blocker_check_p and the *_hits).
   A reordered or altered branch, an extra optimize() call or a call site switched between the
   enabled tags and NO_TAGS changes the generated data and breaks a proof below. *)
From Coq Require Import String.
From Adb Require Import Base Generated Hashing Net_Model C05_Model C06_Model.
Import BlockerGen.
Local Open Scope string_scope.

(* the predicates a branch condition may read *)
Record pv := { p_csp : bool; p_rp : bool; p_gh : bool; p_exc : bool; p_imp : bool; p_red : bool;
               p_abr : bool; p_bad : bool; p_tag : bool; p_cancel : bool; p_exists : bool }.
Definition atom_val (v : pv) (a : patom) : bool :=
  match a with
  | A_is_csp => p_csp v | A_is_removeparam => p_rp v | A_is_generic_hide => p_gh v
  | A_is_exception => p_exc v | A_is_important => p_imp v | A_is_redirect => p_red v
  | A_also_block_redirect => p_abr v | A_is_badfilter => p_bad v | A_has_tag => p_tag v
  | A_id_cancelled => p_cancel v | A_exists => p_exists v
  end.
Fixpoint eval (v : pv) (c : pcond) : bool :=
  match c with
  | PTrue => true
  | PAtom a => atom_val v a
  | PNot c => negb (eval v c)
  | PAnd a b => eval v a && eval v b
  | POr a b => eval v a || eval v b
  end.
(* first branch whose condition holds; no branch: the rule is stored nowhere *)
Fixpoint run_chain (v : pv) (ch : list (pcond * string)) : string :=
  match ch with
  | [] => "none"
  | (c, a) :: r => if eval v c then a else run_chain v r
  end.

(* [cancelled] = the rule's id is among the $badfilter ids; [ex] = Blocker::filter_exists *)
Definition pv_of (f : rule) (cancelled ex : bool) : pv :=
  {| p_csp := is_csp f; p_rp := is_removeparam f; p_gh := is_generic_hide f; p_exc := is_exception f;
     p_imp := is_important f; p_red := is_redirect f; p_abr := also_block_redirect f;
     p_bad := is_badfilter f; p_tag := match rtag f with Some _ => true | None => false end;
     p_cancel := cancelled; p_exists := ex |}.

(* field names of struct Blocker *)
Definition cat_name (c : category) : string :=
  match c with
  | CCsp => "csp" | CRemoveparam => "removeparam" | CGenericHide => "generic_hide"
  | CException => "exceptions" | CImportant => "importants" | CTagged => "tagged_filters_all"
  | CNormal => "filters" | CNone => "none"
  end.

(* Net_Model.category_of as a function of the predicate vector *)
Definition category_of_v (v : pv) : category :=
  if p_csp v then CCsp
  else if p_rp v then CRemoveparam
  else if p_gh v then CGenericHide
  else if p_exc v then CException
  else if p_imp v && (negb (p_red v) || p_abr v) then CImportant
  else if p_tag v && negb (p_red v) then CTagged
  else if (p_red v && p_abr v) || negb (p_red v) then CNormal
  else CNone.
Lemma category_of_pv f c e : category_of f = category_of_v (pv_of f c e).
Proof. reflexivity. Qed.

Ltac all_pv v :=
  destruct v as [a1 a2 a3 a4 a5 a6 a7 a8 a9 a10 a11];
  destruct a1, a2, a3, a4, a5, a6, a7, a8, a9, a10, a11; reflexivity.

(* ---- Blocker::new *)
Lemma new_chain_v v : run_chain v new_chain = cat_name (category_of_v v).
Proof. all_pv v. Qed.
Theorem new_chain_is_category_of f c e : run_chain (pv_of f c e) new_chain = cat_name (category_of f).
Proof. rewrite (category_of_pv f c e). apply new_chain_v. Qed.

(* the `continue` of the loop is exactly the complement of Net_Model.live's filter *)
Theorem new_skip_is_not_live f c e : eval (pv_of f c e) new_skip = c || is_badfilter f.
Proof. reflexivity. Qed.
Theorem live_is_not_skipped L f :
  In f (live L) <-> In f L /\ eval (pv_of f (memN (get_id f) (badfilter_ids L)) false) new_skip = false.
Proof.
  unfold live. rewrite filter_In. rewrite new_skip_is_not_live.
  split; intros [A B]; split; auto.
  - destruct (memN _ _ || _); [discriminate|reflexivity].
  - rewrite B. reflexivity.
Qed.

(* redirect rules are additionally cloned into `redirects`, whatever their category
   (Net_Model.blocker_new: b_redirects := fl_new (filter is_redirect (live L))) *)
Theorem new_pre_is_redirects : new_pre = [(PAtom A_is_redirect, "redirects")].
Proof. reflexivity. Qed.

(* ---- Blocker::add_filter: same guard-free categorisation as Blocker::new (F26), same redirects
   rule, and the two error exits of C06_Model.blocker_add in the same order *)
Lemma add_chain_v v : run_chain v add_chain = cat_name (category_of_v v).
Proof. all_pv v. Qed.
Theorem add_chain_is_category_of f c e : run_chain (pv_of f c e) add_chain = cat_name (category_of f).
Proof. rewrite (category_of_pv f c e). apply add_chain_v. Qed.
Theorem add_chain_agrees_with_new f c e :
  run_chain (pv_of f c e) add_chain = run_chain (pv_of f c e) new_chain.
Proof. rewrite add_chain_is_category_of, new_chain_is_category_of. reflexivity. Qed.
Theorem add_pre_is_redirects : add_pre = [(PAtom A_is_redirect, "redirects")].
Proof. reflexivity. Qed.
Theorem add_guard_is_model :
  add_guard = [(PAtom A_is_badfilter, "err:BadFilterAddUnsupported"); (PAtom A_exists, "err:FilterExists")].
Proof. reflexivity. Qed.

(* ---- Blocker::filter_exists: the list C06_Model.filter_exists searches *)
Definition exists_list_v (v : pv) : string :=
  if p_csp v then "csp"
  else if p_rp v then "removeparam"
  else if p_gh v then "generic_hide"
  else if p_exc v then "exceptions"
  else if p_imp v && (negb (p_red v) || p_abr v) then "importants"
  else if p_red v then "redirects"
  else if p_tag v then "tagged_filters_all" else "filters".
Theorem exists_chain_is_model v : run_chain v exists_chain = exists_list_v v.
Proof. all_pv v. Qed.
(* a rule that add_filter stores in a blocking / modifier list is looked for in that same list *)
Theorem exists_searches_where_add_stores v :
  p_red v = false -> run_chain v exists_chain = run_chain v add_chain.
Proof.
  intros H. destruct v as [a1 a2 a3 a4 a5 a6 a7 a8 a9 a10 a11]. cbn in H. subst a6.
  destruct a1, a2, a3, a4, a5, a7, a8, a9, a10, a11; reflexivity.
Qed.

(* ---- Blocker::optimize / the optimize flags of Blocker::new *)
Definition named (names : list string) (n : string) : bool := existsb (String.eqb n) names.
Definition opt_if (names : list string) (n : string) (m : fmap) : fmap :=
  if named names n then fl_optimize m else m.
Definition blocker_optimize_by (names : list string) (b : blocker) : blocker :=
  {| b_csp := opt_if names "csp" (b_csp b); b_exceptions := opt_if names "exceptions" (b_exceptions b);
     b_importants := opt_if names "importants" (b_importants b);
     b_redirects := opt_if names "redirects" (b_redirects b);
     b_removeparam := opt_if names "removeparam" (b_removeparam b);
     b_tagged := opt_if names "filters_tagged" (b_tagged b);
     b_filters := opt_if names "filters" (b_filters b);
     b_generic_hide := opt_if names "generic_hide" (b_generic_hide b);
     b_tags := b_tags b; b_tagged_all := b_tagged_all b |}.
Definition blocker_fields : list string :=
  ["csp"; "exceptions"; "importants"; "redirects"; "removeparam"; "filters_tagged"; "filters"; "generic_hide"].

Theorem optimize_lists_is_model b : blocker_optimize_by optimize_lists b = blocker_optimize b.
Proof. reflexivity. Qed.
Theorem optimize_lists_known : forallb (named blocker_fields) optimize_lists = true.
Proof. reflexivity. Qed.
Theorem removeparam_never_optimized :
  named optimize_lists "removeparam" = false
  /\ forallb (fun x => negb (String.eqb (fst (fst x)) "removeparam" && snd x)) new_lists = true.
Proof. split; reflexivity. Qed.
(* Blocker::new builds the other seven lists with options.enable_optimizations, i.e. an engine built
   with optimisation on is blocker_optimize of the one built with it off *)
(* (new_lists is emitted sorted by field name) *)
Definition blocker_fields_sorted : list string :=
  ["csp"; "exceptions"; "filters"; "filters_tagged"; "generic_hide"; "importants"; "redirects"; "removeparam"].
Theorem new_lists_flags :
  map (fun x => (fst (fst x), snd x)) new_lists
  = map (fun n => (n, named optimize_lists n)) blocker_fields_sorted.
Proof. reflexivity. Qed.
Theorem optimize_clears_cache : optimize_clears_regex_cache = true.
Proof. reflexivity. Qed.

(* ---- the tag set each list query receives: exactly the tag arguments of the model
   (blocker_check_p: importants, tagged, exceptions on BOTH paths read the enabled set, filters []
   ; redirect_hits / removeparam_hits: [] ; csp_hits and generic_hide_hit: the enabled set) *)
Definition site_uses_tags (fn lst : string) : list bool :=
  flat_map (fun s => match s with (f, l, _, t) => if String.eqb f fn && String.eqb l lst then [t] else [] end) tag_sites.
Theorem tag_sites_are_model :
  site_uses_tags "check_parameterised" "importants" = [true]
  /\ site_uses_tags "check_parameterised" "filters_tagged" = [true]
  /\ site_uses_tags "check_parameterised" "filters" = [false]
  /\ site_uses_tags "check_parameterised" "exceptions" = [true; true]
  /\ site_uses_tags "check_parameterised" "redirects" = [false]
  /\ site_uses_tags "get_csp_directives" "csp" = [true]
  /\ site_uses_tags "check_generic_hide" "generic_hide" = [true]
  /\ site_uses_tags "apply_removeparam" "removeparam_filters" = [false]
  /\ removeparam_source = "removeparam"
  /\ length tag_sites = 9%nat.
Proof. repeat split; reflexivity. Qed.
(* first-match lists use `check`, every-hit lists use `check_all` *)
Theorem query_kinds_are_model :
  map (fun s => match s with (_, l, k, _) => (l, k) end) tag_sites
  = [("importants", "check"); ("filters_tagged", "check"); ("filters", "check"); ("exceptions", "check");
     ("exceptions", "check"); ("redirects", "check_all"); ("csp", "check_all"); ("generic_hide", "check");
     ("removeparam_filters", "check_all")].
Proof. reflexivity. Qed.
Theorem rewrite_guard_is_important : rewrite_suppressed_by = "important".
Proof. reflexivity. Qed.
