(* Props_C19.v — pinned statements for property C19 (thread-safe build: concurrent queries equal
   sequential ones, without deadlock or lock poisoning).  Only statements, `exact`, and
   Print Assumptions.

   What is proved here is the LOCK PROTOCOL (C19_Model.v): N threads, each a list of queries, each
   query the event sequence Acquire; Body; Release; Post on one mutex guarding the regex cache.
   Every theorem quantifies over all schedules (interleavings), any number of threads and queries,
   any critical-section function `body`.  The premise "every query method of Blocker takes the
   guard at its top and holds it to its end" is a lint (tools/gen_fragments/c19_lock_lint.py).
   The real std::sync::Mutex, the scheduler, memory ordering and `unsafe impl Send` are NOT in the
   model; they are explored by the harness (props/C19.json: partial for the runtime part). *)
From Adb Require Import Base BaseProofs Generated C19_Model C19_Proofs.

(* At most one thread is between its Acquire and its Release, in every reachable state. *)
Theorem C19_mutual_exclusion :
  forall (Q A : Type) (body : cache -> Q -> res (cache * A)) c qss (s : state Q A) i j,
    reachable body (init c qss) s -> holding s i -> holding s j -> i = j.
Proof. exact mutual_exclusion. Qed.
Print Assumptions C19_mutual_exclusion.

Theorem C19_holder_is_owner :
  forall (Q A : Type) (body : cache -> Q -> res (cache * A)) c qss (s : state Q A) i,
    reachable body (init c qss) s -> (holding s i <-> s_owner s = Some i).
Proof. exact holder_is_owner. Qed.
Print Assumptions C19_holder_is_owner.

(* Every reachable state in which some thread is not finished has an enabled event — whatever the
   body does, panics included (a poisoned mutex makes later acquirers crash, it never blocks). *)
Theorem C19_no_deadlock :
  forall (Q A : Type) (body : cache -> Q -> res (cache * A)) c qss (s : state Q A),
    reachable body (init c qss) s -> final s = false -> exists i s', step body s i = Some s'.
Proof. exact no_deadlock. Qed.
Print Assumptions C19_no_deadlock.

(* ... and the events run out: a schedule has at most 4 events per query (no livelock). *)
Theorem C19_schedule_bounded :
  forall (Q A : Type) (body : cache -> Q -> res (cache * A)) c (qss : list (list Q)) sched (s : state Q A),
    run body (init c qss) sched = Some s ->
    (length sched <= 4 * list_sum (map (@length Q) qss))%nat.
Proof. exact schedule_bounded_init. Qed.
Print Assumptions C19_schedule_bounded.

(* If no Body panics on a cache satisfying the invariant (parsed rules), the poison flag is never
   set and no thread dies, on every schedule. *)
Theorem C19_no_poison :
  forall (Q A : Type) (body : cache -> Q -> res (cache * A)) (inv : cache -> Prop),
    (forall c q, inv c -> exists c' a, body c q = Ok (c', a) /\ inv c') ->
    forall c qss sched (s : state Q A),
      inv c -> run body (init c qss) sched = Some s ->
      s_poisoned s = false /\ any_crashed s = false /\ inv (s_cache s).
Proof. exact no_poison. Qed.
Print Assumptions C19_no_poison.

(* A schedule that cannot be extended has run every query of every thread. *)
Theorem C19_maximal_schedule_complete :
  forall (Q A : Type) (body : cache -> Q -> res (cache * A)) (inv : cache -> Prop),
    (forall c q, inv c -> exists c' a, body c q = Ok (c', a) /\ inv c') ->
    forall c qss sched (s : state Q A),
      inv c -> run body (init c qss) sched = Some s ->
      (forall i, step body s i = None) -> complete s = true.
Proof. exact maximal_schedule_complete. Qed.
Print Assumptions C19_maximal_schedule_complete.

(* For every complete schedule, each thread's answers are those of a sequential single-thread run
   of its own queries on its own engine (any cache c1 satisfying the invariant, e.g. the empty one).
   Premise answer_cache_independent: the answer of a critical section does not depend on the cache
   contents — justified by C06's cache invariant and proved for the regex-manager body below. *)
Theorem C19_interleaving_sequential :
  forall (Q A : Type) (body : cache -> Q -> res (cache * A)) (inv : cache -> Prop),
    (forall c q, inv c -> exists c' a, body c q = Ok (c', a) /\ inv c') ->
    (forall c1 c2 q c1' a1 c2' a2, inv c1 -> inv c2 ->
       body c1 q = Ok (c1', a1) -> body c2 q = Ok (c2', a2) -> a1 = a2) ->
    forall c0 qss sched (s : state Q A),
      inv c0 -> run body (init c0 qss) sched = Some s -> complete s = true ->
      forall c1, inv c1 ->
      forall i qs, nth_error qss i = Some qs ->
        exists t c', nth_error (s_threads s) i = Some t /\ seq_run body c1 qs = Ok (c', t_done t).
Proof. exact interleaving_sequential. Qed.
Print Assumptions C19_interleaving_sequential.

(* The same at every intermediate point of every schedule, for the queries done so far. *)
Theorem C19_interleaving_sequential_prefix :
  forall (Q A : Type) (body : cache -> Q -> res (cache * A)) (inv : cache -> Prop),
    (forall c q, inv c -> exists c' a, body c q = Ok (c', a) /\ inv c') ->
    (forall c1 c2 q c1' a1 c2' a2, inv c1 -> inv c2 ->
       body c1 q = Ok (c1', a1) -> body c2 q = Ok (c2', a2) -> a1 = a2) ->
    forall c0 qss sched (s : state Q A),
      inv c0 -> run body (init c0 qss) sched = Some s ->
      forall c1, inv c1 ->
      forall i t qs, nth_error (s_threads s) i = Some t -> nth_error qss i = Some qs ->
        exists c', seq_run body c1 (firstn (length (t_done t)) qs) = Ok (c', t_done t).
Proof. exact interleaving_sequential_prefix. Qed.
Print Assumptions C19_interleaving_sequential_prefix.

(* The shared cache after any interleaving is the one a single thread produces running the
   critical sections in lock-acquisition order (critical sections are atomic w.r.t. the cache). *)
Theorem C19_serial_order :
  forall (Q A : Type) (body : cache -> Q -> res (cache * A)) (inv : cache -> Prop),
    (forall c q, inv c -> exists c' a, body c q = Ok (c', a) /\ inv c') ->
    forall sched (s s' : state Q A),
      inv (s_cache s) -> s_poisoned s = false -> run body s sched = Some s' ->
      exists l, seq_run body (s_cache s) (body_trace Q A body s sched) = Ok (s_cache s', l).
Proof. exact serial_order. Qed.
Print Assumptions C19_serial_order.

(* The premises hold for the modelled RegexManager (lazy compile, discard, cleanup by time), with
   inv = the C06 cache invariant; the answer, although computed through the cache, is the fresh one. *)
Theorem C19_regex_body_fresh :
  forall (compile : key -> N) (is_match : N -> N -> bool) c q,
    cache_ok compile c ->
    exists c', rm_body compile is_match c q = Ok (c', fresh_answer compile is_match q) /\
               cache_ok compile c'.
Proof. exact rm_body_fresh. Qed.
Print Assumptions C19_regex_body_fresh.

Theorem C19_regex_interleaving_fresh :
  forall (compile : key -> N) (is_match : N -> N -> bool) c0 qss sched (s : state rq bool),
    cache_ok compile c0 ->
    run (rm_body compile is_match) (init c0 qss) sched = Some s -> complete s = true ->
    answers s = map (map (fresh_answer compile is_match)) qss /\
    s_poisoned s = false /\ any_crashed s = false /\ cache_ok compile (s_cache s).
Proof. exact rm_interleaving_fresh. Qed.
Print Assumptions C19_regex_interleaving_fresh.

(* Lint premise, as data from the translator: the guard-holding query methods of Blocker are
   exactly these three, and every query kind of the model goes through one of them. *)
Theorem C19_lock_lint_table :
  c19_locked_query_fns = ["check_generic_hide"; "check_parameterised"; "get_csp_directives"]%string /\
  (forall k, In (fn_of_kind k) c19_locked_query_fns) /\
  c19_guarded_helpers = ["apply_removeparam"]%string /\
  c19_mut_guard_fns = ["optimize"; "tags_with_set"]%string /\
  c19_acquire_is_lock_unwrap = true.
Proof. exact lock_lint_all. Qed.
Print Assumptions C19_lock_lint_table.

(* ---- the critical section split into phases (Tick, Probe, Commit as separate events): here the
   mutex is what makes the section atomic, so the theorems below USE mutual exclusion. *)

Theorem C19_fine_mutual_exclusion :
  forall (Q A L : Type) (tick : cache -> Q -> cache) (probe : cache -> Q -> L)
         (commit : cache -> Q -> L -> res (cache * A)) c qss fsched (fs : fstate Q A L) i j fi fj,
    frun tick probe commit true (finit c qss) fsched = Some fs ->
    nth_error (fs_threads fs) i = Some fi -> nth_error (fs_threads fs) j = Some fj ->
    in_critical fi = true -> in_critical fj = true -> i = j.
Proof. exact fine_mutual_exclusion. Qed.
Print Assumptions C19_fine_mutual_exclusion.

Theorem C19_fine_no_deadlock :
  forall (Q A L : Type) (tick : cache -> Q -> cache) (probe : cache -> Q -> L)
         (commit : cache -> Q -> L -> res (cache * A)) c qss fsched (fs : fstate Q A L),
    frun tick probe commit true (finit c qss) fsched = Some fs -> ffinal fs = false ->
    exists i fs', fstep tick probe commit true fs i = Some fs'.
Proof. exact fine_no_deadlock. Qed.
Print Assumptions C19_fine_no_deadlock.

(* premises are about the phases run back to back (atomic_body): interleaving cannot add a panic *)
Theorem C19_fine_no_poison :
  forall (Q A L : Type) (tick : cache -> Q -> cache) (probe : cache -> Q -> L)
         (commit : cache -> Q -> L -> res (cache * A)) (inv : cache -> Prop),
    (forall c q, inv c -> exists c' a, atomic_body tick probe commit c q = Ok (c', a) /\ inv c') ->
    forall c qss fsched (fs : fstate Q A L),
      inv c -> frun tick probe commit true (finit c qss) fsched = Some fs ->
      fs_poisoned fs = false /\ fany_crashed fs = false.
Proof. exact fine_no_poison. Qed.
Print Assumptions C19_fine_no_poison.

Theorem C19_fine_interleaving_sequential :
  forall (Q A L : Type) (tick : cache -> Q -> cache) (probe : cache -> Q -> L)
         (commit : cache -> Q -> L -> res (cache * A)) (inv : cache -> Prop),
    (forall c q, inv c -> exists c' a, atomic_body tick probe commit c q = Ok (c', a) /\ inv c') ->
    (forall c1 c2 q c1' a1 c2' a2, inv c1 -> inv c2 ->
       atomic_body tick probe commit c1 q = Ok (c1', a1) ->
       atomic_body tick probe commit c2 q = Ok (c2', a2) -> a1 = a2) ->
    forall c0 qss fsched (fs : fstate Q A L),
      inv c0 -> frun tick probe commit true (finit c0 qss) fsched = Some fs ->
      forall c1, inv c1 ->
      forall i ft qs, nth_error (fs_threads fs) i = Some ft -> nth_error qss i = Some qs ->
        exists c', seq_run (atomic_body tick probe commit) c1 (firstn (length (ft_done ft)) qs)
                   = Ok (c', ft_done ft).
Proof. exact fine_interleaving_sequential. Qed.
Print Assumptions C19_fine_interleaving_sequential.

(* the regex manager phase by phase (probe the entry, later `regex.as_ref().unwrap()`): with the
   mutex no interleaving panics, poisons or changes an answer *)
Theorem C19_regex_phases_safe :
  forall (compile : key -> N) (is_match : N -> N -> bool) c qss fsched
         (fs : fstate rq bool (list (option entry))),
    cache_ok compile c ->
    frun rm_tick rm_probe (rm_commit compile is_match) true (finit c qss) fsched = Some fs ->
    fs_poisoned fs = false /\ fany_crashed fs = false /\
    forall i ft qs, nth_error (fs_threads fs) i = Some ft -> nth_error qss i = Some qs ->
      ft_done ft = map (fresh_answer compile is_match) (firstn (length (ft_done ft)) qs).
Proof. exact rm_phases_safe. Qed.
Print Assumptions C19_regex_phases_safe.

(* ... and WITHOUT the mutex (locked = false) the same phases on a consistent cache reach a panic
   (`unwrap` on a regex another thread's cleanup discarded between Probe and Commit); the very
   same schedule is not a run when the mutex is on.  Not a finding about the crate: it shows what
   the guard is needed for, i.e. that the theorems above are not vacuous in the lock. *)
Theorem C19_without_mutex_refuted :
  exists (qss : list (list rq)) sched fs,
    cache_ok (compile_of ex_tbl) [] /\
    frun rm_tick rm_probe (rm_commit (compile_of ex_tbl) (match_of ex_mt)) false (finit [] qss) sched = Some fs /\
    fany_crashed fs = true /\
    frun rm_tick rm_probe (rm_commit (compile_of ex_tbl) (match_of ex_mt)) true (finit [] qss) sched = None.
Proof. exact without_mutex_refuted. Qed.
Print Assumptions C19_without_mutex_refuted.
