(* C10_Proofs.v — proofs about C10_Model.v *)
From Adb Require Import Base BaseProofs Generated Wire_Model C10_Model.
From Coq Require Import ZifyBool ZifyNat ZifyN.

(* ------------------------------------------------------------------ prefixes *)
Lemma prefixb_iff p s : prefixb p s = true <-> exists r, s = p ++ r.
Proof.
  revert s; induction p as [|x p IH]; intros s; cbn.
  - split; [intros _; exists s; reflexivity | reflexivity].
  - destruct s as [|y s].
    + split; [discriminate | intros [r Hr]; discriminate].
    + rewrite andb_true_iff, N.eqb_eq, IH. split.
      * intros [-> [r ->]]. exists r. reflexivity.
      * intros [r Hr]. inversion Hr; subst. split; [reflexivity | exists r; reflexivity].
Qed.

Lemma prefixb_false p s : prefixb p s = false -> forall r, s <> p ++ r.
Proof.
  intros H r E. assert (T : prefixb p s = true) by (apply prefixb_iff; exists r; exact E).
  congruence.
Qed.

Lemma nth_error_app_len {A} (p r : list A) : nth_error (p ++ r) (length p) = nth_error r 0.
Proof. rewrite nth_error_app2 by lia. rewrite Nat.sub_diag. reflexivity. Qed.

Lemma payload_offset : V0_PAYLOAD_OFFSET = S (length DAT_MAGIC).
Proof. reflexivity. Qed.

Lemma drop_magic_version v r : drop V0_PAYLOAD_OFFSET (DAT_MAGIC ++ v :: r) = r.
Proof.
  replace (DAT_MAGIC ++ v :: r) with ((DAT_MAGIC ++ [v]) ++ r) by (rewrite <- app_assoc; reflexivity).
  apply drop_app_length'. rewrite payload_offset, app_length. cbn [length]. lia.
Qed.

(* the v0 entry point never trips its asserts when reached through the dispatch *)
Lemma v0_payload_ok r : v0_payload (DAT_MAGIC ++ V0_VERSION_BYTE :: r) = Ok r.
Proof.
  unfold v0_payload.
  assert (P : prefixb DAT_MAGIC (DAT_MAGIC ++ V0_VERSION_BYTE :: r) = true)
    by (apply prefixb_iff; eexists; reflexivity).
  rewrite P. cbn [negb]. rewrite nth_error_app_len. cbn [nth_error].
  rewrite N.eqb_refl. cbn [negb].
  destruct (Nat.ltb _ _) eqn:L.
  - apply Nat.ltb_lt in L. rewrite app_length in L. rewrite payload_offset in L. cbn [length] in L. lia.
  - rewrite drop_magic_version. reflexivity.
Qed.

(* ------------------------------------------------------------------ header_total *)
Theorem header_total b : exists d, header_dispatch b = Ok d /\ header_class b d.
Proof.
  unfold header_dispatch.
  destruct (prefixb DAT_MAGIC b) eqn:PM.
  - apply prefixb_iff in PM as [rest ->]. rewrite nth_error_app_len.
    destruct rest as [|v r]; cbn [nth_error].
    + exists DNoHeader. split; [reflexivity|]. apply HC_magic_only. apply app_nil_r.
    + destruct (N.eqb v DISPATCH_V0_VERSION) eqn:EV.
      * apply N.eqb_eq in EV. subst v.
        change DISPATCH_V0_VERSION with V0_VERSION_BYTE. rewrite v0_payload_ok. cbn [rbind].
        exists (DDecode r). split; [reflexivity|]. apply HC_decode. reflexivity.
      * apply N.eqb_neq in EV. exists (DVersion v). split; [reflexivity|].
        eapply HC_version; [reflexivity | exact EV].
  - destruct (prefixb GZ_HEADER b) eqn:PG.
    + apply prefixb_iff in PG as [rest ->]. exists DLegacy. split; [reflexivity|].
      eapply HC_legacy. reflexivity.
    + exists DNoHeader. split; [reflexivity|].
      apply HC_none; [apply prefixb_false; exact PM | apply prefixb_false; exact PG].
Qed.

Corollary header_no_panic b : is_ok (header_dispatch b) = true.
Proof. destruct (header_total b) as (d & -> & _). reflexivity. Qed.

(* the classes are mutually exclusive: the classification is a function of the bytes *)
Lemma magic_not_gz : forall r r', DAT_MAGIC ++ r <> GZ_HEADER ++ r'.
Proof. intros r r' H. vm_compute in H. discriminate. Qed.

Theorem header_class_functional b d1 d2 : header_class b d1 -> header_class b d2 -> d1 = d2.
Proof.
  intros H1 H2.
  assert (U : forall d, header_class b d -> header_dispatch b = Ok d).
  { clear. intros d H. unfold header_dispatch. destruct H as [rest E|v rest E NZ|E|rest E|N1 N2].
    - subst b. assert (P : prefixb DAT_MAGIC (DAT_MAGIC ++ 0 :: rest) = true) by (apply prefixb_iff; eexists; reflexivity).
      rewrite P, nth_error_app_len. cbn [nth_error]. change (N.eqb 0 DISPATCH_V0_VERSION) with true. cbn iota.
      change 0 with V0_VERSION_BYTE. rewrite v0_payload_ok. reflexivity.
    - subst b. assert (P : prefixb DAT_MAGIC (DAT_MAGIC ++ v :: rest) = true) by (apply prefixb_iff; eexists; reflexivity).
      rewrite P, nth_error_app_len. cbn [nth_error].
      destruct (N.eqb v DISPATCH_V0_VERSION) eqn:EV; [apply N.eqb_eq in EV; contradiction|reflexivity].
    - subst b. reflexivity.
    - subst b. destruct (prefixb DAT_MAGIC (GZ_HEADER ++ rest)) eqn:P.
      + apply prefixb_iff in P as [r P]. symmetry in P. apply magic_not_gz in P. contradiction.
      + assert (G : prefixb GZ_HEADER (GZ_HEADER ++ rest) = true) by (apply prefixb_iff; eexists; reflexivity).
        rewrite G. reflexivity.
    - destruct (prefixb DAT_MAGIC b) eqn:P; [apply prefixb_iff in P as [r P]; apply N1 in P; contradiction|].
      destruct (prefixb GZ_HEADER b) eqn:G; [apply prefixb_iff in G as [r G]; apply N2 in G; contradiction|].
      reflexivity. }
  apply U in H1. apply U in H2. congruence.
Qed.

(* F10 (fixed in /repo): the indexing version panics on the four magic bytes *)
Lemma header_f10_refuted : exists b, is_ok (header_dispatch_f10 b) = false.
Proof. exists DAT_MAGIC. vm_compute. reflexivity. Qed.
Example header_f10_now_ok : header_dispatch DAT_MAGIC = Ok DNoHeader.
Proof. vm_compute. reflexivity. Qed.

(* ------------------------------------------------------------------ load_atomic *)
Section LoadProofs.
  Variable decode : list N -> option wire.
  Variable build_list : list rule -> bool -> bucket_map.

  Theorem load_total e b : is_ok (deserialize decode build_list e b) = true.
  Proof.
    unfold deserialize. destruct (header_total b) as (d & -> & _).
    destruct d; try reflexivity. destruct (decode payload); reflexivity.
  Qed.

  Theorem load_atomic e b e' err :
    deserialize decode build_list e b = Ok (e', Some err) -> e' = e.
  Proof.
    unfold deserialize. destruct (header_dispatch b) as [[p|v| |]|w]; try discriminate.
    - destruct (decode p); intros H; inversion H; reflexivity.
    - intros H; inversion H; reflexivity.
    - intros H; inversion H; reflexivity.
    - intros H; inversion H; reflexivity.
  Qed.

  (* which error: exactly the header class, or the decoder's refusal *)
  Theorem load_error_class e b e' err :
    deserialize decode build_list e b = Ok (e', Some err) ->
    match err with
    | EVersion v => header_class b (DVersion v)
    | ENoHeader => header_class b DNoHeader
    | ELegacy => header_class b DLegacy
    | ERmp => exists p, header_class b (DDecode p) /\ decode p = None
    end.
  Proof.
    unfold deserialize. destruct (header_total b) as (d & -> & HC).
    destruct d as [p|v| |].
    - destruct (decode p) eqn:D; intros H; inversion H; subst. exists p. split; assumption.
    - intros H; inversion H; subst. exact HC.
    - intros H; inversion H; subst. exact HC.
    - intros H; inversion H; subst. exact HC.
  Qed.

  (* success: the state is the decoded one with the caller's tags re-applied; resources kept *)
  Theorem load_ok_state e b e' :
    deserialize decode build_list e b = Ok (e', None) ->
    exists p w, header_class b (DDecode p) /\ decode p = Some w /\ e' = install build_list e w /\
                e_resources e' = e_resources e /\
                b_tags_enabled (e_blocker e') = b_tags_enabled (e_blocker e) /\
                b_removeparam (e_blocker e') = [].
  Proof.
    unfold deserialize. destruct (header_total b) as (d & -> & HC).
    destruct d as [p|v| |]; try discriminate.
    destruct (decode p) as [w|] eqn:D; [|discriminate].
    intros H; inversion H; subst. exists p, w. repeat split; assumption || reflexivity.
  Qed.
End LoadProofs.

(* the hypothesis of load_atomic is satisfiable on a non-trivial input *)
Example load_atomic_example :
  let e := {| e_blocker := from_wire_blocker
                (Build_wire [] [] [] [] [] [(7, [])] [] [] true [] [bs "ad"] [] [] [] [] [] [] [] []);
              e_cosmetic := from_wire_cosmetic
                (Build_wire [] [] [] [] [] [] [] [] true [] [bs "ad"] [] [] [] [] [] [] [] []);
              e_resources := [] |} in
  deserialize (fun _ => None) (fun _ _ => []) e (DAT_MAGIC ++ [0; 192]) = Ok (e, Some ERmp) /\
  deserialize (fun _ => None) (fun _ _ => []) e (DAT_MAGIC ++ [1]) = Ok (e, Some (EVersion 1)).
Proof. vm_compute. split; reflexivity. Qed.

(* ------------------------------------------------------------------ decoded rules in the matchers *)
Section MatchProofs.
  Variable body : mpath -> N -> list str -> str -> bool.

  Theorem decoded_rule_match_total mask filters hostname :
    exists r, check_pattern body mask filters hostname = Ok r.
  Proof.
    unfold check_pattern. destruct (host_path _); [destruct hostname|]; eexists; reflexivity.
  Qed.

  Lemma host_path_iff mask : host_path (check_pattern_path mask) = mask_has mask M_IS_HOSTNAME_ANCHOR.
  Proof.
    unfold check_pattern_path.
    destruct (mask_has mask M_IS_HOSTNAME_ANCHOR).
    - destruct (mask_has mask M_IS_REGEX); [reflexivity|].
      destruct (mask_has mask M_IS_RIGHT_ANCHOR), (mask_has mask M_IS_LEFT_ANCHOR); reflexivity.
    - destruct (mask_has mask M_IS_REGEX || mask_has mask M_IS_COMPLETE_REGEX); [reflexivity|].
      destruct (mask_has mask M_IS_LEFT_ANCHOR), (mask_has mask M_IS_RIGHT_ANCHOR); reflexivity.
  Qed.

  (* a decoded rule with the hostname-anchor bit and no hostname matches nothing *)
  Theorem anchored_without_hostname_false mask filters :
    mask_has mask M_IS_HOSTNAME_ANCHOR = true -> check_pattern body mask filters None = Ok false.
  Proof. intros H. unfold check_pattern. rewrite host_path_iff, H. reflexivity. Qed.

  (* rules with a hostname (all parsed hostname-anchored rules) are unaffected by the repair *)
  Theorem check_pattern_same_as_f11 mask filters h :
    check_pattern body mask filters (Some h) = check_pattern_f11 body mask filters (Some h).
  Proof. reflexivity. Qed.
  Theorem check_pattern_unanchored_same mask filters hostname :
    mask_has mask M_IS_HOSTNAME_ANCHOR = false ->
    check_pattern body mask filters hostname = check_pattern_f11 body mask filters hostname.
  Proof. intros H. unfold check_pattern, check_pattern_f11. rewrite host_path_iff, H. reflexivity. Qed.

  Lemma check_pattern_f11_refuted :
    exists mask filters, is_ok (check_pattern_f11 body mask filters None) = false.
  Proof. exists M_IS_HOSTNAME_ANCHOR, []. vm_compute. reflexivity. Qed.
End MatchProofs.

Theorem complete_regex_body_total f : exists s, complete_regex_body f = Ok s.
Proof. eexists; reflexivity. Qed.

Lemma strip_suffix_app s c : strip_suffix_byte c (s ++ [c]) = Some s.
Proof. unfold strip_suffix_byte. rewrite rev_app_distr. cbn. rewrite N.eqb_refl, rev_involutive. reflexivity. Qed.

(* on the spelling the parser produces (/…/) the repaired code returns what the slice returned *)
Theorem complete_regex_body_parsed s :
  complete_regex_body (SLASH :: s ++ [SLASH]) = Ok s /\
  complete_regex_body_f11 (SLASH :: s ++ [SLASH]) = Ok s.
Proof.
  split.
  - unfold complete_regex_body. cbn [strip_prefix_byte]. rewrite N.eqb_refl, strip_suffix_app. reflexivity.
  - unfold complete_regex_body_f11. cbn [length]. rewrite app_length. cbn [length].
    destruct (Nat.ltb (length s + 1) 1) eqn:L; [apply Nat.ltb_lt in L; lia|].
    unfold drop, take. cbn [skipn]. replace (length s + 1 - 1)%nat with (length s) by lia.
    rewrite (take_app_length s [SLASH] : firstn _ _ = _). reflexivity.
Qed.

Lemma complete_regex_f11_refuted : exists f, is_ok (complete_regex_body_f11 f) = false.
Proof. exists [SLASH]. vm_compute. reflexivity. Qed.

(* translator ties *)
Lemma matchers_have_no_panic_site : MATCHERS_PANIC_SITES = 0.
Proof. reflexivity. Qed.
Lemma translator_flags :
  DISPATCH_VERSION_VIA_GET = true /\ ENGINE_DESERIALIZE_DECODES_FIRST = true /\
  COMPLETE_REGEX_BODY_VIA_STRIP = true /\ DISPATCH_V0_VERSION = V0_VERSION_BYTE.
Proof. repeat split. Qed.

(* F25 (fixed in /repo by 20ac931): the v0 decoder entry point is the slice-bounded one *)
Lemma decoder_entry_bounded : V0_DECODER_ENTRY = "from_slice"%string.
Proof. reflexivity. Qed.

(* the engine's own output always reaches the v0 decoder with exactly the encoded payload *)
Theorem own_output_dispatch w : header_dispatch (serialize_wire w) = Ok (DDecode (encode (wire_tree w))).
Proof.
  unfold serialize_wire, header_dispatch.
  assert (P : prefixb DAT_MAGIC (DAT_MAGIC ++ [V0_VERSION_BYTE] ++ encode (wire_tree w)) = true)
    by (apply prefixb_iff; eexists; reflexivity).
  rewrite P, nth_error_app_len. cbn [app nth_error].
  change (N.eqb V0_VERSION_BYTE DISPATCH_V0_VERSION) with true. cbn iota.
  rewrite (v0_payload_ok (encode (wire_tree w))). reflexivity.
Qed.

(* the hypothesis of anchored_without_hostname_false is satisfiable (a `||host^` rule's mask) *)
Example anchored_mask_example :
  mask_has (M_IS_HOSTNAME_ANCHOR + M_IS_RIGHT_ANCHOR + M_FROM_SCRIPT) M_IS_HOSTNAME_ANCHOR = true /\
  check_pattern (fun _ _ _ _ => true) (M_IS_HOSTNAME_ANCHOR + M_IS_RIGHT_ANCHOR + M_FROM_SCRIPT) [] None = Ok false /\
  check_pattern (fun _ _ _ _ => true) (M_IS_HOSTNAME_ANCHOR + M_IS_RIGHT_ANCHOR + M_FROM_SCRIPT) [] (Some (bs "ads.net")) = Ok true.
Proof. vm_compute. repeat split; reflexivity. Qed.
