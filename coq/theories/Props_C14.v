(* Props_C14.v — pinned statements for property C14 (removeparam removes exactly the named
   parameters and nothing else).  Only statements, `exact`, and Print Assumptions. *)
From Adb Require Import Base BaseProofs C14_Model C14_Proofs.

(* Every URL is covered by exactly one of the two cases below. *)
Theorem C14_url_split_total : forall url,
  no_query url \/ exists pre q post, url_split url pre q post.
Proof. exact url_split_total. Qed.
Print Assumptions C14_url_split_total.

Theorem C14_url_split_unique : forall url pre q post pre' q' post',
  url_split url pre q post -> url_split url pre' q' post' -> pre = pre' /\ q = q' /\ post = post'.
Proof. exact url_split_unique. Qed.
Print Assumptions C14_url_split_unique.

(* No '?' before the fragment: never a rewrite. *)
Theorem C14_no_query : forall names url, no_query url -> apply_removeparam names url = None.
Proof. exact removeparam_no_query. Qed.
Print Assumptions C14_no_query.

(* With url = pre ? q post: the result is None when no parameter is removed, otherwise pre,
   the kept parameters (in order, byte for byte, '&'-joined, '?' only if something is left), post. *)
Theorem C14_rewrite_spec : forall names url pre q post,
  url_split url pre q post ->
  apply_removeparam names url =
    (let ps := split_on AMP q in
     if forallb (kept names) ps then None
     else let p := join_with [AMP] (filter (kept names) ps) in
          Some (pre ++ (if null p then [] else QMARK :: p) ++ post)).
Proof. exact removeparam_split. Qed.
Print Assumptions C14_rewrite_spec.

(* The parameters of q re-joined are q: nothing but whole parameters is ever dropped. *)
Theorem C14_params_cover_query : forall q, join_with [AMP] (split_on AMP q) = q.
Proof. exact (join_split AMP). Qed.
Print Assumptions C14_params_cover_query.

(* Which parameters go: key=value with a non-empty value and key equal to a matching rule's name. *)
Theorem C14_removed_iff : forall names p,
  kept names p = false <->
  exists k v, p = k ++ EQS :: v /\ ~ In EQS k /\ v <> [] /\ In k names.
Proof.
  intros names p. unfold kept. rewrite Bool.negb_false_iff. exact (removed_iff names p).
Qed.
Print Assumptions C14_removed_iff.

(* The '?' disappears only when nothing (or one empty parameter) remains. *)
Theorem C14_qmark_dropped_iff : forall ks : list str,
  null (join_with [AMP] ks) = true <-> ks = [] \/ ks = [[]].
Proof. exact join_null_iff. Qed.
Print Assumptions C14_qmark_dropped_iff.

Theorem C14_no_rewrite_when_important : forall names url, rewritten_url true names url = None.
Proof. exact no_rewrite_when_important. Qed.
Print Assumptions C14_no_rewrite_when_important.

(* ------------------------------------------------------------------ translator tie: the control
   structure of src/blocker.rs as extracted on this run (Generated.BlockerGen) *)
From Coq Require Import String.
From Adb Require Import Generated Struct_Proofs.
Import Generated.BlockerGen.

(* the removeparam list is never fused (neither by Blocker::new nor by Blocker::optimize): every
   matching rule keeps its own parameter name; and the rewrite is guarded by `important` *)
Theorem C14_src_removeparam_never_optimized :
  named optimize_lists "removeparam" = false
  /\ forallb (fun x => negb (String.eqb (fst (fst x)) "removeparam" && snd x)) new_lists = true.
Proof. exact removeparam_never_optimized. Qed.
Print Assumptions C14_src_removeparam_never_optimized.

Theorem C14_src_rewrite_guard : rewrite_suppressed_by = "important"%string.
Proof. exact rewrite_guard_is_important. Qed.
Print Assumptions C14_src_rewrite_guard.

(* the parameter-name fallback of get_tokens: only for a rule with no other token, on a validated,
   lower-cased name (the whole function is tied to the model by C01_src_get_tokens_is_model) *)
From Adb Require Struct_Tokens_Proofs.
Theorem C14_src_param_fallback_guard :
  In ("param"%string, TokensGen.TAnd (TokensGen.TAtom TokensGen.T_tokens_empty) (TokensGen.TAtom TokensGen.T_removeparam)) TokensGen.steps
  /\ TokensGen.param_validated = true /\ TokensGen.param_lowercased = true.
Proof. exact Struct_Tokens_Proofs.param_fallback_guard. Qed.
Print Assumptions C14_src_param_fallback_guard.

(* Blocker::apply_removeparam itself, re-read from src/blocker.rs on every run
   (tools/gen_fragments/c14_removeparam_structure.py -> Generated.RpGen) and interpreted statement by
   statement with bounds-checked slices: for every URL and every list of rule names it IS the model
   every theorem of this file speaks about, and no slice of the function is ever out of range. *)
From Adb Require Struct_Rp_Proofs.
Theorem C14_src_apply_removeparam_is_model : forall (names : list str) (url : str),
  Struct_Rp_Proofs.interp_rp names url = Some (apply_removeparam names url).
Proof. exact Struct_Rp_Proofs.interp_rp_is_model. Qed.
Print Assumptions C14_src_apply_removeparam_is_model.

Theorem C14_src_apply_removeparam_never_out_of_range : forall (names : list str) (url : str),
  Struct_Rp_Proofs.interp_rp names url <> None.
Proof. exact Struct_Rp_Proofs.interp_rp_never_stuck. Qed.
Print Assumptions C14_src_apply_removeparam_never_out_of_range.

(* the marking loop of the source (one pass over the parameters per matching rule) is the model's
   single filter: a parameter stays iff no rule removes it, and a rewrite is reported iff some
   parameter goes — whatever the order and multiplicity of the matching rules *)
Theorem C14_src_marking_loop_is_filter : forall (names : list str) (ps : list str),
  Struct_Rp_Proofs.mark_loop names
    (map (fun pair => (Struct_Rp_Proofs.parse_param pair, RpGen.initially_kept)) ps) RpGen.rewrite_start =
  (map (fun p => (Struct_Rp_Proofs.parse_param p, kept names p)) ps, negb (forallb (kept names) ps)).
Proof. exact Struct_Rp_Proofs.marked_params. Qed.
Print Assumptions C14_src_marking_loop_is_filter.

(* printing a parsed parameter gives the parameter back, byte for byte *)
Theorem C14_src_show_parse : forall p : str,
  Struct_Rp_Proofs.show (Struct_Rp_Proofs.parse_param p) = p.
Proof. exact Struct_Rp_Proofs.show_parse. Qed.
Print Assumptions C14_src_show_parse.

(* ------------------------------------------------------------------ the parameter-name fallback.
   A pattern-less `$removeparam=name` rule matches every request but is indexed under the tokens of
   its name, so the token guarantee TG is FALSE for it on a URL without that parameter
   (TG_fallback_refuted below) — and the answer is still right, because a rule whose parameter is
   not in the query removes nothing.  The theorems below replace TG by the relevance-restricted
   guarantee TG_rp (only removeparam rules whose name is a removable key of THIS url must be
   probed), prove the whole-answer theorems of Engine_Proofs under it, and prove TG_rp from the
   concrete tokenizer for the fallback shape. *)
From Adb Require Import Base Generated Hashing Net_Model Net_Proofs Engine_Model Tok_Proofs Tok_Ext_Model Tok_Ext_Proofs C14_Relevant_Model C14_Relevant_Proofs.
From Adb Require C03_Model C13_Model C14_Model C15_Model.

Theorem C14_relevant_names_only : forall names url,
  C14_Model.apply_removeparam names url = C14_Model.apply_removeparam (filter (relevant url) names) url.
Proof. exact apply_removeparam_relevant. Qed.
Print Assumptions C14_relevant_names_only.

Theorem C14_engine_rewritten_rp : forall (h : str -> N) (matches : rule -> bool) (pr : list N), In 0 pr ->
  forall (url : str) (st : C13_Model.storage) (L : list rule) (T : list str),
  id_inj L -> TG_rp h matches pr url L -> forall mr fc : bool,
  r_rewritten (engine_check matches pr true url st mr fc (tags_with_set h (blocker_new h L) T))
  = C14_Model.rewritten_url (v_important (spec_verdict_p matches mr fc L T)) (spec_param_names matches L) url.
Proof. exact engine_rewritten_rp. Qed.
Print Assumptions C14_engine_rewritten_rp.

Theorem C14_engine_bits_rp : forall (h : str -> N) (matches : rule -> bool) (pr : list N), In 0 pr ->
  forall (url : str) (st : C13_Model.storage) (L : list rule) (T : list str),
  id_inj L -> TG_rp h matches pr url L -> forall mr fc : bool,
  let r := engine_check matches pr true url st mr fc (tags_with_set h (blocker_new h L) T) in
  {| v_matched := r_matched r; v_important := r_important r; v_exception := r_exception r; v_filter := r_filter r |}
  = spec_verdict_p matches mr fc L T.
Proof. exact engine_bits_rp. Qed.
Print Assumptions C14_engine_bits_rp.

Theorem C14_token_guarantee_param : forall (h : str -> N) (f : rule) (r : C03_Model.request) (odu ondu : option N) (u ul : str),
  no_param_fallback h f = false -> relevant_rule u f = true -> url_tie u ul ->
  C03_Model.check_options (rmask f) (rdomains f) odu (rnotdomains f) ondu r = true ->
  (needs_source f = true -> nullb (param_tokens h f) = true -> C03_Model.rq_src r <> None) ->
  (scheme_restricted f = true -> C03_Model.rq_http r || C03_Model.rq_https r = true) ->
  scheme_tie r ul -> within_cutoff false false ul ->
  covered h (probes h (C03_Model.rq_src r) ul) f.
Proof. exact token_guarantee_param. Qed.
Print Assumptions C14_token_guarantee_param.

Theorem C14_TG_rp_mixed_list : forall h matches r u ul host L,
  within_cutoff false false ul -> web_request r ul -> url_tie u ul -> mixed_hits h matches r ul host L ->
  TG_rp h matches (probes h (C03_Model.rq_src r) ul) u L.
Proof. exact TG_rp_mixed_list. Qed.
Print Assumptions C14_TG_rp_mixed_list.

Theorem C14_engine_rewritten_mixed : forall h matches r u ul host st mr fc L T,
  id_inj L -> within_cutoff false false ul -> web_request r ul -> url_tie u ul ->
  mixed_hits h matches r ul host L ->
  r_rewritten (engine_check matches (probes h (C03_Model.rq_src r) ul) true u st mr fc (tags_with_set h (blocker_new h L) T))
  = C14_Model.rewritten_url (v_important (spec_verdict_p matches mr fc L T)) (spec_param_names matches L) u.
Proof. exact engine_rewritten_mixed. Qed.
Print Assumptions C14_engine_rewritten_mixed.

Theorem C14_engine_bits_mixed : forall h matches r u ul host st mr fc L T,
  id_inj L -> within_cutoff false false ul -> web_request r ul -> url_tie u ul ->
  mixed_hits h matches r ul host L ->
  let e := engine_check matches (probes h (C03_Model.rq_src r) ul) true u st mr fc (tags_with_set h (blocker_new h L) T) in
  {| v_matched := r_matched e; v_important := r_important e; v_exception := r_exception e; v_filter := r_filter e |}
  = spec_verdict_p matches mr fc L T.
Proof. exact engine_bits_mixed. Qed.
Print Assumptions C14_engine_bits_mixed.

Theorem C14_key_tokens_covered : forall ul n t, key_in ul n ->
  In t (tku false false (lower_str n) 0 None None) -> In t (tku false false ul 0 None None).
Proof. exact key_tokens_covered. Qed.
Print Assumptions C14_key_tokens_covered.

Theorem C14_relevant_has_key : forall u n, relevant u n = true -> has_key u n.
Proof. exact relevant_has_key. Qed.
Print Assumptions C14_relevant_has_key.

Theorem C14_engine_redirect_eq_rp : forall (h : str -> N) (matches : rule -> bool) (pr : list N), In 0 pr ->
  forall (url : str) (st : C13_Model.storage) (L : list rule) (T : list str),
  id_inj L -> TG_rp h matches pr url L -> forall mr fc : bool, one_modifier L ->
  r_redirect (engine_check matches pr true url st mr fc (tags_with_set h (blocker_new h L) T))
  = C13_Model.redirect_of st (spec_redirects matches L).
Proof. exact engine_redirect_eq_rp. Qed.
Print Assumptions C14_engine_redirect_eq_rp.

Theorem C14_engine_csp_policy_rp : forall (h : str -> N) (matches : rule -> bool) (pr : list N), In 0 pr ->
  forall (url : str) (L : list rule) (T : list str),
  id_inj L -> TG_rp h matches pr url L -> forall rtype, one_modifier L ->
  C15_Model.same_policy (engine_csp matches pr rtype (tags_with_set h (blocker_new h L) T))
    (C15_Model.get_csp_for rtype (spec_csp_rules matches L T)).
Proof. exact engine_csp_policy_rp. Qed.
Print Assumptions C14_engine_csp_policy_rp.

Theorem C14_TG_fallback_refuted :
  exists f u,
    C03_Model.check_options (rmask f) (rdomains f) None (rnotdomains f) None rp_req = true /\
    rfilter f = FEmpty /\ rhost f = None /\
    no_param_fallback seahash f = false /\ relevant_rule u f = false /\
    ~ covered seahash (probes seahash (C03_Model.rq_src rp_req) (lower_str u)) f.
Proof. exact TG_fallback_refuted. Qed.
Print Assumptions C14_TG_fallback_refuted.

Theorem C14_url_tie_needed_refuted :
  exists f u ul,
    no_param_fallback seahash f = false /\ relevant_rule u f = true /\
    within_cutoff false false ul /\ ~ url_tie u ul /\
    ~ covered seahash (probes seahash (C03_Model.rq_src rp_req) ul) f.
Proof. exact url_tie_needed_refuted. Qed.
Print Assumptions C14_url_tie_needed_refuted.

(* ------------------------------------------------------------------ the url tie for Request::new:
   everything from the first '?' on is copied byte for byte by the URL normaliser (C12 model), so
   the premise url_tie of the theorems above is DISCHARGED for every request Request::new builds,
   together with scheme_tie and is_supported; no side condition *)
From Adb Require Import Base BaseProofs Generated Hashing Net_Model Net_Proofs Engine_Model Engine_Proofs Tok_Proofs Tok_Ext_Model Tok_Ext_Proofs C14_Relevant_Model C14_Relevant_Proofs C14_UrlTie_Model C14_UrlTie_Proofs.
From Adb Require C03_Model C12_Model C13_Model C14_Model.

Theorem C14_request_new_ties :
  forall (idna : str -> option str) (psl : str -> nat * nat) (hash : str -> N) 
    (tok : str -> list N) (u s t : str) (q : C12_Model.request),
  C12_Model.Request_new idna psl hash tok u s t = Ok (Some q) ->
  C12_Model.original_url q = u /\
  url_tie u (C12_Model.url_lower_cased q) /\
  scheme_tie (req_of q) (C12_Model.url_lower_cased q) /\
  (C12_Model.is_http q || C12_Model.is_https q = true -> C12_Model.is_supported q = true).
Proof. exact request_new_ties. Qed.
Print Assumptions C14_request_new_ties.

Theorem C14_relevant_key_in_new :
  forall (idna : str -> option str) (psl : str -> nat * nat) (hash : str -> N) 
    (tok : str -> list N) (u s t : str) (q : C12_Model.request) (n : str),
  C12_Model.Request_new idna psl hash tok u s t = Ok (Some q) ->
  relevant u n = true -> key_in (C12_Model.url_lower_cased q) n.
Proof. exact relevant_key_in_new. Qed.
Print Assumptions C14_relevant_key_in_new.

Theorem C14_token_guarantee_param_new :
  forall (idna : str -> option str) (psl : str -> nat * nat) (hash : str -> N) 
    (tok : str -> list N) (u s t : str) (q : C12_Model.request),
  C12_Model.Request_new idna psl hash tok u s t = Ok (Some q) ->
  forall (h : str -> N) (f : rule) (odu ondu : option N),
  no_param_fallback h f = false ->
  relevant_rule u f = true ->
  C03_Model.check_options (rmask f) (rdomains f) odu (rnotdomains f) ondu (req_of q) = true ->
  (needs_source f = true ->
   nullb (param_tokens h f) = true -> C12_Model.source_hostname_hashes q <> None) ->
  (scheme_restricted f = true -> C12_Model.is_http q || C12_Model.is_https q = true) ->
  within_cutoff false false (C12_Model.url_lower_cased q) ->
  covered h (probes h (C12_Model.source_hostname_hashes q) (C12_Model.url_lower_cased q)) f.
Proof. exact token_guarantee_param_new. Qed.
Print Assumptions C14_token_guarantee_param_new.

Theorem C14_TG_rp_new :
  forall (idna : str -> option str) (psl : str -> nat * nat) (hash : str -> N) 
    (tok : str -> list N) (u s t : str) (q : C12_Model.request),
  C12_Model.Request_new idna psl hash tok u s t = Ok (Some q) ->
  forall (h : str -> N) (matches : rule -> bool) (host : str) (L : list rule),
  within_cutoff false false (C12_Model.url_lower_cased q) ->
  C12_Model.source_hostname_hashes q <> None ->
  C12_Model.is_http q || C12_Model.is_https q = true ->
  mixed_hits h matches (req_of q) (C12_Model.url_lower_cased q) host L ->
  TG_rp h matches (probes h (C12_Model.source_hostname_hashes q) (C12_Model.url_lower_cased q)) u L.
Proof. exact TG_rp_new. Qed.
Print Assumptions C14_TG_rp_new.

Theorem C14_engine_bits_new :
  forall (idna : str -> option str) (psl : str -> nat * nat) (hash : str -> N) 
    (tok : str -> list N) (u s t : str) (q : C12_Model.request),
  C12_Model.Request_new idna psl hash tok u s t = Ok (Some q) ->
  forall (h : str -> N) (matches : rule -> bool) (host : str) (st : C13_Model.storage) 
    (mr fc : bool) (L : list rule) (T : list str),
  id_inj L ->
  within_cutoff false false (C12_Model.url_lower_cased q) ->
  C12_Model.source_hostname_hashes q <> None ->
  C12_Model.is_http q || C12_Model.is_https q = true ->
  mixed_hits h matches (req_of q) (C12_Model.url_lower_cased q) host L ->
  let e :=
    engine_check matches (probes h (C12_Model.source_hostname_hashes q) (C12_Model.url_lower_cased q))
      (C12_Model.is_supported q) (C12_Model.original_url q) st mr fc
      (tags_with_set h (blocker_new h L) T) in
  {|
    v_matched := r_matched e;
    v_important := r_important e;
    v_exception := r_exception e;
    v_filter := r_filter e
  |} = spec_verdict_p matches mr fc L T.
Proof. exact engine_bits_new. Qed.
Print Assumptions C14_engine_bits_new.

Theorem C14_engine_rewritten_new :
  forall (idna : str -> option str) (psl : str -> nat * nat) (hash : str -> N) 
    (tok : str -> list N) (u s t : str) (q : C12_Model.request),
  C12_Model.Request_new idna psl hash tok u s t = Ok (Some q) ->
  forall (h : str -> N) (matches : rule -> bool) (host : str) (st : C13_Model.storage) 
    (mr fc : bool) (L : list rule) (T : list str),
  id_inj L ->
  within_cutoff false false (C12_Model.url_lower_cased q) ->
  C12_Model.source_hostname_hashes q <> None ->
  C12_Model.is_http q || C12_Model.is_https q = true ->
  mixed_hits h matches (req_of q) (C12_Model.url_lower_cased q) host L ->
  r_rewritten
    (engine_check matches (probes h (C12_Model.source_hostname_hashes q) (C12_Model.url_lower_cased q))
       (C12_Model.is_supported q) (C12_Model.original_url q) st mr fc
       (tags_with_set h (blocker_new h L) T)) =
  C14_Model.rewritten_url (v_important (spec_verdict_p matches mr fc L T)) (spec_param_names matches L)
    u.
Proof. exact engine_rewritten_new. Qed.
Print Assumptions C14_engine_rewritten_new.

Theorem C14_tokens_for_match_new :
  forall (idna : str -> option str) (psl : str -> nat * nat) (h : str -> N) 
    (u s t : str) (q : C12_Model.request),
  request_new idna psl h u s t = Ok (Some q) ->
  tokens_for_match q = probes h (C12_Model.source_hostname_hashes q) (C12_Model.url_lower_cased q).
Proof. exact tokens_for_match_new. Qed.
Print Assumptions C14_tokens_for_match_new.

Theorem C14_url_tie_token_guarantee_example :
  C12_Model.url ut_q = bs "https://A.com/p?x=1&utm_source=z#f" /\
  C12_Model.url ut_q <> ut_url /\
  C12_Model.original_url ut_q = ut_url /\
  relevant_rule ut_url rp_rule_utm = true /\
  C03_Model.check_options (rmask rp_rule_utm) (rdomains rp_rule_utm) None (rnotdomains rp_rule_utm) None
    (req_of ut_q) = true /\
  within_cutoff false false (C12_Model.url_lower_cased ut_q) /\
  covered seahash (tokens_for_match ut_q) rp_rule_utm.
Proof. exact ut_token_guarantee_example. Qed.
Print Assumptions C14_url_tie_token_guarantee_example.

Theorem C14_url_tie_engine_example :
  let q := ut_q_hard in
  let pr := probes seahash (C12_Model.source_hostname_hashes q) (C12_Model.url_lower_cased q) in
  C12_Model.url q = bs "https://u:p@A.com/p?x=1&utm_source=z#f" /\
  C12_Model.url_lower_cased q <> lower_str ut_url_hard /\
  url_tie ut_url_hard (C12_Model.url_lower_cased q) /\
  tokens_for_match q = pr /\
  id_inj rp_example_list /\
  within_cutoff false false (C12_Model.url_lower_cased q) /\
  C12_Model.source_hostname_hashes q <> None /\
  C12_Model.is_http q || C12_Model.is_https q = true /\
  mixed_hits seahash rp_example_matches (req_of q) (C12_Model.url_lower_cased q) 
    (bs "a.com") rp_example_list /\
  TG_rp seahash rp_example_matches pr ut_url_hard rp_example_list /\
  r_rewritten
    (engine_check rp_example_matches pr (C12_Model.is_supported q) (C12_Model.original_url q)
       C13_Model.empty_store false false
       (tags_with_set seahash (blocker_new seahash rp_example_list) [])) =
  Some (bs "  HTTPS:/\u:p@A" ++ [9] ++ bs ".com/p?x=1#f " ++ [10]).
Proof. exact ut_engine_example. Qed.
Print Assumptions C14_url_tie_engine_example.

Theorem C14_tab_in_key_is_copied :
  request_new ut_idna ut_psl seahash ut_url_tab ut_source ut_type = Ok (Some ut_q_tab) /\
  C12_Model.url ut_q_tab = ut_url_tab /\
  query_params ut_url_tab =
  [bs "re" ++ [9] ++ bs "f=1"; [195; 169] ++ bs "=2"; bs "a ""b=3"; bs "ref=4"] /\
  C14_Model.apply_removeparam [bs "ref"] ut_url_tab =
  Some (bs "https://a.com/p?re" ++ [9] ++ bs "f=1&" ++ [195; 169] ++ bs "=2&a ""b=3").
Proof. exact tab_in_key_is_copied. Qed.
Print Assumptions C14_tab_in_key_is_copied.

Theorem C14_trailing_blank_is_a_value :
  C12_Model.url ut_q_blank = bs "https://a.com/p?ref=" /\
  C14_Model.apply_removeparam [bs "ref"] (C12_Model.original_url ut_q_blank) =
  Some (bs "https://a.com/p") /\
  C14_Model.apply_removeparam [bs "ref"] (C12_Model.url ut_q_blank) = None /\
  relevant (C12_Model.original_url ut_q_blank) (bs "ref") = true /\
  relevant (C12_Model.url ut_q_blank) (bs "ref") = false.
Proof. exact trailing_blank_is_a_value. Qed.
Print Assumptions C14_trailing_blank_is_a_value.

