(* Props_C14.v — pinned statements for property C14 (removeparam removes exactly the named
   parameters and nothing else).  Only statements, `exact`, and Print Assumptions. *)
From Adb Require Import Base BaseProofs C14_Model C14_Proofs.

(* Every URL is covered by exactly one of the two cases below. *)
Theorem C14_url_split_total : forall url,
  no_query url \/ exists pre q post, url_split url pre q post.
Proof. exact url_split_total. Qed.
Print Assumptions C14_url_split_total.

Theorem C14_url_split_unique : forall url pre q post pre' q' post',
  url_split url pre q post -> url_split url pre' q' post' -> pre = pre' /\ q = q' /\ post = post'.
Proof. exact url_split_unique. Qed.
Print Assumptions C14_url_split_unique.

(* No '?' before the fragment: never a rewrite. *)
Theorem C14_no_query : forall names url, no_query url -> apply_removeparam names url = None.
Proof. exact removeparam_no_query. Qed.
Print Assumptions C14_no_query.

(* With url = pre ? q post: the result is None when no parameter is removed, otherwise pre,
   the kept parameters (in order, byte for byte, '&'-joined, '?' only if something is left), post. *)
Theorem C14_rewrite_spec : forall names url pre q post,
  url_split url pre q post ->
  apply_removeparam names url =
    (let ps := split_on AMP q in
     if forallb (kept names) ps then None
     else let p := join_with [AMP] (filter (kept names) ps) in
          Some (pre ++ (if null p then [] else QMARK :: p) ++ post)).
Proof. exact removeparam_split. Qed.
Print Assumptions C14_rewrite_spec.

(* The parameters of q re-joined are q: nothing but whole parameters is ever dropped. *)
Theorem C14_params_cover_query : forall q, join_with [AMP] (split_on AMP q) = q.
Proof. exact (join_split AMP). Qed.
Print Assumptions C14_params_cover_query.

(* Which parameters go: key=value with a non-empty value and key equal to a matching rule's name. *)
Theorem C14_removed_iff : forall names p,
  kept names p = false <->
  exists k v, p = k ++ EQS :: v /\ ~ In EQS k /\ v <> [] /\ In k names.
Proof.
  intros names p. unfold kept. rewrite Bool.negb_false_iff. exact (removed_iff names p).
Qed.
Print Assumptions C14_removed_iff.

(* The '?' disappears only when nothing (or one empty parameter) remains. *)
Theorem C14_qmark_dropped_iff : forall ks : list str,
  null (join_with [AMP] ks) = true <-> ks = [] \/ ks = [[]].
Proof. exact join_null_iff. Qed.
Print Assumptions C14_qmark_dropped_iff.

Theorem C14_no_rewrite_when_important : forall names url, rewritten_url true names url = None.
Proof. exact no_rewrite_when_important. Qed.
Print Assumptions C14_no_rewrite_when_important.

(* ------------------------------------------------------------------ translator tie: the control
   structure of src/blocker.rs as extracted on this run (Generated.BlockerGen) *)
From Coq Require Import String.
From Adb Require Import Generated Struct_Proofs.
Import Generated.BlockerGen.

(* the removeparam list is never fused (neither by Blocker::new nor by Blocker::optimize): every
   matching rule keeps its own parameter name; and the rewrite is guarded by `important` *)
Theorem C14_src_removeparam_never_optimized :
  named optimize_lists "removeparam" = false
  /\ forallb (fun x => negb (String.eqb (fst (fst x)) "removeparam" && snd x)) new_lists = true.
Proof. exact removeparam_never_optimized. Qed.
Print Assumptions C14_src_removeparam_never_optimized.

Theorem C14_src_rewrite_guard : rewrite_suppressed_by = "important"%string.
Proof. exact rewrite_guard_is_important. Qed.
Print Assumptions C14_src_rewrite_guard.

(* the parameter-name fallback of get_tokens: only for a rule with no other token, on a validated,
   lower-cased name (the whole function is tied to the model by C01_src_get_tokens_is_model) *)
From Adb Require Struct_Tokens_Proofs.
Theorem C14_src_param_fallback_guard :
  In ("param"%string, TokensGen.TAnd (TokensGen.TAtom TokensGen.T_tokens_empty) (TokensGen.TAtom TokensGen.T_removeparam)) TokensGen.steps
  /\ TokensGen.param_validated = true /\ TokensGen.param_lowercased = true.
Proof. exact Struct_Tokens_Proofs.param_fallback_guard. Qed.
Print Assumptions C14_src_param_fallback_guard.
