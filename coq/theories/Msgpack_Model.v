(* Msgpack_Model.v — the msgpack DECODER that goes with Wire_Model.encode: what
   `rmps::decode::from_slice::<DeserializeFormat>` (rmp-serde 0.15.5, src/decode.rs; serde derive)
   does on the payload of a serialized engine (src/data_format/v0.rs), in two layers:

     bytes --decode_mp--> mp tree --from_tree--> wire

   Layer 1 (`decode_mp`) reads one msgpack value from the front of a buffer and returns the rest.
   It accepts every encoding rmp reads for the value kinds Wire_Model.mp has — the minimal ones
   `encode` emits and the wider ones (uint8/16/32/64 for a small integer, str8/16/32, array16/32,
   map16/32) — so it is a left inverse of `encode` and not injective on bytes.  Everything else
   (floats, bin, ext, negative fixint, int8..int64, 0xc1) is refused.  Recursion is on a fuel
   argument; `mp_size t` fuel suffices for a tree t, and `2 * length b` suffices for a buffer b
   (Msgpack_Proofs.decode_fuel_mono / decode_fuel_enough: more fuel never changes an answer, and
   whatever any fuel decodes, `fuel_for b` decodes).

   Layer 2 (`from_tree`) reads the tree as the derived `Deserialize` impls read a *sequence*:
   structs are arrays of their fields in declaration order, enum variants are 1-entry maps
   index -> payload, Option is nil / the value.  `#[serde(default)]` on the last two fields of
   DeserializeFormat is modelled (17, 18 or 19 elements).

   What the real decoder accepts and this one does not (it is a sub-function of the real one on
   buffers whose elements are bytes; the theorems only claim what it does on the engine's own
   output and its truncations): integers written in the signed formats with a non-negative value,
   strings written as bin, structs written as maps keyed by field name, variants named by string,
   a struct array longer than the field list.  (Checked against the crate with harness c10 --replay:
   model-encoded bytes load; + trailing bytes load; array32 header loads; 17 fields load; a 2^32
   mask and every truncation are refused.)  What this one accepts and the real one refuses:
   strings that are not UTF-8, nesting deeper than rmp-serde's limit of 1024.
   Trailing bytes: `from_slice` = `from_read_ref` does NOT call `Deserializer::end`, so bytes after
   the first complete value are ignored; `decode_first` / `decode_wire` model exactly that, and
   `decode_all` is the strict codec-level notion used to state prefix-freeness.
   Definitions only. *)
From Adb Require Import Base Generated Wire_Model.
From Adb Require C10_Model.

(* ------------------------------------------------------------------ bytes *)
(* big-endian value of a byte list, most significant first *)
Fixpoint from_be (l : list N) (acc : N) : N :=
  match l with [] => acc | x :: r => from_be r (acc * 256 + x) end.

(* the first n elements and the rest; None when fewer than n are left.  Recursion on the buffer:
   a hostile 32-bit length costs at most the buffer's length *)
Fixpoint split_at (n : N) (b : list N) : option (list N * list N) :=
  if N.eqb n 0 then Some ([], b)
  else match b with
       | [] => None
       | x :: r => match split_at (N.pred n) r with
                   | Some (u, v) => Some (x :: u, v)
                   | None => None
                   end
       end.

Definition read_be (k : nat) (b : list N) : option (N * list N) :=
  match split_at (N.of_nat k) b with Some (u, v) => Some (from_be u 0, v) | None => None end.

(* ------------------------------------------------------------------ lead byte *)
(* where the integer / the length is: in the lead byte itself, or in the k bytes after it *)
Inductive src := Imm (n : N) | Ext (k : nat).
Inductive lead := LInt (s : src) | LStr (s : src) | LArr (s : src) | LMap (s : src)
                | LNil | LBool (b : bool) | LBad.

(* rmp::Marker::from_u8, restricted to the kinds of Wire_Model.mp *)
Definition lead_of (h : N) : lead :=
  if N.ltb h 128 then LInt (Imm h)                 (* positive fixint 0x00..0x7f *)
  else if N.ltb h 144 then LMap (Imm (h - 128))    (* fixmap 0x80..0x8f *)
  else if N.ltb h 160 then LArr (Imm (h - 144))    (* fixarray 0x90..0x9f *)
  else if N.ltb h 192 then LStr (Imm (h - 160))    (* fixstr 0xa0..0xbf *)
  else if N.eqb h 192 then LNil                    (* 0xc0 *)
  else if N.eqb h 194 then LBool false             (* 0xc2 *)
  else if N.eqb h 195 then LBool true              (* 0xc3 *)
  else if N.eqb h 204 then LInt (Ext 1)            (* uint8 0xcc *)
  else if N.eqb h 205 then LInt (Ext 2)            (* uint16 *)
  else if N.eqb h 206 then LInt (Ext 4)            (* uint32 *)
  else if N.eqb h 207 then LInt (Ext 8)            (* uint64 *)
  else if N.eqb h 217 then LStr (Ext 1)            (* str8 0xd9 *)
  else if N.eqb h 218 then LStr (Ext 2)            (* str16 *)
  else if N.eqb h 219 then LStr (Ext 4)            (* str32 *)
  else if N.eqb h 220 then LArr (Ext 2)            (* array16 0xdc *)
  else if N.eqb h 221 then LArr (Ext 4)            (* array32 *)
  else if N.eqb h 222 then LMap (Ext 2)            (* map16 0xde *)
  else if N.eqb h 223 then LMap (Ext 4)            (* map32 *)
  else LBad.   (* 0xc1, bin 0xc4-6, ext 0xc7-9 / 0xd4-8, float 0xca-b, int 0xd0-3, negative fixint 0xe0.. *)

Definition get_len (s : src) (b : list N) : option (N * list N) :=
  match s with Imm n => Some (n, b) | Ext k => read_be k b end.

(* ------------------------------------------------------------------ one value *)
Fixpoint decode_mp (fuel : nat) (b : list N) {struct fuel} : option (mp * list N) :=
  match fuel with
  | O => None
  | S f =>
    match b with
    | [] => None
    | h :: r =>
      match lead_of h with
      | LBad => None
      | LNil => Some (MNil, r)
      | LBool x => Some (MBool x, r)
      | LInt s => match get_len s r with Some (n, r') => Some (MInt n, r') | None => None end
      | LStr s =>
          match get_len s r with
          | Some (n, r') => match split_at n r' with Some (u, v) => Some (MStr u, v) | None => None end
          | None => None
          end
      | LArr s =>
          match get_len s r with
          | Some (n, r') => match decode_seq f n r' with Some (l, v) => Some (MArr l, v) | None => None end
          | None => None
          end
      | LMap s =>
          match get_len s r with
          | Some (n, r') => match decode_pairs f n r' with Some (l, v) => Some (MMap l, v) | None => None end
          | None => None
          end
      end
    end
  end
(* SeqAccess: `left` values one after the other *)
with decode_seq (fuel : nat) (n : N) (b : list N) {struct fuel} : option (list mp * list N) :=
  if N.eqb n 0 then Some ([], b)
  else match fuel with
       | O => None
       | S f =>
         match decode_mp f b with
         | Some (x, r) =>
             match decode_seq f (N.pred n) r with Some (l, v) => Some (x :: l, v) | None => None end
         | None => None
         end
       end
(* MapAccess: `left` times a key and a value *)
with decode_pairs (fuel : nat) (n : N) (b : list N) {struct fuel} : option (list (mp * mp) * list N) :=
  if N.eqb n 0 then Some ([], b)
  else match fuel with
       | O => None
       | S f =>
         match decode_mp f b with
         | Some (k, r) =>
             match decode_mp f r with
             | Some (x, r') =>
                 match decode_pairs f (N.pred n) r' with Some (l, v) => Some ((k, x) :: l, v) | None => None end
             | None => None
             end
         | None => None
         end
       end.

(* fuel that suffices for every buffer of that length (Msgpack_Proofs.decode_fuel_enough) *)
Definition fuel_for (b : list N) : nat := 2 * length b.

(* the first value of the buffer, whatever follows: rmps::decode::from_read_ref *)
Definition decode_first (b : list N) : option mp :=
  match decode_mp (fuel_for b) b with Some (t, _) => Some t | None => None end.
(* the buffer is exactly one value *)
Definition decode_all (b : list N) : option mp :=
  match decode_mp (fuel_for b) b with Some (t, []) => Some t | _ => None end.

(* ------------------------------------------------------------------ what the encoder's input must satisfy *)
(* u64 integers; u32 lengths (rmp writes `len as u32`) *)
Definition U64 : N := 18446744073709551616.
Definition U32 : N := 4294967296.
Definition len_ok {A} (l : list A) : bool := N.ltb (N.of_nat (length l)) U32.

Fixpoint mp_wf (t : mp) : bool :=
  match t with
  | MNil | MBool _ => true
  | MInt n => N.ltb n U64
  | MStr s => len_ok s
  | MArr l => len_ok l && forallb mp_wf l
  | MMap l => len_ok l && forallb (fun kv => mp_wf (fst kv) && mp_wf (snd kv)) l
  end.

(* fuel that suffices for the encoding of t *)
Fixpoint mp_size (t : mp) : nat :=
  match t with
  | MArr l => S ((fix go (l : list mp) := match l with [] => O | x :: r => S (mp_size x + go r) end) l)
  | MMap l => S ((fix go (l : list (mp * mp)) :=
                    match l with [] => O | (k, v) :: r => S (mp_size k + mp_size v + go r) end) l)
  | _ => 1%nat
  end.

Definition strict_prefix {A} (p b : list A) : Prop := exists q, q <> [] /\ b = p ++ q.

(* ------------------------------------------------------------------ tree -> wire *)
Definition obind {A B} (x : option A) (f : A -> option B) : option B :=
  match x with Some a => f a | None => None end.
Local Notation "x <- e ;; k" := (obind e (fun x => k)) (at level 61, e at next level, right associativity).

Definition f_int (t : mp) : option N := match t with MInt n => Some n | _ => None end.
Definition f_u32 (t : mp) : option N :=
  match t with MInt n => if N.ltb n U32 then Some n else None | _ => None end.
Definition f_str (t : mp) : option str := match t with MStr s => Some s | _ => None end.
Definition f_bool (t : mp) : option bool := match t with MBool b => Some b | _ => None end.
Definition f_opt {A} (f : mp -> option A) (t : mp) : option (option A) :=
  match t with MNil => Some None | _ => match f t with Some x => Some (Some x) | None => None end end.

Fixpoint f_each {A} (f : mp -> option A) (l : list mp) : option (list A) :=
  match l with
  | [] => Some []
  | x :: r => y <- f x;; ys <- f_each f r;; Some (y :: ys)
  end.
Definition f_list {A} (f : mp -> option A) (t : mp) : option (list A) :=
  match t with MArr l => f_each f l | _ => None end.
Fixpoint f_entries {K V} (fk : mp -> option K) (fv : mp -> option V) (l : list (mp * mp)) : option (list (K * V)) :=
  match l with
  | [] => Some []
  | (k, v) :: r => k' <- fk k;; v' <- fv v;; ys <- f_entries fk fv r;; Some ((k', v') :: ys)
  end.
(* HashMap<K, V>: the entries in the order read (Wire_Model: an association list in some order) *)
Definition f_map {K V} (fk : mp -> option K) (fv : mp -> option V) (t : mp) : option (list (K * V)) :=
  match t with MMap l => f_entries fk fv l | _ => None end.
(* a struct with one field *)
Definition f_one {A} (f : mp -> option A) (t : mp) : option A :=
  match t with MArr [x] => f x | _ => None end.
Definition f_two {A B} (fa : mp -> option A) (fb : mp -> option B) (t : mp) : option (A * B) :=
  match t with MArr [x; y] => a <- fa x;; b <- fb y;; Some (a, b) | _ => None end.
(* an enum value: 1-entry map, variant index -> payload *)
Definition f_variant (t : mp) : option (N * mp) :=
  match t with MMap [(MInt idx, p)] => Some (idx, p) | _ => None end.

Definition f_filter_part (t : mp) : option filter_part :=
  ip <- f_variant t;;
  let (idx, p) := ip in
  if N.eqb idx 0 then match p with MNil => Some FEmpty | _ => None end
  else if N.eqb idx 1 then s <- f_str p;; Some (FSimple s)
  else if N.eqb idx 2 then l <- f_list f_str p;; Some (FAnyOf l)
  else None.

Definition f_legacy (t : mp) : option legacy :=
  ip <- f_variant t;;
  let (idx, p) := ip in
  if N.eqb idx 0 then s <- f_str p;; Some (LHide s)
  else if N.eqb idx 1 then s <- f_str p;; Some (LUnhide s)
  else if N.eqb idx 2 then ab <- f_two f_str f_str p;; Some (LStyle (fst ab) (snd ab))
  else if N.eqb idx 3 then ab <- f_two f_str f_str p;; Some (LUnhideStyle (fst ab) (snd ab))
  else if N.eqb idx 4 then s <- f_str p;; Some (LInject s)
  else if N.eqb idx 5 then s <- f_str p;; Some (LUninject s)
  else None.

(* NetworkFilterV0DeserializeFmt: mask is a transparent u32, _bug an Option<u32>, the rest u64 *)
Definition f_wrule (t : mp) : option wrule :=
  match t with
  | MArr [a; b; c; d; e; f; g; h; i; j; k; l; m] =>
      mask <- f_u32 a;; filter <- f_filter_part b;;
      od <- f_opt (f_list f_int) c;; ond <- f_opt (f_list f_int) d;;
      redirect <- f_opt f_str e;; hostname <- f_opt f_str f;; csp <- f_opt f_str g;;
      bug <- f_opt f_u32 h;; tag <- f_opt f_str i;; raw <- f_opt f_str j;;
      id <- f_int k;; du <- f_opt f_int l;; ndu <- f_opt f_int m;;
      Some {| w_mask := mask; w_filter := filter; w_opt_domains := od; w_opt_not_domains := ond;
              w_redirect := redirect; w_hostname := hostname; w_csp := csp; w_bug := bug;
              w_tag := tag; w_raw := raw; w_id := id; w_dunion := du; w_ndunion := ndu |}
  | _ => None
  end.

Definition f_wlist : mp -> option wlist := f_one (f_map f_int (f_list f_wrule)).
Definition f_nstrs : mp -> option (list (N * list str)) := f_map f_int (f_list f_str).
Definition f_sstrs : mp -> option (list (str * list str)) := f_map f_str (f_list f_str).

(* the 17 fields without `#[serde(default)]`, then the two with it *)
Definition from_fields (x : list mp) (proc proc_exc : list (N * list str)) : option wire :=
  match x with
  | [a; b; c; d; e; f; g; h; i; j; k; l; m; n; o; p; q] =>
      csp <- f_wlist a;; exceptions <- f_wlist b;; importants <- f_wlist c;;
      redirects <- f_wlist d;; filters_tagged <- f_wlist e;; filters <- f_wlist f;;
      generic_hide <- f_wlist g;; tagged_all <- f_list f_wrule h;; opt <- f_bool i;;
      resources <- f_one (f_map f_str (f_two f_str f_str)) j;;
      simple_class <- f_list f_str k;; simple_id <- f_list f_str l;;
      complex_class <- f_sstrs m;; complex_id <- f_sstrs n;;
      specific <- f_one (f_map f_int (f_list f_legacy)) o;;
      misc <- f_list f_str p;;
      scriptlets <- f_one (f_map f_str (f_one f_str)) q;;
      Some {| wi_csp := csp; wi_exceptions := exceptions; wi_importants := importants;
              wi_redirects := redirects; wi_filters_tagged := filters_tagged; wi_filters := filters;
              wi_generic_hide := generic_hide; wi_tagged_all := tagged_all; wi_opt := opt;
              wi_resources := resources; wi_simple_class := simple_class; wi_simple_id := simple_id;
              wi_complex_class := complex_class; wi_complex_id := complex_id; wi_specific := specific;
              wi_misc := misc; wi_scriptlets := scriptlets; wi_proc := proc; wi_proc_exc := proc_exc |}
  | _ => None
  end.

Definition from_tree (t : mp) : option wire :=
  match t with
  | MArr x =>
      match drop 17%nat x with
      | [] => from_fields x [] []                                          (* both defaulted *)
      | [r] => proc <- f_nstrs r;; from_fields (take 17%nat x) proc []
      | [r; s] => proc <- f_nstrs r;; proc_exc <- f_nstrs s;; from_fields (take 17%nat x) proc proc_exc
      | _ => None
      end
  | _ => None
  end.

(* rmps::decode::from_slice::<DeserializeFormat>, Err = None *)
Definition decode_wire (b : list N) : option wire := obind (decode_first b) from_tree.

(* DeserializeFormat::deserialize on a whole buffer, errors and panics collapsed to None *)
Definition decode_wire_bytes (b : list N) : option wire :=
  match C10_Model.header_dispatch b with
  | Ok (C10_Model.DDecode p) => decode_wire p
  | _ => None
  end.

(* ------------------------------------------------------------------ premise of the typed round trip *)
(* the u32 fields of a rule *)
Definition wrule_u32 (w : wrule) : bool :=
  N.ltb (w_mask w) U32 && match w_bug w with Some n => N.ltb n U32 | None => true end.
Definition wire_rules (w : wire) : list wrule :=
  flat_map (fun l : wlist => flat_map snd l)
    [wi_csp w; wi_exceptions w; wi_importants w; wi_redirects w; wi_filters_tagged w; wi_filters w;
     wi_generic_hide w] ++ wi_tagged_all w.
(* every integer fits its Rust type and every length fits u32: what `rmps::encode::write` needs to
   write the value it was given *)
Definition wire_fits (w : wire) : bool := mp_wf (wire_tree w) && forallb wrule_u32 (wire_rules w).
