(* Props_C07.v — pinned statements for C07: tagged rules are active exactly when their tag is
   enabled; the tag mutators are set assignment / union / difference; reload keeps the set. *)
From Adb Require Import Base Generated Hashing Net_Model Net_Proofs C07_Model C07_Proofs.
From Adb Require Struct_Tags_Proofs.
From Coq Require Import String.

Theorem C07_use_tags_assign : forall h b ts t, tag_exists (use_tags h b ts) t = mem_str t ts.
Proof. exact use_tags_assign. Qed.
Print Assumptions C07_use_tags_assign.

Theorem C07_enable_tags_union : forall h b ts t,
  tag_exists (enable_tags h b ts) t = mem_str t ts || tag_exists b t.
Proof. exact enable_tags_union. Qed.
Print Assumptions C07_enable_tags_union.

Theorem C07_disable_tags_diff : forall h b ts t,
  tag_exists (disable_tags h b ts) t = tag_exists b t && negb (mem_str t ts).
Proof. exact disable_tags_diff. Qed.
Print Assumptions C07_disable_tags_diff.

Theorem C07_deserialize_keeps_tags : forall h cur fresh t,
  tag_exists (engine_deserialize h cur fresh) t = tag_exists cur t.
Proof. exact deserialize_keeps_tags. Qed.
Print Assumptions C07_deserialize_keeps_tags.

(* any history of use/enable/disable/reload: the tag query answers membership in the set computed
   by plain set algebra *)
Theorem C07_tag_exists_after_history : forall h L ops t,
  tag_exists (run_ops h L ops) t = mem_str t (set_ops ops).
Proof. exact tag_exists_after_history. Qed.
Print Assumptions C07_tag_exists_after_history.

(* a tagged rule (any category that reads the enabled set: blocking, exception, important, csp)
   takes part iff its tag is enabled *)
Theorem C07_tagged_rule_active_iff : forall matches T f t,
  rtag f = Some t -> act matches T f = matches f && mem_str t T.
Proof. exact tagged_rule_active_iff. Qed.
Print Assumptions C07_tagged_rule_active_iff.

Theorem C07_untagged_rule_active : forall matches T f, rtag f = None -> act matches T f = matches f.
Proof. exact untagged_rule_active. Qed.
Print Assumptions C07_untagged_rule_active.

Theorem C07_verdict_set_semantics : forall matches L T1 T2,
  (forall t, mem_str t T1 = mem_str t T2) -> spec_verdict matches L T1 = spec_verdict matches L T2.
Proof. exact spec_verdict_set_semantics. Qed.
Print Assumptions C07_verdict_set_semantics.

(* blocking / exception / important categories, after any history *)
Theorem C07_verdict_after_history : forall h matches pr, In 0 pr -> forall L ops,
  id_inj L -> TG h matches pr L ->
  blocker_check matches pr (run_ops h L ops) = spec_verdict matches L (set_ops ops).
Proof. exact verdict_after_history. Qed.
Print Assumptions C07_verdict_after_history.

(* the subset entry point (Engine::check_network_request_subset) reads the same enabled set on
   every path: exceptions consulted because an earlier engine matched or because the caller forces
   it are tag-filtered like any other *)
Theorem C07_verdict_after_history_subset : forall h matches pr, In 0 pr -> forall mr fc L ops,
  id_inj L -> TG h matches pr L ->
  blocker_check_p matches pr mr fc (run_ops h L ops) = spec_verdict_p matches mr fc L (set_ops ops).
Proof. exact verdict_after_history_p. Qed.
Print Assumptions C07_verdict_after_history_subset.

Theorem C07_forced_exception_reads_tags : forall matches fc L T,
  spec_verdict_p matches true fc L T
  = let imp := existsb (act matches T) (of_cat CImportant L) in
    let exc := existsb (act matches T) (of_cat CException L) in
    {| v_matched := imp || negb exc; v_important := imp; v_exception := negb imp && exc; v_filter := imp |}.
Proof. exact forced_exception_reads_tags. Qed.
Print Assumptions C07_forced_exception_reads_tags.

(* csp category, after any history *)
Theorem C07_csp_hits_after_history : forall h matches pr, In 0 pr -> forall L ops f,
  id_inj L -> TG h matches pr L ->
  (In f (csp_hits matches pr (run_ops h L ops)) <-> In f (filter (act matches (set_ops ops)) (of_cat CCsp L))).
Proof. exact csp_hits_after_history. Qed.
Print Assumptions C07_csp_hits_after_history.

(* ------------------------------------------------------------------ translator tie: the control
   structure of src/blocker.rs as extracted on this run (Generated.BlockerGen, written by
   tools/gen_fragments/c01_blocker_structure.py) denotes the hand-written model *)
From Coq Require Import String.
From Adb Require Import Struct_Proofs.
Import Generated.BlockerGen.

(* which list queries receive the enabled tag set: importants, filters_tagged, exceptions on BOTH
   call sites, csp; filters / redirects / removeparam / generic_hide get the empty set *)
Theorem C07_src_tag_sites :
  site_uses_tags "check_parameterised" "importants" = [true]
  /\ site_uses_tags "check_parameterised" "filters_tagged" = [true]
  /\ site_uses_tags "check_parameterised" "filters" = [false]
  /\ site_uses_tags "check_parameterised" "exceptions" = [true; true]
  /\ site_uses_tags "check_parameterised" "redirects" = [false]
  /\ site_uses_tags "get_csp_directives" "csp" = [true]
  /\ site_uses_tags "check_generic_hide" "generic_hide" = [true]
  /\ site_uses_tags "apply_removeparam" "removeparam_filters" = [false]
  /\ removeparam_source = "removeparam"%string
  /\ List.length tag_sites = 9%nat.
Proof. exact tag_sites_are_model. Qed.
Print Assumptions C07_src_tag_sites.

(* the tag set every list of check_parameterised receives, as extracted from the call sites, is
   the one the model's verdict uses: the whole extracted precedence logic denotes blocker_check_p *)
From Adb Require Struct_Check_Proofs.
Theorem C07_src_check_is_model : forall (matches : rule -> bool) (pr : list N) (mr fc : bool) (b : blocker),
  Struct_Check_Proofs.interp_check matches pr mr fc b = blocker_check_p matches pr mr fc b.
Proof. exact Struct_Check_Proofs.interp_check_is_model. Qed.
Print Assumptions C07_src_check_is_model.

(* ---- the tag operations of src/blocker.rs and their forwarders in src/engine.rs, as the
   translator extracts them on every run (Generated.TagGen), interpreted over the model ---- *)
Theorem C07_src_tag_ops_are_model :
  forall (h : str -> N) (b : blocker) (ts : list str) (t : str),
  Struct_Tags_Proofs.set_denotes TagGen.use_tags_set (fun x : str => mem_str x ts) (tag_exists b) t =
  Some (tag_exists (use_tags h b ts) t) /\
  Struct_Tags_Proofs.set_denotes TagGen.enable_tags_set (fun x : str => mem_str x ts) (tag_exists b) t =
  Some (tag_exists (enable_tags h b ts) t) /\
  Struct_Tags_Proofs.set_denotes TagGen.disable_tags_set (fun x : str => mem_str x ts) (tag_exists b) t =
  Some (tag_exists (disable_tags h b ts) t).
Proof. exact Struct_Tags_Proofs.tag_ops_are_model. Qed.
Print Assumptions C07_src_tag_ops_are_model.

Theorem C07_src_engine_forwards :
  forall (h : str -> N) (n m : string) (b : blocker) (ts : list str) (t : str)
    (f g : blocker -> list str -> blocker),
  In (n, m) TagGen.engine_forwards ->
  Struct_Tags_Proofs.op_named h m = Some f ->
  Struct_Tags_Proofs.op_named h n = Some g ->
  tag_exists (f b ts) t = tag_exists (g b ts) t /\
  Struct_Tags_Proofs.set_denotes (Struct_Tags_Proofs.set_of_op n) (fun x : str => mem_str x ts) (tag_exists b) t =
  Some (tag_exists (f b ts) t).
Proof. exact Struct_Tags_Proofs.engine_forwards_to_same_op. Qed.
Print Assumptions C07_src_engine_forwards.

Theorem C07_src_tags_with_set_is_model :
  forall (h : str -> N) (b : blocker) (T : list str),
  TagGen.tws_first_assigns_enabled = true /\
  TagGen.tws_rebuilds = "filters_tagged"%string /\
  TagGen.tws_clears_regex_cache = true /\
  b_tags (tags_with_set h b T) = T /\
  match Struct_Tags_Proofs.source_named TagGen.tws_source b with
  | Some src =>
      Some
        (fl_new h
           (filter
              (fun f : rule =>
               match Struct_Tags_Proofs.keep_denotes TagGen.tws_keep T f with
               | Some v => v
               | None => false
               end) src))
  | None => None
  end = Some (b_tagged (tags_with_set h b T)) /\
  b_tagged_all (tags_with_set h b T) = b_tagged_all b /\
  b_filters (tags_with_set h b T) = b_filters b /\
  b_exceptions (tags_with_set h b T) = b_exceptions b /\
  b_importants (tags_with_set h b T) = b_importants b /\
  b_redirects (tags_with_set h b T) = b_redirects b /\
  b_csp (tags_with_set h b T) = b_csp b /\
  b_removeparam (tags_with_set h b T) = b_removeparam b /\
  b_generic_hide (tags_with_set h b T) = b_generic_hide b.
Proof. exact Struct_Tags_Proofs.tags_with_set_is_model. Qed.
Print Assumptions C07_src_tags_with_set_is_model.


(* "loading a serialized engine keeps the caller's enabled set": Engine::deserialize as re-read from
   src/engine.rs on every run (Generated.LoadGen), run over the wire-level engine model — after an
   accepted load the enabled set is the caller's, after a rejected one the engine is untouched *)
From Adb Require Wire_Model Struct_Load_Proofs.
Theorem C07_src_load_keeps_callers_tags :
  forall (build_list : list Wire_Model.rule -> bool -> Wire_Model.bucket_map)
         (e : Wire_Model.engine) (w : Wire_Model.wire) (e' : Wire_Model.engine),
  Struct_Load_Proofs.interp_load build_list e (Some w) = Some (e', true) ->
  Wire_Model.b_tags_enabled (Wire_Model.e_blocker e') = Wire_Model.b_tags_enabled (Wire_Model.e_blocker e).
Proof. exact Struct_Load_Proofs.load_keeps_callers_tags. Qed.
Print Assumptions C07_src_load_keeps_callers_tags.

Theorem C07_src_rejected_load_changes_nothing :
  forall (build_list : list Wire_Model.rule -> bool -> Wire_Model.bucket_map) (e : Wire_Model.engine),
  Struct_Load_Proofs.interp_load build_list e None = Some (e, false).
Proof. exact Struct_Load_Proofs.rejected_load_changes_nothing. Qed.
Print Assumptions C07_src_rejected_load_changes_nothing.
