(* C13_Model.v — L1 model of the redirect part of Blocker::check_parameterised (src/blocker.rs):
   split_redirect_priority incl. Rust's i32 parser, the two loops that pick the resource, the
   category assignment of Blocker::new, ResourceStorage::add_resource / get_internal_resource /
   get_redirect_resource (src/resources/resource_storage.rs) with the translated MIME and
   supports_redirect tables, and the L0 vocabulary.  Definitions only. *)
From Coq Require Import ZArith.
From Adb Require Import Base Generated.
Export C13Gen.

Definition COLON : N := 58.  Definition PLUS : N := 43.  Definition MINUS : N := 45.

(* ================================================================ i32::from_str (core::num) *)
Definition I32_MAX : Z := 2147483647.
Definition I32_MIN : Z := (-2147483648)%Z.
Definition digit_val (c : N) : Z := Z.of_N (c - 48).

(* positive branch: result = result.checked_mul(10)?.checked_add(d)? *)
Fixpoint parse_pos (acc : Z) (s : str) : option Z :=
  match s with
  | [] => Some acc
  | c :: r => if is_digit c
              then let acc' := (acc * 10 + digit_val c)%Z in
                   if (acc' >? I32_MAX)%Z then None else parse_pos acc' r
              else None
  end.
(* negative branch: result = result.checked_mul(10)?.checked_sub(d)? *)
Fixpoint parse_neg (acc : Z) (s : str) : option Z :=
  match s with
  | [] => Some acc
  | c :: r => if is_digit c
              then let acc' := (acc * 10 - digit_val c)%Z in
                   if (acc' <? I32_MIN)%Z then None else parse_neg acc' r
              else None
  end.
(* empty -> Err(Empty); a lone sign -> Err(InvalidDigit); one optional sign, then digits only *)
Definition parse_i32 (s : str) : option Z :=
  match s with
  | [] => None
  | c :: r =>
      if N.eqb c MINUS then match r with [] => None | _ => parse_neg 0 r end
      else if N.eqb c PLUS then match r with [] => None | _ => parse_pos 0 r end
      else parse_pos 0 s
  end.

(* ================================================================ split_redirect_priority *)
Definition split_redirect_priority (redirect : str) : str * Z :=
  match rfind_byte COLON redirect with
  | Some idx =>
      match parse_i32 (drop (S idx) redirect) with
      | Some p => (take idx redirect, p)
      | None => (redirect, 0%Z)
      end
  | None => (redirect, 0%Z)
  end.

(* ================================================================ the two loops *)
(* what the loops read of a rule delivered by redirects.check_all: is_exception(), modifier_option *)
Record redirect_rule := mk_rr { rr_exception : bool; rr_option : option str }.

(* first loop: names named by the matching exceptions *)
Fixpoint exception_names (fs : list redirect_rule) : list str :=
  match fs with
  | [] => []
  | f :: r =>
      if rr_exception f then
        match rr_option f with
        | Some s => fst (split_redirect_priority s) :: exception_names r
        | None => exception_names r
        end
      else exception_names r
  end.

(* `<` on &str: bytewise lexicographic *)
Fixpoint str_leb (a b : str) : bool :=
  match a, b with
  | [], _ => true
  | _ :: _, [] => false
  | x :: a', y :: b' => if N.ltb x y then true else if N.eqb x y then str_leb a' b' else false
  end.
Definition str_ltb (a b : str) : bool := negb (str_leb b a).

(* second loop; [cur] = resource_and_priority.  Since /repo 8ebf406 an offer replaces the current
   one when its priority is higher, or equal and its resource name sorts first: the choice no longer
   depends on the order in which the matching rules are delivered. *)
Fixpoint pick_loop (exceptions : list str) (fs : list redirect_rule) (cur : option (str * Z))
  : option (str * Z) :=
  match fs with
  | [] => cur
  | f :: r =>
      if rr_exception f then pick_loop exceptions r cur else
      match rr_option f with
      | None => pick_loop exceptions r cur
      | Some s =>
          let rp := split_redirect_priority s in
          if mem_str (fst rp) exceptions then pick_loop exceptions r cur else
          match cur with
          | Some (r1, p1) => if (snd rp >? p1)%Z || ((snd rp =? p1)%Z && str_ltb (fst rp) r1)
                             then pick_loop exceptions r (Some rp)
                             else pick_loop exceptions r cur
          | None => pick_loop exceptions r (Some rp)
          end
      end
  end.

Definition pick_redirect (matching : list redirect_rule) : option str :=
  match pick_loop (exception_names matching) matching None with
  | Some (res, _) => Some res
  | None => None
  end.

(* ================================================================ resource storage *)
Record resource := mk_res {
  r_name : str; r_aliases : list str; r_kind : resource_kind; r_content : str;
  r_has_deps : bool;            (* !dependencies.is_empty() *)
  r_content_ok : bool;          (* base64 decodes, and decodes to UTF-8 for textual MIME types
                                   (base64 / from_utf8 are third-party: supplied per resource) *)
  r_permission : N }.           (* PermissionMask(u8) *)

(* the two hash maps, as association lists (keys are unique by construction, see add_resource) *)
Record storage := mk_store { st_resources : list (str * resource); st_aliases : list (str * str) }.
Definition empty_store : storage := mk_store [] [].

Fixpoint assoc {A} (k : str) (l : list (str * A)) : option A :=
  match l with
  | [] => None
  | (k', v) :: r => if str_eqb k k' then Some v else assoc k r
  end.
Definition has_key {A} (k : str) (l : list (str * A)) : bool :=
  match assoc k l with Some _ => true | None => false end.

Definition supports_dependencies (k : resource_kind) : bool :=
  match k with Kind_Mime Mime_ApplicationJavascript | Kind_Mime Mime_FnJavascript => true | _ => false end.

(* ResourceStorage::add_resource; Err(..) leaves the store unchanged (from_resources ignores it) *)
Definition add_resource (st : storage) (r : resource) : storage :=
  let mime_checks :=
    match r_kind r with
    | Kind_Mime _ => negb (r_has_deps r && negb (supports_dependencies (r_kind r))) && r_content_ok r
    | Kind_Template => true
    end in
  if negb mime_checks then st else
  if existsb (fun ident => has_key ident (st_resources st) || has_key ident (st_aliases st))
             (r_name r :: r_aliases r)
  then st
  else mk_store ((r_name r, r) :: st_resources st)
                (map (fun a => (a, r_name r)) (r_aliases r) ++ st_aliases st).

Definition from_resources (rs : list resource) : storage := fold_left add_resource rs empty_store.

Definition get_internal_resource (st : storage) (ident : str) : option resource :=
  match assoc ident (st_resources st) with
  | Some r => Some r
  | None => match assoc ident (st_aliases st) with
            | Some canonical => assoc canonical (st_resources st)
            | None => None
            end
  end.

Definition data_url (m : mime_type) (content : str) : str :=
  bs data_url_prefix ++ bs (mime_to_string m) ++ bs data_url_infix ++ content ++ bs data_url_suffix.

Definition get_redirect_resource (st : storage) (ident : str) : option str :=
  match get_internal_resource st ident with
  | None => None
  | Some r =>
      if negb (N.eqb (r_permission r) 0) then None else
      if negb (supports_redirect (r_kind r)) then None else
      match r_kind r with
      | Kind_Mime m => Some (data_url m (r_content r))
      | Kind_Template => None
      end
  end.

(* BlockerResult.redirect *)
Definition redirect_of (st : storage) (matching : list redirect_rule) : option str :=
  match pick_redirect matching with
  | Some name => get_redirect_resource st name
  | None => None
  end.

(* ================================================================ category assignment (Blocker::new) *)
Record rule_shape := mk_shape { sh_mask : N; sh_tagged : bool }.
Definition flag (m f : N) : bool := negb (N.eqb (N.land m f) 0).
Definition is_redirect s := flag (sh_mask s) M_IS_REDIRECT.
Definition also_block_redirect s := flag (sh_mask s) M_ALSO_BLOCK_REDIRECT.
Definition is_csp s := flag (sh_mask s) M_IS_CSP.
Definition is_removeparam s := flag (sh_mask s) M_IS_REMOVEPARAM.
Definition is_generic_hide s := flag (sh_mask s) M_GENERIC_HIDE.
Definition is_exception s := flag (sh_mask s) M_IS_EXCEPTION.
Definition is_important s := flag (sh_mask s) M_IS_IMPORTANT.
Definition is_badfilter s := flag (sh_mask s) M_BAD_FILTER.

Inductive category := CatCsp | CatRemoveparam | CatGenericHide | CatExceptions | CatImportants
                    | CatTagged | CatFilters | CatNowhere.

(* the if-chain of the second loop of Blocker::new for a rule that is not skipped
   ([cancelled] = its id is among the $badfilter ids, or it is a $badfilter rule itself) *)
Definition category_of (s : rule_shape) : category :=
  if is_csp s then CatCsp
  else if is_removeparam s then CatRemoveparam
  else if is_generic_hide s then CatGenericHide
  else if is_exception s then CatExceptions
  else if is_important s && (negb (is_redirect s) || also_block_redirect s) then CatImportants
                                  (* a redirect-rule never blocks, important or not *)
  else if sh_tagged s && negb (is_redirect s) then CatTagged
  else if (is_redirect s && also_block_redirect s) || negb (is_redirect s) then CatFilters
  else CatNowhere.

(* `if filter.is_redirect() { redirects.push(filter.clone()) }` *)
Definition in_redirects (s : rule_shape) : bool := is_redirect s.

(* the lists whose match makes `filter` of check_parameterised Some(..), i.e. can block *)
Definition blocking_category (c : category) : bool :=
  match c with CatImportants | CatTagged | CatFilters => true | _ => false end.

(* what NetworkFilter::parse adds to the mask for the two options *)
Definition mask_redirect_option (m : N) : N := N.lor (N.lor m M_IS_REDIRECT) M_ALSO_BLOCK_REDIRECT.
Definition mask_redirect_rule_option (m : N) : N := N.lor m M_IS_REDIRECT.

(* `self.redirects.check_all(request, &NO_TAGS, ..)`: a rule is delivered to the two loops iff it
   matches and is untagged or its tag is in the tag set handed to check_all — which is empty *)
Definition delivered (matches : bool) (tag : option str) (active_tags : list str) : bool :=
  matches && match tag with None => true | Some t => mem_str t active_tags end.
Definition NO_TAGS : list str := [].

(* ================================================================ the verdict *)
(* The blocking side of check_parameterised, abstracted to what it computes: *)
Record blocking_side := mk_block { b_filter_matched : bool; b_filter_important : bool;
                                   b_exception_matched : bool; b_matched_rule : bool }.
Record verdict := mk_verdict { v_matched : bool; v_important : bool; v_redirect : option str }.

Definition check_verdict (is_supported : bool) (b : blocking_side) (st : storage)
                         (matching_redirects : list redirect_rule) : verdict :=
  if negb is_supported then mk_verdict false false None else
  mk_verdict (negb (b_exception_matched b) && (b_filter_matched b || b_matched_rule b))
             (b_filter_matched b && b_filter_important b)
             (redirect_of st matching_redirects).

(* ================================================================ L0 *)
(* hand-written tables (uBO resource documentation / IANA names) *)
Definition l0_mime_names : list (mime_type * string) := [
  (Mime_TextCss, "text/css"); (Mime_ImageGif, "image/gif"); (Mime_TextHtml, "text/html");
  (Mime_ApplicationJavascript, "application/javascript"); (Mime_ApplicationJson, "application/json");
  (Mime_AudioMp3, "audio/mp3"); (Mime_VideoMp4, "video/mp4"); (Mime_ImagePng, "image/png");
  (Mime_TextPlain, "text/plain"); (Mime_TextXml, "text/xml"); (Mime_FnJavascript, "fn/javascript");
  (Mime_Unknown, "application/octet-stream") ]%string.

(* a redirectable kind: real MIME content, i.e. neither a scriptlet template nor a fn/javascript
   dependency function *)
Definition l0_redirectable (k : resource_kind) : bool :=
  match k with
  | Kind_Template => false
  | Kind_Mime Mime_FnJavascript => false
  | Kind_Mime _ => true
  end.

Definition mime_eqb (a b : mime_type) : bool :=
  match a, b with
  | Mime_TextCss, Mime_TextCss | Mime_ImageGif, Mime_ImageGif | Mime_TextHtml, Mime_TextHtml
  | Mime_ApplicationJavascript, Mime_ApplicationJavascript | Mime_ApplicationJson, Mime_ApplicationJson
  | Mime_AudioMp3, Mime_AudioMp3 | Mime_VideoMp4, Mime_VideoMp4 | Mime_ImagePng, Mime_ImagePng
  | Mime_TextPlain, Mime_TextPlain | Mime_TextXml, Mime_TextXml | Mime_FnJavascript, Mime_FnJavascript
  | Mime_Unknown, Mime_Unknown => true
  | _, _ => false
  end.
Fixpoint l0_name_of (m : mime_type) (t : list (mime_type * string)) : option string :=
  match t with [] => None | (m', n) :: r => if mime_eqb m m' then Some n else l0_name_of m r end.
Fixpoint table_lookup (s : string) (t : list (string * mime_type)) : option mime_type :=
  match t with [] => None | (n, m) :: r => if String.eqb s n then Some m else table_lookup s r end.
(* From<&str> for MimeType *)
Definition mime_from_string (s : string) : mime_type :=
  match table_lookup s mime_from_string_table with Some m => m | None => mime_from_string_default end.

(* [name]/[p] is offered by a matching blocking-side rule (redirect= or redirect-rule=) *)
Definition offered (m : list redirect_rule) (name : str) (p : Z) : Prop :=
  exists s, In (mk_rr false (Some s)) m /\ split_redirect_priority s = (name, p).
(* a matching exception names the same resource (whatever priority suffix it carries) *)
Definition excepted (m : list redirect_rule) (name : str) : Prop :=
  exists s, In (mk_rr true (Some s)) m /\ fst (split_redirect_priority s) = name.
Definition candidate (m : list redirect_rule) (name : str) (p : Z) : Prop :=
  offered m name p /\ ~ excepted m name.

(* value of a digit string, most significant first *)
Definition digits_value (ds : str) : Z := fold_left (fun a c => (a * 10 + digit_val c)%Z) ds 0%Z.
Definition all_digits (ds : str) : bool := forallb is_digit ds.

(* the resource the store answers for [ident]: by canonical name, else through an alias *)
Definition loaded (st : storage) (ident : str) (r : resource) : Prop :=
  get_internal_resource st ident = Some r.

(* ================================================================ comparison helpers (cases) *)
Definition ostr_eqb := opt_eqb str_eqb.
Definition kind_of_string (template : bool) (mime : string) : resource_kind :=
  if template then Kind_Template else Kind_Mime (mime_from_string mime).
Definition category_code (c : category) : N :=
  match c with CatCsp => 0 | CatRemoveparam => 1 | CatGenericHide => 2 | CatExceptions => 3
             | CatImportants => 4 | CatTagged => 5 | CatFilters => 6 | CatNowhere => 7 end.
Definition cat_eqb (a b : category) : bool := N.eqb (category_code a) (category_code b).
Definition oz_eqb := opt_eqb Z.eqb.
Definition zlit (neg : bool) (n : N) : Z := if neg then Z.opp (Z.of_N n) else Z.of_N n.
