(* Props_C18.v — pinned statements for property C18 (scriptlet injection respects permissions and
   encodes arguments safely).  Only statements, `exact`, and Print Assumptions. *)
From Adb Require Import Base BaseProofs Generated C18_Model C18_Proofs.
Open Scope N_scope.

(* (1) The permission test is the bit-subset relation, for all 256 x 256 masks.  The expression is
   the one the translator extracted from PermissionMask::is_injectable_by. *)
Theorem C18_injectable_iff_subset : forall r f, r < 256 -> f < 256 ->
  (c18_is_injectable_by r f = true <-> forall i, N.testbit r i = true -> N.testbit f i = true).
Proof. exact injectable_iff_subset. Qed.
Print Assumptions C18_injectable_iff_subset.

(* (2) Central theorem.  For EVERY byte string a (in particular every valid UTF-8 argument; bytes
   >= 0x80 are copied through), the quoted form is an ECMAScript double-quoted literal whose value
   is exactly a, and the literal ends exactly where the emitted text ends, whatever text follows:
   no argument text can escape its literal. *)
Theorem C18_stringify_faithful : forall a,
  js_string_literal_parse (stringify_arg true a) = Some (a, []).
Proof. exact stringify_faithful. Qed.
Print Assumptions C18_stringify_faithful.

Theorem C18_stringify_faithful_in_context : forall a rest,
  js_string_literal_parse (stringify_arg true a ++ rest) = Some (a, rest).
Proof. exact stringify_faithful_ctx. Qed.
Print Assumptions C18_stringify_faithful_in_context.

(* The whole argument list of a function-style invocation reads back as the list of arguments. *)
Theorem C18_invocation_args_faithful : forall args, args <> [] ->
  parse_lits (length args)
             (join_with COMMA_SP (map (stringify_arg true) args) ++ [RPAR]) = Some args.
Proof. exact invocation_args_faithful. Qed.
Print Assumptions C18_invocation_args_faithful.

(* The unquoted form (template-style scriptlets): inside any double-quoted literal it contributes
   exactly the argument and leaves the recogniser inside the literal; scanned directly, it has no
   double quote and no control byte outside a backslash pair and no dangling backslash. *)
Theorem C18_stringify_unquoted_inside_literal : forall a rest,
  js_body (stringify_arg false a ++ rest) = push a (js_body rest).
Proof. exact stringify_unquoted_inside. Qed.
Print Assumptions C18_stringify_unquoted_inside_literal.

Theorem C18_stringify_unquoted_no_unescaped : forall a,
  no_unescaped (stringify_arg false a) = true.
Proof. exact stringify_unquoted_no_unescaped. Qed.
Print Assumptions C18_stringify_unquoted_no_unescaped.
