(* Props_C18.v — pinned statements for property C18 (scriptlet injection respects permissions and
   encodes arguments safely).  Only statements, `exact`, and Print Assumptions. *)
From Adb Require Import Base BaseProofs Generated C18_Model C18_Proofs.
Open Scope N_scope.

(* (1) The permission test is the bit-subset relation, for all 256 x 256 masks.  The expression is
   the one the translator extracted from PermissionMask::is_injectable_by. *)
Theorem C18_injectable_iff_subset : forall r f, r < 256 -> f < 256 ->
  (c18_is_injectable_by r f = true <-> forall i, N.testbit r i = true -> N.testbit f i = true).
Proof. exact injectable_iff_subset. Qed.
Print Assumptions C18_injectable_iff_subset.

(* (2) Central theorem.  For EVERY byte string a (in particular every valid UTF-8 argument; bytes
   >= 0x80 are copied through), the quoted form is an ECMAScript double-quoted literal whose value
   is exactly a, and the literal ends exactly where the emitted text ends, whatever text follows:
   no argument text can escape its literal. *)
Theorem C18_stringify_faithful : forall a,
  js_string_literal_parse (stringify_arg true a) = Some (a, []).
Proof. exact stringify_faithful. Qed.
Print Assumptions C18_stringify_faithful.

Theorem C18_stringify_faithful_in_context : forall a rest,
  js_string_literal_parse (stringify_arg true a ++ rest) = Some (a, rest).
Proof. exact stringify_faithful_ctx. Qed.
Print Assumptions C18_stringify_faithful_in_context.

(* The whole argument list of a function-style invocation reads back as the list of arguments. *)
Theorem C18_invocation_args_faithful : forall args, args <> [] ->
  parse_lits (length args)
             (join_with COMMA_SP (map (stringify_arg true) args) ++ [RPAR]) = Some args.
Proof. exact invocation_args_faithful. Qed.
Print Assumptions C18_invocation_args_faithful.

(* The unquoted form (template-style scriptlets): inside any double-quoted literal it contributes
   exactly the argument and leaves the recogniser inside the literal; scanned directly, it has no
   double quote and no control byte outside a backslash pair and no dangling backslash. *)
Theorem C18_stringify_unquoted_inside_literal : forall a rest,
  js_body (stringify_arg false a ++ rest) = push a (js_body rest).
Proof. exact stringify_unquoted_inside. Qed.
Print Assumptions C18_stringify_unquoted_inside_literal.

Theorem C18_stringify_unquoted_no_unescaped : forall a,
  no_unescaped (stringify_arg false a) = true.
Proof. exact stringify_unquoted_no_unescaped. Qed.
Print Assumptions C18_stringify_unquoted_no_unescaped.

(* Only ASCII changes: the bytes >= 0x80 of the argument appear in the output unchanged and in
   order, and nothing else >= 0x80 does; a valid UTF-8 argument therefore gives valid UTF-8 text. *)
Theorem C18_stringify_high_bytes_preserved : forall q a,
  filter high (stringify_arg q a) = filter high a.
Proof. exact stringify_high_bytes. Qed.
Print Assumptions C18_stringify_high_bytes_preserved.

(* (3) deps_gate.  Every resource body that ends up in the injected script (the scriptlet of a
   function-style injection and every transitive dependency, also those collected before an
   injection was finally refused) is a stored resource whose required permission bits were all
   granted to the mask of one of the injections that pulled it in. *)
Theorem C18_deps_gate : forall st injections r,
  In r (fst (gsr_fold st injections [] [])) ->
  exists s mask, In (s, mask) injections /\ In r (st_res st) /\
                 c18_is_injectable_by (r_perm r) mask = true.
Proof. exact deps_gate. Qed.
Print Assumptions C18_deps_gate.

(* the same for one call: whatever get_scriptlet_resource adds to required_deps passed the gate of
   this rule's mask, whether it returns Ok or Err *)
Theorem C18_scriptlet_deps_gate : forall st text mask deps r,
  In r (fst (get_scriptlet_resource st text mask deps)) ->
  In r deps \/ (In r (st_res st) /\ c18_is_injectable_by (r_perm r) mask = true).
Proof. exact scriptlet_deps_gate. Qed.
Print Assumptions C18_scriptlet_deps_gate.

(* a successful invocation: the named scriptlet (".js" added, aliases resolved) exists, passed the
   gate, has an injectable kind, and the emitted text is fname("arg", ..) with the stringified
   arguments of the rule, or the template with the unquoted forms patched in *)
Theorem C18_invocation_gate : forall st text mask deps deps' inv,
  get_scriptlet_resource st text mask deps = (deps', SOk inv) ->
  exists name args r0,
    parse_scriptlet_args text = Some (name :: args) /\
    get_internal_resource st (with_js_extension name) = Some r0 /\
    c18_is_injectable_by (r_perm r0) mask = true /\
    c18_supports_scriptlet_injection (r_kind r0) = true /\
    ((exists fname, r_fname r0 = Some fname /\ inv = invocation fname args /\
                    has_name (r_name r0) deps' = true) \/
     (exists template, r_decoded r0 = Text template /\ r_fname r0 = None /\
                       inv = patch_template_scriptlet template (map (stringify_arg false) args))).
Proof. exact scriptlet_ok_inv. Qed.
Print Assumptions C18_invocation_gate.

(* (4) deps_terminate.  Fuel = number of stored resources + 1 is never exhausted, for every store
   (cycles, aliases, missing names) and every visited list: each descent adds a resource whose
   canonical name was not visited; the visited names stay distinct. *)
Theorem C18_deps_terminate : forall st n prev mask,
  snd (recursive_dependencies (S (length (st_res st))) st n prev mask) <> Some OutOfFuel.
Proof. exact deps_terminate. Qed.
Print Assumptions C18_deps_terminate.

Theorem C18_scriptlet_never_out_of_fuel : forall st text mask deps,
  snd (get_scriptlet_resource st text mask deps) <> SErr OutOfFuel.
Proof. exact scriptlet_never_out_of_fuel. Qed.
Print Assumptions C18_scriptlet_never_out_of_fuel.

Theorem C18_visited_grows_distinct : forall fuel st n prev mask,
  incl prev (fst (recursive_dependencies fuel st n prev mask)) /\
  (NoDup (map r_name prev) ->
   NoDup (map r_name (fst (recursive_dependencies fuel st n prev mask)))).
Proof. exact visited_grows_distinct. Qed.
Print Assumptions C18_visited_grows_distinct.

(* (5) redirect_refuses_permissioned: a redirect is served only for a resource that requires no
   permission (and whose kind supports redirects). *)
Theorem C18_redirect_refuses_permissioned : forall st ident r,
  get_internal_resource st ident = Some r -> r_perm r <> 0 -> get_redirect_resource st ident = None.
Proof. exact redirect_refuses_permissioned. Qed.
Print Assumptions C18_redirect_refuses_permissioned.

Theorem C18_redirect_only_unpermissioned : forall st ident out,
  get_redirect_resource st ident = Some out ->
  exists r, get_internal_resource st ident = Some r /\ r_perm r = 0 /\
            c18_supports_redirect (r_kind r) = true.
Proof. exact redirect_some. Qed.
Print Assumptions C18_redirect_only_unpermissioned.

(* (6) the per-host merge, completely characterised: the text x is injected iff some applicable
   rule asks for exactly x, no applicable exception has exactly the text x, and no blanket
   exception applies; its mask is the union of the masks of the rules with text x; each text is
   injected once. *)
Theorem C18_host_injections_spec : forall injs excs x m,
  In (x, m) (host_injections injs excs) <->
  requested injs x /\ ~ In x excs /\ ~ blanket excs /\ m = union_mask injs x.
Proof. exact host_injections_spec. Qed.
Print Assumptions C18_host_injections_spec.

Theorem C18_exception_exact : forall injs excs x,
  In x (map fst (host_injections injs excs)) <-> requested injs x /\ ~ In x excs /\ ~ blanket excs.
Proof. exact exception_exact. Qed.
Print Assumptions C18_exception_exact.

Theorem C18_blanket_exception_all : forall injs excs,
  In [] excs -> host_injections injs excs = [].
Proof. exact blanket_exception_all. Qed.
Print Assumptions C18_blanket_exception_all.

Theorem C18_host_injections_once : forall injs excs, NoDup (map fst (host_injections injs excs)).
Proof. exact host_injections_nodup. Qed.
Print Assumptions C18_host_injections_once.

(* The gate at host level, in whatever order the HashMap is iterated: per MERGED mask (F18). *)
Theorem C18_host_deps_gate_merged : forall st injs excs order r,
  Permutation.Permutation order (host_injections injs excs) ->
  In r (fst (gsr_fold st order [] [])) ->
  exists x, requested injs x /\ ~ In x excs /\ ~ blanket excs /\ In r (st_res st) /\
            c18_is_injectable_by (r_perm r) (union_mask injs x) = true.
Proof. exact host_deps_gate. Qed.
Print Assumptions C18_host_deps_gate_merged.

(* The property as stated (the list that wrote the rule was granted the bits) holds outside the
   known-finding class F18 = the same argument text requested by lists with different masks. *)
Theorem C18_host_deps_gate : forall st injs excs order r,
  mixed_masks injs = false ->
  Permutation.Permutation order (host_injections injs excs) ->
  In r (fst (gsr_fold st order [] [])) ->
  exists x m, In (x, m) injs /\ ~ In x excs /\ ~ blanket excs /\ In r (st_res st) /\
              c18_is_injectable_by (r_perm r) m = true.
Proof. exact host_deps_gate_single. Qed.
Print Assumptions C18_host_deps_gate.

(* F18 is real: masks 01 and 10, resource requires 11, injected under the union. *)
Theorem C18_permission_union_refuted :
  exists st injs r,
    mixed_masks injs = true /\
    In r (fst (gsr_fold st (host_injections injs []) [] [])) /\
    (forall x m, In (x, m) injs -> c18_is_injectable_by (r_perm r) m = false) /\
    c18_is_injectable_by (r_perm r) (union_mask injs (bs "p")) = true.
Proof. exact permission_union_refuted. Qed.
Print Assumptions C18_permission_union_refuted.

(* Outside F25's class — an injection evaluated on an EMPTY visited list (no other injection of
   the host shares the collected dependencies) — the statement holds at full strength: when the
   injection succeeds, the collected set is closed under dependencies (every dependency name of
   every member, and of the scriptlet, resolves by canonical name to a member) and every member
   passed the gate of this rule's own mask.  So the scriptlet and ALL its transitive dependencies
   were granted to the list that wrote the rule. *)
Theorem C18_closure_gate_alone : forall st text mask deps' inv,
  get_scriptlet_resource st text mask [] = (deps', SOk inv) ->
  exists name args r0,
    parse_scriptlet_args text = Some (name :: args) /\
    get_internal_resource st (with_js_extension name) = Some r0 /\
    c18_is_injectable_by (r_perm r0) mask = true /\
    deps_in st mask r0 deps' /\
    forall r, In r deps' ->
      In r (st_res st) /\ c18_is_injectable_by (r_perm r) mask = true /\ deps_in st mask r deps'.
Proof. exact closure_gate_alone. Qed.
Print Assumptions C18_closure_gate_alone.

(* F25 (found here): the gate is applied to each resource when it is first collected, not to the
   dependency closure of each invocation.  A rule whose list lacks a bit required by a transitive
   dependency is refused when evaluated alone, and accepted after another rule has collected the
   intermediate dependency; in the other order the privileged rule is invoked without its
   dependency.  ("Every invocation's whole dependency closure passed the gate of its own mask" is
   false when the visited list is shared between injections; these are the witnesses.) *)
Theorem C18_visited_dependency_skips_gate_refuted :
  exists st,
    snd (get_scriptlet_resource st (bs "b") 0 []) = SErr InsufficientPermissions /\
    exists inv, snd (get_scriptlet_resource st (bs "b") 0
                       (fst (get_scriptlet_resource st (bs "a") 1 []))) = SOk inv.
Proof. exact visited_dependency_skips_gate_refuted. Qed.
Print Assumptions C18_visited_dependency_skips_gate_refuted.

Theorem C18_injection_order_matters_refuted :
  exists st i1 i2,
    has_name (bs "y.js") (fst (gsr_fold st [i2; i1] [] [])) = false /\
    has_name (bs "y.js") (fst (gsr_fold st [i1; i2] [] [])) = true /\
    snd (gsr_fold st [i2; i1] [] []) <> [] /\
    get_scriptlet_resources st [i1; i2] <> get_scriptlet_resources st [i2; i1].
Proof. exact injection_order_matters_refuted. Qed.
Print Assumptions C18_injection_order_matters_refuted.

(* ---- the permission gate and the dependency walk, re-read from src/resources/resource_storage.rs
   on every run (tools/gen_fragments/c18_deps_structure.py -> Generated.DepsGen): the statements of
   `recursive_dependencies` in source order, interpreted with the model in the place of the
   recursive calls, ARE one unfolding of the model (the fixpoint equation); the gate comes before the
   "already collected" test, so every dependency that is reached is gated. ---- *)
From Adb Require Struct_Deps_Proofs.
Theorem C18_src_get_permissioned_resource_is_model : forall (st : store) (name : str) (p : N),
  Struct_Deps_Proofs.interp_gpr st name p = Some (get_permissioned_resource st name p).
Proof. exact Struct_Deps_Proofs.interp_gpr_is_model. Qed.
Print Assumptions C18_src_get_permissioned_resource_is_model.

Theorem C18_src_recursive_dependencies_is_model :
  forall (f : nat) (st : store) (new_dep : str) (prev : list resource) (p : N),
  Struct_Deps_Proofs.interp_rd_body (fun d q => recursive_dependencies f st d q p) st new_dep prev p =
  Some (recursive_dependencies (S f) st new_dep prev p).
Proof. exact Struct_Deps_Proofs.interp_rd_body_is_unfolding. Qed.
Print Assumptions C18_src_recursive_dependencies_is_model.

Theorem C18_src_gate_before_collected_test :
  forall (f : nat) (st : store) (new_dep : str) (prev : list resource) (p : N) (e : serr),
  get_permissioned_resource st new_dep p = SErr e ->
  Struct_Deps_Proofs.interp_rd_body (fun d q => recursive_dependencies f st d q p) st new_dep prev p =
  Some (prev, Some e).
Proof. exact Struct_Deps_Proofs.gate_before_collected_test. Qed.
Print Assumptions C18_src_gate_before_collected_test.

Theorem C18_src_scriptlet_order :
  DepsGen.scriptlet_order = [DepsGen.G_gate; DepsGen.G_kind; DepsGen.G_deps; DepsGen.G_push_self_if_absent].
Proof. exact Struct_Deps_Proofs.scriptlet_order_is_model. Qed.
Print Assumptions C18_src_scriptlet_order.

(* `ResourceStorage::add_resource`: its statements in source order (Generated.AddResGen), run over
   the two maps with a rejection returning the store as it is at that point, ARE the model's
   add_resource; a rejected resource therefore leaves nothing behind (no alias of it stays
   registered): every rejecting statement precedes every inserting one *)
Theorem C18_src_add_resource_is_model : forall (st : store) (r : resource),
  Struct_Deps_Proofs.interp_add_resource st r = Some (add_resource st r).
Proof. exact Struct_Deps_Proofs.interp_add_resource_is_model. Qed.
Print Assumptions C18_src_add_resource_is_model.

Theorem C18_src_rejected_add_changes_nothing : forall (st : store) (r : resource) (e : add_err),
  Struct_Deps_Proofs.interp_add_resource st r = Some (fst (add_resource st r), Some e) ->
  fst (add_resource st r) = st.
Proof. exact Struct_Deps_Proofs.rejected_add_changes_nothing. Qed.
Print Assumptions C18_src_rejected_add_changes_nothing.
