(* C06_History_Model.v — a live Blocker under ARBITRARY interleavings of add_filter, use_tags /
   enable_tags / disable_tags and optimize(), against the abstract state "rules loaded so far +
   tag set by set algebra".  Definitions only.

   The blocker is created empty with enable_optimizations = false (Blocker::new(vec![], opts)):
   NetworkFilterList::new(.., false) is Net_Model.fl_new, which is also what tags_with_set uses
   to rebuild filters_tagged from tagged_filters_all (the un-fused originals) — so a tag switch or
   the add of a tagged rule after optimize() yields an UN-optimized tagged list again. *)
From Adb Require Import Base Generated Hashing Net_Model C05_Model C06_Model.

Inductive hop :=
| HAdd (f : rule)              (* Blocker::add_filter(f), whatever it answers *)
| HUse (ts : list str)         (* Blocker::use_tags *)
| HEnable (ts : list str)      (* Blocker::enable_tags *)
| HDisable (ts : list str)     (* Blocker::disable_tags *)
| HOptimize.                   (* Blocker::optimize *)

Section WithHash.
Variable h : str -> N.

Definition hstep (b : blocker) (o : hop) : blocker :=
  match o with
  | HAdd f => fst (blocker_add h b f)
  | HUse ts => use_tags h b ts
  | HEnable ts => enable_tags h b ts
  | HDisable ts => disable_tags h b ts
  | HOptimize => blocker_optimize b
  end.
Definition hrun_from (b : blocker) (ops : list hop) : blocker := fold_left hstep ops b.
Definition hrun (ops : list hop) : blocker := hrun_from (blocker_new h []) ops.

End WithHash.

(* ---- the abstract state ----
   Loaded rules: every rule handed to add_filter that is not a $badfilter rule (those are refused:
   BadFilterAddUnsupported), in arrival order, duplicates KEPT.  Under the premise [id_inj] of the
   theorems (equal ids = equal rules) a second copy is the same rule, and the rule-by-rule verdict
   only reads the SET of loaded rules (spec_verdict_set), so keeping or dropping it is immaterial;
   keeping it avoids deciding in the specification what the code's best-effort duplicate test sees. *)
Definition rules_step (L : list rule) (o : hop) : list rule :=
  match o with
  | HAdd f => if is_badfilter f then L else L ++ [f]
  | _ => L
  end.
(* Tag set: plain set algebra on lists (C07_Model.set_op without the reload op). *)
Definition tags_step (T : list str) (o : hop) : list str :=
  match o with
  | HUse ts => ts
  | HEnable ts => ts ++ T
  | HDisable ts => filter (fun t => negb (mem_str t ts)) T
  | _ => T
  end.
Definition loaded_from (L : list rule) (ops : list hop) : list rule := fold_left rules_step ops L.
Definition tagset_from (T : list str) (ops : list hop) : list str := fold_left tags_step ops T.
Definition loaded (ops : list hop) : list rule := loaded_from [] ops.
Definition tagset (ops : list hop) : list str := tagset_from [] ops.

(* set equality of rule lists / tag lists, as used by the corollaries *)
Definition same_rule_set (L1 L2 : list rule) : Prop := forall x, In x L1 <-> In x L2.
Definition same_tag_set (T1 T2 : list str) : Prop := forall t, mem_str t T1 = mem_str t T2.

(* ---- the semantic representation invariant (matcher shape rmatch om pm of C05_Model) ---- *)
Section Sem.
Variable h : str -> N.
Variable om : N -> bool.
Variable pm : N -> str -> bool.

(* a rule under a tag set: matches the request at hand and its tag (if any) is enabled *)
Definition hitr (tags : list str) (f : rule) : bool := rmatch om pm f && tag_ok tags f.

(* a bucket key is safe for a token group when it is 0 (always probed) or one of the group's tokens
   (Net_Proofs.key_ok, repeated here so that the model file has no proof dependencies) *)
Definition key_safe (g : list N) (k : N) : Prop := k = 0 \/ In k g.

(* List [m] semantically represents the rules [Lc]:
   (stored) every stored rule x is well formed, only fires when some rule of Lc fires (for every
            tag set), and carries id and mask of some rule [base] of Lc whose firing it subsumes
            (x = base for a rule stored as added; x = the fusion of a group headed by base after
            optimize());
   (covered) every rule f of Lc has, for EACH of its token groups, a safe bucket in which some
            stored rule fires whenever f does (for every tag set). *)
Definition SemList (m : fmap) (Lc : list rule) : Prop :=
  (forall k x, In x (bucket m k) ->
     wfp x = true
     /\ (forall tags, hitr tags x = true -> existsb (hitr tags) Lc = true)
     /\ exists base, In base Lc /\ rid x = rid base /\ rmask x = rmask base
                     /\ forall tags, hitr tags base = true -> hitr tags x = true)
  /\ (forall f, In f Lc -> forall tg, In tg (get_tokens h f) ->
        exists k, key_safe tg k
                  /\ forall tags, hitr tags f = true -> existsb (hitr tags) (bucket m k) = true).

(* The blocker semantically represents the loaded rules L and the tag set T. *)
Definition SemRep (b : blocker) (L : list rule) (T : list str) : Prop :=
  SemList (b_importants b) (of_cat CImportant L) /\
  SemList (b_tagged b) (tagged_active T (of_cat CTagged L)) /\
  SemList (b_filters b) (of_cat CNormal L) /\
  SemList (b_exceptions b) (of_cat CException L) /\
  SemList (b_csp b) (of_cat CCsp L) /\
  SemList (b_redirects b) (filter is_redirect (live L)) /\
  SemList (b_removeparam b) (of_cat CRemoveparam L) /\
  SemList (b_generic_hide b) (of_cat CGenericHide L) /\
  (forall x, In x (b_tagged_all b) <-> In x (of_cat CTagged L)) /\
  (forall t, mem_str t (b_tags b) = mem_str t T).
End Sem.
