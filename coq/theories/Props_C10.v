(* Props_C10.v — pinned statements for property C10 (loading corrupt or hostile serialized data
   fails cleanly and atomically).  Only statements, `exact`, and Print Assumptions.

   What is proved here is about the model: the header / version dispatch on every byte string,
   Engine::deserialize as a state transformer around an arbitrary decoder, and the matchers'
   panic skeleton on every decoded rule.  The msgpack decoder itself (rmp-serde) is not in the
   model: its behaviour on hostile bytes is covered by the fault enumeration of
   harness/src/bin/c10.rs (see props/C10.json level_note). *)
From Adb Require Import Base BaseProofs Generated Wire_Model C10_Model C10_Proofs.

(* For every byte string the dispatch returns (never panics) and classifies exactly as the
   property text says: magic + version byte 0 -> the v0 decoder runs on the rest; magic + another
   version -> UnsupportedFormatVersion; the magic alone -> NoHeaderFound; gzip header -> Legacy;
   anything else -> NoHeaderFound. *)
Theorem C10_header_total : forall b, exists d, header_dispatch b = Ok d /\ header_class b d.
Proof. exact header_total. Qed.
Print Assumptions C10_header_total.

Theorem C10_header_class_functional : forall b d1 d2, header_class b d1 -> header_class b d2 -> d1 = d2.
Proof. exact header_class_functional. Qed.
Print Assumptions C10_header_class_functional.

(* F10, fixed in /repo (`fix: deserialize rejects a buffer that ends right after the magic
   bytes`): the indexing version of the dispatch panics; the current one does not. *)
Theorem C10_header_f10_refuted : exists b, is_ok (header_dispatch_f10 b) = false.
Proof. exact header_f10_refuted. Qed.
Print Assumptions C10_header_f10_refuted.

(* Engine::deserialize, for an arbitrary decoder and an arbitrary NetworkFilterList::new:
   never panics outside the decoder; an error leaves the engine exactly as it was. *)
Theorem C10_load_total : forall decode build_list e b, is_ok (deserialize decode build_list e b) = true.
Proof. exact load_total. Qed.
Print Assumptions C10_load_total.

Theorem C10_load_atomic : forall decode build_list e b e' err,
  deserialize decode build_list e b = Ok (e', Some err) -> e' = e.
Proof. exact load_atomic. Qed.
Print Assumptions C10_load_atomic.

Theorem C10_load_error_class : forall decode build_list e b e' err,
  deserialize decode build_list e b = Ok (e', Some err) ->
  match err with
  | EVersion v => header_class b (DVersion v)
  | ENoHeader => header_class b DNoHeader
  | ELegacy => header_class b DLegacy
  | ERmp => exists p, header_class b (DDecode p) /\ decode p = None
  end.
Proof. exact load_error_class. Qed.
Print Assumptions C10_load_error_class.

(* On success the new state is the decoded one with the caller's enabled tags re-applied;
   resources and the enabled tag set survive; the removeparam list is empty (C08, F8). *)
Theorem C10_load_ok_state : forall decode build_list e b e',
  deserialize decode build_list e b = Ok (e', None) ->
  exists p w, header_class b (DDecode p) /\ decode p = Some w /\ e' = install build_list e w /\
              e_resources e' = e_resources e /\
              b_tags_enabled (e_blocker e') = b_tags_enabled (e_blocker e) /\
              b_removeparam (e_blocker e') = [].
Proof. exact load_ok_state. Qed.
Print Assumptions C10_load_ok_state.

(* Matchers on decoded rules: for every mask, pattern list and optional hostname (i.e. whatever
   the decoder produced) check_pattern returns; the hostname-anchor bit without a hostname gives
   `false`; rules with a hostname and unanchored rules behave as before the repair. *)
Theorem C10_decoded_rule_match_total : forall body mask filters hostname,
  exists r, check_pattern body mask filters hostname = Ok r.
Proof. exact decoded_rule_match_total. Qed.
Print Assumptions C10_decoded_rule_match_total.

Theorem C10_anchored_without_hostname_false : forall body mask filters,
  mask_has mask M_IS_HOSTNAME_ANCHOR = true -> check_pattern body mask filters None = Ok false.
Proof. exact anchored_without_hostname_false. Qed.
Print Assumptions C10_anchored_without_hostname_false.

Theorem C10_check_pattern_unanchored_same : forall body mask filters hostname,
  mask_has mask M_IS_HOSTNAME_ANCHOR = false ->
  check_pattern body mask filters hostname = check_pattern_f11 body mask filters hostname.
Proof. exact check_pattern_unanchored_same. Qed.
Print Assumptions C10_check_pattern_unanchored_same.

(* F11, fixed in /repo: the unreachable!() version panics on such a rule. *)
Theorem C10_check_pattern_f11_refuted : forall body,
  exists mask filters, is_ok (check_pattern_f11 body mask filters None) = false.
Proof. exact check_pattern_f11_refuted. Qed.
Print Assumptions C10_check_pattern_f11_refuted.

(* compile_regex on a complete-regex rule: total on every pattern text; on /…/ it is the text
   between the slashes, as the slice was; the slice version panics on a 1-byte pattern. *)
Theorem C10_complete_regex_body_total : forall f, exists s, complete_regex_body f = Ok s.
Proof. exact complete_regex_body_total. Qed.
Print Assumptions C10_complete_regex_body_total.

Theorem C10_complete_regex_body_parsed : forall s,
  complete_regex_body (SLASH :: s ++ [SLASH]) = Ok s /\
  complete_regex_body_f11 (SLASH :: s ++ [SLASH]) = Ok s.
Proof. exact complete_regex_body_parsed. Qed.
Print Assumptions C10_complete_regex_body_parsed.

Theorem C10_complete_regex_f11_refuted : exists f, is_ok (complete_regex_body_f11 f) = false.
Proof. exact complete_regex_f11_refuted. Qed.
Print Assumptions C10_complete_regex_f11_refuted.

(* Translator ties: the matchers contain no unreachable!/unwrap()/expect()/panic!; the dispatch
   uses `get`; Engine::deserialize decodes before its first assignment to self. *)
Theorem C10_matchers_have_no_panic_site : MATCHERS_PANIC_SITES = 0.
Proof. exact matchers_have_no_panic_site. Qed.
Print Assumptions C10_matchers_have_no_panic_site.

Theorem C10_translator_flags :
  DISPATCH_VERSION_VIA_GET = true /\ ENGINE_DESERIALIZE_DECODES_FIRST = true /\
  COMPLETE_REGEX_BODY_VIA_STRIP = true /\ DISPATCH_V0_VERSION = V0_VERSION_BYTE.
Proof. exact translator_flags. Qed.
Print Assumptions C10_translator_flags.

(* F25, fixed in /repo (`fix: deserialize does not allocate what a corrupt length prefix
   announces`): the payload is decoded with the slice-bounded rmp-serde entry point, which checks
   every announced length against the remaining input.  (That this bounds allocation is observed
   by the fault enumeration, not proved.) *)
Theorem C10_decoder_entry_bounded : V0_DECODER_ENTRY = "from_slice"%string.
Proof. exact decoder_entry_bounded. Qed.
Print Assumptions C10_decoder_entry_bounded.

(* what serialize writes (model of SerializeFormat::serialize, tied byte for byte by C09's run) is
   always dispatched to the v0 decoder, with exactly the encoded payload *)
Theorem C10_own_output_dispatch : forall w, header_dispatch (serialize_wire w) = Ok (DDecode (encode (wire_tree w))).
Proof. exact own_output_dispatch. Qed.
Print Assumptions C10_own_output_dispatch.

(* ------------------------------------------------------------------ codec-level half of 'corrupt data
   fails cleanly': determinism along an encoding, every strict prefix of a valid payload / buffer
   fails to decode and leaves the engine as it was, trailing bytes are ignored (rmp's from_slice
   never checks for the end), fuel is no artefact *)
From Adb Require Import Base Generated Wire_Model C10_Model Msgpack_Model Msgpack_Proofs.
From Adb Require Import C08_Model C08_Query_Model C08_Engine_Model C08_Proofs C08_Query_Proofs Msgpack_C08_Proofs.

Theorem C10_msgpack_decode_unique :
  forall (t : mp) (fuel : nat) (rest : list N) (t' : mp) (rest' : list N),
  mp_wf t = true -> decode_mp fuel (encode t ++ rest) = Some (t', rest') -> t' = t /\ rest' = rest.
Proof. exact decode_encode_unique. Qed.
Print Assumptions C10_msgpack_decode_unique.

Theorem C10_msgpack_strict_prefix_fails :
  forall (t : mp) (p : list N),
  mp_wf t = true -> strict_prefix p (encode t) -> forall fuel : nat, decode_mp fuel p = None.
Proof. exact decode_strict_prefix. Qed.
Print Assumptions C10_msgpack_strict_prefix_fails.

Theorem C10_msgpack_decode_all_strict_prefix :
  forall (t : mp) (p : list N), mp_wf t = true -> strict_prefix p (encode t) -> decode_all p = None.
Proof. exact decode_all_strict_prefix. Qed.
Print Assumptions C10_msgpack_decode_all_strict_prefix.

Theorem C10_msgpack_decode_suffix :
  forall (fuel : nat) (b : list N) (t : mp) (r : list N),
  decode_mp fuel b = Some (t, r) -> exists used : list N, b = used ++ r /\ used <> [].
Proof. exact decode_suffix. Qed.
Print Assumptions C10_msgpack_decode_suffix.

Theorem C10_msgpack_fuel_mono :
  forall (f f' : nat) (b : list N) (x : mp * list N),
  decode_mp f b = Some x -> (f <= f')%nat -> decode_mp f' b = Some x.
Proof. exact decode_fuel_mono. Qed.
Print Assumptions C10_msgpack_fuel_mono.

Theorem C10_msgpack_fuel_enough :
  forall (fuel : nat) (b : list N) (t : mp) (r : list N),
  decode_mp fuel b = Some (t, r) -> decode_mp (fuel_for b) b = Some (t, r).
Proof. exact decode_fuel_enough. Qed.
Print Assumptions C10_msgpack_fuel_enough.

Theorem C10_decode_wire_bytes_own :
  forall w : wire, wire_fits w = true -> decode_wire_bytes (serialize_wire w) = Some w.
Proof. exact decode_wire_bytes_own. Qed.
Print Assumptions C10_decode_wire_bytes_own.

Theorem C10_decode_wire_bytes_truncated :
  forall (w : wire) (p : list N),
  wire_fits w = true -> strict_prefix p (serialize_wire w) -> decode_wire_bytes p = None.
Proof. exact decode_wire_bytes_truncated. Qed.
Print Assumptions C10_decode_wire_bytes_truncated.

Theorem C10_deserialize_own :
  forall (build_list : list rule -> bool -> bucket_map) (e : engine) (w : wire),
  wire_fits w = true ->
  deserialize decode_wire build_list e (serialize_wire w) = Ok (install build_list e w, None).
Proof. exact deserialize_own. Qed.
Print Assumptions C10_deserialize_own.

Theorem C10_deserialize_trailing :
  forall (build_list : list rule -> bool -> bucket_map) (e : engine) (w : wire) (junk : list N),
  wire_fits w = true ->
  deserialize decode_wire build_list e (serialize_wire w ++ junk) = Ok (install build_list e w, None).
Proof. exact deserialize_trailing. Qed.
Print Assumptions C10_deserialize_trailing.

Theorem C10_deserialize_truncated :
  forall (build_list : list rule -> bool -> bucket_map) (e : engine) (w : wire) (p : list N),
  wire_fits w = true ->
  strict_prefix p (serialize_wire w) ->
  deserialize decode_wire build_list e p = Ok (e, Some ENoHeader) \/
  deserialize decode_wire build_list e p = Ok (e, Some ERmp).
Proof. exact deserialize_truncated. Qed.
Print Assumptions C10_deserialize_truncated.

Theorem C10_engine_deserialize_truncated :
  forall (as_css : str -> option (str * str)) (build_list : list rule -> bool -> bucket_map)
    (l e : full_engine) (p : list N),
  wire_fits (fe_wire as_css e) = true ->
  strict_prefix p (fe_serialize as_css e) ->
  fe_deserialize build_list decode_wire l p = Ok (l, Some ENoHeader) \/
  fe_deserialize build_list decode_wire l p = Ok (l, Some ERmp).
Proof. exact engine_deserialize_truncated. Qed.
Print Assumptions C10_engine_deserialize_truncated.


(* ---- `Engine::deserialize` itself, re-read from src/engine.rs on every run
   (tools/gen_fragments/c10_engine_deserialize.py -> Generated.LoadGen: its statements in source
   order), run over the model's engine with the decode outcome as a parameter: a REJECTED buffer
   returns the engine exactly as it was — nothing is assigned, and the enabled tags are only copied,
   before the decode has succeeded; an accepted one gives Wire_Model.install ---- *)
From Adb Require Struct_Load_Proofs.
Theorem C10_src_rejected_load_changes_nothing :
  forall (build_list : list rule -> bool -> bucket_map) (e : engine),
  Struct_Load_Proofs.interp_load build_list e None = Some (e, false).
Proof. exact Struct_Load_Proofs.rejected_load_changes_nothing. Qed.
Print Assumptions C10_src_rejected_load_changes_nothing.

Theorem C10_src_accepted_load_is_install :
  forall (build_list : list rule -> bool -> bucket_map) (e : engine) (w : wire),
  Struct_Load_Proofs.interp_load build_list e (Some w) = Some (install build_list e w, true).
Proof. exact Struct_Load_Proofs.accepted_load_is_install. Qed.
Print Assumptions C10_src_accepted_load_is_install.
