(* Props_C15.v — pinned statements for property C15 (the injected CSP is the union of the
   directives of the matching active csp rules minus the excepted directives; nothing under a
   blanket exception; never anything for a request that is not document / sub-document).
   [m] is the list of csp rules that match the request and whose tag is enabled, in the order
   (and with the repetitions) in which NetworkFilterList::check_all delivers them.
   Only statements, `exact`, and Print Assumptions. *)
From Coq Require Import Permutation.
From Adb Require Import Base BaseProofs Generated C15_Model C15_Proofs.
From Adb Require Struct_Csp_Proofs.

(* When a policy is returned: the request is document/sub-document, no matching exception is a
   blanket one, and the joined directives are exactly (each once) those named by a matching csp
   rule and by no matching csp exception. *)
Theorem C15_csp_spec_some : forall doc m ds,
  get_csp doc m = Some ds ->
  doc = true /\ blanket m = false /\ NoDup ds /\ ds <> [] /\ forall d, In d ds <-> in_policy m d.
Proof. exact csp_some. Qed.
Print Assumptions C15_csp_spec_some.

(* No policy iff: other request type, or a matching exception without directive, or the set
   difference is empty (which includes "no csp rule matches"). *)
Theorem C15_csp_spec_none : forall doc m,
  get_csp doc m = None <->
  doc = false \/ blanket m = true \/ (forall d, ~ in_policy m d).
Proof. exact csp_none_iff. Qed.
Print Assumptions C15_csp_spec_none.

Theorem C15_csp_no_duplicates : forall doc m ds, get_csp doc m = Some ds -> NoDup ds.
Proof. exact csp_no_duplicates. Qed.
Print Assumptions C15_csp_no_duplicates.

(* For every request type other than Document and Subdocument there is never a policy. *)
Theorem C15_csp_only_doc_or_subdoc : forall t m,
  get_csp_for t m <> None -> t = RT_Document \/ t = RT_Subdocument.
Proof. exact csp_only_doc_or_subdoc. Qed.
Print Assumptions C15_csp_only_doc_or_subdoc.

(* The early `return None` sits inside the loop, yet the answer does not depend on the order in
   which the matching rules are visited ... *)
Theorem C15_csp_order_independent : forall doc m1 m2,
  Permutation m1 m2 -> same_policy (get_csp doc m1) (get_csp doc m2).
Proof. exact csp_order_independent. Qed.
Print Assumptions C15_csp_order_independent.

(* ... nor on how often one rule is delivered (a URL with a repeated token delivers the rules of
   that bucket twice): only the set of matching rules counts. *)
Theorem C15_csp_set_only : forall doc m1 m2,
  (forall r, In r m1 <-> In r m2) -> same_policy (get_csp doc m1) (get_csp doc m2).
Proof. exact csp_set_only. Qed.
Print Assumptions C15_csp_set_only.

(* The returned string, for any iteration order of the hash set: its comma-separated items are
   the policy set, each exactly once (directives cannot contain a comma: the option parser splits
   the option list at every comma). *)
Theorem C15_csp_string_items : forall (order : list str -> list str),
  (forall l, Permutation (order l) l) ->
  forall doc m s,
  (forall d, In d (enabled m) -> ~ In COMMA d) ->
  get_csp_string order doc m = Some s ->
  NoDup (split_on COMMA s) /\ forall d, In d (split_on COMMA s) <-> in_policy m d.
Proof. exact csp_string_items. Qed.
Print Assumptions C15_csp_string_items.

Theorem C15_csp_string_none : forall (order : list str -> list str) doc m,
  get_csp_string order doc m = None <->
  doc = false \/ blanket m = true \/ (forall d, ~ in_policy m d).
Proof. exact csp_string_none_iff. Qed.
Print Assumptions C15_csp_string_none.

(* The type mask every $csp rule is parsed to (translated constants) lets the rule match document
   and sub-document requests; it does not confine the rule to them (all network types pass, only
   csp_report requests do not), so the request-type test is the only gate. *)
Theorem C15_csp_mask_allows_doc_subdoc : forall t,
  doc_or_subdoc t = true -> check_cpt_allowed csp_type_mask t = true.
Proof. exact csp_mask_allows_doc_subdoc. Qed.
Print Assumptions C15_csp_mask_allows_doc_subdoc.

Theorem C15_csp_mask_allows : forall t,
  check_cpt_allowed csp_type_mask t = negb (N.eqb (mask_of_request_type t) M_UNMATCHED).
Proof. exact csp_mask_allows. Qed.
Print Assumptions C15_csp_mask_allows.

(* ---- Blocker::get_csp_directives itself, as the translator extracts it on every run
   (Generated.CspGen), interpreted over the model's csp rules ---- *)
Theorem C15_src_loop_is_model :
  forall (fs : list csp_rule) (dis en : list str),
  Struct_Csp_Proofs.interp_loop fs dis en = Some (csp_loop fs dis en).
Proof. exact Struct_Csp_Proofs.interp_loop_is_model. Qed.
Print Assumptions C15_src_loop_is_model.

Theorem C15_src_get_csp_is_model :
  forall (t : request_type) (matching : list csp_rule),
  Struct_Csp_Proofs.interp_get_csp t matching = Some (get_csp_for t matching).
Proof. exact Struct_Csp_Proofs.interp_get_csp_is_model. Qed.
Print Assumptions C15_src_get_csp_is_model.

Theorem C15_src_separator_is_model : CspGen.separator = COMMA.
Proof. exact Struct_Csp_Proofs.separator_is_model. Qed.
Print Assumptions C15_src_separator_is_model.
