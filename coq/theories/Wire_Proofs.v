(* Wire_Proofs.v — lemmas about Wire_Model.v shared by C08 / C09: ordered views are
   independent of the iteration order of the hash container, `get` characterisations of
   upsert / push_all / legacy_db, rule round trip. *)
From Adb Require Import Base BaseProofs Generated Wire_Model.
From Coq Require Import Permutation Sorted ZifyBool ZifyNat ZifyN.

(* ------------------------------------------------------------------ sorting *)
Section SortProofs.
  Context {A K : Type} (key : A -> K) (leb : K -> K -> bool).
  Hypothesis leb_total : forall a b, leb a b = true \/ leb b a = true.
  Hypothesis leb_trans : forall a b c, leb a b = true -> leb b c = true -> leb a c = true.
  Hypothesis leb_antisym : forall a b, leb a b = true -> leb b a = true -> a = b.

  Definition kle (x y : A) : Prop := leb (key x) (key y) = true.

  Lemma ins_perm x l : Permutation (ins key leb x l) (x :: l).
  Proof.
    induction l as [|y l IH]; cbn; [reflexivity|].
    destruct (leb (key x) (key y)); [reflexivity|].
    rewrite IH. apply perm_swap.
  Qed.

  Lemma isort_perm l : Permutation (isort key leb l) l.
  Proof.
    induction l as [|x l IH]; cbn; [reflexivity|].
    rewrite ins_perm. constructor. exact IH.
  Qed.

  Lemma ins_comm x y l : key x <> key y ->
    ins key leb x (ins key leb y l) = ins key leb y (ins key leb x l).
  Proof.
    intros NE. induction l as [|z l IH]; cbn.
    - destruct (leb (key x) (key y)) eqn:XY, (leb (key y) (key x)) eqn:YX; try reflexivity.
      + exfalso. apply NE. apply leb_antisym; assumption.
      + destruct (leb_total (key x) (key y)); congruence.
    - destruct (leb (key y) (key z)) eqn:YZ, (leb (key x) (key z)) eqn:XZ; cbn.
      + rewrite YZ, XZ.
        destruct (leb (key x) (key y)) eqn:XY, (leb (key y) (key x)) eqn:YX; try reflexivity.
        * exfalso. apply NE. apply leb_antisym; assumption.
        * destruct (leb_total (key x) (key y)); congruence.
      + rewrite YZ, XZ.
        destruct (leb (key x) (key y)) eqn:XY; [|reflexivity].
        rewrite (leb_trans _ _ _ XY YZ) in XZ. discriminate.
      + rewrite YZ, XZ.
        destruct (leb (key y) (key x)) eqn:YX; [|reflexivity].
        rewrite (leb_trans _ _ _ YX XZ) in YZ. discriminate.
      + rewrite YZ, XZ. f_equal. exact IH.
  Qed.

  (* the ordered view of a hash container does not depend on its iteration order *)
  Theorem isort_perm_invariant l l' :
    Permutation l l' -> NoDup (map key l) -> isort key leb l = isort key leb l'.
  Proof.
    induction 1 as [|x l l' P IH|x y l|l l' l'' P1 IH1 P2 IH2]; intros ND.
    - reflexivity.
    - cbn. inversion ND; subst. rewrite IH by assumption. reflexivity.
    - cbn. apply ins_comm. cbn in ND. inversion ND as [|? ? NI ND']; subst.
      intros E. apply NI. left. symmetry. exact E.
    - rewrite IH1 by assumption. apply IH2.
      eapply Permutation_NoDup; [|exact ND]. apply Permutation_map. exact P1.
  Qed.

  Lemma ins_sorted_head x l : Sorted kle l -> HdRel kle x l -> ins key leb x l = x :: l.
  Proof.
    intros _ H. destruct l as [|y l]; [reflexivity|]. cbn. inversion H; subst.
    unfold kle in *. rewrite H1. reflexivity.
  Qed.

  (* an already ordered list is its own ordered view *)
  Theorem isort_sorted_id l : Sorted kle l -> isort key leb l = l.
  Proof.
    induction 1 as [|x l S IH H]; cbn; [reflexivity|].
    rewrite IH. apply ins_sorted_head; assumption.
  Qed.

  Lemma ins_hdrel a x l : kle a x -> HdRel kle a l -> HdRel kle a (ins key leb x l).
  Proof.
    intros AX H. destruct l as [|y l]; cbn; [constructor; exact AX|].
    destruct (leb (key x) (key y)); constructor; [exact AX|]. inversion H; assumption.
  Qed.

  Lemma ins_sorted x l : Sorted kle l -> Sorted kle (ins key leb x l).
  Proof.
    induction 1 as [|y l S IH H]; cbn; [repeat constructor|].
    destruct (leb (key x) (key y)) eqn:XY.
    - constructor; [constructor; assumption|]. constructor. exact XY.
    - constructor; [exact IH|]. apply ins_hdrel; [|exact H].
      unfold kle. destruct (leb_total (key x) (key y)); congruence.
  Qed.

  Theorem isort_sorted l : Sorted kle (isort key leb l).
  Proof. induction l as [|x l IH]; cbn; [constructor|]. apply ins_sorted. exact IH. Qed.

  (* two ordered lists with the same elements and distinct keys are equal *)
  Corollary sorted_perm_eq l l' :
    Sorted kle l -> Sorted kle l' -> Permutation l l' -> NoDup (map key l) -> l = l'.
  Proof.
    intros S S' P ND. rewrite <- (isort_sorted_id l S), <- (isort_sorted_id l' S').
    apply isort_perm_invariant; assumption.
  Qed.

  Lemma isort_keys_nodup l : NoDup (map key l) -> NoDup (map key (isort key leb l)).
  Proof.
    intros ND. eapply Permutation_NoDup; [|exact ND].
    apply Permutation_map. symmetry. apply isort_perm.
  Qed.

  Lemma isort_idem l : isort key leb (isort key leb l) = isort key leb l.
  Proof. apply isort_sorted_id. apply isort_sorted. Qed.
End SortProofs.

(* ---- the two key orders *)
Lemma nleb_total a b : N.leb a b = true \/ N.leb b a = true.
Proof. lia. Qed.
Lemma nleb_trans a b c : N.leb a b = true -> N.leb b c = true -> N.leb a c = true.
Proof. lia. Qed.
Lemma nleb_antisym a b : N.leb a b = true -> N.leb b a = true -> a = b.
Proof. lia. Qed.

Lemma str_leb_total a b : str_leb a b = true \/ str_leb b a = true.
Proof.
  revert b; induction a as [|x a IH]; intros [|y b]; cbn; auto.
  destruct (N.ltb x y) eqn:XY; [auto|]. destruct (N.ltb y x) eqn:YX; [auto|].
  assert (x = y) by lia. subst. rewrite N.eqb_refl. apply IH.
Qed.
Lemma str_leb_antisym a b : str_leb a b = true -> str_leb b a = true -> a = b.
Proof.
  revert b; induction a as [|x a IH]; intros [|y b]; cbn; try discriminate; auto.
  destruct (N.ltb x y) eqn:XY.
  - destruct (N.ltb y x) eqn:YX; [lia|]. destruct (N.eqb y x) eqn:E; [lia|discriminate].
  - destruct (N.eqb x y) eqn:E; [|discriminate]. apply N.eqb_eq in E. subst.
    rewrite N.ltb_irrefl, N.eqb_refl. intros H1 H2. f_equal. apply IH; assumption.
Qed.
Lemma str_leb_trans a b c : str_leb a b = true -> str_leb b c = true -> str_leb a c = true.
Proof.
  revert b c; induction a as [|x a IH]; intros [|y b] [|z c]; cbn; try discriminate; auto.
  destruct (N.ltb x y) eqn:XY.
  - destruct (N.ltb y z) eqn:YZ.
    + intros _ _. assert (H : N.ltb x z = true) by lia. rewrite H. reflexivity.
    + destruct (N.eqb y z) eqn:E; [|discriminate]. intros _ _.
      assert (H : N.ltb x z = true) by lia. rewrite H. reflexivity.
  - destruct (N.eqb x y) eqn:E; [|discriminate]. apply N.eqb_eq in E. subst y.
    destruct (N.ltb x z) eqn:XZ; [auto|].
    destruct (N.eqb x z) eqn:E2; [|discriminate]. apply IH.
Qed.

Definition nle {V} (x y : N * V) := kle (@fst N V) N.leb x y.
Definition sle {V} (x y : str * V) := kle (@fst str V) str_leb x y.
Definition setle (x y : str) := kle (fun s : str => s) str_leb x y.

Lemma sort_nmap_perm {V} (m m' : list (N * V)) :
  Permutation m m' -> NoDup (map fst m) -> sort_nmap m = sort_nmap m'.
Proof. apply isort_perm_invariant; [apply nleb_total|apply nleb_trans|apply nleb_antisym]. Qed.
Lemma sort_smap_perm {V} (m m' : list (str * V)) :
  Permutation m m' -> NoDup (map fst m) -> sort_smap m = sort_smap m'.
Proof. apply isort_perm_invariant; [apply str_leb_total|apply str_leb_trans|apply str_leb_antisym]. Qed.
Lemma sort_set_perm (s s' : list str) : Permutation s s' -> NoDup s -> sort_set s = sort_set s'.
Proof.
  intros P ND. apply isort_perm_invariant;
    [apply str_leb_total|apply str_leb_trans|apply str_leb_antisym|exact P|rewrite map_id; exact ND].
Qed.
Lemma sort_nmap_id {V} (m : list (N * V)) : Sorted nle m -> sort_nmap m = m.
Proof. apply isort_sorted_id. Qed.
Lemma sort_smap_id {V} (m : list (str * V)) : Sorted sle m -> sort_smap m = m.
Proof. apply isort_sorted_id. Qed.
Lemma sort_set_id (s : list str) : Sorted setle s -> sort_set s = s.
Proof. apply isort_sorted_id. Qed.
Lemma sort_nmap_sorted {V} (m : list (N * V)) : Sorted nle (sort_nmap m).
Proof. apply isort_sorted. apply nleb_total. Qed.
Lemma sort_smap_sorted {V} (m : list (str * V)) : Sorted sle (sort_smap m).
Proof. apply isort_sorted. apply str_leb_total. Qed.
Lemma sort_set_sorted (s : list str) : Sorted setle (sort_set s).
Proof. apply isort_sorted. apply str_leb_total. Qed.
Lemma sort_nmap_permutation {V} (m : list (N * V)) : Permutation (sort_nmap m) m.
Proof. apply isort_perm. Qed.
Lemma sort_smap_permutation {V} (m : list (str * V)) : Permutation (sort_smap m) m.
Proof. apply isort_perm. Qed.
Lemma sort_set_permutation (s : list str) : Permutation (sort_set s) s.
Proof. apply isort_perm. Qed.
Lemma sort_nmap_keys {V} (m : list (N * V)) : NoDup (map fst m) -> NoDup (map fst (sort_nmap m)).
Proof. apply isort_keys_nodup. Qed.

(* ------------------------------------------------------------------ get *)
Lemma getn_notin {V} k (m : list (N * list V)) : ~ In k (map fst m) -> getn k m = [].
Proof.
  induction m as [|[k' v] m IH]; cbn; [reflexivity|]. intros H.
  destruct (N.eqb k k') eqn:E; [apply N.eqb_eq in E; exfalso; apply H; auto|].
  apply IH. intros G. apply H. auto.
Qed.

Lemma getn_in {V} k v (m : list (N * list V)) : NoDup (map fst m) -> In (k, v) m -> getn k m = v.
Proof.
  induction m as [|[k' v'] m IH]; cbn; [tauto|]. intros ND [H|H].
  - inversion H; subst. rewrite N.eqb_refl. reflexivity.
  - inversion ND as [|? ? NI ND']; subst. destruct (N.eqb k k') eqn:E.
    + apply N.eqb_eq in E. subst. exfalso. apply NI. apply (in_map fst) in H. exact H.
    + apply IH; assumption.
Qed.

Lemma getn_nonempty_in {V} k (m : list (N * list V)) : getn k m <> [] -> In (k, getn k m) m.
Proof.
  induction m as [|[k' v'] m IH]; cbn; [congruence|].
  destruct (N.eqb k k') eqn:E; intros H.
  - apply N.eqb_eq in E. subst. left. reflexivity.
  - right. apply IH. exact H.
Qed.

(* `get` does not depend on the iteration order *)
Lemma getn_perm {V} k (m m' : list (N * list V)) :
  Permutation m m' -> NoDup (map fst m) -> getn k m = getn k m'.
Proof.
  induction 1 as [|[k1 v1] l l' P IH|[k1 v1] [k2 v2] l|l l' l'' P1 IH1 P2 IH2]; intros ND.
  - reflexivity.
  - cbn. inversion ND; subst. rewrite IH by assumption. reflexivity.
  - cbn. destruct (N.eqb k k1) eqn:E1, (N.eqb k k2) eqn:E2; try reflexivity.
    apply N.eqb_eq in E1, E2. subst. cbn in ND. inversion ND as [|? ? NI _]. exfalso. apply NI. left. reflexivity.
  - rewrite IH1 by assumption. apply IH2. eapply Permutation_NoDup; [|exact ND].
    apply Permutation_map. exact P1.
Qed.

Lemma getn_sort {V} k (m : list (N * list V)) : NoDup (map fst m) -> getn k (sort_nmap m) = getn k m.
Proof. intros ND. symmetry. apply getn_perm; [symmetry; apply sort_nmap_permutation|exact ND]. Qed.

Definition nonempty_vals {V} (m : list (N * list V)) : Prop := forall k v, In (k, v) m -> v <> [].

(* maps with distinct keys and no empty bin are determined, up to order, by `get` *)
Lemma getn_ext_perm {V} (m m' : list (N * list V)) :
  NoDup (map fst m) -> NoDup (map fst m') -> nonempty_vals m -> nonempty_vals m' ->
  (forall k, getn k m = getn k m') -> Permutation m m'.
Proof.
  intros ND ND' NE NE' H.
  assert (IN : forall a b : list (N * list V), NoDup (map fst a) -> nonempty_vals a ->
                 (forall k, getn k a = getn k b) -> forall x, In x a -> In x b).
  { clear. intros a b NDa NEa E [k v] Hin.
    pose proof (getn_in k v a NDa Hin) as G. rewrite E in G.
    rewrite <- G. apply getn_nonempty_in. rewrite G. eapply NEa. exact Hin. }
  apply NoDup_Permutation.
  - eapply NoDup_map_inv. exact ND.
  - eapply NoDup_map_inv. exact ND'.
  - intros x. split; [apply IN; assumption|]. apply IN; try assumption. intros k. symmetry. apply H.
Qed.

(* ------------------------------------------------------------------ fmap *)
Lemma fmap_app {A B} (f : A -> option B) l l' : fmap f (l ++ l') = fmap f l ++ fmap f l'.
Proof.
  induction l as [|a l IH]; cbn; [reflexivity|]. destruct (f a); cbn; rewrite IH; reflexivity.
Qed.
Lemma fmap_some {A B} (g : A -> B) l : fmap (fun a => Some (g a)) l = map g l.
Proof. induction l as [|a l IH]; cbn; [reflexivity|]. rewrite IH. reflexivity. Qed.
Lemma fmap_map_none {A B C} (f : B -> option C) (g : A -> B) l :
  (forall a, f (g a) = None) -> fmap f (map g l) = [].
Proof. intros H. induction l as [|a l IH]; cbn; [reflexivity|]. rewrite H. exact IH. Qed.
Lemma fmap_map_some {A B C} (f : B -> option C) (g : A -> B) (h : A -> C) l :
  (forall a, f (g a) = Some (h a)) -> fmap f (map g l) = map h l.
Proof. intros H. induction l as [|a l IH]; cbn; [reflexivity|]. rewrite H, IH. reflexivity. Qed.
Lemma fmap_fmap_none {A B C} (f : B -> option C) (g : A -> option B) l :
  (forall a b, g a = Some b -> f b = None) -> fmap f (fmap g l) = [].
Proof.
  intros H. induction l as [|a l IH]; cbn; [reflexivity|].
  destruct (g a) eqn:E; [|exact IH]. cbn. rewrite (H _ _ E). exact IH.
Qed.

(* ------------------------------------------------------------------ upsert / push_all *)
Lemma getn_upsert {V} k k' (x : V) m :
  getn k (upsert k' x m) = if N.eqb k k' then getn k m ++ [x] else getn k m.
Proof.
  induction m as [|[k1 v1] m IH]; cbn.
  - destruct (N.eqb k k'); reflexivity.
  - destruct (N.eqb k' k1) eqn:E1; cbn.
    + apply N.eqb_eq in E1. subst k1. destruct (N.eqb k k'); reflexivity.
    + destruct (N.eqb k k1) eqn:E2.
      * apply N.eqb_eq in E2. subst k1. destruct (N.eqb k k') eqn:E3; [|reflexivity].
        apply N.eqb_eq in E3. subst. rewrite N.eqb_refl in E1. discriminate.
      * exact IH.
Qed.

Lemma upsert_keys {V} k (x : V) m :
  map fst (upsert k x m) = if memN k (map fst m) then map fst m else map fst m ++ [k].
Proof.
  induction m as [|[k1 v1] m IH]; cbn [upsert map fst memN]; [reflexivity|].
  destruct (N.eqb k k1) eqn:E; cbn [map fst orb].
  - reflexivity.
  - rewrite IH. destruct (memN k (map fst m)); reflexivity.
Qed.

Lemma upsert_nodup {V} k (x : V) m : NoDup (map fst m) -> NoDup (map fst (upsert k x m)).
Proof.
  intros ND. rewrite upsert_keys. destruct (memN k (map fst m)) eqn:M; [exact ND|].
  eapply Permutation_NoDup; [apply Permutation_cons_append|].
  constructor; [intros H; apply memN_In in H; congruence | exact ND].
Qed.

Lemma upsert_in {V} k v k' (x : V) m :
  In (k, v) (upsert k' x m) -> In (k, v) m \/ exists v0, v = v0 ++ [x].
Proof.
  induction m as [|[k1 v1] m IH]; cbn.
  - intros [H|[]]. inversion H; subst. right. exists []. reflexivity.
  - destruct (N.eqb k' k1); cbn.
    + intros [H|H]; [inversion H; subst; right; eexists; reflexivity|left; right; exact H].
    + intros [H|H]; [left; left; exact H|]. destruct (IH H) as [G|G]; [left; right; exact G|right; exact G].
Qed.

Lemma upsert_nonempty {V} k (x : V) m : nonempty_vals m -> nonempty_vals (upsert k x m).
Proof.
  intros NE k0 v H. destruct (upsert_in _ _ _ _ _ H) as [G|[v0 ->]]; [eapply NE; exact G|].
  destruct v0; discriminate.
Qed.

Definition push_bin {A V} (sel : A -> option V) (k : N) (xs : list A) (db : list (N * list V)) :=
  fold_left (fun db a => match sel a with Some y => upsert k y db | None => db end) xs db.

Lemma push_all_unfold {A V} (sel : A -> option V) bins db :
  push_all sel bins db = fold_left (fun db kb => push_bin sel (fst kb) (snd kb) db) bins db.
Proof. reflexivity. Qed.

Lemma getn_push_bin {A V} (sel : A -> option V) k k' xs db :
  getn k (push_bin sel k' xs db) = if N.eqb k k' then getn k db ++ fmap sel xs else getn k db.
Proof.
  revert db; induction xs as [|a xs IH]; intros db; cbn.
  - destruct (N.eqb k k'); [rewrite app_nil_r|]; reflexivity.
  - unfold push_bin in IH. rewrite IH. destruct (sel a) as [y|]; [|reflexivity].
    rewrite getn_upsert. destruct (N.eqb k k'); [|reflexivity].
    rewrite <- app_assoc. reflexivity.
Qed.

Lemma push_bin_inv {A V} (P : list (N * list V) -> Prop) (sel : A -> option V) k xs db :
  P db -> (forall k y m, P m -> P (upsert k y m)) -> P (push_bin sel k xs db).
Proof.
  intros H0 HS. revert db H0; induction xs as [|a xs IH]; intros db H0; cbn; [exact H0|].
  apply IH. destruct (sel a); [apply HS|]; exact H0.
Qed.

Lemma push_all_inv {A V} (P : list (N * list V) -> Prop) (sel : A -> option V) bins db :
  P db -> (forall k y m, P m -> P (upsert k y m)) -> P (push_all sel bins db).
Proof.
  intros H0 HS. rewrite push_all_unfold. revert db H0.
  induction bins as [|[k xs] bins IH]; intros db H0; cbn [fold_left fst snd]; [exact H0|].
  apply IH. apply push_bin_inv; assumption.
Qed.

Lemma push_all_nodup {A V} (sel : A -> option V) bins db :
  NoDup (map fst db) -> NoDup (map fst (push_all sel bins db)).
Proof. intros H. apply push_all_inv; [exact H|]. intros; apply upsert_nodup; assumption. Qed.

Lemma push_all_nonempty {A V} (sel : A -> option V) bins db :
  nonempty_vals db -> nonempty_vals (push_all sel bins db).
Proof. intros H. apply push_all_inv; [exact H|]. intros; apply upsert_nonempty; assumption. Qed.

Lemma getn_push_all {A V} (sel : A -> option V) k bins db :
  NoDup (map fst bins) -> getn k (push_all sel bins db) = getn k db ++ fmap sel (getn k bins).
Proof.
  rewrite push_all_unfold. revert db.
  induction bins as [|[k' xs] bins IH]; intros db ND; cbn [fold_left getn fmap fst snd].
  - rewrite app_nil_r. reflexivity.
  - inversion ND as [|? ? NI ND']; subst. rewrite IH by assumption. rewrite getn_push_bin.
    destruct (N.eqb k k') eqn:E.
    + apply N.eqb_eq in E. subst k'. rewrite (getn_notin k bins NI). cbn. rewrite app_nil_r. reflexivity.
    + reflexivity.
Qed.

Lemma nil_nonempty {V} : nonempty_vals (@nil (N * list V)).
Proof. intros k v []. Qed.

(* ------------------------------------------------------------------ legacy_db *)
Record hostdb_wf (h : hostdb) : Prop := {
  hw_hide : NoDup (map fst (h_hide h)); hw_unhide : NoDup (map fst (h_unhide h));
  hw_inject : NoDup (map fst (h_inject h)); hw_uninject : NoDup (map fst (h_uninject h));
  hw_proc : NoDup (map fst (h_proc h)); hw_proc_exc : NoDup (map fst (h_proc_exc h)) }.

Section Legacy.
  Variable as_css : str -> option (str * str).

  (* the bin of k in the legacy db: the six categories in declaration order of the loops *)
  Definition legacy_bin (h : hostdb) (k : N) : list legacy :=
    map LHide (getn k (h_hide h)) ++ map LUnhide (getn k (h_unhide h)) ++
    map (fun sm => LInject (fst sm)) (getn k (h_inject h)) ++ map LUninject (getn k (h_uninject h)) ++
    fmap (sel_style as_css) (getn k (h_proc h)) ++ fmap (sel_unstyle as_css) (getn k (h_proc_exc h)).

  Theorem getn_legacy_db h k : hostdb_wf h -> getn k (legacy_db as_css h) = legacy_bin h k.
  Proof.
    intros [H1 H2 H3 H4 H5 H6]. unfold legacy_db, legacy_bin.
    rewrite !getn_push_all by assumption. cbn [getn app].
    rewrite !fmap_some. rewrite <- !app_assoc. reflexivity.
  Qed.

  Lemma legacy_db_nodup h : NoDup (map fst (legacy_db as_css h)).
  Proof. unfold legacy_db. repeat apply push_all_nodup. constructor. Qed.

  Lemma legacy_db_nonempty h : nonempty_vals (legacy_db as_css h).
  Proof. unfold legacy_db. repeat apply push_all_nonempty. apply nil_nonempty. Qed.
End Legacy.

(* ------------------------------------------------------------------ rules *)
Definition mo_ok (r : rule) : Prop :=
  is_redirect r = true \/ is_csp r = true \/ r_modifier r = None.

Lemma rule_roundtrip r : mo_ok r -> from_wrule (to_wrule r) = r.
Proof.
  destruct r as [m f od ond mo h t raw id du ndu]. unfold mo_ok, from_wrule, to_wrule, is_redirect, is_csp. cbn.
  intros H. f_equal.
  destruct (mask_has m M_IS_REDIRECT), (mask_has m M_IS_CSP), mo; try reflexivity.
  destruct H as [H|[H|H]]; discriminate.
Qed.

Lemma rule_roundtrip_lossy r : ~ mo_ok r -> r_modifier (from_wrule (to_wrule r)) = None.
Proof.
  destruct r as [m f od ond mo h t raw id du ndu]. unfold mo_ok, from_wrule, to_wrule, is_redirect, is_csp. cbn.
  destruct (mask_has m M_IS_REDIRECT), (mask_has m M_IS_CSP); try reflexivity; intros H; exfalso; apply H; auto.
Qed.

Definition wR (w : wrule) := mask_has (w_mask w) M_IS_REDIRECT.
Definition wC (w : wrule) := mask_has (w_mask w) M_IS_CSP.
Definition wrule_wf (w : wrule) : Prop :=
  w_bug w = None /\
  match w_redirect w with
  | Some r => wR w = true /\ w_csp w = (if wC w then Some r else None)
  | None => (wR w = true -> w_csp w = None) /\ (wC w = false -> w_csp w = None)
  end.

Lemma wrule_roundtrip w : wrule_wf w -> to_wrule (from_wrule w) = w.
Proof.
  destruct w as [m f od ond rd h csp bug t raw id du ndu].
  unfold wrule_wf, wR, wC, to_wrule, from_wrule, is_redirect, is_csp. cbn.
  intros [-> H]. destruct rd as [r|].
  - destruct H as [-> ->]. destruct (mask_has m M_IS_CSP); reflexivity.
  - destruct H as [H1 H2]. destruct (mask_has m M_IS_REDIRECT), (mask_has m M_IS_CSP);
      try rewrite (H1 eq_refl); try rewrite (H2 eq_refl); try reflexivity.
Qed.

Lemma to_wrule_wf r : wrule_wf (to_wrule r).
Proof.
  destruct r as [m f od ond mo h t raw id du ndu].
  unfold wrule_wf, wR, wC, to_wrule, is_redirect, is_csp. cbn. split; [reflexivity|].
  destruct (mask_has m M_IS_REDIRECT), (mask_has m M_IS_CSP), mo; cbn; repeat split; congruence.
Qed.

Lemma map_roundtrip_rules l : Forall mo_ok l -> map from_wrule (map to_wrule l) = l.
Proof.
  induction 1 as [|r l H _ IH]; cbn; [reflexivity|]. rewrite rule_roundtrip by assumption. rewrite IH. reflexivity.
Qed.
Lemma map_roundtrip_wrules l : Forall wrule_wf l -> map to_wrule (map from_wrule l) = l.
Proof.
  induction 1 as [|r l H _ IH]; cbn; [reflexivity|]. rewrite wrule_roundtrip by assumption. rewrite IH. reflexivity.
Qed.
