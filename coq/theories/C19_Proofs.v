(* C19_Proofs.v — the lock protocol of the thread-safe build: mutual exclusion, deadlock freedom,
   termination, no poisoning, and "every interleaving gives every thread the answers of a
   sequential single-thread run", for all schedules and any number of threads / queries. *)
From Adb Require Import Base BaseProofs Generated C19_Model.
From Coq Require Import ZifyBool ZifyNat ZifyN.

(* ------------------------------------------------------------------ lists *)
Lemma length_set_nth {X} (l : list X) i x : length (set_nth l i x) = length l.
Proof.
  revert i; induction l as [|y l IH]; intros [|i]; cbn [set_nth length]; auto.
Qed.

Lemma nth_error_set_nth {X} (l : list X) i j x t :
  nth_error l i = Some t ->
  nth_error (set_nth l i x) j = if Nat.eqb i j then Some x else nth_error l j.
Proof.
  revert i j; induction l as [|y l IH]; intros i j Hi.
  - destruct i; discriminate.
  - destruct i as [|i]; destruct j as [|j]; cbn [set_nth nth_error Nat.eqb]; auto.
Qed.

Lemma list_sum_set_nth {X} (f : X -> nat) (l : list X) i x t :
  nth_error l i = Some t ->
  (list_sum (map f (set_nth l i x)) + f t = list_sum (map f l) + f x)%nat.
Proof.
  unfold list_sum. revert i; induction l as [|y l IH]; intros i Hi.
  - destruct i; discriminate.
  - destruct i as [|i]; cbn [set_nth map fold_right nth_error] in *.
    + inversion Hi; subst. lia.
    + specialize (IH i Hi). lia.
Qed.

Lemma forallb_false_ex {X} (f : X -> bool) l :
  forallb f l = false -> exists x, In x l /\ f x = false.
Proof.
  induction l as [|y l IH]; cbn [forallb]; intro H; [discriminate|].
  destruct (f y) eqn:Hy.
  - destruct (IH H) as [x [Hin Hx]]. exists x; split; [right|]; assumption.
  - exists y; split; [left; reflexivity|assumption].
Qed.

Lemma map_Some_inj {X} (a b : list X) : map (@Some X) a = map (@Some X) b -> a = b.
Proof.
  revert b; induction a as [|x a IH]; intros [|y b] H; try discriminate; auto.
  cbn [map] in H. inversion H; subst. f_equal. apply IH; assumption.
Qed.

Lemma nth_error_ext' {X} (a b : list X) : (forall i, nth_error a i = nth_error b i) -> a = b.
Proof.
  revert b; induction a as [|x a IH]; intros [|y b] H; auto.
  - specialize (H O); discriminate.
  - specialize (H O); discriminate.
  - pose proof (H O) as H0. cbn [nth_error] in H0. inversion H0; subst. f_equal.
    apply IH. intro i. apply (H (S i)).
Qed.

(* ------------------------------------------------------------------ the cache *)
Lemma lookup_set_entry c k e k' :
  lookup (set_entry c k e) k' = if N.eqb k k' then Some e else lookup c k'.
Proof.
  induction c as [|[k0 e0] c IH]; cbn [set_entry lookup].
  - destruct (N.eqb k k'); reflexivity.
  - destruct (N.eqb k0 k) eqn:E0; cbn [lookup].
    + apply N.eqb_eq in E0; subst k0. destruct (N.eqb k k'); reflexivity.
    + destruct (N.eqb k0 k') eqn:E1.
      * apply N.eqb_eq in E1; subst k0. rewrite N.eqb_sym in E0. rewrite E0. reflexivity.
      * exact IH.
Qed.

Lemma lookup_discard_all c k e : lookup (discard_all c) k = Some e -> e = Discarded.
Proof.
  induction c as [|[k0 e0] c IH]; cbn [discard_all map lookup fst]; [discriminate|].
  destruct (N.eqb k0 k); [intro H; inversion H; reflexivity|exact IH].
Qed.

(* ------------------------------------------------------------------ protocol: generic part *)
Section ProtocolProofs.
  Variables Q A : Type.
  Variable body : cache -> Q -> res (cache * A).

  Notation state := (state Q A).
  Notation thread := (thread Q A).
  Notation step := (step body).
  Notation run := (run body).
  Notation init := (@init Q A).

  Lemma nth_upd (s : state) i j t t' :
    nth_error (s_threads s) i = Some t ->
    nth_error (upd s i t') j = if Nat.eqb i j then Some t' else nth_error (s_threads s) j.
  Proof. intro H. unfold upd. eapply nth_error_set_nth; exact H. Qed.

  (* the six kinds of events *)
  Inductive step_kind (s : state) (i : nat) (t : thread) : state -> Prop :=
  | SK_acquire :
      t_pc t = AtAcquire -> t_todo t <> [] -> s_owner s = None -> s_poisoned s = false ->
      step_kind s i t (mkS (s_cache s) false (Some i) (upd s i (mkT AtBody (t_todo t) (t_done t))))
  | SK_acquire_poisoned :
      t_pc t = AtAcquire -> t_todo t <> [] -> s_owner s = None -> s_poisoned s = true ->
      step_kind s i t (mkS (s_cache s) true None (upd s i (mkT Crashed (t_todo t) (t_done t))))
  | SK_body_ok q rest c' a :
      t_pc t = AtBody -> s_owner s = Some i -> t_todo t = q :: rest ->
      body (s_cache s) q = Ok (c', a) ->
      step_kind s i t (mkS c' (s_poisoned s) (s_owner s) (upd s i (mkT AtRelease rest (t_done t ++ [a]))))
  | SK_body_panic q rest w :
      t_pc t = AtBody -> s_owner s = Some i -> t_todo t = q :: rest ->
      body (s_cache s) q = Panic w ->
      step_kind s i t (mkS (s_cache s) true None (upd s i (mkT Crashed (t_todo t) (t_done t))))
  | SK_release :
      t_pc t = AtRelease -> s_owner s = Some i ->
      step_kind s i t (mkS (s_cache s) (s_poisoned s) None (upd s i (mkT AtPost (t_todo t) (t_done t))))
  | SK_post :
      t_pc t = AtPost ->
      step_kind s i t (mkS (s_cache s) (s_poisoned s) (s_owner s) (upd s i (mkT AtAcquire (t_todo t) (t_done t)))).

  Lemma owner_is_true (s : state) i : owner_is s i = true -> s_owner s = Some i.
  Proof.
    unfold owner_is. destruct (s_owner s) as [j|]; [|discriminate].
    intro H. apply Nat.eqb_eq in H. subst; reflexivity.
  Qed.

  Lemma owner_is_Some (s : state) i : s_owner s = Some i -> owner_is s i = true.
  Proof. unfold owner_is. intros ->. apply Nat.eqb_refl. Qed.

  Lemma step_inv (s : state) i s' :
    step s i = Some s' ->
    exists t, nth_error (s_threads s) i = Some t /\ step_kind s i t s'.
  Proof.
    unfold C19_Model.step. destruct (nth_error (s_threads s) i) as [t|] eqn:Ht; [|discriminate].
    intro H. exists t. split; [reflexivity|].
    destruct (t_pc t) eqn:Hpc.
    - destruct (t_todo t) as [|q rest] eqn:Htodo; [discriminate|].
      destruct (s_owner s) eqn:Ho; [discriminate|].
      destruct (s_poisoned s) eqn:Hp; inversion H; subst s'; rewrite <- Htodo.
      + apply SK_acquire_poisoned; auto. rewrite Htodo; discriminate.
      + apply SK_acquire; auto. rewrite Htodo; discriminate.
    - destruct (owner_is s i) eqn:Ho; [|discriminate]. apply owner_is_true in Ho.
      destruct (t_todo t) as [|q rest] eqn:Htodo; [discriminate|].
      destruct (body (s_cache s) q) as [[c' a]|w] eqn:Hb; inversion H; subst s'.
      + eapply SK_body_ok; eauto.
      + rewrite <- Htodo. eapply SK_body_panic; eauto.
    - destruct (owner_is s i) eqn:Ho; [|discriminate]. apply owner_is_true in Ho.
      inversion H; subst s'. apply SK_release; auto.
    - inversion H; subst s'. apply SK_post; auto.
    - discriminate.
  Qed.

  (* invariants are proved once per event kind and lifted to all schedules *)
  Lemma run_invariant (P : state -> Prop) :
    (forall s i s', P s -> step s i = Some s' -> P s') ->
    forall sched s s', P s -> run s sched = Some s' -> P s'.
  Proof.
    intros Hstep sched. induction sched as [|i r IH]; intros s s' HP Hrun; cbn [C19_Model.run] in Hrun.
    - inversion Hrun; subst; exact HP.
    - destruct (step s i) as [s1|] eqn:Hs; [|discriminate].
      eapply IH; [|exact Hrun]. eapply Hstep; eassumption.
  Qed.

  Lemma run_app sched1 sched2 (s : state) :
    run s (sched1 ++ sched2) =
    match run s sched1 with Some s1 => run s1 sched2 | None => None end.
  Proof.
    revert s; induction sched1 as [|i r IH]; intro s; cbn [app C19_Model.run]; [reflexivity|].
    destruct (step s i); [apply IH|reflexivity].
  Qed.

  (* ---------------------------------------------------------------- lock invariant *)
  Definition wf (s : state) : Prop :=
    (forall i, s_owner s = Some i -> holding s i) /\
    (forall i, holding s i -> s_owner s = Some i) /\
    (forall i t, nth_error (s_threads s) i = Some t -> t_pc t = AtBody -> t_todo t <> []).

  Lemma init_threads c (qss : list (list Q)) i t :
    nth_error (s_threads (init c qss)) i = Some t ->
    exists qs, nth_error qss i = Some qs /\ t = mkT AtAcquire qs [].
  Proof.
    cbn [init s_threads]. intro H.
    destruct (nth_error qss i) as [qs|] eqn:Hq.
    - erewrite map_nth_error in H by exact Hq. inversion H. eauto.
    - apply nth_error_None in Hq.
      assert (Hl : nth_error (map (fun qs => mkT AtAcquire qs (@nil A)) qss) i = None)
        by (apply nth_error_None; rewrite map_length; exact Hq).
      rewrite Hl in H; discriminate.
  Qed.

  Lemma wf_init c qss : wf (init c qss).
  Proof.
    repeat split.
    - cbn [init s_owner]. discriminate.
    - intros i [t [Ht Hh]]. apply init_threads in Ht. destruct Ht as [qs [_ ->]]. discriminate.
    - intros i t Ht Hpc. apply init_threads in Ht. destruct Ht as [qs [_ ->]]. discriminate.
  Qed.

  Lemma holding_upd (s : state) i t t' j :
    nth_error (s_threads s) i = Some t ->
    holding (mkS (s_cache s) (s_poisoned s) (s_owner s) (upd s i t')) j <->
    (if Nat.eqb i j then holdingb t' = true else holding s j).
  Proof.
    intro Ht. unfold holding. cbn [s_threads].
    setoid_rewrite (nth_upd s i j t t' Ht).
    destruct (Nat.eqb i j); [|reflexivity].
    split; [intros [x [Hx Hh]]; inversion Hx; subst; exact Hh|intro Hh; eauto].
  Qed.

  (* [holding] only looks at the thread list *)
  Lemma holding_threads (s1 s2 : state) j :
    s_threads s1 = s_threads s2 -> holding s1 j <-> holding s2 j.
  Proof. unfold holding. intros ->. reflexivity. Qed.

  Lemma wf_step (s : state) i s' : wf s -> step s i = Some s' -> wf s'.
  Proof.
    intros [Ho [Hh Hb]] Hs. apply step_inv in Hs. destruct Hs as [t [Ht Hk]].
    assert (Hnot : forall j, holdingb t = false -> holding s j -> Nat.eqb i j = false).
    { intros j Hf [x [Hx Hxh]]. destruct (Nat.eqb i j) eqn:E; [|reflexivity].
      apply Nat.eqb_eq in E; subst j. rewrite Ht in Hx. inversion Hx; subst. congruence. }
    assert (Hthr : forall c p o t' j,
               holding (mkS c p o (upd s i t')) j <->
               (if Nat.eqb i j then holdingb t' = true else holding s j)).
    { intros c p o t' j. rewrite <- (holding_upd s i t t' j Ht). apply holding_threads. reflexivity. }
    assert (Hbody : forall c p o t', (t_pc t' = AtBody -> t_todo t' <> []) ->
               forall j x, nth_error (s_threads (mkS c p o (upd s i t'))) j = Some x ->
                           t_pc x = AtBody -> t_todo x <> []).
    { intros c p o t' Ht' j x Hx. cbn [s_threads] in Hx. rewrite (nth_upd s i j t t' Ht) in Hx.
      destruct (Nat.eqb i j); [inversion Hx; subst; exact Ht'|apply (Hb j x Hx)]. }
    assert (Hself : holding s i <-> holdingb t = true).
    { unfold holding. split; [intros [x [Hx Hxh]]; rewrite Ht in Hx; inversion Hx; subst; exact Hxh|eauto]. }
    destruct Hk as [Hpc Htodo Hown Hpois | Hpc Htodo Hown Hpois | q rest c' a Hpc Hown Htodo Hbd
                   | q rest w Hpc Hown Htodo Hbd | Hpc Hown | Hpc];
      (split; [|split; [|apply Hbody; cbn [t_pc t_todo]; try discriminate; auto]]).
    - (* acquire *) intros j Hj. cbn [s_owner] in Hj. inversion Hj; subst j.
      apply Hthr. rewrite Nat.eqb_refl. reflexivity.
    - intros j Hj. apply Hthr in Hj. cbn [s_owner]. destruct (Nat.eqb i j) eqn:E.
      + apply Nat.eqb_eq in E; subst; reflexivity.
      + apply Hh in Hj. congruence.
    - (* acquire, poisoned *) cbn [s_owner]. discriminate.
    - intros j Hj. apply Hthr in Hj. cbn [s_owner]. destruct (Nat.eqb i j) eqn:E.
      + discriminate.
      + apply Hh in Hj. congruence.
    - (* body ok *) intros j Hj. cbn [s_owner] in Hj. rewrite Hown in Hj. inversion Hj; subst j.
      apply Hthr. rewrite Nat.eqb_refl. reflexivity.
    - intros j Hj. apply Hthr in Hj. cbn [s_owner]. destruct (Nat.eqb i j) eqn:E.
      + apply Nat.eqb_eq in E; subst; exact Hown.
      + apply Hh; exact Hj.
    - (* body panic *) cbn [s_owner]. discriminate.
    - intros j Hj. apply Hthr in Hj. cbn [s_owner]. destruct (Nat.eqb i j) eqn:E.
      + discriminate.
      + apply Hh in Hj. rewrite Hown in Hj. inversion Hj; subst j. rewrite Nat.eqb_refl in E. discriminate.
    - (* release *) cbn [s_owner]. discriminate.
    - intros j Hj. apply Hthr in Hj. cbn [s_owner]. destruct (Nat.eqb i j) eqn:E.
      + discriminate.
      + apply Hh in Hj. rewrite Hown in Hj. inversion Hj; subst j. rewrite Nat.eqb_refl in E. discriminate.
    - (* post *) intros j Hj. cbn [s_owner] in Hj. apply Hthr.
      assert (Hf : holdingb t = false) by (unfold holdingb; rewrite Hpc; reflexivity).
      pose proof (Ho j Hj) as Hhj. rewrite (Hnot j Hf Hhj). exact Hhj.
    - intros j Hj. apply Hthr in Hj. cbn [s_owner]. destruct (Nat.eqb i j) eqn:E.
      + discriminate.
      + apply Hh; exact Hj.
  Qed.

  Lemma wf_reachable c qss (s : state) : reachable body (init c qss) s -> wf s.
  Proof.
    intros [sched Hrun]. eapply (run_invariant wf); [|apply wf_init|exact Hrun].
    intros s0 i s1 Hw Hs. eapply wf_step; eassumption.
  Qed.

  (* at most one thread is between Acquire and Release, in every reachable state *)
  Theorem mutual_exclusion c qss (s : state) i j :
    reachable body (init c qss) s -> holding s i -> holding s j -> i = j.
  Proof.
    intros Hr Hi Hj. apply wf_reachable in Hr. destruct Hr as [_ [Hh _]].
    apply Hh in Hi. apply Hh in Hj. congruence.
  Qed.

  (* and it is the one the mutex records as its owner *)
  Theorem holder_is_owner c qss (s : state) i :
    reachable body (init c qss) s -> (holding s i <-> s_owner s = Some i).
  Proof.
    intros Hr. apply wf_reachable in Hr. destruct Hr as [Ho [Hh _]]. split; auto.
  Qed.

  (* ---------------------------------------------------------------- deadlock freedom *)
  Lemma wf_progress (s : state) : wf s -> final s = false -> exists i s', step s i = Some s'.
  Proof.
    intros [Ho [Hh Hb]] Hfin.
    destruct (s_owner s) as [i|] eqn:Hown.
    - (* the holder can move *)
      destruct (Ho i eq_refl) as [t [Ht Hhold]]. exists i.
      unfold C19_Model.step. rewrite Ht. unfold holdingb in Hhold.
      destruct (t_pc t) eqn:Hpc; try discriminate.
      + rewrite (owner_is_Some s i Hown).
        destruct (t_todo t) as [|q rest] eqn:Htodo; [exfalso; eapply Hb; eauto|].
        destruct (body (s_cache s) q) as [[c' a]|w]; eauto.
      + rewrite (owner_is_Some s i Hown). eauto.
    - (* the lock is free: some unfinished thread is waiting to acquire, or outside the lock *)
      unfold final in Hfin. apply forallb_false_ex in Hfin. destruct Hfin as [t [Hin Hf]].
      apply In_nth_error in Hin. destruct Hin as [i Ht]. exists i.
      unfold C19_Model.step. rewrite Ht. unfold finishedb in Hf.
      destruct (t_pc t) eqn:Hpc.
      + destruct (t_todo t) as [|q rest]; [discriminate|]. rewrite Hown.
        destruct (s_poisoned s); eauto.
      + exfalso. assert (Hx : holding s i) by (exists t; split; [exact Ht|unfold holdingb; rewrite Hpc; reflexivity]).
        apply Hh in Hx. congruence.
      + exfalso. assert (Hx : holding s i) by (exists t; split; [exact Ht|unfold holdingb; rewrite Hpc; reflexivity]).
        apply Hh in Hx. congruence.
      + eauto.
      + discriminate.
  Qed.

  Theorem no_deadlock c qss (s : state) :
    reachable body (init c qss) s -> final s = false -> exists i s', step s i = Some s'.
  Proof. intros Hr. apply wf_progress. eapply wf_reachable; exact Hr. Qed.

  (* final states are exactly the states without an enabled event *)
  Lemma final_stuck (s : state) i : final s = true -> step s i = None.
  Proof.
    unfold final. intro Hf. unfold C19_Model.step.
    destruct (nth_error (s_threads s) i) as [t|] eqn:Ht; [|reflexivity].
    apply nth_error_In in Ht. rewrite forallb_forall in Hf. specialize (Hf t Ht).
    unfold finishedb in Hf. destruct (t_pc t); try discriminate; [|reflexivity].
    destruct (t_todo t); [reflexivity|discriminate].
  Qed.

  (* ---------------------------------------------------------------- termination *)
  Lemma measure_upd (s : state) i t t' c p o :
    nth_error (s_threads s) i = Some t ->
    (measure (mkS c p o (upd s i t')) + t_measure t = measure s + t_measure t')%nat.
  Proof. intro Ht. unfold measure, upd. cbn [s_threads]. apply list_sum_set_nth. exact Ht. Qed.

  Lemma step_measure (s : state) i s' : step s i = Some s' -> (measure s' < measure s)%nat.
  Proof.
    intro Hs. apply step_inv in Hs. destruct Hs as [t [Ht Hk]].
    destruct Hk as [Hpc Htodo Hown Hpois | Hpc Htodo Hown Hpois | q rest c' a Hpc Hown Htodo Hbd
                   | q rest w Hpc Hown Htodo Hbd | Hpc Hown | Hpc];
      match goal with |- (measure (mkS ?c ?p ?o (upd s i ?t')) < _)%nat =>
        pose proof (measure_upd s i t t' c p o Ht) as Hm end;
      unfold t_measure in Hm; cbn [t_pc t_todo] in Hm; rewrite Hpc in Hm; cbv beta iota in Hm;
      try rewrite Htodo in Hm; try rewrite Htodo;
      try (destruct (t_todo t) as [|q0 r0]; [congruence|]);
      cbn [length] in Hm; lia.
  Qed.

  Theorem schedule_bounded sched (s s' : state) :
    run s sched = Some s' -> (length sched + measure s' <= measure s)%nat.
  Proof.
    revert s; induction sched as [|i r IH]; intros s Hrun; cbn [C19_Model.run] in Hrun.
    - inversion Hrun; subst. cbn [length]. lia.
    - destruct (step s i) as [s1|] eqn:Hs; [|discriminate].
      apply step_measure in Hs. specialize (IH s1 Hrun). cbn [length]. lia.
  Qed.

  Lemma measure_init c (qss : list (list Q)) :
    measure (init c qss) = (4 * list_sum (map (@length Q) qss))%nat.
  Proof.
    unfold measure. cbn [init s_threads]. induction qss as [|qs r IH]; [reflexivity|].
    unfold list_sum in *. cbn [map fold_right]. rewrite IH. unfold t_measure. cbn [t_pc t_todo]. lia.
  Qed.

  Theorem schedule_bounded_init c (qss : list (list Q)) sched (s : state) :
    run (init c qss) sched = Some s ->
    (length sched <= 4 * list_sum (map (@length Q) qss))%nat.
  Proof.
    intro H. pose proof (schedule_bounded sched _ _ H) as Hb. rewrite measure_init in Hb. lia.
  Qed.
End ProtocolProofs.

(* ------------------------------------------------------------------ protocol: conditional part *)
(* What the theorems below assume about the critical section, as Section hypotheses (they become
   explicit premises of the pinned statements and are PROVED for the regex-manager body further
   down, with [inv] = the C06 cache invariant [cache_ok]):
     body_ok                   on a cache satisfying the invariant the body does not panic and
                               re-establishes the invariant (parsed rules: C10/C11);
     answer_cache_independent  the *answer* does not depend on the cache contents. *)
Section ProtocolConditional.
  Variables Q A : Type.
  Variable body : cache -> Q -> res (cache * A).
  Variable inv : cache -> Prop.
  Hypothesis body_ok :
    forall c q, inv c -> exists c' a, body c q = Ok (c', a) /\ inv c'.
  Hypothesis answer_cache_independent :
    forall c1 c2 q c1' a1 c2' a2, inv c1 -> inv c2 ->
      body c1 q = Ok (c1', a1) -> body c2 q = Ok (c2', a2) -> a1 = a2.

  Notation state := (state Q A).
  Notation thread := (thread Q A).
  Notation step := (step body).
  Notation run := (run body).
  Notation init := (@init Q A).

  (* ---------------------------------------------------------------- no poisoning *)
  Definition healthy (s : state) : Prop :=
    inv (s_cache s) /\ s_poisoned s = false /\
    (forall i t, nth_error (s_threads s) i = Some t -> t_pc t <> Crashed).

  Lemma healthy_step (s : state) i s' : healthy s -> step s i = Some s' -> healthy s'.
  Proof.
    intros [Hinv [Hp Hc]] Hs. apply (step_inv Q A body) in Hs. destruct Hs as [t [Ht Hk]].
    assert (Hthr : forall c p o t', t_pc t' <> Crashed ->
               forall j x, nth_error (s_threads (mkS c p o (upd s i t'))) j = Some x -> t_pc x <> Crashed).
    { intros c p o t' Ht' j x Hx. cbn [s_threads] in Hx. rewrite (nth_upd Q A s i j t t' Ht) in Hx.
      destruct (Nat.eqb i j); [inversion Hx; subst; exact Ht'|apply (Hc j x Hx)]. }
    destruct Hk as [Hpc Htodo Hown Hpois | Hpc Htodo Hown Hpois | q rest c' a Hpc Hown Htodo Hbd
                   | q rest w Hpc Hown Htodo Hbd | Hpc Hown | Hpc].
    - split; [exact Hinv|split; [reflexivity|apply Hthr; cbn [t_pc]; discriminate]].
    - congruence.
    - destruct (body_ok (s_cache s) q Hinv) as [c1 [a1 [Hb1 Hi1]]].
      rewrite Hbd in Hb1. inversion Hb1; subst c1 a1.
      split; [exact Hi1|split; [exact Hp|apply Hthr; cbn [t_pc]; discriminate]].
    - destruct (body_ok (s_cache s) q Hinv) as [c1 [a1 [Hb1 _]]]. congruence.
    - split; [exact Hinv|split; [exact Hp|apply Hthr; cbn [t_pc]; discriminate]].
    - split; [exact Hinv|split; [exact Hp|apply Hthr; cbn [t_pc]; discriminate]].
  Qed.

  Lemma healthy_init c qss : inv c -> healthy (init c qss).
  Proof.
    intro Hc. split; [exact Hc|split; [reflexivity|]].
    intros i t Ht. apply (init_threads Q A) in Ht. destruct Ht as [qs [_ ->]]. discriminate.
  Qed.

  (* if no Body panics, the mutex is never poisoned and no thread ever dies, on every schedule *)
  Theorem no_poison c qss sched (s : state) :
    inv c -> run (init c qss) sched = Some s ->
    s_poisoned s = false /\ any_crashed s = false /\ inv (s_cache s).
  Proof.
    intros Hc Hrun.
    assert (H : healthy s).
    { eapply (run_invariant Q A body healthy); [|apply healthy_init; exact Hc|exact Hrun].
      intros s0 i s1 Hh Hs. eapply healthy_step; eassumption. }
    destruct H as [Hinv [Hp Hcr]]. split; [exact Hp|split; [|exact Hinv]].
    unfold any_crashed. destruct (existsb crashedb (s_threads s)) eqn:E; [|reflexivity].
    apply existsb_exists in E. destruct E as [t [Hin Hcrash]].
    apply In_nth_error in Hin. destruct Hin as [i Ht]. exfalso. apply (Hcr i t Ht).
    unfold crashedb in Hcrash. destruct (t_pc t); try discriminate. reflexivity.
  Qed.

  (* so, with deadlock freedom: a schedule that cannot be extended has run every query *)
  Lemma final_complete (s : state) : any_crashed s = false -> final s = true -> complete s = true.
  Proof.
    unfold any_crashed, final, complete. intros Hc Hf.
    apply forallb_forall. intros t Hin. rewrite forallb_forall in Hf. specialize (Hf t Hin).
    assert (Hn : crashedb t = false).
    { destruct (crashedb t) eqn:E; [|reflexivity].
      assert (existsb crashedb (s_threads s) = true) by (apply existsb_exists; eauto). congruence. }
    unfold finishedb in Hf. unfold completedb. unfold crashedb in Hn.
    destruct (t_pc t); try discriminate. destruct (t_todo t); [reflexivity|discriminate].
  Qed.

  Theorem maximal_schedule_complete c qss sched (s : state) :
    inv c -> run (init c qss) sched = Some s ->
    (forall i, step s i = None) -> complete s = true.
  Proof.
    intros Hc Hrun Hstuck.
    destruct (no_poison c qss sched s Hc Hrun) as [_ [Hcr _]].
    apply final_complete; [exact Hcr|].
    destruct (final s) eqn:Hf; [reflexivity|].
    destruct (no_deadlock Q A body c qss s (ex_intro _ sched Hrun) Hf) as [i [s' Hs]].
    rewrite Hstuck in Hs. discriminate.
  Qed.

  (* ---------------------------------------------------------------- answers = sequential answers *)
  Definition ans (c : cache) (q : Q) : option A :=
    match body c q with Ok (_, a) => Some a | Panic _ => None end.

  Lemma ans_indep c0 c q c' a : inv c0 -> inv c -> body c q = Ok (c', a) -> ans c0 q = Some a.
  Proof.
    intros H0 Hc Hb. unfold ans. destruct (body_ok c0 q H0) as [c1 [a1 [Hb1 _]]]. rewrite Hb1.
    f_equal. eapply answer_cache_independent; [exact H0|exact Hc|exact Hb1|exact Hb].
  Qed.

  Lemma seq_run_spec c0 : inv c0 -> forall qs c, inv c ->
    exists c' l, seq_run body c qs = Ok (c', l) /\ inv c' /\ map (@Some A) l = map (ans c0) qs.
  Proof.
    intros H0 qs. induction qs as [|q r IH]; intros c Hc; cbn [seq_run map].
    - exists c, []. auto.
    - destruct (body_ok c q Hc) as [c1 [a [Hb Hi1]]]. rewrite Hb.
      destruct (IH c1 Hi1) as [c2 [l [Hr [Hi2 Hl]]]]. rewrite Hr.
      exists c2, (a :: l). split; [reflexivity|split; [exact Hi2|]].
      cbn [map]. rewrite Hl. f_equal. symmetry. exact (ans_indep c0 c q c1 a H0 Hc Hb).
  Qed.

  Definition seq_inv (c0 : cache) (qss : list (list Q)) (s : state) : Prop :=
    inv (s_cache s) /\
    forall i t qs, nth_error (s_threads s) i = Some t -> nth_error qss i = Some qs ->
      map (ans c0) qs = map (@Some A) (t_done t) ++ map (ans c0) (t_todo t).

  Lemma seq_inv_step c0 qss (s : state) i s' :
    inv c0 -> seq_inv c0 qss s -> step s i = Some s' -> seq_inv c0 qss s'.
  Proof.
    intros H0 [Hinv Hq] Hs. apply (step_inv Q A body) in Hs. destruct Hs as [t [Ht Hk]].
    assert (Hthr : forall c p o t',
               map (@Some A) (t_done t') ++ map (ans c0) (t_todo t') =
               map (@Some A) (t_done t) ++ map (ans c0) (t_todo t) ->
               forall j x qs, nth_error (s_threads (mkS c p o (upd s i t'))) j = Some x ->
                 nth_error qss j = Some qs ->
                 map (ans c0) qs = map (@Some A) (t_done x) ++ map (ans c0) (t_todo x)).
    { intros c p o t' Heq j x qs Hx Hqs. cbn [s_threads] in Hx. rewrite (nth_upd Q A s i j t t' Ht) in Hx.
      destruct (Nat.eqb i j) eqn:E; [|apply (Hq j x qs Hx Hqs)].
      apply Nat.eqb_eq in E; subst j. inversion Hx; subst x. rewrite Heq. apply (Hq i t qs Ht Hqs). }
    destruct Hk as [Hpc Htodo Hown Hpois | Hpc Htodo Hown Hpois | q rest c' a Hpc Hown Htodo Hbd
                   | q rest w Hpc Hown Htodo Hbd | Hpc Hown | Hpc];
      try (split; [exact Hinv|apply Hthr; reflexivity]).
    split.
    - destruct (body_ok (s_cache s) q Hinv) as [c1 [a1 [Hb1 Hi1]]]. rewrite Hbd in Hb1.
      inversion Hb1; subst; exact Hi1.
    - apply Hthr. cbn [t_done t_todo]. rewrite Htodo. cbn [map].
      rewrite map_app, <- app_assoc. cbn [map app].
      rewrite (ans_indep c0 (s_cache s) q c' a H0 Hinv Hbd). reflexivity.
  Qed.

  Lemma seq_inv_init c0 c qss : inv c -> seq_inv c0 qss (init c qss).
  Proof.
    intro Hc. split; [exact Hc|]. intros i t qs Ht Hqs.
    apply (init_threads Q A) in Ht. destruct Ht as [qs' [Hq' ->]].
    rewrite Hqs in Hq'. inversion Hq'; subst. reflexivity.
  Qed.

  Lemma firstn_map_Some_app (l : list A) (r : list (option A)) :
    firstn (length l) (map (@Some A) l ++ r) = map (@Some A) l.
  Proof.
    replace (length l) with (length (map (@Some A) l) + 0)%nat by (rewrite map_length; lia).
    rewrite firstn_app_2. cbn [firstn]. apply app_nil_r.
  Qed.

  (* Every thread, at every point of every interleaving, holds exactly the answers that a single
     thread running the same queries in order on its own engine (any cache satisfying the
     invariant, e.g. the empty cache of a fresh engine) gets for the queries done so far. *)
  Theorem interleaving_sequential_prefix c0 qss sched (s : state) :
    inv c0 -> run (init c0 qss) sched = Some s ->
    forall c1, inv c1 ->
    forall i t qs, nth_error (s_threads s) i = Some t -> nth_error qss i = Some qs ->
      exists c', seq_run body c1 (firstn (length (t_done t)) qs) = Ok (c', t_done t).
  Proof.
    intros H0 Hrun c1 H1 i t qs Ht Hqs.
    assert (H : seq_inv c0 qss s).
    { eapply (run_invariant Q A body (seq_inv c0 qss)); [|apply seq_inv_init; exact H0|exact Hrun].
      intros s0 j s1 Hi Hs. eapply seq_inv_step; eassumption. }
    destruct H as [_ Hq]. specialize (Hq i t qs Ht Hqs).
    destruct (seq_run_spec c0 H0 (firstn (length (t_done t)) qs) c1 H1) as [c' [l [Hr [_ Hl]]]].
    exists c'. rewrite Hr. do 2 f_equal. apply map_Some_inj. rewrite Hl.
    rewrite <- firstn_map, Hq. apply firstn_map_Some_app.
  Qed.

  Lemma complete_thread (s : state) i t :
    complete s = true -> nth_error (s_threads s) i = Some t -> t_pc t = AtAcquire /\ t_todo t = [].
  Proof.
    unfold complete. intros Hc Ht. rewrite forallb_forall in Hc.
    specialize (Hc t (nth_error_In _ _ Ht)). unfold completedb in Hc.
    destruct (t_pc t); try discriminate. destruct (t_todo t); [auto|discriminate].
  Qed.

  Theorem interleaving_sequential c0 qss sched (s : state) :
    inv c0 -> run (init c0 qss) sched = Some s -> complete s = true ->
    forall c1, inv c1 ->
    forall i qs, nth_error qss i = Some qs ->
      exists t c', nth_error (s_threads s) i = Some t /\ seq_run body c1 qs = Ok (c', t_done t).
  Proof.
    intros H0 Hrun Hcomp c1 H1 i qs Hqs.
    assert (H : seq_inv c0 qss s).
    { eapply (run_invariant Q A body (seq_inv c0 qss)); [|apply seq_inv_init; exact H0|exact Hrun].
      intros s0 j s1 Hi Hs. eapply seq_inv_step; eassumption. }
    assert (Hlen : length (s_threads s) = length qss).
    { refine (run_invariant Q A body (fun s => length (s_threads s) = length qss) _ sched (init c0 qss) s _ Hrun).
      - intros s0 j s1 Hl Hs. apply (step_inv Q A body) in Hs. destruct Hs as [t [_ Hk]].
        destruct Hk; cbn [s_threads]; unfold upd; rewrite length_set_nth; exact Hl.
      - cbn [C19_Model.init s_threads]. apply map_length. }
    destruct (nth_error (s_threads s) i) as [t|] eqn:Ht.
    2:{ apply nth_error_None in Ht. assert (i < length qss)%nat by (apply nth_error_Some; congruence). lia. }
    destruct (complete_thread s i t Hcomp Ht) as [_ Htodo].
    destruct H as [_ Hq]. specialize (Hq i t qs Ht Hqs). rewrite Htodo in Hq. cbn [map] in Hq.
    rewrite app_nil_r in Hq.
    destruct (seq_run_spec c0 H0 qs c1 H1) as [c' [l [Hr [_ Hl]]]].
    exists t, c'. split; [reflexivity|]. rewrite Hr. do 2 f_equal. apply map_Some_inj. congruence.
  Qed.

  (* ---------------------------------------------------------------- serial order *)
  (* the queries whose Body ran, in the order of the schedule (= lock acquisition order) *)
  Fixpoint body_trace (s : state) (sched : list nat) : list Q :=
    match sched with
    | [] => []
    | i :: r =>
        match step s i with
        | None => []
        | Some s' =>
            (match nth_error (s_threads s) i with
             | Some t => match t_pc t, t_todo t with AtBody, q :: _ => [q] | _, _ => [] end
             | None => []
             end) ++ body_trace s' r
        end
    end.

  Lemma seq_run_app c qs1 qs2 c1 l1 :
    seq_run body c qs1 = Ok (c1, l1) ->
    seq_run body c (qs1 ++ qs2) =
    match seq_run body c1 qs2 with Ok (c2, l2) => Ok (c2, l1 ++ l2) | Panic w => Panic w end.
  Proof.
    revert c l1; induction qs1 as [|q r IH]; intros c l1 H; cbn [seq_run app] in *.
    - inversion H; subst. destruct (seq_run body c1 qs2) as [[c2 l2]|w]; reflexivity.
    - destruct (body c q) as [[c' a]|w]; [|discriminate].
      destruct (seq_run body c' r) as [[c'' l]|w] eqn:Hr; [|discriminate].
      inversion H; subst. rewrite (IH c' l Hr).
      destruct (seq_run body c1 qs2) as [[c2 l2]|w]; reflexivity.
  Qed.

  (* The shared cache after ANY interleaving is the cache a single thread produces by running
     the critical sections one after the other in lock-acquisition order: critical sections are
     atomic with respect to the cache. *)
  Theorem serial_order sched : forall (s s' : state),
    inv (s_cache s) -> s_poisoned s = false ->
    run s sched = Some s' ->
    exists l, seq_run body (s_cache s) (body_trace s sched) = Ok (s_cache s', l).
  Proof.
    induction sched as [|i r IH]; intros s s' Hinv Hp Hrun; cbn [C19_Model.run body_trace] in *.
    - inversion Hrun; subst. exists []. reflexivity.
    - destruct (step s i) as [s1|] eqn:Hs; [|discriminate].
      pose proof Hs as Hs0. apply (step_inv Q A body) in Hs. destruct Hs as [t [Ht Hk]]. rewrite Ht.
      destruct Hk as [Hpc Htodo Hown Hpois | Hpc Htodo Hown Hpois | q rest c' a Hpc Hown Htodo Hbd
                     | q rest w Hpc Hown Htodo Hbd | Hpc Hown | Hpc]; rewrite Hpc.
      + match type of Hrun with @C19_Model.run _ _ _ ?s1 _ = _ =>
          destruct (IH s1 s' Hinv eq_refl Hrun) as [l Hl] end. exists l. exact Hl.
      + congruence.
      + rewrite Htodo.
        destruct (body_ok (s_cache s) q Hinv) as [c1 [a1 [Hb1 Hi1]]].
        rewrite Hbd in Hb1. inversion Hb1; subst c1 a1.
        match type of Hrun with @C19_Model.run _ _ _ ?s1 _ = _ =>
          destruct (IH s1 s' Hi1 Hp Hrun) as [l Hl] end. cbn [s_cache] in Hl.
        exists ([a] ++ l). erewrite seq_run_app; [|cbn [seq_run]; rewrite Hbd; reflexivity].
        rewrite Hl. reflexivity.
      + destruct (body_ok (s_cache s) q Hinv) as [c1 [a1 [Hb1 _]]]. congruence.
      + match type of Hrun with @C19_Model.run _ _ _ ?s1 _ = _ =>
          destruct (IH s1 s' Hinv Hp Hrun) as [l Hl] end. exists l. exact Hl.
      + match type of Hrun with @C19_Model.run _ _ _ ?s1 _ = _ =>
          destruct (IH s1 s' Hinv Hp Hrun) as [l Hl] end. exists l. exact Hl.
  Qed.
End ProtocolConditional.

(* ------------------------------------------------------------------ the regex-manager body *)
(* The Section hypotheses above are theorems for the modelled RegexManager: the answer is computed
   THROUGH the cache (a cached regex is used when there is one), and is nevertheless the fresh
   answer as long as the C06 invariant holds: a cached regex is the one compiled from the rule at
   that key. *)
Section RegexBodyProofs.
  Variable compile : key -> N.
  Variable is_match : N -> N -> bool.
  Notation cache_ok := (cache_ok compile).
  Notation use_key := (use_key compile is_match).
  Notation rm_body := (rm_body compile is_match).

  Lemma cache_ok_nil : cache_ok [].
  Proof. intros k r H. discriminate. Qed.

  Lemma cache_ok_discard c : cache_ok (discard_all c).
  Proof. intros k r H. apply lookup_discard_all in H. discriminate. Qed.

  Lemma cache_ok_set c k : cache_ok c -> cache_ok (set_entry c k (Compiled (compile k))).
  Proof.
    intros Hc k' r H. rewrite lookup_set_entry in H. destruct (N.eqb k k') eqn:E.
    - apply N.eqb_eq in E; subst. inversion H; reflexivity.
    - apply (Hc k' r H).
  Qed.

  Lemma use_key_ok u c acc k :
    cache_ok c ->
    cache_ok (fst (use_key u (c, acc) k)) /\
    snd (use_key u (c, acc) k) = acc ++ [is_match (compile k) u].
  Proof.
    intro Hc. unfold C19_Model.use_key. cbn [fst snd].
    destruct (lookup c k) as [[r|]|] eqn:Hl; cbn [fst snd].
    - split; [exact Hc|]. rewrite (Hc k r Hl). reflexivity.
    - split; [apply cache_ok_set; exact Hc|reflexivity].
    - split; [apply cache_ok_set; exact Hc|reflexivity].
  Qed.

  Lemma fold_use_key_ok u ks : forall c acc,
    cache_ok c ->
    cache_ok (fst (fold_left (use_key u) ks (c, acc))) /\
    snd (fold_left (use_key u) ks (c, acc)) = acc ++ map (fun k => is_match (compile k) u) ks.
  Proof.
    induction ks as [|k r IH]; intros c acc Hc; cbn [fold_left map].
    - rewrite app_nil_r. auto.
    - destruct (use_key_ok u c acc k Hc) as [H1 H2].
      destruct (use_key u (c, acc) k) as [c1 acc1] eqn:E. cbn [fst snd] in H1, H2. subst acc1.
      destruct (IH c1 (acc ++ [is_match (compile k) u]) H1) as [H3 H4].
      split; [exact H3|]. rewrite H4, <- app_assoc. reflexivity.
  Qed.

  Lemma existsb_id_map {X} (f : X -> bool) l : existsb id (map f l) = existsb f l.
  Proof. induction l as [|x l IH]; cbn [map existsb id]; [reflexivity|]. unfold id at 1. rewrite IH. reflexivity. Qed.

  (* on a consistent cache the body never panics, keeps the cache consistent, and returns the
     fresh answer *)
  Theorem rm_body_fresh c q :
    cache_ok c -> exists c', rm_body c q = Ok (c', fresh_answer compile is_match q) /\ cache_ok c'.
  Proof.
    intro Hc. unfold C19_Model.rm_body, rm_matches.
    assert (Hc1 : cache_ok (if q_cleanup q then discard_all c else c))
      by (destruct (q_cleanup q); [apply cache_ok_discard|exact Hc]).
    destruct (fold_use_key_ok (q_url q) (q_touch q) _ [] Hc1) as [H1 H2].
    eexists. split; [|exact H1]. rewrite H2. cbn [app]. rewrite existsb_id_map. reflexivity.
  Qed.

  Lemma rm_body_ok : forall c q, cache_ok c -> exists c' a, rm_body c q = Ok (c', a) /\ cache_ok c'.
  Proof. intros c q Hc. destruct (rm_body_fresh c q Hc) as [c' [H1 H2]]. eauto. Qed.

  Lemma rm_answer_cache_independent :
    forall c1 c2 q c1' a1 c2' a2, cache_ok c1 -> cache_ok c2 ->
      rm_body c1 q = Ok (c1', a1) -> rm_body c2 q = Ok (c2', a2) -> a1 = a2.
  Proof.
    intros c1 c2 q c1' a1 c2' a2 H1 H2 Hb1 Hb2.
    destruct (rm_body_fresh c1 q H1) as [x [Hx _]]. destruct (rm_body_fresh c2 q H2) as [y [Hy _]].
    rewrite Hx in Hb1. rewrite Hy in Hb2. inversion Hb1. inversion Hb2. congruence.
  Qed.

  Lemma seq_run_fresh qs : forall c, cache_ok c ->
    exists c', seq_run rm_body c qs = Ok (c', map (fresh_answer compile is_match) qs).
  Proof.
    induction qs as [|q r IH]; intros c Hc; cbn [seq_run map]; [eauto|].
    destruct (rm_body_fresh c q Hc) as [c1 [Hb Hc1]]. rewrite Hb.
    destruct (IH c1 Hc1) as [c2 Hr]. rewrite Hr. eauto.
  Qed.

  (* the instance of interleaving_sequential that the correspondence replays: whatever the
     schedule, the clock (q_cleanup) and the initial cache, a complete run gives every thread the
     fresh answers *)
  Theorem rm_interleaving_fresh c0 qss sched (s : state rq bool) :
    cache_ok c0 -> run rm_body (init c0 qss) sched = Some s -> complete s = true ->
    answers s = map (map (fresh_answer compile is_match)) qss /\
    s_poisoned s = false /\ any_crashed s = false /\ cache_ok (s_cache s).
  Proof.
    intros H0 Hrun Hcomp.
    pose proof (interleaving_sequential rq bool rm_body cache_ok rm_body_ok rm_answer_cache_independent
                  c0 qss sched s H0 Hrun Hcomp c0 H0) as Hseq.
    destruct (no_poison rq bool rm_body cache_ok rm_body_ok c0 qss sched s H0 Hrun) as [Hp [Hcr Hinv]].
    split; [|auto].
    apply nth_error_ext'. intro i. unfold answers.
    destruct (nth_error qss i) as [qs|] eqn:Hq.
    - destruct (Hseq i qs Hq) as [t [c' [Ht Hr]]].
      destruct (seq_run_fresh qs c0 H0) as [c'' Hf]. rewrite Hf in Hr. inversion Hr.
      erewrite map_nth_error by exact Ht. erewrite map_nth_error by exact Hq. congruence.
    - assert (Hlen : length (s_threads s) = length qss).
      { refine (run_invariant rq bool rm_body (fun s => length (s_threads s) = length qss) _ sched (init c0 qss) s _ Hrun).
        - intros s0 j s1 Hl Hs. apply (step_inv rq bool rm_body) in Hs. destruct Hs as [t [_ Hk]].
          destruct Hk; cbn [s_threads]; unfold upd; rewrite length_set_nth; exact Hl.
        - cbn [init s_threads]. apply map_length. }
      apply nth_error_None in Hq.
      rewrite (proj2 (nth_error_None _ _)) by (rewrite map_length; lia).
      rewrite (proj2 (nth_error_None _ _)) by (rewrite map_length; lia). reflexivity.
  Qed.
End RegexBodyProofs.

(* the boolean invariant used by the correspondence cases is the Prop one *)
Lemma cache_okb_sound tbl c : cache_okb tbl c = true -> cache_ok (compile_of tbl) c.
Proof.
  induction c as [|[k0 e0] c IH]; intros H k r Hl; [discriminate|].
  cbn [cache_okb forallb fst snd] in H. apply andb_true_iff in H. destruct H as [H1 H2].
  cbn [lookup] in Hl. destruct (N.eqb k0 k) eqn:E.
  - apply N.eqb_eq in E; subst k0. inversion Hl; subst e0. apply N.eqb_eq in H1. exact H1.
  - apply (IH H2 k r Hl).
Qed.

(* ------------------------------------------------------------------ examples *)
(* two regex rules at keys 10 and 20 (regexes 1 and 2); requests 7 (matched by regex 1 only) and
   8 (matched by nothing); two threads x two queries; a schedule in which thread 1 runs its first
   critical section while thread 0 is between Release and its next Acquire. *)
Definition ex_tbl : list (key * N) := [(10, 1); (20, 2)].
Definition ex_mt : list (N * N) := [(1, 7)].
Definition ex_body := rm_body (compile_of ex_tbl) (match_of ex_mt).
Definition ex_qss : list (list rq) :=
  [[mkQ QNetwork 7 [20; 10] false; mkQ QCsp 8 [10] true];
   [mkQ QGenericHide 8 [20] true; mkQ QNetwork 7 [10] true]].
Definition ex_sched : list nat := [0; 0; 0; 1; 1; 0; 1; 0; 0; 1; 0; 1; 1; 1; 1; 0]%nat.

Example ex_run :
  match run ex_body (init [] ex_qss) ex_sched with
  | Some s => answers s = [[true; false]; [false; true]] /\ complete s = true /\
              s_poisoned s = false /\ s_owner s = None /\
              s_cache s = [(20, Discarded); (10, Compiled 1)]
  | None => False
  end.
Proof. vm_compute. repeat split. Qed.

(* the hypotheses of the conditional theorems are satisfiable: the generic theorem applied to the
   example gives the sequential answers without running the schedule *)
Example ex_hypotheses_satisfiable : forall s,
  run ex_body (init [] ex_qss) ex_sched = Some s -> complete s = true ->
  answers s = [[true; false]; [false; true]].
Proof.
  intros s Hrun Hc.
  destruct (rm_interleaving_fresh (compile_of ex_tbl) (match_of ex_mt) [] ex_qss ex_sched s
              (cache_ok_nil _) Hrun Hc) as [H _].
  rewrite H. vm_compute. reflexivity.
Qed.

(* a disabled move: thread 1 cannot acquire while thread 0 holds the lock *)
Example ex_blocked : run ex_body (init [] ex_qss) [0; 1]%nat = None.
Proof. vm_compute. reflexivity. Qed.

(* the cache invariant is needed: with a stale entry (key 10 holding the regex of another rule —
   the F12 situation that RegexManager::clear() now prevents) the answer through the cache is
   not the fresh answer *)
Example ex_stale_cache_changes_answer :
  exists c q, ~ cache_ok (compile_of ex_tbl) c /\
    exists c', ex_body c q = Ok (c', negb (fresh_answer (compile_of ex_tbl) (match_of ex_mt) q)).
Proof.
  exists [(10, Compiled 2)], (mkQ QNetwork 7 [10] false). split.
  - intro H. specialize (H 10 2 eq_refl). vm_compute in H. discriminate.
  - eexists. vm_compute. reflexivity.
Qed.

(* a panicking body poisons the mutex and every later Acquire crashes its thread; the protocol
   still never deadlocks (no_deadlock has no hypothesis on the body) *)
Definition ex_panic_body (c : cache) (q : bool) : res (cache * bool) :=
  if q then Panic "boom"%string else Ok (c, false).
Example ex_poisoning :
  match run ex_panic_body (init [] [[true]; [false]]) [0; 0; 1]%nat with
  | Some s => s_poisoned s = true /\ s_owner s = None /\ any_crashed s = true /\ final s = true
  | None => False
  end.
Proof. vm_compute. repeat split. Qed.

(* ------------------------------------------------------------------ the lint table *)
(* the translator's list of guard-holding query methods is the hand-written one, and every query
   kind of the model goes through one of them *)
Lemma lock_lint_table : c19_locked_query_fns = spec_locked_query_fns.
Proof. reflexivity. Qed.

Lemma query_kinds_locked : forall k, In (fn_of_kind k) c19_locked_query_fns.
Proof. intros [ | | ]; vm_compute; tauto. Qed.

Lemma lock_lint_rest :
  c19_guarded_helpers = ["apply_removeparam"]%string /\
  c19_mut_guard_fns = ["optimize"; "tags_with_set"]%string /\
  c19_acquire_is_lock_unwrap = true /\
  (forall f, In f c19_engine_query_entry -> f = "check"%string \/ In f c19_locked_query_fns).
Proof.
  repeat split. intros f Hf. vm_compute in Hf.
  destruct Hf as [<-|[<-|[<-|[<-|[]]]]]; vm_compute; tauto.
Qed.

Lemma lock_lint_all :
  c19_locked_query_fns = ["check_generic_hide"; "check_parameterised"; "get_csp_directives"]%string /\
  (forall k, In (fn_of_kind k) c19_locked_query_fns) /\
  c19_guarded_helpers = ["apply_removeparam"]%string /\
  c19_mut_guard_fns = ["optimize"; "tags_with_set"]%string /\
  c19_acquire_is_lock_unwrap = true.
Proof.
  split; [exact lock_lint_table|]. split; [exact query_kinds_locked|].
  destruct lock_lint_rest as [H1 [H2 [H3 _]]]. auto.
Qed.

(* ------------------------------------------------------------------ fine-grained critical section *)
Lemma Forall2_nth_error_l {X Y} (P : X -> Y -> Prop) l1 l2 i x :
  Forall2 P l1 l2 -> nth_error l1 i = Some x -> exists y, nth_error l2 i = Some y /\ P x y.
Proof.
  intro H. revert i. induction H as [|a b l1 l2 Hab _ IH]; intros [|i] Hi; try discriminate.
  - inversion Hi; subst. exists b. split; [reflexivity|exact Hab].
  - apply IH; exact Hi.
Qed.

Lemma Forall2_set_nth {X Y} (P : X -> Y -> Prop) l1 l2 i x y :
  Forall2 P l1 l2 -> P x y -> Forall2 P (set_nth l1 i x) (set_nth l2 i y).
Proof.
  intros H Hxy. revert i. induction H as [|a b l1 l2 Hab Hr IH]; intros [|i]; cbn [set_nth]; constructor; auto.
Qed.

Lemma Forall2_set_nth_l {X Y} (P : X -> Y -> Prop) l1 l2 i x y :
  Forall2 P l1 l2 -> nth_error l2 i = Some y -> P x y -> Forall2 P (set_nth l1 i x) l2.
Proof.
  intros H. revert i. induction H as [|a b l1 l2 Hab Hr IH]; intros [|i] Hy Hxy; cbn [set_nth]; try discriminate.
  - inversion Hy; subst. constructor; assumption.
  - constructor; [exact Hab|]. apply IH; assumption.
Qed.

Lemma Forall2_map_both {X Y Z} (P : Y -> Z -> Prop) (f : X -> Y) (g : X -> Z) l :
  (forall x, P (f x) (g x)) -> Forall2 P (map f l) (map g l).
Proof. intro H. induction l; cbn [map]; constructor; auto. Qed.

Section FineProofs.
  Variables Q A L : Type.
  Variable tick : cache -> Q -> cache.
  Variable probe : cache -> Q -> L.
  Variable commit : cache -> Q -> L -> res (cache * A).

  Notation body := (atomic_body tick probe commit).
  Notation fstate := (fstate Q A L).
  Notation fthread := (fthread Q A L).
  Notation fstepT := (fstep tick probe commit true).
  Notation frunT := (frun tick probe commit true).

  Definition pc_rel (f : fpc L) (p : pc) : Prop :=
    match f, p with
    | FAcquire, AtAcquire | FTick, AtBody | FProbe, AtBody | FCommit _, AtBody
    | FRelease, AtRelease | FPost, AtPost | FCrashed, Crashed => True
    | _, _ => False
    end.

  Definition trel (ft : fthread) (t : thread Q A) : Prop :=
    pc_rel (ft_pc ft) (t_pc t) /\ ft_todo ft = t_todo t /\ ft_done ft = t_done t.

  (* how far the holder has got: cc = cache of the atomic model (Body not yet run), fc = actual *)
  Definition progress (ft : fthread) (cc fc : cache) : Prop :=
    match ft_pc ft, ft_todo ft with
    | FTick, _ :: _ => fc = cc
    | FProbe, q :: _ => fc = tick cc q
    | FCommit l, q :: _ => fc = tick cc q /\ l = probe fc q
    | FRelease, _ => fc = cc
    | _, _ => False
    end.

  Definition sim (fs : fstate) (cs : state Q A) : Prop :=
    fs_poisoned fs = s_poisoned cs /\ fs_owner fs = s_owner cs /\
    Forall2 trel (fs_threads fs) (s_threads cs) /\
    match fs_owner fs with
    | None => fs_poisoned fs = false -> fs_cache fs = s_cache cs
    | Some i => exists ft, nth_error (fs_threads fs) i = Some ft /\ progress ft (s_cache cs) (fs_cache fs)
    end.

  Lemma fowner_is_true (s : fstate) i : fowner_is s i = true -> fs_owner s = Some i.
  Proof.
    unfold fowner_is. destruct (fs_owner s) as [j|]; [|discriminate].
    intro H. apply Nat.eqb_eq in H. subst; reflexivity.
  Qed.

  Lemma nth_fupd (s : fstate) i j t t' :
    nth_error (fs_threads s) i = Some t ->
    nth_error (fupd s i t') j = if Nat.eqb i j then Some t' else nth_error (fs_threads s) j.
  Proof. intro H. unfold fupd. eapply nth_error_set_nth; exact H. Qed.

  Lemma sim_init c qss : sim (finit c qss) (init c qss).
  Proof.
    unfold sim. cbn [finit init fs_poisoned s_poisoned fs_owner s_owner fs_threads s_threads fs_cache s_cache].
    repeat split; auto. apply Forall2_map_both. intro qs. repeat split.
  Qed.

  Lemma sim_release (fs : fstate) cs j fs' ft t :
    sim fs cs -> nth_error (fs_threads fs) j = Some ft -> nth_error (s_threads cs) j = Some t ->
    ft_pc ft = FRelease -> t_pc t = AtRelease -> ft_todo ft = t_todo t -> ft_done ft = t_done t ->
    (if is_mine Q A L true fs j
     then Some (mkFS (fs_cache fs) (fs_poisoned fs) None (fupd fs j (mkFT FPost (ft_todo ft) (ft_done ft))))
     else None) = Some fs' ->
    sim fs' cs \/ exists cs', step body cs j = Some cs' /\ sim fs' cs'.
  Proof.
    intros [Hp [Ho [Hth Hc]]] Hft Ht Hfpc Htpc Htodo Hdone Hs.
    unfold is_mine in Hs. destruct (fowner_is fs j) eqn:Hmine; [|discriminate].
    apply fowner_is_true in Hmine. inversion Hs; subst fs'; clear Hs.
    rewrite Hmine in Hc. destruct Hc as [ft0 [Hft0 Hprog]]. rewrite Hft in Hft0. inversion Hft0; subst ft0.
    unfold progress in Hprog. rewrite Hfpc in Hprog.
    assert (Hfc : fs_cache fs = s_cache cs) by (destruct (ft_todo ft); exact Hprog).
    assert (Hown : owner_is cs j = true) by (apply owner_is_Some; rewrite <- Ho; exact Hmine).
    right. eexists. split.
    - unfold step. rewrite Ht, Htpc, Hown. reflexivity.
    - unfold sim. cbn [fs_poisoned s_poisoned fs_owner s_owner fs_threads s_threads fs_cache s_cache].
      split; [exact Hp|]. split; [reflexivity|]. split; [|intros _; exact Hfc].
      unfold fupd, upd. apply Forall2_set_nth; [exact Hth|].
      unfold trel. cbn [ft_pc t_pc ft_todo t_todo ft_done t_done pc_rel]. auto.
  Qed.

  Lemma sim_post (fs : fstate) cs j fs' ft t :
    sim fs cs -> nth_error (fs_threads fs) j = Some ft -> nth_error (s_threads cs) j = Some t ->
    ft_pc ft = FPost -> t_pc t = AtPost -> ft_todo ft = t_todo t -> ft_done ft = t_done t ->
    Some (mkFS (fs_cache fs) (fs_poisoned fs) (fs_owner fs) (fupd fs j (mkFT FAcquire (ft_todo ft) (ft_done ft)))) = Some fs' ->
    sim fs' cs \/ exists cs', step body cs j = Some cs' /\ sim fs' cs'.
  Proof.
    intros [Hp [Ho [Hth Hc]]] Hft Ht Hfpc Htpc Htodo Hdone Hs.
    inversion Hs; subst fs'; clear Hs. right. eexists. split.
    - unfold step. rewrite Ht, Htpc. reflexivity.
    - unfold sim. cbn [fs_poisoned s_poisoned fs_owner s_owner fs_threads s_threads fs_cache s_cache].
      split; [exact Hp|]. split; [exact Ho|]. split.
      + unfold fupd, upd. apply Forall2_set_nth; [exact Hth|].
        unfold trel. cbn [ft_pc t_pc ft_todo t_todo ft_done t_done pc_rel]. auto.
      + destruct (fs_owner fs) as [i|] eqn:Hfo; [|exact Hc].
        destruct Hc as [ft0 [Hft0 Hprog]]. exists ft0. split; [|exact Hprog].
        rewrite (nth_fupd fs j i ft _ Hft). destruct (Nat.eqb j i) eqn:E; [|exact Hft0].
        apply Nat.eqb_eq in E; subst i. rewrite Hft in Hft0. inversion Hft0; subst ft0.
        unfold progress in Hprog. rewrite Hfpc in Hprog. contradiction.
  Qed.

  Lemma simulation (fs : fstate) cs j fs' :
    sim fs cs -> fstepT fs j = Some fs' ->
    sim fs' cs \/ exists cs', step body cs j = Some cs' /\ sim fs' cs'.
  Proof.
    intros [Hp [Ho [Hth Hc]]] Hs. unfold fstep in Hs.
    destruct (nth_error (fs_threads fs) j) as [ft|] eqn:Hft; [|discriminate].
    destruct (Forall2_nth_error_l _ _ _ _ _ Hth Hft) as [t [Ht [Hpc [Htodo Hdone]]]].
    destruct (ft_pc ft) eqn:Hfpc; destruct (ft_todo ft) as [|q rest] eqn:Hftodo; try discriminate;
      unfold pc_rel in Hpc; destruct (t_pc t) eqn:Htpc; try contradiction.
    - (* Acquire *)
      unfold may_enter in Hs. destruct (fs_owner fs) eqn:Hfo; [discriminate|].
      cbn [andb] in Hs. right.
      destruct (fs_poisoned fs) eqn:Hfp; inversion Hs; subst fs'; clear Hs.
      + eexists. split.
        * unfold step. rewrite Ht, Htpc, <- Htodo, <- Ho, <- Hp. reflexivity.
        * unfold sim. cbn [fs_poisoned s_poisoned fs_owner s_owner fs_threads s_threads fs_cache s_cache].
          split; [reflexivity|]. split; [reflexivity|]. split; [|discriminate].
          unfold fupd, upd. apply Forall2_set_nth; [exact Hth|].
          unfold trel. cbn [ft_pc t_pc ft_todo t_todo ft_done t_done pc_rel]. auto.
      + eexists. split.
        * unfold step. rewrite Ht, Htpc, <- Htodo, <- Ho, <- Hp. reflexivity.
        * unfold sim. cbn [fs_poisoned s_poisoned fs_owner s_owner fs_threads s_threads fs_cache s_cache].
          split; [reflexivity|]. split; [reflexivity|]. split.
          -- unfold fupd, upd. apply Forall2_set_nth; [exact Hth|].
             unfold trel. cbn [ft_pc t_pc ft_todo t_todo ft_done t_done pc_rel]. auto.
          -- eexists. split; [rewrite (nth_fupd fs j j ft _ Hft), Nat.eqb_refl; reflexivity|].
             unfold progress. cbn [ft_pc ft_todo]. apply Hc. reflexivity.
    - (* Tick: the atomic model stutters *)
      unfold is_mine in Hs. destruct (fowner_is fs j) eqn:Hmine; [|discriminate].
      apply fowner_is_true in Hmine. inversion Hs; subst fs'; clear Hs. left.
      rewrite Hmine in Hc. destruct Hc as [ft0 [Hft0 Hprog]]. rewrite Hft in Hft0. inversion Hft0; subst ft0.
      unfold progress in Hprog. rewrite Hfpc, Hftodo in Hprog.
      unfold sim. cbn [fs_poisoned fs_owner fs_threads fs_cache].
      split; [exact Hp|]. split; [exact Ho|]. split.
      + unfold fupd. eapply Forall2_set_nth_l; [exact Hth|exact Ht|].
        unfold trel. cbn [ft_pc ft_todo ft_done]. rewrite Htpc. cbn [pc_rel]. auto.
      + rewrite Hmine. eexists. split; [rewrite (nth_fupd fs j j ft _ Hft), Nat.eqb_refl; reflexivity|].
        unfold progress. cbn [ft_pc ft_todo]. rewrite Hprog. reflexivity.
    - (* Probe: stutter *)
      unfold is_mine in Hs. destruct (fowner_is fs j) eqn:Hmine; [|discriminate].
      apply fowner_is_true in Hmine. inversion Hs; subst fs'; clear Hs. left.
      rewrite Hmine in Hc. destruct Hc as [ft0 [Hft0 Hprog]]. rewrite Hft in Hft0. inversion Hft0; subst ft0.
      unfold progress in Hprog. rewrite Hfpc, Hftodo in Hprog.
      unfold sim. cbn [fs_poisoned fs_owner fs_threads fs_cache].
      split; [exact Hp|]. split; [exact Ho|]. split.
      + unfold fupd. eapply Forall2_set_nth_l; [exact Hth|exact Ht|].
        unfold trel. cbn [ft_pc ft_todo ft_done]. rewrite Htpc. cbn [pc_rel]. auto.
      + rewrite Hmine. eexists. split; [rewrite (nth_fupd fs j j ft _ Hft), Nat.eqb_refl; reflexivity|].
        unfold progress. cbn [ft_pc ft_todo]. auto.
    - (* Commit = the Body event of the atomic model *)
      unfold is_mine in Hs. destruct (fowner_is fs j) eqn:Hmine; [|discriminate].
      apply fowner_is_true in Hmine.
      rewrite Hmine in Hc. destruct Hc as [ft0 [Hft0 Hprog]]. rewrite Hft in Hft0. inversion Hft0; subst ft0.
      unfold progress in Hprog. rewrite Hfpc, Hftodo in Hprog. destruct Hprog as [Hfc Hl].
      assert (Hbody : body (s_cache cs) q = commit (fs_cache fs) q l).
      { unfold atomic_body. rewrite <- Hfc. rewrite <- Hl. reflexivity. }
      assert (Hown : owner_is cs j = true) by (apply owner_is_Some; rewrite <- Ho; exact Hmine).
      right. destruct (commit (fs_cache fs) q l) as [[c' a]|w] eqn:Hcm; inversion Hs; subst fs'; clear Hs.
      + eexists. split.
        * unfold step. rewrite Ht, Htpc, Hown, <- Htodo, Hbody. reflexivity.
        * unfold sim. cbn [fs_poisoned s_poisoned fs_owner s_owner fs_threads s_threads fs_cache s_cache].
          split; [exact Hp|]. split; [exact Ho|]. split.
          -- unfold fupd, upd. apply Forall2_set_nth; [exact Hth|].
             unfold trel. cbn [ft_pc t_pc ft_todo t_todo ft_done t_done pc_rel]. rewrite Hdone. auto.
          -- rewrite Hmine. eexists. split; [rewrite (nth_fupd fs j j ft _ Hft), Nat.eqb_refl; reflexivity|].
             unfold progress. cbn [ft_pc ft_todo]. reflexivity.
      + eexists. split.
        * unfold step. rewrite Ht, Htpc, Hown, <- Htodo, Hbody. reflexivity.
        * unfold sim. cbn [fs_poisoned s_poisoned fs_owner s_owner fs_threads s_threads fs_cache s_cache].
          split; [reflexivity|]. split; [reflexivity|]. split; [|discriminate].
          unfold fupd, upd. apply Forall2_set_nth; [exact Hth|].
          unfold trel. cbn [ft_pc t_pc ft_todo t_todo ft_done t_done pc_rel]. auto.
    - (* Release, no query left *)
      rewrite <- Hftodo in Hs. rewrite <- Hftodo in Htodo.
      apply (sim_release fs cs j fs' ft t); auto. repeat split; assumption.
    - rewrite <- Hftodo in Hs. rewrite <- Hftodo in Htodo.
      apply (sim_release fs cs j fs' ft t); auto. repeat split; assumption.
    - (* Post *)
      rewrite <- Hftodo in Hs. rewrite <- Hftodo in Htodo.
      apply (sim_post fs cs j fs' ft t); auto. repeat split; assumption.
    - rewrite <- Hftodo in Hs. rewrite <- Hftodo in Htodo.
      apply (sim_post fs cs j fs' ft t); auto. repeat split; assumption.
  Qed.

  (* every fine-grained run with the mutex is a run of the atomic model, up to stuttering *)
  Theorem fine_simulated fsched : forall (fs : fstate) cs fs',
    sim fs cs -> frunT fs fsched = Some fs' ->
    exists sched cs', run body cs sched = Some cs' /\ sim fs' cs'.
  Proof.
    induction fsched as [|j r IH]; intros fs cs fs' Hsim Hrun; cbn [frun] in Hrun.
    - inversion Hrun; subst. exists [], cs. split; [reflexivity|exact Hsim].
    - destruct (fstepT fs j) as [fs1|] eqn:Hs; [|discriminate].
      destruct (simulation fs cs j fs1 Hsim Hs) as [Hst|[cs1 [Hcs Hsim1]]].
      + apply (IH fs1 cs fs' Hst Hrun).
      + destruct (IH fs1 cs1 fs' Hsim1 Hrun) as [sched [cs' [Hr Hs']]].
        exists (j :: sched), cs'. split; [|exact Hs']. cbn [run]. rewrite Hcs. exact Hr.
  Qed.

  Lemma in_critical_holding (ft : fthread) t : trel ft t -> in_critical ft = holdingb t.
  Proof.
    intros [Hpc _]. unfold in_critical, holdingb, pc_rel in *.
    destruct (ft_pc ft); destruct (t_pc t); try contradiction; reflexivity.
  Qed.

  (* mutual exclusion for the phases: two threads are never both between Acquire and Release *)
  Theorem fine_mutual_exclusion c qss fsched (fs : fstate) i j fi fj :
    frunT (finit c qss) fsched = Some fs ->
    nth_error (fs_threads fs) i = Some fi -> nth_error (fs_threads fs) j = Some fj ->
    in_critical fi = true -> in_critical fj = true -> i = j.
  Proof.
    intros Hrun Hi Hj Hci Hcj.
    destruct (fine_simulated fsched _ _ _ (sim_init c qss) Hrun) as [sched [cs [Hr [_ [_ [Hth _]]]]]].
    destruct (Forall2_nth_error_l _ _ _ _ _ Hth Hi) as [ti [Hti Hri]].
    destruct (Forall2_nth_error_l _ _ _ _ _ Hth Hj) as [tj [Htj Hrj]].
    apply (mutual_exclusion Q A body c qss cs i j (ex_intro _ sched Hr)).
    - exists ti. split; [exact Hti|]. rewrite <- (in_critical_holding fi ti Hri). exact Hci.
    - exists tj. split; [exact Htj|]. rewrite <- (in_critical_holding fj tj Hrj). exact Hcj.
  Qed.

  (* deadlock freedom for the phases: some event is enabled unless every thread is finished *)
  Theorem fine_no_deadlock c qss fsched (fs : fstate) :
    frunT (finit c qss) fsched = Some fs -> ffinal fs = false -> exists i fs', fstepT fs i = Some fs'.
  Proof.
    intros Hrun Hfin.
    destruct (fine_simulated fsched _ _ _ (sim_init c qss) Hrun) as [sched [cs [Hr [Hp [Ho [Hth Hc]]]]]].
    pose proof (wf_reachable Q A body c qss cs (ex_intro _ sched Hr)) as [_ [Hh _]].
    destruct (fs_owner fs) as [i|] eqn:Hfo.
    - destruct Hc as [ft [Hft Hprog]]. exists i. unfold fstep. rewrite Hft.
      assert (Hmine : is_mine Q A L true fs i = true)
        by (unfold is_mine, fowner_is; rewrite Hfo; apply Nat.eqb_refl).
      unfold progress in Hprog.
      destruct (ft_pc ft); destruct (ft_todo ft) as [|q rest]; try contradiction; rewrite Hmine; eauto.
      destruct (commit (fs_cache fs) q l) as [[c' a]|w]; eauto.
    - unfold ffinal in Hfin. apply forallb_false_ex in Hfin. destruct Hfin as [ft [Hin Hf]].
      apply In_nth_error in Hin. destruct Hin as [j Hft]. exists j.
      destruct (Forall2_nth_error_l _ _ _ _ _ Hth Hft) as [t [Ht Hrel]].
      assert (Hnc : in_critical ft = false).
      { destruct (in_critical ft) eqn:E; [|reflexivity]. exfalso.
        assert (Hx : holding cs j) by (exists t; split; [exact Ht|rewrite <- (in_critical_holding ft t Hrel); exact E]).
        apply Hh in Hx. congruence. }
      unfold fstep. rewrite Hft. unfold ffinishedb in Hf. unfold in_critical in Hnc.
      destruct (ft_pc ft); try discriminate.
      + destruct (ft_todo ft) as [|q rest]; [discriminate|].
        unfold may_enter. rewrite Hfo. cbn [andb]. destruct (fs_poisoned fs); eauto.
      + destruct (ft_todo ft); eauto.
  Qed.

  (* the theorems about answers and poisoning carry over, with the premises stated for the
     phases run back to back (atomic_body) *)
  Variable inv : cache -> Prop.
  Hypothesis body_ok :
    forall c q, inv c -> exists c' a, body c q = Ok (c', a) /\ inv c'.
  Hypothesis answer_cache_independent :
    forall c1 c2 q c1' a1 c2' a2, inv c1 -> inv c2 ->
      body c1 q = Ok (c1', a1) -> body c2 q = Ok (c2', a2) -> a1 = a2.

  Theorem fine_no_poison c qss fsched (fs : fstate) :
    inv c -> frunT (finit c qss) fsched = Some fs ->
    fs_poisoned fs = false /\ fany_crashed fs = false.
  Proof.
    intros Hc Hrun.
    destruct (fine_simulated fsched _ _ _ (sim_init c qss) Hrun) as [sched [cs [Hr [Hp [_ [Hth _]]]]]].
    destruct (no_poison Q A body inv body_ok c qss sched cs Hc Hr) as [Hcp [Hcc _]].
    split; [congruence|].
    unfold fany_crashed. destruct (existsb fcrashed (fs_threads fs)) eqn:E; [|reflexivity].
    apply existsb_exists in E. destruct E as [ft [Hin Hcr]]. apply In_nth_error in Hin. destruct Hin as [i Hi].
    destruct (Forall2_nth_error_l _ _ _ _ _ Hth Hi) as [t [Ht [Hpc _]]].
    assert (Hx : existsb crashedb (s_threads cs) = true).
    { apply existsb_exists. exists t. split; [eapply nth_error_In; exact Ht|].
      unfold fcrashed in Hcr. unfold crashedb. unfold pc_rel in Hpc.
      destruct (ft_pc ft); try discriminate. destruct (t_pc t); try contradiction. reflexivity. }
    unfold any_crashed in Hcc. congruence.
  Qed.

  Theorem fine_interleaving_sequential c0 qss fsched (fs : fstate) :
    inv c0 -> frunT (finit c0 qss) fsched = Some fs ->
    forall c1, inv c1 ->
    forall i ft qs, nth_error (fs_threads fs) i = Some ft -> nth_error qss i = Some qs ->
      exists c', seq_run body c1 (firstn (length (ft_done ft)) qs) = Ok (c', ft_done ft).
  Proof.
    intros H0 Hrun c1 H1 i ft qs Hi Hqs.
    destruct (fine_simulated fsched _ _ _ (sim_init c0 qss) Hrun) as [sched [cs [Hr [_ [_ [Hth _]]]]]].
    destruct (Forall2_nth_error_l _ _ _ _ _ Hth Hi) as [t [Ht [_ [_ Hdone]]]].
    rewrite Hdone.
    apply (interleaving_sequential_prefix Q A body inv body_ok answer_cache_independent
             c0 qss sched cs H0 Hr c1 H1 i t qs Ht Hqs).
  Qed.
End FineProofs.

(* the three regex-manager phases satisfy the premises *)
Section RegexPhasesProofs.
  Variable compile : key -> N.
  Variable is_match : N -> N -> bool.
  Notation cache_ok := (cache_ok compile).
  Notation rm_atomic := (atomic_body rm_tick rm_probe (rm_commit compile is_match)).

  (* while committing, an entry that Probe saw compiled is still compiled: Commit only adds *)
  Lemma commit_fold_ok u : forall (kl : list (key * option entry)) c acc,
    cache_ok c ->
    (forall k r, In (k, Some (Compiled r)) kl -> exists r', lookup c k = Some (Compiled r')) ->
    exists c', fold_left (commit_key compile is_match u) kl (Ok (c, acc)) =
               Ok (c', acc ++ map (fun ks => is_match (compile (fst ks)) u) kl) /\ cache_ok c'.
  Proof.
    induction kl as [|[k s] kl IH]; intros c acc Hc Hseen; cbn [fold_left map].
    - exists c. rewrite app_nil_r. auto.
    - cbn [commit_key fst snd].
      assert (Hset : forall c1, cache_ok c1 ->
                (forall k0 r, lookup c k0 = Some (Compiled r) -> exists r', lookup c1 k0 = Some (Compiled r')) ->
                exists c', fold_left (commit_key compile is_match u) kl (Ok (c1, acc ++ [is_match (compile k) u])) =
                           Ok (c', acc ++ is_match (compile k) u :: map (fun ks => is_match (compile (fst ks)) u) kl) /\ cache_ok c').
      { intros c1 Hc1 Hmono.
        destruct (IH c1 (acc ++ [is_match (compile k) u]) Hc1) as [c' [Hf Hok]].
        - intros k0 r Hin. destruct (Hseen k0 r (or_intror Hin)) as [r' Hr']. apply (Hmono k0 r' Hr').
        - exists c'. rewrite Hf, <- app_assoc. auto. }
      destruct s as [[r|]|].
      + destruct (Hseen k r (or_introl eq_refl)) as [r' Hr']. rewrite Hr'.
        rewrite (Hc k r' Hr'). apply Hset; [exact Hc|eauto].
      + apply Hset; [apply cache_ok_set; exact Hc|].
        intros k0 r Hl. rewrite lookup_set_entry. destruct (N.eqb k k0); eauto.
      + apply Hset; [apply cache_ok_set; exact Hc|].
        intros k0 r Hl. rewrite lookup_set_entry. destruct (N.eqb k k0); eauto.
  Qed.

  Lemma In_combine_map_lookup c ks k s : In (k, s) (combine ks (map (lookup c) ks)) -> s = lookup c k.
  Proof.
    induction ks as [|k0 ks IH]; cbn [map combine In]; [tauto|].
    intros [H|H]; [inversion H; reflexivity|apply IH; exact H].
  Qed.

  Lemma map_fst_combine_lookup c (f : key -> bool) ks :
    map (fun p : key * option entry => f (fst p)) (combine ks (map (lookup c) ks)) = map f ks.
  Proof. induction ks as [|k ks IH]; cbn [map combine fst]; [reflexivity|]. rewrite IH. reflexivity. Qed.

  Theorem rm_phases_fresh c q :
    cache_ok c -> exists c', rm_atomic c q = Ok (c', fresh_answer compile is_match q) /\ cache_ok c'.
  Proof.
    intro Hc. unfold atomic_body, rm_commit, rm_probe.
    assert (Hc1 : cache_ok (rm_tick c q)).
    { unfold rm_tick. destruct (q_cleanup q); [apply cache_ok_discard|exact Hc]. }
    destruct (commit_fold_ok (q_url q) (combine (q_touch q) (map (lookup (rm_tick c q)) (q_touch q)))
                (rm_tick c q) [] Hc1) as [c' [Hf Hok]].
    - intros k r Hin. apply In_combine_map_lookup in Hin. eauto.
    - exists c'. rewrite Hf. split; [|exact Hok]. cbn [app].
      rewrite (map_fst_combine_lookup (rm_tick c q) (fun k => is_match (compile k) (q_url q))).
      rewrite existsb_id_map. reflexivity.
  Qed.

  Lemma rm_phases_ok : forall c q, cache_ok c -> exists c' a, rm_atomic c q = Ok (c', a) /\ cache_ok c'.
  Proof. intros c q Hc. destruct (rm_phases_fresh c q Hc) as [c' [H1 H2]]. eauto. Qed.

  Lemma rm_phases_independent :
    forall c1 c2 q c1' a1 c2' a2, cache_ok c1 -> cache_ok c2 ->
      rm_atomic c1 q = Ok (c1', a1) -> rm_atomic c2 q = Ok (c2', a2) -> a1 = a2.
  Proof.
    intros c1 c2 q c1' a1 c2' a2 H1 H2 Hb1 Hb2.
    destruct (rm_phases_fresh c1 q H1) as [x [Hx _]]. destruct (rm_phases_fresh c2 q H2) as [y [Hy _]].
    rewrite Hx in Hb1. rewrite Hy in Hb2. inversion Hb1. inversion Hb2. congruence.
  Qed.

  (* with the mutex, no interleaving of the phases of different threads can make
     `v.regex.as_ref().unwrap()` fail, poison the lock or change an answer *)
  Theorem rm_phases_safe c qss fsched (fs : fstate rq bool (list (option entry))) :
    cache_ok c ->
    frun rm_tick rm_probe (rm_commit compile is_match) true (finit c qss) fsched = Some fs ->
    fs_poisoned fs = false /\ fany_crashed fs = false /\
    forall i ft qs, nth_error (fs_threads fs) i = Some ft -> nth_error qss i = Some qs ->
      ft_done ft = map (fresh_answer compile is_match) (firstn (length (ft_done ft)) qs).
  Proof.
    intros Hc Hrun.
    destruct (fine_no_poison rq bool _ rm_tick rm_probe (rm_commit compile is_match) cache_ok rm_phases_ok
                c qss fsched fs Hc Hrun) as [Hp Hcr].
    split; [exact Hp|]. split; [exact Hcr|]. intros i ft qs Hi Hqs.
    destruct (fine_interleaving_sequential rq bool _ rm_tick rm_probe (rm_commit compile is_match) cache_ok
                rm_phases_ok rm_phases_independent c qss fsched fs Hc Hrun c Hc i ft qs Hi Hqs) as [c' Hseq].
    assert (Hfresh : forall qs0 c0, cache_ok c0 ->
              exists c1, seq_run rm_atomic c0 qs0 = Ok (c1, map (fresh_answer compile is_match) qs0)).
    { induction qs0 as [|q0 r0 IH]; intros c0 H0; cbn [seq_run map]; [eauto|].
      destruct (rm_phases_fresh c0 q0 H0) as [c1 [Hb Hc1]]. rewrite Hb.
      destruct (IH c1 Hc1) as [c2 Hr]. rewrite Hr. eauto. }
    destruct (Hfresh (firstn (length (ft_done ft)) qs) c Hc) as [c1 Hf].
    rewrite Hf in Hseq. inversion Hseq. congruence.
  Qed.
End RegexPhasesProofs.

(* WITHOUT the mutex the same phases race: thread 0 probes key 10 (compiled by its first query),
   thread 1's cleanup discards it, thread 0 commits and unwraps None.  The cache is consistent
   all along and the atomic body never panics on it: the panic is purely an interleaving effect.
   With the mutex the same schedule is not even a run (thread 1 cannot enter). *)
Definition ex_race_qss : list (list rq) :=
  [[mkQ QNetwork 7 [10] false; mkQ QNetwork 7 [10] false]; [mkQ QCsp 8 [] true]].
Definition ex_race_sched : list nat := [0; 0; 0; 0; 0; 0; 0; 0; 0; 1; 1; 0]%nat.

Example ex_unlocked_race_panics :
  match frun rm_tick rm_probe (rm_commit (compile_of ex_tbl) (match_of ex_mt)) false
             (finit [] ex_race_qss) ex_race_sched with
  | Some fs => fany_crashed fs = true /\ fs_cache fs = [(10, Discarded)]
  | None => False
  end.
Proof. vm_compute. split; reflexivity. Qed.

Example ex_locked_race_impossible :
  frun rm_tick rm_probe (rm_commit (compile_of ex_tbl) (match_of ex_mt)) true
       (finit [] ex_race_qss) ex_race_sched = None.
Proof. vm_compute. reflexivity. Qed.

Example ex_locked_run :
  match frun rm_tick rm_probe (rm_commit (compile_of ex_tbl) (match_of ex_mt)) true
             (finit [] ex_race_qss) [0; 0; 0; 0; 0; 0; 0; 0; 0; 0; 0; 1; 1; 1; 1; 1; 0; 1]%nat with
  | Some fs => fany_crashed fs = false /\ fanswers fs = [[true; true]; [false]] /\ fs_owner fs = None
  | None => False
  end.
Proof. vm_compute. repeat split. Qed.

(* witness form of the race example, for Props_C19 *)
Lemma without_mutex_refuted :
  exists (qss : list (list rq)) sched fs,
    cache_ok (compile_of ex_tbl) [] /\
    frun rm_tick rm_probe (rm_commit (compile_of ex_tbl) (match_of ex_mt)) false (finit [] qss) sched = Some fs /\
    fany_crashed fs = true /\
    frun rm_tick rm_probe (rm_commit (compile_of ex_tbl) (match_of ex_mt)) true (finit [] qss) sched = None.
Proof.
  exists ex_race_qss, ex_race_sched. eexists. split; [apply cache_ok_nil|].
  split; [vm_compute; reflexivity|]. split; vm_compute; reflexivity.
Qed.
