(* Msgpack_Proofs.v — the codec laws of Msgpack_Model.decode_mp against Wire_Model.encode. *)
From Adb Require Import Base BaseProofs Generated Wire_Model Msgpack_Model.
From Adb Require C10_Model C10_Proofs.
From Coq Require Import ZifyBool ZifyNat ZifyN.

(* ------------------------------------------------------------------ big-endian *)
Lemma from_be_be k n acc :
  from_be (be k n) acc = acc * 2 ^ (8 * N.of_nat k) + n mod 2 ^ (8 * N.of_nat k).
Proof.
  revert acc; induction k as [|k IH]; intros acc.
  - cbn [be from_be]. change (2 ^ (8 * N.of_nat 0)) with 1. rewrite N.mod_1_r. lia.
  - cbn [be from_be]. rewrite IH.
    change 255 with (N.ones 8). rewrite N.land_ones, N.shiftr_div_pow2.
    replace (8 * N.of_nat (S k)) with (8 * N.of_nat k + 8) by lia.
    rewrite N.pow_add_r. change (2 ^ 8) with 256.
    set (P := 2 ^ (8 * N.of_nat k)).
    assert (P0 : P <> 0) by (apply N.pow_nonzero; discriminate).
    rewrite (N.mod_mul_r n P 256) by (assumption || discriminate). lia.
Qed.

Lemma be_length k n : length (be k n) = k.
Proof. induction k as [|k IH]; cbn [be length]; [reflexivity|]. rewrite IH. reflexivity. Qed.

Lemma be_nonempty k n : k <> O -> be k n <> [].
Proof. destruct k; [congruence|]. cbn [be]. discriminate. Qed.

Lemma split_at_0 b : split_at 0 b = Some ([], b).
Proof. destruct b; reflexivity. Qed.

Lemma split_at_cons n x r : n <> 0 ->
  split_at n (x :: r) = match split_at (N.pred n) r with Some (u, v) => Some (x :: u, v) | None => None end.
Proof. intros H. cbn [split_at]. destruct (N.eqb_spec n 0); [contradiction|reflexivity]. Qed.

Lemma split_at_nil n : n <> 0 -> split_at n [] = None.
Proof. intros H. cbn [split_at]. destruct (N.eqb_spec n 0); [contradiction|reflexivity]. Qed.

Lemma split_at_app u rest : split_at (N.of_nat (length u)) (u ++ rest) = Some (u, rest).
Proof.
  induction u as [|x u IH]; [apply split_at_0|].
  cbn [length app]. rewrite split_at_cons by lia.
  replace (N.pred (N.of_nat (S (length u)))) with (N.of_nat (length u)) by lia.
  rewrite IH. reflexivity.
Qed.

(* split_at returns a split of its input of the announced length *)
Lemma split_at_spec n b u v : split_at n b = Some (u, v) -> b = u ++ v /\ N.of_nat (length u) = n.
Proof.
  revert n u v; induction b as [|x b IH]; intros n u v.
  - destruct (N.eqb_spec n 0) as [->|NZ]; [|rewrite split_at_nil by assumption; discriminate].
    rewrite split_at_0. intros H; inversion H; subst. split; reflexivity.
  - destruct (N.eqb_spec n 0) as [->|NZ].
    + rewrite split_at_0. intros H; inversion H; subst. split; reflexivity.
    + rewrite split_at_cons by assumption.
      destruct (split_at (N.pred n) b) as [[u' v']|] eqn:E; [|discriminate].
      intros H; inversion H; subst. destruct (IH _ _ _ E) as [-> L]. split; [reflexivity|].
      cbn [length]. lia.
Qed.

Lemma split_at_ext n b u v q : split_at n b = Some (u, v) -> split_at n (b ++ q) = Some (u, v ++ q).
Proof.
  intros H. destruct (split_at_spec _ _ _ _ H) as [-> <-].
  rewrite <- app_assoc. apply split_at_app.
Qed.

Lemma read_be_be k n rest : n < 2 ^ (8 * N.of_nat k) -> read_be k (be k n ++ rest) = Some (n, rest).
Proof.
  intros H. unfold read_be. rewrite <- (be_length k n) at 1. rewrite split_at_app.
  rewrite from_be_be, N.mod_small by assumption. rewrite N.mul_0_l, N.add_0_l. reflexivity.
Qed.

Lemma read_be_spec k b n r : read_be k b = Some (n, r) -> exists u, b = u ++ r /\ length u = k.
Proof.
  unfold read_be. destruct (split_at (N.of_nat k) b) as [[u v]|] eqn:E; [|discriminate].
  intros H; inversion H; subst. destruct (split_at_spec _ _ _ _ E) as [-> L]. exists u. split; [reflexivity|lia].
Qed.

Lemma read_be_ext k b n r q : read_be k b = Some (n, r) -> read_be k (b ++ q) = Some (n, r ++ q).
Proof.
  unfold read_be. destruct (split_at (N.of_nat k) b) as [[u v]|] eqn:E; [|discriminate].
  intros H; inversion H; subst. rewrite (split_at_ext _ _ _ _ q E). reflexivity.
Qed.

Lemma get_len_ext s b n r q : get_len s b = Some (n, r) -> get_len s (b ++ q) = Some (n, r ++ q).
Proof.
  destruct s as [m|k]; cbn [get_len].
  - intros H; inversion H; subst. reflexivity.
  - apply read_be_ext.
Qed.

Lemma get_len_spec s b n r : get_len s b = Some (n, r) -> exists u, b = u ++ r.
Proof.
  destruct s as [m|k]; cbn [get_len].
  - intros H; inversion H; subst. exists []. reflexivity.
  - intros H. destruct (read_be_spec _ _ _ _ H) as (u & -> & _). exists u. reflexivity.
Qed.

(* ------------------------------------------------------------------ headers *)
(* a header = lead byte of the right kind + the bytes its length is read back from *)
Definition hdr_ok (mk : src -> lead) (hdr : list N) (n : N) : Prop :=
  exists h tl s, hdr = h :: tl /\ lead_of h = mk s /\ forall rest, get_len s (tl ++ rest) = Some (n, rest).

Ltac leadof_tac :=
  unfold lead_of;
  repeat match goal with
         | |- context [N.ltb ?a ?b] => destruct (N.ltb_spec a b); try lia
         | |- context [N.eqb ?a ?b] => destruct (N.eqb_spec a b); try lia
         end.

Ltac ext_hdr k :=
  eexists _, _, (Ext k); split; [reflexivity|]; split; [reflexivity|];
  intros rest; cbn [get_len]; apply read_be_be;
  match goal with |- _ < ?p => let v := eval vm_compute in p in change p with v end; lia.

Lemma enc_uint_hdr n : n < U64 -> hdr_ok LInt (enc_uint n) n.
Proof.
  unfold U64, enc_uint, hdr_ok. intros H.
  destruct (N.ltb_spec n 128).
  { exists n, [], (Imm n). split; [reflexivity|]. split; [|reflexivity].
    unfold lead_of. destruct (N.ltb_spec n 128); [reflexivity|lia]. }
  destruct (N.ltb_spec n 256); [ext_hdr 1%nat|].
  destruct (N.ltb_spec n 65536); [ext_hdr 2%nat|].
  destruct (N.ltb_spec n 4294967296); [ext_hdr 4%nat|].
  ext_hdr 8%nat.
Qed.

Lemma enc_str_hdr_ok n : n < U32 -> hdr_ok LStr (enc_str_hdr n) n.
Proof.
  unfold U32, enc_str_hdr, hdr_ok. intros H.
  destruct (N.ltb_spec n 32).
  { exists (160 + n), [], (Imm n). split; [reflexivity|]. split; [|reflexivity].
    leadof_tac. do 2 f_equal. lia. }
  destruct (N.ltb_spec n 256); [ext_hdr 1%nat|].
  destruct (N.ltb_spec n 65536); [ext_hdr 2%nat|].
  ext_hdr 4%nat.
Qed.

Lemma enc_arr_hdr_ok n : n < U32 -> hdr_ok LArr (enc_arr_hdr n) n.
Proof.
  unfold U32, enc_arr_hdr, hdr_ok. intros H.
  destruct (N.ltb_spec n 16).
  { exists (144 + n), [], (Imm n). split; [reflexivity|]. split; [|reflexivity].
    leadof_tac. do 2 f_equal. lia. }
  destruct (N.ltb_spec n 65536); [ext_hdr 2%nat|].
  ext_hdr 4%nat.
Qed.

Lemma enc_map_hdr_ok n : n < U32 -> hdr_ok LMap (enc_map_hdr n) n.
Proof.
  unfold U32, enc_map_hdr, hdr_ok. intros H.
  destruct (N.ltb_spec n 16).
  { exists (128 + n), [], (Imm n). split; [reflexivity|]. split; [|reflexivity].
    leadof_tac. do 2 f_equal. lia. }
  destruct (N.ltb_spec n 65536); [ext_hdr 2%nat|].
  ext_hdr 4%nat.
Qed.

(* ------------------------------------------------------------------ unfolding *)
Lemma decode_mp_S f h r :
  decode_mp (S f) (h :: r) =
  match lead_of h with
  | LBad => None
  | LNil => Some (MNil, r)
  | LBool x => Some (MBool x, r)
  | LInt s => match get_len s r with Some (n, r') => Some (MInt n, r') | None => None end
  | LStr s =>
      match get_len s r with
      | Some (n, r') => match split_at n r' with Some (u, v) => Some (MStr u, v) | None => None end
      | None => None
      end
  | LArr s =>
      match get_len s r with
      | Some (n, r') => match decode_seq f n r' with Some (l, v) => Some (MArr l, v) | None => None end
      | None => None
      end
  | LMap s =>
      match get_len s r with
      | Some (n, r') => match decode_pairs f n r' with Some (l, v) => Some (MMap l, v) | None => None end
      | None => None
      end
  end.
Proof. reflexivity. Qed.

Lemma decode_mp_O b : decode_mp O b = None.
Proof. reflexivity. Qed.
Lemma decode_mp_nil fuel : decode_mp fuel [] = None.
Proof. destruct fuel; reflexivity. Qed.

Lemma decode_seq_0 fuel b : decode_seq fuel 0 b = Some ([], b).
Proof. destruct fuel; reflexivity. Qed.
Lemma decode_seq_O n b : n <> 0 -> decode_seq O n b = None.
Proof. intros H. cbn [decode_seq]. destruct (N.eqb_spec n 0); [contradiction|reflexivity]. Qed.
Lemma decode_seq_S f n b : n <> 0 ->
  decode_seq (S f) n b =
  match decode_mp f b with
  | Some (x, r) => match decode_seq f (N.pred n) r with Some (l, v) => Some (x :: l, v) | None => None end
  | None => None
  end.
Proof. intros H. cbn [decode_seq]. destruct (N.eqb_spec n 0); [contradiction|reflexivity]. Qed.

Lemma decode_pairs_0 fuel b : decode_pairs fuel 0 b = Some ([], b).
Proof. destruct fuel; reflexivity. Qed.
Lemma decode_pairs_O n b : n <> 0 -> decode_pairs O n b = None.
Proof. intros H. cbn [decode_pairs]. destruct (N.eqb_spec n 0); [contradiction|reflexivity]. Qed.
Lemma decode_pairs_S f n b : n <> 0 ->
  decode_pairs (S f) n b =
  match decode_mp f b with
  | Some (k, r) =>
      match decode_mp f r with
      | Some (x, r') =>
          match decode_pairs f (N.pred n) r' with Some (l, v) => Some ((k, x) :: l, v) | None => None end
      | None => None
      end
  | None => None
  end.
Proof. intros H. cbn [decode_pairs]. destruct (N.eqb_spec n 0); [contradiction|reflexivity]. Qed.

(* ------------------------------------------------------------------ the encoder, list by list *)
Fixpoint enc_seq (l : list mp) : list N :=
  match l with [] => [] | x :: r => encode x ++ enc_seq r end.
Fixpoint enc_pairs (l : list (mp * mp)) : list N :=
  match l with [] => [] | (k, v) :: r => encode k ++ encode v ++ enc_pairs r end.
Fixpoint seq_size (l : list mp) : nat :=
  match l with [] => O | x :: r => S (mp_size x + seq_size r) end.
Fixpoint pairs_size (l : list (mp * mp)) : nat :=
  match l with [] => O | (k, v) :: r => S (mp_size k + mp_size v + pairs_size r) end.

Lemma encode_arr l : encode (MArr l) = enc_arr_hdr (N.of_nat (length l)) ++ enc_seq l.
Proof. reflexivity. Qed.
Lemma encode_map l : encode (MMap l) = enc_map_hdr (N.of_nat (length l)) ++ enc_pairs l.
Proof. reflexivity. Qed.
Lemma size_arr l : mp_size (MArr l) = S (seq_size l).
Proof. reflexivity. Qed.
Lemma size_map l : mp_size (MMap l) = S (pairs_size l).
Proof. reflexivity. Qed.

(* ------------------------------------------------------------------ induction on trees *)
Section MpInd.
  Variable P : mp -> Prop.
  Hypothesis HNil : P MNil.
  Hypothesis HBool : forall b, P (MBool b).
  Hypothesis HInt : forall n, P (MInt n).
  Hypothesis HStr : forall s, P (MStr s).
  Hypothesis HArr : forall l, Forall P l -> P (MArr l).
  Hypothesis HMap : forall l, Forall (fun kv => P (fst kv) /\ P (snd kv)) l -> P (MMap l).

  Fixpoint mp_ind' (t : mp) : P t :=
    match t with
    | MNil => HNil
    | MBool b => HBool b
    | MInt n => HInt n
    | MStr s => HStr s
    | MArr l => HArr l ((fix go (l : list mp) : Forall P l :=
                           match l with
                           | [] => Forall_nil _
                           | x :: r => Forall_cons x (mp_ind' x) (go r)
                           end) l)
    | MMap l => HMap l ((fix go (l : list (mp * mp)) : Forall (fun kv => P (fst kv) /\ P (snd kv)) l :=
                           match l with
                           | [] => Forall_nil _
                           | (k, v) :: r => Forall_cons (k, v) (conj (mp_ind' k) (mp_ind' v)) (go r)
                           end) l)
    end.
End MpInd.

(* ------------------------------------------------------------------ (a) round trip *)
Definition rt (t : mp) : Prop :=
  mp_wf t = true -> forall fuel rest, (mp_size t <= fuel)%nat -> decode_mp fuel (encode t ++ rest) = Some (t, rest).

Lemma rt_seq l : Forall rt l -> forallb mp_wf l = true ->
  forall fuel rest, (seq_size l <= fuel)%nat ->
  decode_seq fuel (N.of_nat (length l)) (enc_seq l ++ rest) = Some (l, rest).
Proof.
  induction 1 as [|x l Hx _ IH]; intros W fuel rest F.
  - apply decode_seq_0.
  - cbn [forallb] in W. apply andb_true_iff in W. destruct W as [Wx Wl].
    cbn [seq_size] in F. destruct fuel as [|f]; [lia|].
    cbn [length enc_seq]. rewrite decode_seq_S by lia. rewrite <- app_assoc.
    rewrite (Hx Wx) by lia.
    replace (N.pred (N.of_nat (S (length l)))) with (N.of_nat (length l)) by lia.
    rewrite (IH Wl) by lia. reflexivity.
Qed.

Lemma rt_pairs l : Forall (fun kv => rt (fst kv) /\ rt (snd kv)) l ->
  forallb (fun kv => mp_wf (fst kv) && mp_wf (snd kv)) l = true ->
  forall fuel rest, (pairs_size l <= fuel)%nat ->
  decode_pairs fuel (N.of_nat (length l)) (enc_pairs l ++ rest) = Some (l, rest).
Proof.
  induction 1 as [|[k v] l [Hk Hv] _ IH]; intros W fuel rest F.
  - apply decode_pairs_0.
  - cbn [forallb fst snd] in W. apply andb_true_iff in W. destruct W as [Wkv Wl].
    apply andb_true_iff in Wkv. destruct Wkv as [Wk Wv]. cbn [fst snd] in Hk, Hv.
    cbn [pairs_size] in F. destruct fuel as [|f]; [lia|].
    cbn [length enc_pairs]. rewrite decode_pairs_S by lia. rewrite <- !app_assoc.
    rewrite (Hk Wk) by lia. rewrite (Hv Wv) by lia.
    replace (N.pred (N.of_nat (S (length l)))) with (N.of_nat (length l)) by lia.
    rewrite (IH Wl) by lia. reflexivity.
Qed.

Theorem decode_encode_fuel t : mp_wf t = true -> forall fuel rest,
  (mp_size t <= fuel)%nat -> decode_mp fuel (encode t ++ rest) = Some (t, rest).
Proof.
  change (rt t). induction t as [| b | n | s | l IH | l IH] using mp_ind'; intros W fuel rest F.
  - destruct fuel; [cbn in F; lia|]. reflexivity.
  - destruct fuel; [cbn in F; lia|]. destruct b; reflexivity.
  - destruct fuel; [cbn in F; lia|]. cbn [mp_wf] in W. cbn [encode].
    destruct (enc_uint_hdr n) as (h & tl & s & -> & C & G); [lia|].
    cbn [app]. rewrite decode_mp_S, C, G. reflexivity.
  - destruct fuel; [cbn in F; lia|]. cbn [mp_wf] in W. unfold len_ok in W. cbn [encode].
    destruct (enc_str_hdr_ok (N.of_nat (length s))) as (h & tl & s0 & -> & C & G); [lia|].
    rewrite <- app_assoc. cbn [app]. rewrite decode_mp_S, C, G, split_at_app. reflexivity.
  - rewrite size_arr in F. destruct fuel; [lia|]. cbn [mp_wf] in W.
    apply andb_true_iff in W. destruct W as [WL W]. unfold len_ok in WL. rewrite encode_arr.
    destruct (enc_arr_hdr_ok (N.of_nat (length l))) as (h & tl & s0 & -> & C & G); [lia|].
    rewrite <- app_assoc. cbn [app]. rewrite decode_mp_S, C, G.
    rewrite (rt_seq l IH W) by lia. reflexivity.
  - rewrite size_map in F. destruct fuel; [lia|]. cbn [mp_wf] in W.
    apply andb_true_iff in W. destruct W as [WL W]. unfold len_ok in WL. rewrite encode_map.
    destruct (enc_map_hdr_ok (N.of_nat (length l))) as (h & tl & s0 & -> & C & G); [lia|].
    rewrite <- app_assoc. cbn [app]. rewrite decode_mp_S, C, G.
    rewrite (rt_pairs l IH W) by lia. reflexivity.
Qed.

(* ------------------------------------------------------------------ fuel: more never changes an answer *)
Lemma fuel_mono_all f :
  (forall b x, decode_mp f b = Some x -> forall f', (f <= f')%nat -> decode_mp f' b = Some x) /\
  (forall n b x, decode_seq f n b = Some x -> forall f', (f <= f')%nat -> decode_seq f' n b = Some x) /\
  (forall n b x, decode_pairs f n b = Some x -> forall f', (f <= f')%nat -> decode_pairs f' n b = Some x).
Proof.
  induction f as [|f (IH1 & IH2 & IH3)].
  - split; [|split].
    + intros b x H. rewrite decode_mp_O in H. discriminate.
    + intros n b x H f' _. destruct (N.eqb_spec n 0) as [->|NZ].
      * rewrite decode_seq_0 in *. exact H.
      * rewrite decode_seq_O in H by assumption. discriminate.
    + intros n b x H f' _. destruct (N.eqb_spec n 0) as [->|NZ].
      * rewrite decode_pairs_0 in *. exact H.
      * rewrite decode_pairs_O in H by assumption. discriminate.
  - split; [|split].
    + intros [|h r] x H f' L; [rewrite decode_mp_nil in H; discriminate|].
      destruct f' as [|f']; [lia|]. rewrite decode_mp_S in *.
      destruct (lead_of h) as [s|s|s|s| | |]; try exact H;
        destruct (get_len s r) as [[n r']|]; try exact H.
      * destruct (decode_seq f n r') as [[l v]|] eqn:E; [|discriminate].
        rewrite (IH2 _ _ _ E f') by lia. exact H.
      * destruct (decode_pairs f n r') as [[l v]|] eqn:E; [|discriminate].
        rewrite (IH3 _ _ _ E f') by lia. exact H.
    + intros n b x H f' L. destruct (N.eqb_spec n 0) as [->|NZ].
      * rewrite decode_seq_0 in *. exact H.
      * destruct f' as [|f']; [lia|]. rewrite decode_seq_S in * by assumption.
        destruct (decode_mp f b) as [[y r]|] eqn:E1; [|discriminate].
        rewrite (IH1 _ _ E1 f') by lia.
        destruct (decode_seq f (N.pred n) r) as [[l v]|] eqn:E2; [|discriminate].
        rewrite (IH2 _ _ _ E2 f') by lia. exact H.
    + intros n b x H f' L. destruct (N.eqb_spec n 0) as [->|NZ].
      * rewrite decode_pairs_0 in *. exact H.
      * destruct f' as [|f']; [lia|]. rewrite decode_pairs_S in * by assumption.
        destruct (decode_mp f b) as [[k r]|] eqn:E1; [|discriminate].
        rewrite (IH1 _ _ E1 f') by lia.
        destruct (decode_mp f r) as [[y r']|] eqn:E2; [|discriminate].
        rewrite (IH1 _ _ E2 f') by lia.
        destruct (decode_pairs f (N.pred n) r') as [[l v]|] eqn:E3; [|discriminate].
        rewrite (IH3 _ _ _ E3 f') by lia. exact H.
Qed.

Theorem decode_fuel_mono f f' b x : decode_mp f b = Some x -> (f <= f')%nat -> decode_mp f' b = Some x.
Proof. intros H L. exact (proj1 (fuel_mono_all f) b x H f' L). Qed.
Lemma decode_seq_fuel_mono f f' n b x : decode_seq f n b = Some x -> (f <= f')%nat -> decode_seq f' n b = Some x.
Proof. intros H L. exact (proj1 (proj2 (fuel_mono_all f)) n b x H f' L). Qed.
Lemma decode_pairs_fuel_mono f f' n b x : decode_pairs f n b = Some x -> (f <= f')%nat -> decode_pairs f' n b = Some x.
Proof. intros H L. exact (proj2 (proj2 (fuel_mono_all f)) n b x H f' L). Qed.

(* ------------------------------------------------------------------ a success is stable under appending *)
Lemma ext_all f :
  (forall b t r q, decode_mp f b = Some (t, r) -> decode_mp f (b ++ q) = Some (t, r ++ q)) /\
  (forall n b l r q, decode_seq f n b = Some (l, r) -> decode_seq f n (b ++ q) = Some (l, r ++ q)) /\
  (forall n b l r q, decode_pairs f n b = Some (l, r) -> decode_pairs f n (b ++ q) = Some (l, r ++ q)).
Proof.
  induction f as [|f (IH1 & IH2 & IH3)].
  - split; [|split].
    + intros b t r q H. rewrite decode_mp_O in H. discriminate.
    + intros n b l r q H. destruct (N.eqb_spec n 0) as [->|NZ].
      * rewrite decode_seq_0 in *. inversion H; subst. reflexivity.
      * rewrite decode_seq_O in H by assumption. discriminate.
    + intros n b l r q H. destruct (N.eqb_spec n 0) as [->|NZ].
      * rewrite decode_pairs_0 in *. inversion H; subst. reflexivity.
      * rewrite decode_pairs_O in H by assumption. discriminate.
  - split; [|split].
    + intros [|h r0] t r q H; [rewrite decode_mp_nil in H; discriminate|].
      cbn [app]. rewrite decode_mp_S in *.
      destruct (lead_of h) as [s|s|s|s| | |]; try discriminate;
        try (inversion H; subst; reflexivity);
        (destruct (get_len s r0) as [[n r']|] eqn:G; [|discriminate]);
        rewrite (get_len_ext _ _ _ _ q G).
      * inversion H; subst. reflexivity.
      * destruct (split_at n r') as [[u v]|] eqn:E; [|discriminate].
        rewrite (split_at_ext _ _ _ _ q E). inversion H; subst. reflexivity.
      * destruct (decode_seq f n r') as [[l v]|] eqn:E; [|discriminate].
        rewrite (IH2 _ _ _ _ q E). inversion H; subst. reflexivity.
      * destruct (decode_pairs f n r') as [[l v]|] eqn:E; [|discriminate].
        rewrite (IH3 _ _ _ _ q E). inversion H; subst. reflexivity.
    + intros n b l r q H. destruct (N.eqb_spec n 0) as [->|NZ].
      * rewrite decode_seq_0 in *. inversion H; subst. reflexivity.
      * rewrite decode_seq_S in * by assumption.
        destruct (decode_mp f b) as [[y r1]|] eqn:E1; [|discriminate].
        rewrite (IH1 _ _ _ q E1).
        destruct (decode_seq f (N.pred n) r1) as [[l' v]|] eqn:E2; [|discriminate].
        rewrite (IH2 _ _ _ _ q E2). inversion H; subst. reflexivity.
    + intros n b l r q H. destruct (N.eqb_spec n 0) as [->|NZ].
      * rewrite decode_pairs_0 in *. inversion H; subst. reflexivity.
      * rewrite decode_pairs_S in * by assumption.
        destruct (decode_mp f b) as [[k r1]|] eqn:E1; [|discriminate].
        rewrite (IH1 _ _ _ q E1).
        destruct (decode_mp f r1) as [[y r2]|] eqn:E2; [|discriminate].
        rewrite (IH1 _ _ _ q E2).
        destruct (decode_pairs f (N.pred n) r2) as [[l' v]|] eqn:E3; [|discriminate].
        rewrite (IH3 _ _ _ _ q E3). inversion H; subst. reflexivity.
Qed.

Theorem decode_ext f b t r q : decode_mp f b = Some (t, r) -> decode_mp f (b ++ q) = Some (t, r ++ q).
Proof. apply (proj1 (ext_all f)). Qed.

(* ------------------------------------------------------------------ (c) the rest is a suffix, something was read *)
Lemma suffix_all f :
  (forall b t r, decode_mp f b = Some (t, r) -> exists u, b = u ++ r /\ u <> []) /\
  (forall n b l r, decode_seq f n b = Some (l, r) -> exists u, b = u ++ r) /\
  (forall n b l r, decode_pairs f n b = Some (l, r) -> exists u, b = u ++ r).
Proof.
  induction f as [|f (IH1 & IH2 & IH3)].
  - split; [|split].
    + intros b t r H. rewrite decode_mp_O in H. discriminate.
    + intros n b l r H. destruct (N.eqb_spec n 0) as [->|NZ].
      * rewrite decode_seq_0 in *. inversion H; subst. exists []. reflexivity.
      * rewrite decode_seq_O in H by assumption. discriminate.
    + intros n b l r H. destruct (N.eqb_spec n 0) as [->|NZ].
      * rewrite decode_pairs_0 in *. inversion H; subst. exists []. reflexivity.
      * rewrite decode_pairs_O in H by assumption. discriminate.
  - split; [|split].
    + intros [|h r0] t r H; [rewrite decode_mp_nil in H; discriminate|].
      rewrite decode_mp_S in H.
      destruct (lead_of h) as [s|s|s|s| | |]; try discriminate;
        try (inversion H; subst; exists [h]; split; [reflexivity|discriminate]);
        (destruct (get_len s r0) as [[n r']|] eqn:G; [|discriminate]);
        destruct (get_len_spec _ _ _ _ G) as [u0 ->].
      * inversion H; subst. exists (h :: u0). split; [reflexivity|discriminate].
      * destruct (split_at n r') as [[u v]|] eqn:E; [|discriminate].
        destruct (split_at_spec _ _ _ _ E) as [-> _]. inversion H; subst.
        exists (h :: u0 ++ u). split; [cbn [app]; rewrite <- app_assoc; reflexivity|discriminate].
      * destruct (decode_seq f n r') as [[l v]|] eqn:E; [|discriminate].
        destruct (IH2 _ _ _ _ E) as [u ->]. inversion H; subst.
        exists (h :: u0 ++ u). split; [cbn [app]; rewrite <- app_assoc; reflexivity|discriminate].
      * destruct (decode_pairs f n r') as [[l v]|] eqn:E; [|discriminate].
        destruct (IH3 _ _ _ _ E) as [u ->]. inversion H; subst.
        exists (h :: u0 ++ u). split; [cbn [app]; rewrite <- app_assoc; reflexivity|discriminate].
    + intros n b l r H. destruct (N.eqb_spec n 0) as [->|NZ].
      * rewrite decode_seq_0 in *. inversion H; subst. exists []. reflexivity.
      * rewrite decode_seq_S in * by assumption.
        destruct (decode_mp f b) as [[y r1]|] eqn:E1; [|discriminate].
        destruct (decode_seq f (N.pred n) r1) as [[l' v]|] eqn:E2; [|discriminate].
        destruct (IH1 _ _ _ E1) as (u1 & -> & _). destruct (IH2 _ _ _ _ E2) as [u2 ->].
        inversion H; subst. exists (u1 ++ u2). rewrite <- app_assoc. reflexivity.
    + intros n b l r H. destruct (N.eqb_spec n 0) as [->|NZ].
      * rewrite decode_pairs_0 in *. inversion H; subst. exists []. reflexivity.
      * rewrite decode_pairs_S in * by assumption.
        destruct (decode_mp f b) as [[k r1]|] eqn:E1; [|discriminate].
        destruct (decode_mp f r1) as [[y r2]|] eqn:E2; [|discriminate].
        destruct (decode_pairs f (N.pred n) r2) as [[l' v]|] eqn:E3; [|discriminate].
        destruct (IH1 _ _ _ E1) as (u1 & -> & _). destruct (IH1 _ _ _ E2) as (u2 & -> & _).
        destruct (IH3 _ _ _ _ E3) as [u3 ->].
        inversion H; subst. exists (u1 ++ u2 ++ u3). rewrite <- !app_assoc. reflexivity.
Qed.

Theorem decode_suffix fuel b t r : decode_mp fuel b = Some (t, r) -> exists used, b = used ++ r /\ used <> [].
Proof. apply (proj1 (suffix_all fuel)). Qed.

(* ------------------------------------------------------------------ fuel: 2 * length is enough *)
(* whatever some fuel decodes, [mp_size] of the result decodes, and that is less than twice the
   number of bytes read: so [fuel_for] is not a restriction *)
Lemma enough_all f :
  (forall b t r, decode_mp f b = Some (t, r) ->
     decode_mp (mp_size t) b = Some (t, r) /\ (mp_size t + 1 + 2 * length r <= 2 * length b)%nat) /\
  (forall n b l r, decode_seq f n b = Some (l, r) ->
     decode_seq (seq_size l) n b = Some (l, r) /\ (seq_size l + 2 * length r <= 2 * length b)%nat) /\
  (forall n b l r, decode_pairs f n b = Some (l, r) ->
     decode_pairs (pairs_size l) n b = Some (l, r) /\ (pairs_size l + 2 * length r <= 2 * length b)%nat).
Proof.
  induction f as [|f (IH1 & IH2 & IH3)].
  - split; [|split].
    + intros b t r H. rewrite decode_mp_O in H. discriminate.
    + intros n b l r H. destruct (N.eqb_spec n 0) as [->|NZ].
      * rewrite decode_seq_0 in *. inversion H; subst. split; [reflexivity|cbn [seq_size]; lia].
      * rewrite decode_seq_O in H by assumption. discriminate.
    + intros n b l r H. destruct (N.eqb_spec n 0) as [->|NZ].
      * rewrite decode_pairs_0 in *. inversion H; subst. split; [reflexivity|cbn [pairs_size]; lia].
      * rewrite decode_pairs_O in H by assumption. discriminate.
  - split; [|split].
    + intros [|h r0] t r H; [rewrite decode_mp_nil in H; discriminate|].
      rewrite decode_mp_S in H. cbn [length].
      destruct (lead_of h) as [s|s|s|s| | |] eqn:C; try discriminate.
      * destruct (get_len s r0) as [[n r']|] eqn:G; [|discriminate].
        destruct (get_len_spec _ _ _ _ G) as [u0 ->]. inversion H; subst.
        cbn [mp_size]. rewrite decode_mp_S, C, G. rewrite app_length. split; [reflexivity|lia].
      * destruct (get_len s r0) as [[n r']|] eqn:G; [|discriminate].
        destruct (get_len_spec _ _ _ _ G) as [u0 ->].
        destruct (split_at n r') as [[u v]|] eqn:E; [|discriminate].
        destruct (split_at_spec _ _ _ _ E) as [-> _]. inversion H; subst.
        cbn [mp_size]. rewrite decode_mp_S, C, G, E. rewrite !app_length. split; [reflexivity|lia].
      * destruct (get_len s r0) as [[n r']|] eqn:G; [|discriminate].
        destruct (get_len_spec _ _ _ _ G) as [u0 ->].
        destruct (decode_seq f n r') as [[l v]|] eqn:E; [|discriminate].
        destruct (IH2 _ _ _ _ E) as [D L]. inversion H; subst.
        rewrite size_arr, decode_mp_S, C, G, D. rewrite app_length. split; [reflexivity|lia].
      * destruct (get_len s r0) as [[n r']|] eqn:G; [|discriminate].
        destruct (get_len_spec _ _ _ _ G) as [u0 ->].
        destruct (decode_pairs f n r') as [[l v]|] eqn:E; [|discriminate].
        destruct (IH3 _ _ _ _ E) as [D L]. inversion H; subst.
        rewrite size_map, decode_mp_S, C, G, D. rewrite app_length. split; [reflexivity|lia].
      * inversion H; subst. cbn [mp_size]. rewrite decode_mp_S, C. split; [reflexivity|lia].
      * inversion H; subst. cbn [mp_size]. rewrite decode_mp_S, C. split; [reflexivity|lia].
    + intros n b l r H. destruct (N.eqb_spec n 0) as [->|NZ].
      * rewrite decode_seq_0 in *. inversion H; subst. split; [reflexivity|cbn [seq_size]; lia].
      * rewrite decode_seq_S in H by assumption.
        destruct (decode_mp f b) as [[y r1]|] eqn:E1; [|discriminate].
        destruct (decode_seq f (N.pred n) r1) as [[l' v]|] eqn:E2; [|discriminate].
        destruct (IH1 _ _ _ E1) as [D1 L1]. destruct (IH2 _ _ _ _ E2) as [D2 L2].
        inversion H; subst. cbn [seq_size]. rewrite decode_seq_S by assumption.
        rewrite (decode_fuel_mono _ (mp_size y + seq_size l') _ _ D1) by lia.
        rewrite (decode_seq_fuel_mono _ (mp_size y + seq_size l') _ _ _ D2) by lia.
        split; [reflexivity|lia].
    + intros n b l r H. destruct (N.eqb_spec n 0) as [->|NZ].
      * rewrite decode_pairs_0 in *. inversion H; subst. split; [reflexivity|cbn [pairs_size]; lia].
      * rewrite decode_pairs_S in H by assumption.
        destruct (decode_mp f b) as [[k r1]|] eqn:E1; [|discriminate].
        destruct (decode_mp f r1) as [[y r2]|] eqn:E2; [|discriminate].
        destruct (decode_pairs f (N.pred n) r2) as [[l' v]|] eqn:E3; [|discriminate].
        destruct (IH1 _ _ _ E1) as [D1 L1]. destruct (IH1 _ _ _ E2) as [D2 L2].
        destruct (IH3 _ _ _ _ E3) as [D3 L3].
        inversion H; subst. cbn [pairs_size]. rewrite decode_pairs_S by assumption.
        rewrite (decode_fuel_mono _ (mp_size k + mp_size y + pairs_size l') _ _ D1) by lia.
        rewrite (decode_fuel_mono _ (mp_size k + mp_size y + pairs_size l') _ _ D2) by lia.
        rewrite (decode_pairs_fuel_mono _ (mp_size k + mp_size y + pairs_size l') _ _ _ D3) by lia.
        split; [reflexivity|lia].
Qed.

(* the fuel of decode_first / decode_all is enough for whatever ANY fuel decodes *)
Theorem decode_fuel_enough fuel b t r :
  decode_mp fuel b = Some (t, r) -> decode_mp (fuel_for b) b = Some (t, r).
Proof.
  intros H. destruct (proj1 (enough_all fuel) _ _ _ H) as [D L].
  apply (decode_fuel_mono _ _ _ _ D). unfold fuel_for. lia.
Qed.

Corollary decode_first_none_iff b : decode_first b = None <-> forall fuel, decode_mp fuel b = None.
Proof.
  unfold decode_first. split.
  - intros H fuel. destruct (decode_mp fuel b) as [[t r]|] eqn:E; [|reflexivity].
    rewrite (decode_fuel_enough _ _ _ _ E) in H. discriminate.
  - intros H. rewrite H. reflexivity.
Qed.

(* ------------------------------------------------------------------ (a) round trip, top level *)
Theorem decode_encode t rest : mp_wf t = true ->
  decode_mp (fuel_for (encode t ++ rest)) (encode t ++ rest) = Some (t, rest).
Proof.
  intros W. eapply decode_fuel_enough. apply (decode_encode_fuel t W (mp_size t) rest). lia.
Qed.

Theorem decode_all_encode t : mp_wf t = true -> decode_all (encode t) = Some t.
Proof.
  intros W. unfold decode_all. rewrite <- (app_nil_r (encode t)). rewrite (decode_encode t [] W). reflexivity.
Qed.

Theorem decode_first_encode t rest : mp_wf t = true -> decode_first (encode t ++ rest) = Some t.
Proof. intros W. unfold decode_first. rewrite (decode_encode t rest W). reflexivity. Qed.

(* ------------------------------------------------------------------ (b) determinism along the encoding, prefix-freeness *)
Theorem decode_encode_unique t fuel rest t' rest' : mp_wf t = true ->
  decode_mp fuel (encode t ++ rest) = Some (t', rest') -> t' = t /\ rest' = rest.
Proof.
  intros W H.
  pose proof (decode_fuel_mono _ (Nat.max fuel (mp_size t)) _ _ H (Nat.le_max_l _ _)) as H1.
  rewrite (decode_encode_fuel t W _ rest (Nat.le_max_r _ _)) in H1. inversion H1; subst. split; reflexivity.
Qed.

(* no truncation of an encoding decodes, with any fuel, not even leaving a rest *)
Theorem decode_strict_prefix t p : mp_wf t = true -> strict_prefix p (encode t) ->
  forall fuel, decode_mp fuel p = None.
Proof.
  intros W (q & NE & E) fuel. destruct (decode_mp fuel p) as [[t' r']|] eqn:D; [|reflexivity].
  pose proof (decode_ext _ _ _ _ q D) as D'. rewrite <- E in D'.
  rewrite <- (app_nil_r (encode t)) in D'.
  destruct (decode_encode_unique t _ _ _ _ W D') as [_ R].
  destruct r'; [|discriminate]. cbn in R. contradiction.
Qed.

Corollary decode_all_strict_prefix t p : mp_wf t = true -> strict_prefix p (encode t) -> decode_all p = None.
Proof. intros W S. unfold decode_all. rewrite (decode_strict_prefix t p W S). reflexivity. Qed.
Corollary decode_first_strict_prefix t p : mp_wf t = true -> strict_prefix p (encode t) -> decode_first p = None.
Proof. intros W S. unfold decode_first. rewrite (decode_strict_prefix t p W S). reflexivity. Qed.

(* the encodings of two well-formed trees are never a strict prefix of one another, and equal
   encodings mean equal trees *)
Corollary encode_prefix_free t t' : mp_wf t = true -> mp_wf t' = true -> ~ strict_prefix (encode t') (encode t).
Proof.
  intros W W' S. pose proof (decode_all_strict_prefix t _ W S) as H.
  rewrite (decode_all_encode t' W') in H. discriminate.
Qed.
Corollary encode_injective t t' : mp_wf t = true -> mp_wf t' = true -> encode t = encode t' -> t = t'.
Proof.
  intros W W' E. pose proof (decode_all_encode t W) as H. rewrite E, (decode_all_encode t' W') in H.
  inversion H. reflexivity.
Qed.

(* mp_wf is needed: an integer that does not fit u64 is written with its low 64 bits *)
Lemma decode_encode_wf_needed : exists t, mp_wf t = false /\ decode_all (encode t) <> Some t.
Proof. exists (MInt (U64 + 5)). split; [reflexivity|]. vm_compute. discriminate. Qed.

(* ------------------------------------------------------------------ examples *)
Example ex_tree : mp :=
  MArr [MInt 5; MInt 300; MStr (bs "ads"); MNil; MBool true;
        MMap [(MInt 70000, MArr [MStr []; MInt 18446744073709551615]); (MStr (bs "k"), MMap [])]].
Example ex_tree_wf : mp_wf ex_tree = true.
Proof. reflexivity. Qed.
Example ex_roundtrip : decode_all (encode ex_tree) = Some ex_tree /\
                       decode_mp (mp_size ex_tree) (encode ex_tree ++ [193; 7]) = Some (ex_tree, [193; 7]).
Proof. vm_compute. split; reflexivity. Qed.
(* non-minimal forms are read: uint16 5, str8 "a", array16 of one, map32 of none *)
Example ex_non_minimal :
  decode_all [205; 0; 5] = Some (MInt 5) /\ encode (MInt 5) = [5] /\
  decode_all [217; 1; 97] = Some (MStr [97]) /\
  decode_all [220; 0; 1; 207; 0; 0; 0; 0; 0; 0; 0; 9] = Some (MArr [MInt 9]) /\
  decode_all [223; 0; 0; 0; 0] = Some (MMap []).
Proof. vm_compute. repeat split; reflexivity. Qed.
(* every truncation of the example fails; so do the refused lead bytes and a trailing byte under
   decode_all (decode_first ignores it, as from_slice does) *)
Example ex_truncations :
  forallb (fun k => match decode_first (take k (encode ex_tree)) with None => true | Some _ => false end)
          (seq 0 (length (encode ex_tree))) = true /\
  length (encode ex_tree) = 31%nat.
Proof. vm_compute. split; reflexivity. Qed.
Example ex_refused :
  map decode_first [[193]; [196; 0]; [202; 0; 0; 0; 0]; [208; 1]; [255]; [199; 0; 1]; [146; 1]; [161]] =
  [None; None; None; None; None; None; None; None] /\
  decode_all [1; 2] = None /\ decode_first [1; 2] = Some (MInt 1).
Proof. vm_compute. repeat split; reflexivity. Qed.

(* ================================================================ the typed layer: from_tree inverts wire_tree *)
Lemma all_F {A} (P : A -> Prop) l : (forall x, P x) -> Forall P l.
Proof. intros H. apply Forall_forall. intros x _. apply H. Qed.

Lemma f_each_rt {A} (f : mp -> option A) g l :
  Forall (fun x => f (g x) = Some x) l -> f_each f (map g l) = Some l.
Proof. induction 1 as [|x l H _ IH]; cbn [map f_each]; [reflexivity|]. rewrite H, IH. reflexivity. Qed.

Lemma f_list_rt {A} (f : mp -> option A) g l :
  Forall (fun x => f (g x) = Some x) l -> f_list f (t_list g l) = Some l.
Proof. apply f_each_rt. Qed.

Lemma f_entries_rt {K V} (fk : mp -> option K) (fv : mp -> option V) gk gv l :
  (forall k, fk (gk k) = Some k) -> Forall (fun kv => fv (gv (snd kv)) = Some (snd kv)) l ->
  f_entries fk fv (map (fun kv => (gk (fst kv), gv (snd kv))) l) = Some l.
Proof.
  intros HK. induction 1 as [|[k v] l H _ IH]; cbn [map f_entries]; [reflexivity|].
  cbn [fst snd] in *. rewrite HK, H, IH. reflexivity.
Qed.

Lemma f_nmap_rt {V} (fv : mp -> option V) gv (m : list (N * V)) :
  Forall (fun kv => fv (gv (snd kv)) = Some (snd kv)) m -> f_map f_int fv (t_nmap gv m) = Some m.
Proof. intros H. apply (f_entries_rt f_int fv MInt gv m); [reflexivity|exact H]. Qed.
Lemma f_smap_rt {V} (fv : mp -> option V) gv (m : list (str * V)) :
  Forall (fun kv => fv (gv (snd kv)) = Some (snd kv)) m -> f_map f_str fv (t_smap gv m) = Some m.
Proof. intros H. apply (f_entries_rt f_str fv MStr gv m); [reflexivity|exact H]. Qed.

Lemma f_opt_rt {A} (f : mp -> option A) g (o : option A) :
  (forall x, g x <> MNil) -> (forall x, o = Some x -> f (g x) = Some x) -> f_opt f (t_opt g o) = Some o.
Proof.
  intros NN H. destruct o as [x|]; [|reflexivity]. cbn [t_opt]. unfold f_opt.
  rewrite (H x eq_refl). specialize (NN x). destruct (g x); try reflexivity. congruence.
Qed.

Lemma f_strs_rt l : f_list f_str (t_list MStr l) = Some l.
Proof. apply f_list_rt, all_F. reflexivity. Qed.
Lemma f_ints_rt l : f_list f_int (t_list MInt l) = Some l.
Proof. apply f_list_rt, all_F. reflexivity. Qed.
Lemma f_ostr_rt o : f_opt f_str (t_opt MStr o) = Some o.
Proof. apply f_opt_rt; [discriminate|reflexivity]. Qed.
Lemma f_oint_rt o : f_opt f_int (t_opt MInt o) = Some o.
Proof. apply f_opt_rt; [discriminate|reflexivity]. Qed.
Lemma f_oints_rt o : f_opt (f_list f_int) (t_opt (t_list MInt) o) = Some o.
Proof. apply f_opt_rt; [discriminate|]. intros x _. apply f_ints_rt. Qed.

Lemma f_filter_part_rt p : f_filter_part (t_filter_part p) = Some p.
Proof.
  destruct p as [|s|l]; try reflexivity.
  cbn [t_filter_part]. unfold f_filter_part, t_variant. cbn [f_variant obind].
  change (N.eqb 2 0) with false. change (N.eqb 2 1) with false. change (N.eqb 2 2) with true. cbn iota.
  rewrite f_strs_rt. reflexivity.
Qed.

Lemma f_legacy_rt x : f_legacy (t_legacy x) = Some x.
Proof. destruct x; reflexivity. Qed.

Lemma f_wrule_rt w : wrule_u32 w = true -> f_wrule (t_wrule w) = Some w.
Proof.
  unfold wrule_u32. intros H. apply andb_true_iff in H. destruct H as [H1 H2].
  unfold t_wrule, wrule_fields, f_wrule. cbn [map snd].
  assert (B : f_opt f_u32 (t_opt MInt (w_bug w)) = Some (w_bug w)).
  { apply f_opt_rt; [discriminate|]. intros x E. rewrite E in H2. unfold f_u32. rewrite H2. reflexivity. }
  unfold f_u32 at 1. rewrite H1, B, f_filter_part_rt, !f_oints_rt, !f_ostr_rt, !f_oint_rt. cbn [obind f_int].
  destruct w; reflexivity.
Qed.

Lemma f_wrules_rt l : forallb wrule_u32 l = true -> f_list f_wrule (t_list t_wrule l) = Some l.
Proof.
  intros H. apply f_list_rt. apply Forall_forall. intros w I. apply f_wrule_rt.
  rewrite forallb_forall in H. apply H. exact I.
Qed.

Lemma forallb_flat_snd {A} (p : A -> bool) (l : list (N * list A)) :
  forallb p (flat_map snd l) = true -> Forall (fun kv => forallb p (snd kv) = true) l.
Proof.
  induction l as [|[k v] l IH]; cbn [flat_map snd]; intros H; constructor.
  - rewrite forallb_app in H. apply andb_true_iff in H. apply H.
  - apply IH. rewrite forallb_app in H. apply andb_true_iff in H. apply H.
Qed.

Lemma f_wlist_rt l : forallb wrule_u32 (flat_map snd l) = true -> f_wlist (t_wlist l) = Some l.
Proof.
  intros H. unfold f_wlist, t_wlist, f_one. apply f_nmap_rt.
  eapply Forall_impl; [|apply forallb_flat_snd; exact H]. intros kv. apply f_wrules_rt.
Qed.

Lemma f_nstrs_rt m : f_nstrs (t_nmap (t_list MStr) m) = Some m.
Proof. apply f_nmap_rt, all_F. intros kv. apply f_strs_rt. Qed.
Lemma f_sstrs_rt m : f_sstrs (t_smap (t_list MStr) m) = Some m.
Proof. apply f_smap_rt, all_F. intros kv. apply f_strs_rt. Qed.

(* the u32 part of wire_fits is all from_tree needs (integers are read back at any size) *)
Theorem from_tree_wire_tree w : forallb wrule_u32 (wire_rules w) = true -> from_tree (wire_tree w) = Some w.
Proof.
  unfold wire_rules. cbn [flat_map]. rewrite !forallb_app. rewrite !andb_true_iff.
  intros [(H1 & H2 & H3 & H4 & H5 & H6 & H7 & _) H8].
  assert (R : f_one (f_map f_str (f_two f_str f_str))
                (MArr [t_smap (fun cd => MArr [MStr (fst cd); MStr (snd cd)]) (wi_resources w)]) = Some (wi_resources w)).
  { cbn [f_one]. apply f_smap_rt, all_F. intros [k [c d]]. reflexivity. }
  assert (S : f_one (f_map f_int (f_list f_legacy)) (MArr [t_nmap (t_list t_legacy) (wi_specific w)]) = Some (wi_specific w)).
  { cbn [f_one]. apply f_nmap_rt, all_F. intros kv. apply f_list_rt, all_F. apply f_legacy_rt. }
  assert (T : f_one (f_map f_str (f_one f_str)) (MArr [t_smap (fun s => MArr [MStr s]) (wi_scriptlets w)]) = Some (wi_scriptlets w)).
  { cbn [f_one]. apply f_smap_rt, all_F. intros kv. reflexivity. }
  unfold wire_tree, wire_fields, from_tree. cbn [map snd drop take skipn firstn].
  rewrite !f_nstrs_rt. cbn [obind]. unfold from_fields.
  rewrite !f_wlist_rt by assumption. rewrite f_wrules_rt by assumption.
  rewrite R, S, T, !f_strs_rt, !f_sstrs_rt. cbn [obind f_bool].
  destruct w; reflexivity.
Qed.

(* the u32 condition is needed: a mask that does not fit u32 is refused *)
Lemma from_tree_u32_needed : exists w, mp_wf (wire_tree w) = true /\ from_tree (wire_tree w) = None.
Proof.
  exists (Build_wire [] [] [] [] [] [] []
            [Build_wrule U32 FEmpty None None None None None None None None 0 None None]
            false [] [] [] [] [] [] [] [] [] []).
  split; reflexivity.
Qed.

(* ================================================================ bytes -> wire *)
Theorem decode_wire_own w : wire_fits w = true -> decode_wire (encode (wire_tree w)) = Some w.
Proof.
  unfold wire_fits. intros H. apply andb_true_iff in H. destruct H as [W U].
  unfold decode_wire. rewrite <- (app_nil_r (encode _)). rewrite (decode_first_encode _ [] W).
  cbn [obind]. apply from_tree_wire_tree. exact U.
Qed.

(* from_slice does not look at what follows the value *)
Theorem decode_wire_trailing w junk : wire_fits w = true -> decode_wire (encode (wire_tree w) ++ junk) = Some w.
Proof.
  unfold wire_fits. intros H. apply andb_true_iff in H. destruct H as [W U].
  unfold decode_wire. rewrite (decode_first_encode _ junk W). cbn [obind]. apply from_tree_wire_tree. exact U.
Qed.

Theorem decode_wire_truncated w p : wire_fits w = true -> strict_prefix p (encode (wire_tree w)) -> decode_wire p = None.
Proof.
  unfold wire_fits. intros H S. apply andb_true_iff in H. destruct H as [W _].
  unfold decode_wire. rewrite (decode_first_strict_prefix _ _ W S). reflexivity.
Qed.

(* ================================================================ (d) the header in front *)
Import C10_Model.

Lemma dispatch_v0 r : header_dispatch (DAT_MAGIC ++ V0_VERSION_BYTE :: r) = Ok (DDecode r).
Proof.
  unfold header_dispatch.
  assert (P : prefixb DAT_MAGIC (DAT_MAGIC ++ V0_VERSION_BYTE :: r) = true)
    by (apply C10_Proofs.prefixb_iff; eexists; reflexivity).
  rewrite P, C10_Proofs.nth_error_app_len. cbn [nth_error].
  change (N.eqb V0_VERSION_BYTE DISPATCH_V0_VERSION) with true. cbn iota.
  rewrite (C10_Proofs.v0_payload_ok r). reflexivity.
Qed.

(* a truncated serialized engine: either the header is incomplete (NoHeaderFound) or the payload
   is a truncated payload *)
Lemma truncated_dispatch payload p : strict_prefix p (DAT_MAGIC ++ [V0_VERSION_BYTE] ++ payload) ->
  header_dispatch p = Ok DNoHeader \/
  exists p', header_dispatch p = Ok (DDecode p') /\ strict_prefix p' payload.
Proof.
  intros (q & NE & E). unfold DAT_MAGIC, V0_VERSION_BYTE in E. cbn [app] in E.
  destruct p as [|a p]; [left; reflexivity|]. cbn [app] in E. injection E as <- E.
  destruct p as [|b p]; [left; reflexivity|]. cbn [app] in E. injection E as <- E.
  destruct p as [|c p]; [left; reflexivity|]. cbn [app] in E. injection E as <- E.
  destruct p as [|d p]; [left; reflexivity|]. cbn [app] in E. injection E as <- E.
  destruct p as [|v p]; [left; reflexivity|]. cbn [app] in E. injection E as <- E.
  right. exists p. split; [apply (dispatch_v0 p)|].
  exists q. split; assumption.
Qed.

Theorem decode_wire_bytes_own w : wire_fits w = true -> decode_wire_bytes (serialize_wire w) = Some w.
Proof.
  intros W. unfold decode_wire_bytes. rewrite C10_Proofs.own_output_dispatch. apply decode_wire_own. exact W.
Qed.

Theorem decode_wire_bytes_truncated w p : wire_fits w = true -> strict_prefix p (serialize_wire w) ->
  decode_wire_bytes p = None.
Proof.
  intros W S. unfold decode_wire_bytes.
  destruct (truncated_dispatch _ _ S) as [H|(p' & H & S')]; rewrite H; [reflexivity|].
  apply (decode_wire_truncated w p' W S').
Qed.

(* Engine::deserialize with this decoder: the engine's own bytes install the value that was
   written; any truncation of them is refused with NoHeaderFound or the rmp error and leaves the
   receiving engine as it was; bytes after the value are ignored *)
Section Load.
  Variable build_list : list rule -> bool -> bucket_map.

  Theorem deserialize_own e w : wire_fits w = true ->
    deserialize decode_wire build_list e (serialize_wire w) = Ok (install build_list e w, None).
  Proof.
    intros W. unfold deserialize. rewrite C10_Proofs.own_output_dispatch, (decode_wire_own w W). reflexivity.
  Qed.

  Theorem deserialize_trailing e w junk : wire_fits w = true ->
    deserialize decode_wire build_list e (serialize_wire w ++ junk) = Ok (install build_list e w, None).
  Proof.
    intros W. unfold deserialize, serialize_wire. rewrite <- !app_assoc. cbn [app].
    rewrite dispatch_v0, (decode_wire_trailing w junk W). reflexivity.
  Qed.

  Theorem deserialize_truncated e w p : wire_fits w = true -> strict_prefix p (serialize_wire w) ->
    deserialize decode_wire build_list e p = Ok (e, Some ENoHeader) \/
    deserialize decode_wire build_list e p = Ok (e, Some ERmp).
  Proof.
    intros W S. unfold deserialize.
    destruct (truncated_dispatch _ _ S) as [H|(p' & H & S')]; rewrite H.
    - left. reflexivity.
    - right. rewrite (decode_wire_truncated w p' W S'). reflexivity.
  Qed.
End Load.

(* ---- a wire value with every kind of field filled in *)
Example ex_wrule : wrule :=
  Build_wrule 4294967295 (FAnyOf [bs "ads"; bs "track"]) (Some [1; 18446744073709551615]) None
              (Some (bs "noop.js")) (Some (bs "ads.net")) None None (Some (bs "t1")) (Some (bs "||ads.net^")) 77
              (Some 300) None.
Example ex_wire : wire :=
  Build_wire [(7, [ex_wrule])] [] [(70000, [])] [] [] [(1, [ex_wrule; ex_wrule]); (2, [])] [] [ex_wrule] true
             [(bs "r", (bs "text/plain", bs "eA=="))] [bs "a"; bs "b"] [] [(bs "c", [bs ".c .d"])] []
             [(9, [LHide (bs ".x"); LStyle (bs ".y") (bs "color: red"); LUninject (bs "s")])] [bs "#m"]
             [(bs "s", bs "js")] [(5, [bs "{}"])] [].
Example ex_wire_ok :
  wire_fits ex_wire = true /\
  decode_wire_bytes (serialize_wire ex_wire) = Some ex_wire /\
  decode_wire_bytes (serialize_wire ex_wire ++ [193]) = Some ex_wire /\
  forallb (fun k => match decode_wire_bytes (take k (serialize_wire ex_wire)) with None => true | Some _ => false end)
          (seq 0 (length (serialize_wire ex_wire))) = true.
Proof. vm_compute. repeat split; reflexivity. Qed.

(* `#[serde(default)]`: a payload written before the two procedural maps existed (17 fields) loads
   with both empty *)
Example ex_defaulted :
  let old := match wire_tree ex_wire with MArr l => MArr (take 17%nat l) | t => t end in
  decode_wire (encode old) =
  Some (Build_wire (wi_csp ex_wire) (wi_exceptions ex_wire) (wi_importants ex_wire) (wi_redirects ex_wire)
          (wi_filters_tagged ex_wire) (wi_filters ex_wire) (wi_generic_hide ex_wire) (wi_tagged_all ex_wire)
          (wi_opt ex_wire) (wi_resources ex_wire) (wi_simple_class ex_wire) (wi_simple_id ex_wire)
          (wi_complex_class ex_wire) (wi_complex_id ex_wire) (wi_specific ex_wire) (wi_misc ex_wire)
          (wi_scriptlets ex_wire) [] []).
Proof. vm_compute. reflexivity. Qed.
