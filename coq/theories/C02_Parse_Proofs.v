(* C02_Parse_Proofs.v — the parse step of C02 for ALL lines: the fields the model of
   NetworkFilter::parse ([parse_line]) produces for a non-degenerate line outside F22 are
   well-formed, non-degenerate and denote exactly the declarative reading of the text
   ([ast_of_text]); no length bound, no alphabet restriction. *)
From Coq Require Import ZifyBool ZifyNat ZifyN Lia.
From Adb Require Import Base BaseProofs Generated C02_Model C02_Proofs.

(* ====================================================================================== *)
(* Part 1 — lower-casing leaves the structural bytes alone                                  *)
(* ====================================================================================== *)

Lemma to_lower_eqb x c : is_alpha c = false -> N.eqb (to_lower x) c = N.eqb x c.
Proof.
  unfold to_lower, is_alpha, is_upper, is_lower. intros Hc.
  destruct (N.leb 65 x && N.leb x 90) eqn:E; lia.
Qed.

Lemma lower_length s : length (lower_str s) = length s.
Proof. apply map_length. Qed.

Lemma lower_nullb s : nullb (lower_str s) = nullb s.
Proof. destruct s; reflexivity. Qed.

Lemma lower_take n s : lower_str (take n s) = take n (lower_str s).
Proof. unfold lower_str, take. symmetry. apply firstn_map. Qed.

Lemma lower_drop n s : lower_str (drop n s) = drop n (lower_str s).
Proof. unfold lower_str, drop. symmetry. apply skipn_map. Qed.

Lemma lower_head c s : is_alpha c = false -> head_is c (lower_str s) = head_is c s.
Proof. intros Hc. destruct s as [|x t]; [reflexivity|]. cbn [lower_str map head_is]. apply to_lower_eqb, Hc. Qed.

Lemma lower_last_byte s : last (lower_str s) 0 = to_lower (last s 0).
Proof.
  induction s as [|x t IH]; [reflexivity|].
  destruct t as [|y t]; [reflexivity|]. exact IH.
Qed.

Lemma lower_last c s : is_alpha c = false -> last_is c (lower_str s) = last_is c s.
Proof.
  intros Hc. destruct s as [|x t]; [reflexivity|].
  unfold last_is. cbn [lower_str map]. fold (lower_str (x :: t)).
  change (to_lower x :: map to_lower t) with (lower_str (x :: t)).
  rewrite lower_last_byte. apply to_lower_eqb, Hc.
Qed.

Lemma lower_find_first_sep s : find_first_sep (lower_str s) = find_first_sep s.
Proof.
  induction s as [|x t IH]; [reflexivity|].
  cbn [lower_str map find_first_sep]. fold (lower_str t). rewrite IH.
  rewrite !to_lower_eqb by reflexivity. reflexivity.
Qed.

Lemma lower_all_lits s : all_lits (lower_str s) = all_lits s.
Proof.
  unfold all_lits. induction s as [|x t IH]; [reflexivity|].
  cbn [lower_str map forallb]. fold (lower_str t). rewrite IH.
  rewrite !to_lower_eqb by reflexivity. reflexivity.
Qed.

Lemma lower_check_is_regex s : check_is_regex (lower_str s) = check_is_regex s.
Proof. unfold check_is_regex. rewrite lower_all_lits. reflexivity. Qed.

(* ====================================================================================== *)
(* Part 2 — the first '/', '^' or '*'                                                       *)
(* ====================================================================================== *)

Definition is_sepch (c : N) : bool := N.eqb c SLASH || N.eqb c CARET || N.eqb c STAR.

Lemma find_first_sep_Some s : forall i, find_first_sep s = Some i ->
  exists c r, drop i s = c :: r /\ is_sepch c = true /\ nthb s i = c /\ (i < length s)%nat.
Proof.
  induction s as [|x t IH]; intros i H; [discriminate|].
  cbn [find_first_sep] in H.
  destruct (N.eqb x SLASH || N.eqb x CARET || N.eqb x STAR) eqn:E.
  - inversion H; subst i. exists x, t. repeat split; [exact E|cbn; lia].
  - destruct (find_first_sep t) as [j|] eqn:Ej; [|discriminate]. inversion H; subst i.
    destruct (IH j eq_refl) as (c & r & A & B & C & D).
    exists c, r. repeat split; [exact A|exact B|exact C|cbn; lia].
Qed.

Lemma find_first_sep_None_lits s : find_first_sep s = None -> all_lits s = true.
Proof.
  unfold all_lits. induction s as [|x t IH]; intros H; [reflexivity|].
  cbn [find_first_sep] in H.
  destruct (N.eqb x SLASH || N.eqb x CARET || N.eqb x STAR) eqn:E; [discriminate|].
  destruct (find_first_sep t) eqn:Et; [discriminate|].
  cbn [forallb]. rewrite (IH eq_refl). lia.
Qed.

Lemma find_first_sep_lits s : all_lits s = true -> find_first_sep s = find_byte SLASH s.
Proof.
  unfold all_lits. induction s as [|x t IH]; intros H; [reflexivity|].
  cbn [forallb] in H. apply andb_true_iff in H as [Hx Ht].
  cbn [find_first_sep find_byte]. rewrite (IH Ht).
  destruct (N.eqb x SLASH) eqn:E.
  - reflexivity.
  - replace (false || N.eqb x CARET || N.eqb x STAR) with false by lia. reflexivity.
Qed.

(* what [drop i s = c :: r] says about the end of [s] *)
Lemma drop_cons_split (s : str) i c r : drop i s = c :: r -> s = take i s ++ c :: r.
Proof. intros H. rewrite <- H. symmetry. apply take_drop. Qed.

Lemma drop_cons_length (s : str) i c r : drop i s = c :: r -> length s = (i + S (length r))%nat.
Proof.
  intros H. assert (L : length (drop i s) = S (length r)) by (rewrite H; reflexivity).
  unfold drop in L. rewrite skipn_length in L. lia.
Qed.

Lemma last_app_cons (a : str) c r d : last (a ++ c :: r) d = last (c :: r) d.
Proof.
  induction a as [|x a IH]; [reflexivity|].
  cbn [app]. rewrite <- IH. destruct (a ++ c :: r) eqn:E; [destruct a; discriminate|reflexivity].
Qed.

Lemma drop_cons_last_is (s : str) i c r x : drop i s = c :: r -> last_is x s = last_is x (c :: r).
Proof.
  intros H. rewrite (drop_cons_split s i c r H) at 1. unfold last_is.
  destruct (take i s ++ c :: r) eqn:E; [destruct (take i s); discriminate|].
  rewrite <- E. rewrite last_app_cons. reflexivity.
Qed.

Lemma take_all_drop (s : str) i : take (length s - i) (drop i s) = drop i s.
Proof. unfold take, drop. apply firstn_all2. rewrite skipn_length. lia. Qed.

Lemma prefixb_len_eq a : forall s, prefixb a s = true -> length s = length a -> s = a.
Proof.
  induction a as [|x a IH]; intros [|y s] H L; cbn in H, L; try discriminate; [reflexivity|].
  apply andb_true_iff in H as [H1 H2]. apply N.eqb_eq in H1. subst y.
  f_equal. apply IH; [exact H2|lia].
Qed.

(* ====================================================================================== *)
(* Part 3 — reflexivity of the boolean comparison of pattern ASTs                           *)
(* ====================================================================================== *)

Lemma ptok_list_eqb_refl p : list_eqb ptok_eqb p p = true.
Proof.
  induction p as [|t p IH]; [reflexivity|]. cbn [list_eqb]. rewrite IH.
  destruct t; cbn [ptok_eqb]; try reflexivity. rewrite N.eqb_refl. reflexivity.
Qed.

Lemma past_eqb_refl a : past_eqb a a = true.
Proof.
  unfold past_eqb. rewrite ptok_list_eqb_refl, eqb_reflx.
  destruct (pa_left a); cbn [lanchor_eqb]; try reflexivity. rewrite str_eqb_refl. reflexivity.
Qed.

Lemma past_eqb_of_eq a b : a = b -> past_eqb a b = true.
Proof. intros ->. apply past_eqb_refl. Qed.

(* ====================================================================================== *)
(* Part 4 — the statement on (left anchor kind, right pipe, pattern) after split_line        *)
(* ====================================================================================== *)

Definition cut_of (p : str) : nat := match find_first_sep p with Some i => i | None => length p end.

Definition nd_pat (lk : left_kind) (rp : bool) (pattern : str) : bool :=
  let p := lower_str pattern in
  negb (nullb p)
  && no_nl p && negb (has_double_caret p)
  && negb (head_is STAR p) && negb (last_is STAR p)
  && negb (head_is SLASH p && last_is SLASH p && Nat.ltb 1 (length p))
  && negb (memN DOLLAR p)
  && match lk with
     | KNone => true
     | KSingle => negb (is_scheme_pattern p)
     | KDouble =>
         let cut := match find_first_sep p with Some i => i | None => length p end in
         let h := take cut p in
         let rest := drop cut p in
         negb (nullb (trim_www (length h) h))
         && negb (rp && (last_is CARET p || memN STAR p))
         && negb (is_scheme_pattern rest)
     end.

Definition hrp_pat (lk : left_kind) (rp : bool) (pattern : str) : bool :=
  let p := lower_str pattern in
  rp && match lk with
        | KDouble => match find_first_sep p with None => true | Some _ => false end
        | KSingle => is_scheme_pattern p
        | KNone => false
        end.

Definition ast_pat (lk : left_kind) (rp : bool) (pattern : str) : past :=
  let p := lower_str pattern in
  match lk with
  | KNone => {| pa_left := LNone; pa_body := toks p; pa_right := rp |}
  | KSingle => {| pa_left := LPipe; pa_body := toks p; pa_right := rp |}
  | KDouble =>
      let cut := match find_first_sep p with Some i => i | None => length p end in
      let h := take cut p in
      {| pa_left := LHost (trim_www (length h) h); pa_body := toks (drop cut p); pa_right := rp |}
  end.

Definition fields_ok (pf : pfields) (a : past) : bool :=
  wf_fields (pf_shape pf) (pf_filter pf) (pf_hostname pf)
  && nondegenerate_fields (pf_shape pf) (pf_filter pf) (pf_hostname pf)
  && past_eqb (ast_of_fields (pf_shape pf) (pf_filter pf) (pf_hostname pf)) a.

Lemma nondegenerate_text_split line :
  nondegenerate_text line = let '(_, lk, rp, pattern) := split_line line in nd_pat lk rp pattern.
Proof. unfold nondegenerate_text. destruct (split_line line) as [[[e lk] rp] pattern]. reflexivity. Qed.
Lemma host_right_pipe_split line :
  host_right_pipe line = let '(_, lk, rp, pattern) := split_line line in hrp_pat lk rp pattern.
Proof. unfold host_right_pipe. destruct (split_line line) as [[[e lk] rp] pattern]. reflexivity. Qed.
Lemma parse_ok_split line :
  parse_ok line = let '(_, lk, rp, pattern) := split_line line in
                  fields_ok (parse_pattern lk rp pattern) (ast_pat lk rp pattern).
Proof.
  unfold parse_ok, parse_line, ast_of_text. destruct (split_line line) as [[[e lk] rp] pattern]. reflexivity.
Qed.

(* the facts about the pattern itself (before lower-casing) that every case uses *)
Lemma nd_common lk rp pattern : nd_pat lk rp pattern = true ->
  nullb pattern = false /\ head_is STAR pattern = false /\ last_is STAR pattern = false /\
  (head_is SLASH pattern && last_is SLASH pattern && Nat.ltb 1 (length pattern)) = false.
Proof.
  unfold nd_pat. cbv zeta.
  rewrite lower_nullb, !lower_head, !lower_last, lower_length by reflexivity.
  intros H. repeat (apply andb_true_iff in H as [H ?]).
  repeat split; lia.
Qed.

(* ====================================================================================== *)
(* Part 5 — parse_pattern, stage by stage                                                   *)
(* ====================================================================================== *)

Definition host_stage (lk : left_kind) (rp : bool) (pattern : str)
  : option str * nat * bool * bool * bool * bool :=
  let hn0 := match lk with KDouble => true | _ => false end in
  let la0 := match lk with KSingle => true | _ => false end in
  let ra0 := rp in
  let rx0 := check_is_regex pattern in
  let fie0 := length pattern in
  if hn0 then
    if rx0 then
      match find_first_sep pattern with
      | Some i =>
          let w := N.eqb (nthb pattern i) STAR in
          if Nat.eqb (fie0 - i) 1 && head_is CARET (drop i pattern)
          then (Some (take i pattern), fie0, la0, true, false, w)
          else (Some (take i pattern), i, true, ra0, check_is_regex (drop i pattern), w)
      | None => (None, O, la0, ra0, rx0, false)
      end
    else
      match find_byte SLASH pattern with
      | Some i => (Some (take i pattern), i, true, ra0, rx0, false)
      | None => (Some pattern, fie0, la0, ra0, rx0, false)
      end
  else (None, O, la0, ra0, rx0, false).

Definition trail_stage (fis1 : nat) (pattern : str) : nat :=
  if Nat.ltb fis1 (length pattern) && last_is STAR pattern then (length pattern - 1)%nat else length pattern.

Definition lead_stage (fis1 fie1 : nat) (la1 : bool) (pattern : str) : nat * bool :=
  if Nat.ltb fis1 fie1 && head_is STAR (drop fis1 pattern) then (S fis1, false) else (fis1, la1).

Definition proto_stage (fis2 fie1 : nat) (la2 : bool) (pattern : str)
  : nat * bool * option bool * option bool * bool :=
  let rest := drop fis2 pattern in
  if la2 then
    if Nat.eqb fie1 (fis2 + 5) && prefixb (bs "ws://") rest then (fie1, false, Some false, Some false, true)
    else if Nat.eqb fie1 (fis2 + 7) && prefixb (bs "http://") rest then (fie1, false, Some true, Some false, false)
    else if Nat.eqb fie1 (fis2 + 8) && prefixb (bs "https://") rest then (fie1, false, Some false, Some true, false)
    else if Nat.eqb fie1 (fis2 + 8) && prefixb (bs "http*://") rest then (fie1, false, Some true, Some true, false)
    else (fis2, la2, None, None, false)
  else (fis2, la2, None, None, false).

Definition finish (lk : left_kind) (pattern : str) (hostname : option str) (fie1 fis3 : nat)
           (la3 ra1 rx1 wild : bool) (http https : option bool) (ws : bool) : pfields :=
  let hn0 := match lk with KDouble => true | _ => false end in
  let cr := head_is SLASH pattern && last_is SLASH pattern && Nat.ltb 1 (length pattern) in
  let filter := if Nat.ltb fis3 fie1
                then Some ((if cr then lower_regex_body else lower_str) (take (fie1 - fis3) (drop fis3 pattern))) else None in
  let rx2 := match filter with Some f => check_is_regex f | None => rx1 end in
  let hostname' :=
    match hostname with
    | Some h => let l := lower_str h in Some (if hn0 then trim_www (length l) l else l)
    | None => None
    end in
  {| pf_shape := {| s_hn := hn0; s_rx := rx2; s_cr := cr; s_la := la3; s_ra := ra1;
                    s_wild := wild; s_mc := false |};
     pf_filter := filter; pf_hostname := hostname';
     pf_http := http; pf_https := https; pf_ws := ws |}.

Lemma parse_pattern_staged lk rp pattern :
  parse_pattern lk rp pattern =
  let '(hostname, fis1, la1, ra1, rx1, wild) := host_stage lk rp pattern in
  let fie1 := trail_stage fis1 pattern in
  let '(fis2, la2) := lead_stage fis1 fie1 la1 pattern in
  let '(fis3, la3, http, https, ws) := proto_stage fis2 fie1 la2 pattern in
  finish lk pattern hostname fie1 fis3 la3 ra1 rx1 wild http https ws.
Proof. reflexivity. Qed.

(* --- the stages on a non-degenerate pattern *)
Lemma trail_stage_id fis1 pattern : last_is STAR pattern = false -> trail_stage fis1 pattern = length pattern.
Proof. intros H. unfold trail_stage. rewrite H, andb_false_r. reflexivity. Qed.

Lemma lead_stage_end n la1 pattern : lead_stage n n la1 pattern = (n, la1).
Proof. unfold lead_stage. rewrite Nat.ltb_irrefl. reflexivity. Qed.

Lemma proto_stage_noanchor fis2 fie1 pattern :
  proto_stage fis2 fie1 false pattern = (fis2, false, None, None, false).
Proof. reflexivity. Qed.

Lemma lead_stage_nostar fis1 fie1 la1 pattern :
  head_is STAR (drop fis1 pattern) = false -> lead_stage fis1 fie1 la1 pattern = (fis1, la1).
Proof. intros H. unfold lead_stage. rewrite H, andb_false_r. reflexivity. Qed.

Lemma lead_stage_star fis1 fie1 la1 pattern :
  (fis1 < fie1)%nat -> head_is STAR (drop fis1 pattern) = true ->
  lead_stage fis1 fie1 la1 pattern = (S fis1, false).
Proof.
  intros L H. unfold lead_stage. rewrite H.
  replace (Nat.ltb fis1 fie1) with true by lia. reflexivity.
Qed.

Lemma scheme_guard_false pattern S n :
  str_eqb (lower_str pattern) S = false -> lower_str S = S -> n = length S ->
  Nat.eqb (length pattern) n && prefixb S pattern = false.
Proof.
  intros Hne HS Hn. destruct (Nat.eqb (length pattern) n && prefixb S pattern) eqn:E; [|reflexivity].
  apply andb_true_iff in E as [E1 E2]. apply Nat.eqb_eq in E1.
  assert (pattern = S) by (apply prefixb_len_eq; [exact E2|lia]). subst pattern.
  rewrite HS, str_eqb_refl in Hne. discriminate.
Qed.

Lemma proto_stage_single pattern :
  is_scheme_pattern (lower_str pattern) = false ->
  proto_stage 0 (length pattern) true pattern = (O, true, None, None, false).
Proof.
  unfold is_scheme_pattern. intros H.
  apply orb_false_iff in H as [H H4]. apply orb_false_iff in H as [H H3].
  apply orb_false_iff in H as [H1 H2].
  unfold proto_stage. cbv zeta. change (drop 0 pattern) with pattern.
  rewrite (scheme_guard_false pattern (bs "ws://") (0 + 5) H1 eq_refl eq_refl).
  rewrite (scheme_guard_false pattern (bs "http://") (0 + 7) H2 eq_refl eq_refl).
  rewrite (scheme_guard_false pattern (bs "https://") (0 + 8) H3 eq_refl eq_refl).
  rewrite (scheme_guard_false pattern (bs "http*://") (0 + 8) H4 eq_refl eq_refl).
  reflexivity.
Qed.

Lemma proto_stage_sep i fie1 pattern c r :
  drop i pattern = c :: r -> N.eqb c SLASH || N.eqb c CARET = true ->
  proto_stage i fie1 true pattern = (i, true, None, None, false).
Proof.
  intros H Hc. unfold proto_stage. cbv zeta. rewrite H.
  apply orb_true_iff in Hc as [Hc|Hc]; apply N.eqb_eq in Hc; subst c.
  - replace (prefixb (bs "ws://") (SLASH :: r)) with false by reflexivity.
    replace (prefixb (bs "http://") (SLASH :: r)) with false by reflexivity.
    replace (prefixb (bs "https://") (SLASH :: r)) with false by reflexivity.
    replace (prefixb (bs "http*://") (SLASH :: r)) with false by reflexivity.
    rewrite !andb_false_r. reflexivity.
  - replace (prefixb (bs "ws://") (CARET :: r)) with false by reflexivity.
    replace (prefixb (bs "http://") (CARET :: r)) with false by reflexivity.
    replace (prefixb (bs "https://") (CARET :: r)) with false by reflexivity.
    replace (prefixb (bs "http*://") (CARET :: r)) with false by reflexivity.
    rewrite !andb_false_r. reflexivity.
Qed.

Definition hn_of (lk : left_kind) : bool := match lk with KDouble => true | _ => false end.
Definition host_of (lk : left_kind) (hostname : option str) : option str :=
  match hostname with
  | Some h => let l := lower_str h in Some (if hn_of lk then trim_www (length l) l else l)
  | None => None
  end.

Lemma finish_some lk pattern hostname fis3 la3 ra1 rx1 wild http https ws :
  (fis3 < length pattern)%nat ->
  head_is SLASH pattern && last_is SLASH pattern && Nat.ltb 1 (length pattern) = false ->
  finish lk pattern hostname (length pattern) fis3 la3 ra1 rx1 wild http https ws =
  {| pf_shape := {| s_hn := hn_of lk; s_rx := check_is_regex (drop fis3 (lower_str pattern));
                    s_cr := false; s_la := la3; s_ra := ra1; s_wild := wild; s_mc := false |};
     pf_filter := Some (drop fis3 (lower_str pattern)); pf_hostname := host_of lk hostname;
     pf_http := http; pf_https := https; pf_ws := ws |}.
Proof.
  intros L Hcr. unfold finish. cbv zeta. rewrite Hcr. cbv iota.
  replace (Nat.ltb fis3 (length pattern)) with true by lia.
  rewrite take_all_drop, lower_drop. reflexivity.
Qed.

Lemma finish_none lk pattern hostname la3 ra1 rx1 wild http https ws :
  head_is SLASH pattern && last_is SLASH pattern && Nat.ltb 1 (length pattern) = false ->
  finish lk pattern hostname (length pattern) (length pattern) la3 ra1 rx1 wild http https ws =
  {| pf_shape := {| s_hn := hn_of lk; s_rx := rx1;
                    s_cr := false; s_la := la3; s_ra := ra1; s_wild := wild; s_mc := false |};
     pf_filter := None; pf_hostname := host_of lk hostname;
     pf_http := http; pf_https := https; pf_ws := ws |}.
Proof.
  intros Hcr. unfold finish. cbv zeta. rewrite Hcr, Nat.ltb_irrefl. reflexivity.
Qed.

(* --- the checks on the explicit fields of each case *)
Lemma check_is_regex_eqb f : Bool.eqb (check_is_regex f) (negb (all_lits f)) = true.
Proof. unfold check_is_regex. apply eqb_reflx. Qed.

Lemma fields_ok_plain (la rp : bool) p h1 h2 ws : nullb p = false ->
  fields_ok {| pf_shape := {| s_hn := false; s_rx := check_is_regex p; s_cr := false; s_la := la;
                              s_ra := rp; s_wild := false; s_mc := false |};
               pf_filter := Some p; pf_hostname := None; pf_http := h1; pf_https := h2; pf_ws := ws |}
            {| pa_left := if la then LPipe else LNone; pa_body := toks p; pa_right := rp |} = true.
Proof.
  intros Hp. unfold fields_ok, wf_fields, nondegenerate_fields, ast_of_fields.
  cbn [pf_shape pf_filter pf_hostname s_hn s_rx s_cr s_la s_ra s_wild s_mc body_of].
  rewrite Hp, check_is_regex_eqb, past_eqb_refl. reflexivity.
Qed.

Lemma pat_ok_KNone rp pattern : nd_pat KNone rp pattern = true ->
  fields_ok (parse_pattern KNone rp pattern) (ast_pat KNone rp pattern) = true.
Proof.
  intros Hnd. destruct (nd_common _ _ _ Hnd) as (Hnull & Hhs & Hls & Hcr).
  rewrite parse_pattern_staged.
  change (host_stage KNone rp pattern) with (@None str, O, false, rp, check_is_regex pattern, false).
  cbv beta iota zeta. rewrite (trail_stage_id _ _ Hls).
  rewrite (lead_stage_nostar 0 _ _ _ Hhs). cbv beta iota zeta.
  rewrite proto_stage_noanchor. cbv beta iota zeta.
  assert (L : (0 < length pattern)%nat) by (destruct pattern; [discriminate|cbn; lia]).
  rewrite (finish_some _ _ _ _ _ _ _ _ _ _ _ L Hcr).
  change (drop 0 (lower_str pattern)) with (lower_str pattern).
  apply (fields_ok_plain false). rewrite lower_nullb. exact Hnull.
Qed.

Lemma nd_single rp pattern : nd_pat KSingle rp pattern = true ->
  is_scheme_pattern (lower_str pattern) = false.
Proof.
  unfold nd_pat. cbv zeta. intros H. apply andb_true_iff in H as [_ H].
  apply negb_true_iff in H. exact H.
Qed.

Lemma pat_ok_KSingle rp pattern : nd_pat KSingle rp pattern = true ->
  fields_ok (parse_pattern KSingle rp pattern) (ast_pat KSingle rp pattern) = true.
Proof.
  intros Hnd. destruct (nd_common _ _ _ Hnd) as (Hnull & Hhs & Hls & Hcr).
  rewrite parse_pattern_staged.
  change (host_stage KSingle rp pattern) with (@None str, O, true, rp, check_is_regex pattern, false).
  cbv beta iota zeta. rewrite (trail_stage_id _ _ Hls).
  rewrite (lead_stage_nostar 0 _ _ _ Hhs). cbv beta iota zeta.
  rewrite (proto_stage_single _ (nd_single _ _ Hnd)). cbv beta iota zeta.
  assert (L : (0 < length pattern)%nat) by (destruct pattern; [discriminate|cbn; lia]).
  rewrite (finish_some _ _ _ _ _ _ _ _ _ _ _ L Hcr).
  change (drop 0 (lower_str pattern)) with (lower_str pattern).
  apply (fields_ok_plain true). rewrite lower_nullb. exact Hnull.
Qed.

(* ---- ||host… ---- *)
Lemma all_lits_drop i : forall s, all_lits s = true -> all_lits (drop i s) = true.
Proof.
  unfold all_lits. induction i as [|i IH]; intros [|x t] H; try exact H.
  cbn [forallb] in H. apply andb_true_iff in H as [_ H]. exact (IH t H).
Qed.

Lemma sep_not_lits (s : str) i c r :
  drop i s = c :: r -> N.eqb c STAR || N.eqb c CARET = true -> all_lits s = false.
Proof.
  intros Hd Hc. destruct (all_lits s) eqn:E; [|reflexivity].
  apply (all_lits_drop i) in E. rewrite Hd in E. unfold all_lits in E. cbn [forallb] in E. lia.
Qed.

Lemma drop_S_tl {A} i : forall s : list A, drop (S i) s = tl (drop i s).
Proof.
  induction i as [|i IH]; intros [|x t]; try reflexivity.
  change (drop (S (S i)) (x :: t)) with (drop (S i) t). rewrite IH. reflexivity.
Qed.

Lemma drop_S_cons (s : str) i c r : drop i s = c :: r -> drop (S i) s = r.
Proof. intros H. rewrite drop_S_tl, H. reflexivity. Qed.

Lemma sepch_lower c : is_sepch c = true -> to_lower c = c.
Proof.
  unfold is_sepch, to_lower, is_upper, SLASH, CARET, STAR. intros H.
  destruct (N.leb 65 c && N.leb c 90) eqn:E; lia.
Qed.

Lemma host_stage_none rp pattern : find_first_sep pattern = None ->
  host_stage KDouble rp pattern = (Some pattern, length pattern, false, rp, false, false).
Proof.
  intros Ef. pose proof (find_first_sep_None_lits _ Ef) as Hl.
  unfold host_stage. cbv zeta. unfold check_is_regex. rewrite Hl. cbn [negb].
  rewrite <- (find_first_sep_lits _ Hl), Ef. reflexivity.
Qed.

Lemma host_stage_caret rp pattern i :
  find_first_sep pattern = Some i -> drop i pattern = [CARET] -> nthb pattern i = CARET ->
  host_stage KDouble rp pattern = (Some (take i pattern), length pattern, false, true, false, false).
Proof.
  intros Ef Hd Hn.
  assert (G : Nat.eqb (length pattern - i) 1 && head_is CARET (drop i pattern) = true).
  { rewrite Hd, (drop_cons_length _ _ _ _ Hd). cbn [length].
    replace (i + 1 - i)%nat with 1%nat by lia. reflexivity. }
  unfold host_stage. cbv zeta. unfold check_is_regex.
  rewrite (sep_not_lits pattern i CARET [] Hd eq_refl). cbn [negb].
  rewrite Ef, G, Hn. reflexivity.
Qed.

Lemma host_stage_sep rp pattern i c r :
  find_first_sep pattern = Some i -> drop i pattern = c :: r -> nthb pattern i = c ->
  (r <> [] \/ N.eqb c CARET = false) ->
  host_stage KDouble rp pattern =
  (Some (take i pattern), i, true, rp, check_is_regex (c :: r), N.eqb c STAR).
Proof.
  intros Ef Hd Hn Hor.
  unfold host_stage. cbv zeta. destruct (check_is_regex pattern) eqn:Erx.
  - assert (G : Nat.eqb (length pattern - i) 1 && head_is CARET (drop i pattern) = false).
    { rewrite Hd, (drop_cons_length _ _ _ _ Hd). cbn [head_is]. destruct Hor as [Hr|Hc].
      - destruct r as [|y r']; [contradiction|]. cbn [length].
        replace (Nat.eqb (i + S (S (length r')) - i) 1) with false by lia. reflexivity.
      - rewrite Hc. apply andb_false_r. }
    rewrite Ef, G, Hn, Hd. reflexivity.
  - unfold check_is_regex in Erx. apply negb_false_iff in Erx.
    rewrite <- (find_first_sep_lits _ Erx), Ef.
    pose proof (all_lits_drop i _ Erx) as Hl. rewrite Hd in Hl.
    unfold check_is_regex. rewrite Hl. cbn [negb].
    unfold all_lits in Hl. cbn [forallb] in Hl.
    replace (N.eqb c STAR) with false by lia. reflexivity.
Qed.

Lemma nd_double rp pattern : nd_pat KDouble rp pattern = true ->
  nullb (trim_www (length (take (cut_of (lower_str pattern)) (lower_str pattern)))
                  (take (cut_of (lower_str pattern)) (lower_str pattern))) = false
  /\ rp && (last_is CARET pattern || memN STAR (lower_str pattern)) = false.
Proof.
  unfold nd_pat, cut_of. cbv zeta. rewrite (lower_last CARET) by reflexivity.
  intros H. apply andb_true_iff in H as [_ H].
  apply andb_true_iff in H as [H _]. apply andb_true_iff in H as [H1 H2].
  apply negb_true_iff in H1. apply negb_true_iff in H2. split; assumption.
Qed.

Lemma fields_ok_host_star h f h1 h2 ws : nullb h = false -> nullb f = false ->
  fields_ok {| pf_shape := {| s_hn := true; s_rx := check_is_regex f; s_cr := false; s_la := false;
                              s_ra := false; s_wild := true; s_mc := false |};
               pf_filter := Some f; pf_hostname := Some h; pf_http := h1; pf_https := h2; pf_ws := ws |}
            {| pa_left := LHost h; pa_body := PStar :: toks f; pa_right := false |} = true.
Proof.
  intros Hh Hf. unfold fields_ok, wf_fields, nondegenerate_fields, ast_of_fields.
  cbn [pf_shape pf_filter pf_hostname s_hn s_rx s_cr s_la s_ra s_wild s_mc body_of].
  rewrite Hh, Hf, check_is_regex_eqb, past_eqb_refl. reflexivity.
Qed.

Lemma fields_ok_host_sep h c r rp h1 h2 ws :
  nullb h = false -> N.eqb c SLASH || N.eqb c CARET = true ->
  fields_ok {| pf_shape := {| s_hn := true; s_rx := check_is_regex (c :: r); s_cr := false; s_la := true;
                              s_ra := rp; s_wild := false; s_mc := false |};
               pf_filter := Some (c :: r); pf_hostname := Some h; pf_http := h1; pf_https := h2; pf_ws := ws |}
            {| pa_left := LHost h; pa_body := toks (c :: r); pa_right := rp |} = true.
Proof.
  intros Hh Hc. unfold fields_ok, wf_fields, nondegenerate_fields, ast_of_fields.
  cbn [pf_shape pf_filter pf_hostname s_hn s_rx s_cr s_la s_ra s_wild s_mc body_of nullb].
  rewrite Hh, check_is_regex_eqb, past_eqb_refl.
  assert (B : body_starts_sep (toks (c :: r)) = true).
  { apply orb_true_iff in Hc as [Hc|Hc]; apply N.eqb_eq in Hc; subst c; reflexivity. }
  rewrite B. destruct rp; reflexivity.
Qed.

Lemma fields_ok_host_caret h h1 h2 ws : nullb h = false ->
  fields_ok {| pf_shape := {| s_hn := true; s_rx := false; s_cr := false; s_la := false;
                              s_ra := true; s_wild := false; s_mc := false |};
               pf_filter := None; pf_hostname := Some h; pf_http := h1; pf_https := h2; pf_ws := ws |}
            {| pa_left := LHost h; pa_body := [PSep]; pa_right := false |} = true.
Proof.
  intros Hh. unfold fields_ok, wf_fields, nondegenerate_fields, ast_of_fields.
  cbn [pf_shape pf_filter pf_hostname s_hn s_rx s_cr s_la s_ra s_wild s_mc body_of].
  rewrite Hh, past_eqb_refl. reflexivity.
Qed.

Lemma fields_ok_host_only h h1 h2 ws : nullb h = false ->
  fields_ok {| pf_shape := {| s_hn := true; s_rx := false; s_cr := false; s_la := false;
                              s_ra := false; s_wild := false; s_mc := false |};
               pf_filter := None; pf_hostname := Some h; pf_http := h1; pf_https := h2; pf_ws := ws |}
            {| pa_left := LHost h; pa_body := []; pa_right := false |} = true.
Proof.
  intros Hh. unfold fields_ok, wf_fields, nondegenerate_fields, ast_of_fields.
  cbn [pf_shape pf_filter pf_hostname s_hn s_rx s_cr s_la s_ra s_wild s_mc body_of].
  rewrite Hh, past_eqb_refl. reflexivity.
Qed.

Lemma pat_ok_KDouble rp pattern :
  nd_pat KDouble rp pattern = true -> hrp_pat KDouble rp pattern = false ->
  fields_ok (parse_pattern KDouble rp pattern) (ast_pat KDouble rp pattern) = true.
Proof.
  intros Hnd Hhrp. destruct (nd_common _ _ _ Hnd) as (Hnull & Hhs & Hls & Hcr).
  destruct (nd_double _ _ Hnd) as (Hh & Hrp).
  rewrite parse_pattern_staged. unfold ast_pat. cbv zeta. fold (cut_of (lower_str pattern)).
  unfold cut_of in *. rewrite lower_find_first_sep in *.
  destruct (find_first_sep pattern) as [i|] eqn:Ef.
  - destruct (find_first_sep_Some _ _ Ef) as (c & r & Hd & Hc & Hn & Hl).
    assert (Hdp : drop i (lower_str pattern) = c :: lower_str r).
    { rewrite <- lower_drop, Hd. cbn [lower_str map]. rewrite (sepch_lower _ Hc). reflexivity. }
    pose proof (drop_cons_length _ _ _ _ Hd) as Hlen.
    destruct (N.eqb c STAR) eqn:Es.
    + (* ||host*rest *)
      apply N.eqb_eq in Es. revert Hn. subst c. intros Hn.
      destruct r as [|y r'].
      { rewrite (drop_cons_last_is _ _ _ _ STAR Hd) in Hls. cbv in Hls. discriminate. }
      assert (Hor : y :: r' <> [] \/ N.eqb STAR CARET = false) by (left; discriminate).
      rewrite (host_stage_sep rp pattern i STAR (y :: r') Ef Hd Hn Hor).
      cbv beta iota zeta. rewrite !(trail_stage_id _ _ Hls).
      assert (Hst : head_is STAR (drop i pattern) = true) by (rewrite Hd; reflexivity).
      rewrite (lead_stage_star i (length pattern) true pattern Hl Hst). cbv beta iota zeta.
      rewrite proto_stage_noanchor. cbv beta iota zeta.
      assert (L : (S i < length pattern)%nat) by (cbn [length] in Hlen; lia).
      rewrite (finish_some _ _ _ _ _ _ _ _ _ _ _ L Hcr).
      assert (Hm : memN STAR (lower_str pattern) = true).
      { apply memN_In. apply (In_skipn_aux i). fold (drop i (lower_str pattern)). rewrite Hdp. left. reflexivity. }
      rewrite Hm, orb_true_r, andb_true_r in Hrp. subst rp.
      rewrite (drop_S_cons _ _ _ _ Hdp), Hdp.
      cbn [host_of hn_of]. rewrite lower_take.
      change (N.eqb STAR STAR) with true.
      change (toks (STAR :: lower_str (y :: r'))) with (PStar :: toks (lower_str (y :: r'))).
      apply fields_ok_host_star; [exact Hh|reflexivity].
    + (* ||host/rest, ||host^rest, ||host^ *)
      assert (Hc' : N.eqb c SLASH || N.eqb c CARET = true).
      { unfold is_sepch in Hc. rewrite Es, orb_false_r in Hc. exact Hc. }
      destruct (match r with [] => N.eqb c CARET | _ => false end) eqn:Eend.
      * (* ||host^ *)
        destruct r as [|y r']; [|discriminate]. apply N.eqb_eq in Eend. revert Hn. subst c. intros Hn.
        rewrite (host_stage_caret rp pattern i Ef Hd Hn).
        cbv beta iota zeta. rewrite !(trail_stage_id _ _ Hls).
        rewrite lead_stage_end. cbv beta iota zeta.
        rewrite proto_stage_noanchor. cbv beta iota zeta.
        rewrite (finish_none _ _ _ _ _ _ _ _ _ _ Hcr).
        assert (Hlc : last_is CARET pattern = true).
        { rewrite (drop_cons_last_is _ _ _ _ CARET Hd). reflexivity. }
        rewrite Hlc, orb_true_l, andb_true_r in Hrp. subst rp.
        rewrite Hdp. cbn [host_of hn_of]. rewrite lower_take.
        change (toks (CARET :: lower_str [])) with [PSep].
        apply fields_ok_host_caret. exact Hh.
      * assert (Hor : r <> [] \/ N.eqb c CARET = false).
        { destruct r; [right; exact Eend|left; discriminate]. }
        rewrite (host_stage_sep rp pattern i c r Ef Hd Hn Hor).
        cbv beta iota zeta. rewrite !(trail_stage_id _ _ Hls). rewrite Es.
        assert (Hst : head_is STAR (drop i pattern) = false) by (rewrite Hd; exact Es).
        rewrite (lead_stage_nostar i (length pattern) true pattern Hst). cbv beta iota zeta.
        rewrite (proto_stage_sep i (length pattern) pattern c r Hd Hc'). cbv beta iota zeta.
        rewrite (finish_some _ _ _ _ _ _ _ _ _ _ _ Hl Hcr).
        rewrite Hdp. cbn [host_of hn_of]. rewrite lower_take.
        apply fields_ok_host_sep; [exact Hh|exact Hc'].
  - (* ||host *)
    rewrite (host_stage_none rp pattern Ef).
    cbv beta iota zeta. rewrite !(trail_stage_id _ _ Hls).
    rewrite lead_stage_end. cbv beta iota zeta.
    rewrite proto_stage_noanchor. cbv beta iota zeta.
    rewrite (finish_none _ _ _ _ _ _ _ _ _ _ Hcr).
    unfold hrp_pat in Hhrp. cbv zeta in Hhrp. rewrite lower_find_first_sep, Ef, andb_true_r in Hhrp.
    subst rp.
    cbn [host_of hn_of].
    assert (Ht : take (length (lower_str pattern)) (lower_str pattern) = lower_str pattern)
      by (apply firstn_all).
    assert (Hdr : drop (length (lower_str pattern)) (lower_str pattern) = [])
      by (apply skipn_all).
    rewrite Ht in *. rewrite Hdr.
    change (toks []) with (@nil ptok).
    apply fields_ok_host_only. exact Hh.
Qed.

(* ====================================================================================== *)
(* Part 6 — the theorem                                                                     *)
(* ====================================================================================== *)

Lemma pat_ok lk rp pattern :
  nd_pat lk rp pattern = true -> hrp_pat lk rp pattern = false ->
  fields_ok (parse_pattern lk rp pattern) (ast_pat lk rp pattern) = true.
Proof.
  destruct lk; intros Hnd Hh.
  - apply pat_ok_KNone, Hnd.
  - apply pat_ok_KSingle, Hnd.
  - apply pat_ok_KDouble; assumption.
Qed.

(* for every line: outside the degenerate spellings and F22, the fields the parser produces are
   well-formed, non-degenerate, and denote exactly the declarative reading of the text *)
Theorem parse_preserves_ast line :
  nondegenerate_text line = true -> host_right_pipe line = false -> parse_ok line = true.
Proof.
  rewrite nondegenerate_text_split, host_right_pipe_split, parse_ok_split.
  destruct (split_line line) as [[[e lk] rp] pattern]. apply pat_ok.
Qed.

(* regression: the former finite-domain theorem (C02_Proofs.parse_preserves_ast_bounded, by
   exhaustive vm_compute over 7 symbols and length <= 6) is an instance *)
Corollary parse_preserves_ast_implies_bounded line :
  (length line <= 6)%nat -> Forall (fun b => In b ALPHA) line ->
  nondegenerate_text line = true -> host_right_pipe line = false -> parse_ok line = true.
Proof. intros _ _. apply parse_preserves_ast. Qed.

(* what the correspondence run evaluates per generated rule (text_tie), for the model's own parse
   of any line: always true *)
Corollary text_tie_parse_line line :
  let pf := parse_line line in
  text_tie line (mask_of_shape (pf_shape pf)) (pf_filter pf) (pf_hostname pf) = true.
Proof.
  cbv zeta. unfold text_tie. rewrite mask_bits_independent.
  destruct (nondegenerate_text line) eqn:Hn; [|reflexivity].
  destruct (host_right_pipe line) eqn:Hh; [reflexivity|].
  cbn [andb negb implb]. exact (parse_preserves_ast line Hn Hh).
Qed.

(* ---- from the text of a rule, without the parse premise ---- *)
Section LineFull.
  Variable re_ok : str -> bool.
  Variable re_match : str -> str -> bool.

  Theorem check_line_ref_full line r hs :
    let pf := parse_line line in
    nondegenerate_text line = true ->
    host_right_pipe line = false ->
    wf_request r hs ->
    (forall f, pf_filter pf = Some f -> s_rx (pf_shape pf) = true ->
               re_std re_ok re_match (translate f (s_la (pf_shape pf)) (s_ra (pf_shape pf)))
                      (s_la (pf_shape pf)) (s_ra (pf_shape pf)) (toks f)) ->
    (check_pattern_sh re_ok re_match (pf_shape pf) (fs_of (pf_filter pf)) (pf_hostname pf) r = true <->
     ref_match (ast_of_text line) (lower_str (r_url r)) (r_host r) hs).
  Proof.
    cbv zeta. intros Hn Hh. apply check_line_ref. apply parse_preserves_ast; assumption.
  Qed.
End LineFull.

(* ---- the premises are satisfiable on non-trivial lines (upper case, www., scheme text, every
   anchor combination) ---- *)
Example parse_premises_examples :
  forallb (fun l => nondegenerate_text l && negb (host_right_pipe l))
    [bs "||Ads.Example.com/banner^x|"; bs "|https://a.b/c*d"; bs "@@/x^y";
     bs "||WWW.www.Ads.Example.com^banner*X"; bs "@@||Host.Example*.js^"; bs "||a.b^ws://";
     bs "|HTTP*://x"; bs "||a.b/HTTP://"; bs "a|"; bs "|a^b*c|"] = true.
Proof. vm_compute. reflexivity. Qed.

(* a right '|' on a ||host pattern that contains '*' is one of the carved-out degenerate
   spellings (nondegenerate_text), so this line is outside the theorem -- its parse is
   nevertheless fine *)
Example right_pipe_star_is_degenerate :
  nondegenerate_text (bs "||Ads.Example.com/banner^*x|") = false
  /\ parse_ok (bs "||Ads.Example.com/banner^*x|") = true.
Proof. split; vm_compute; reflexivity. Qed.

Example check_line_ref_full_example :
  let line := bs "||Ads.Example.com/banner^x|" in
  let pf := parse_line line in
  let sh := pf_shape pf in
  let r := {| r_url := bs "https://Sub.ads.example.com/Banner?x"; r_host := bs "sub.ads.example.com" |} in
  let re_match := fun (_ : str) s => search (s_la sh) (s_ra sh) (body_of (pf_filter pf)) s in
  nondegenerate_text line = true /\ host_right_pipe line = false /\
  wf_request r 8 /\
  (forall f, pf_filter pf = Some f -> s_rx sh = true ->
             re_std no_re_ok re_match (translate f (s_la sh) (s_ra sh)) (s_la sh) (s_ra sh) (toks f)) /\
  check_pattern_sh no_re_ok re_match sh (fs_of (pf_filter pf)) (pf_hostname pf) r = true /\
  ref_match (ast_of_text line) (lower_str (r_url r)) (r_host r) 8.
Proof.
  cbv zeta.
  assert (Hre : forall f, pf_filter (parse_line (bs "||Ads.Example.com/banner^x|")) = Some f ->
            s_rx (pf_shape (parse_line (bs "||Ads.Example.com/banner^x|"))) = true ->
            re_std no_re_ok
              (fun (_ : str) s =>
                 search (s_la (pf_shape (parse_line (bs "||Ads.Example.com/banner^x|"))))
                        (s_ra (pf_shape (parse_line (bs "||Ads.Example.com/banner^x|"))))
                        (body_of (pf_filter (parse_line (bs "||Ads.Example.com/banner^x|")))) s)
              (translate f (s_la (pf_shape (parse_line (bs "||Ads.Example.com/banner^x|"))))
                         (s_ra (pf_shape (parse_line (bs "||Ads.Example.com/banner^x|")))))
              (s_la (pf_shape (parse_line (bs "||Ads.Example.com/banner^x|"))))
              (s_ra (pf_shape (parse_line (bs "||Ads.Example.com/banner^x|")))) (toks f)).
  { intros f Ef _. split; [reflexivity|]. intros s _.
    vm_compute in Ef. inversion Ef; subst f. reflexivity. }
  assert (Hwf : wf_request {| r_url := bs "https://Sub.ads.example.com/Banner?x";
                              r_host := bs "sub.ads.example.com" |} 8)
    by (apply wf_requestb_spec; vm_compute; reflexivity).
  assert (Hn : nondegenerate_text (bs "||Ads.Example.com/banner^x|") = true) by (vm_compute; reflexivity).
  assert (Hh : host_right_pipe (bs "||Ads.Example.com/banner^x|") = false) by (vm_compute; reflexivity).
  assert (Hcp : check_pattern_sh no_re_ok
            (fun (_ : str) s =>
               search (s_la (pf_shape (parse_line (bs "||Ads.Example.com/banner^x|"))))
                      (s_ra (pf_shape (parse_line (bs "||Ads.Example.com/banner^x|"))))
                      (body_of (pf_filter (parse_line (bs "||Ads.Example.com/banner^x|")))) s)
            (pf_shape (parse_line (bs "||Ads.Example.com/banner^x|")))
            (fs_of (pf_filter (parse_line (bs "||Ads.Example.com/banner^x|"))))
            (pf_hostname (parse_line (bs "||Ads.Example.com/banner^x|")))
            {| r_url := bs "https://Sub.ads.example.com/Banner?x"; r_host := bs "sub.ads.example.com" |}
          = true) by (vm_compute; reflexivity).
  split; [exact Hn|]. split; [exact Hh|]. split; [exact Hwf|]. split; [exact Hre|].
  split; [exact Hcp|].
  exact (proj1 (check_line_ref_full _ _ _ _ _ Hn Hh Hwf Hre) Hcp).
Qed.
