(* C08_Query_Proofs.v — proofs for C08_Query_Model.v: C08 lifted from state level to query level
   for the network query (the whole BlockerResult: Engine_Model.engine_check), the CSP query
   (engine_csp) and the generichide query.

   Chain:   blocker_equiv (C08 state theorem)            -- Wire side, permutation of (key, bucket)
        ->  reads_same   (getn k agrees, all k)          -- needs distinct keys
        ->  net_agree    (Net_Model.bucket agrees)       -- through net_blocker / net_map
        ->  equal answers of check_all / check / blocker_check_p / redirect_hits / csp_hits /
            generic_hide_hit / engine_check / engine_csp  -- for every matcher and probe list.

   On the `match m with [] => []` special case of Net_Model.check_all: check_all is ALWAYS the
   flat_map of the filtered buckets over the probes (check_all_flat: for the empty map every bucket
   is empty, so the flat_map is [] as well).  So an empty map and a map whose buckets are all
   empty answer alike, and bucket-wise agreement alone is the right hypothesis; no case split on
   emptiness is needed. *)
From Adb Require Import Base BaseProofs Generated Wire_Model Wire_Proofs C09_Model C09_Proofs
                        C08_Model C08_Proofs C08_Query_Model.
From Adb Require Net_Model Engine_Model C13_Model C14_Model C15_Model.
From Coq Require Import Permutation.

(* ================================================================ query side: only buckets are read *)
Section Queries.
Variable matches : Net_Model.rule -> bool.
Variable pr : list N.

Lemma check_all_flat m tags :
  Net_Model.check_all matches m pr tags =
  flat_map (fun k => filter (Net_Model.hit matches tags) (Net_Model.bucket m k)) pr.
Proof.
  unfold Net_Model.check_all. destruct m as [|kb m]; [|reflexivity].
  induction pr as [|k r IH]; cbn; [reflexivity|exact IH].
Qed.

Lemma check_all_agree m1 m2 tags : maps_agree m1 m2 ->
  Net_Model.check_all matches m1 pr tags = Net_Model.check_all matches m2 pr tags.
Proof.
  intros H. rewrite !check_all_flat.
  induction pr as [|k r IH]; cbn [flat_map]; [reflexivity|]. rewrite (H k), IH. reflexivity.
Qed.

Lemma check_agree m1 m2 tags : maps_agree m1 m2 ->
  Net_Model.check matches m1 pr tags = Net_Model.check matches m2 pr tags.
Proof. intros H. unfold Net_Model.check. rewrite (check_all_agree m1 m2 tags H). reflexivity. Qed.

(* an empty map and a map of empty buckets answer alike *)
Lemma check_all_empty_buckets m tags : (forall k, Net_Model.bucket m k = []) ->
  Net_Model.check_all matches m pr tags = Net_Model.check_all matches [] pr tags.
Proof. intros H. apply check_all_agree. intros k. rewrite H. reflexivity. Qed.

Theorem blocker_check_p_agree mr fc a b : net_agree a b ->
  Net_Model.blocker_check_p matches pr mr fc a = Net_Model.blocker_check_p matches pr mr fc b.
Proof.
  intros [_ HE HI _ HT HF _ HTG]. unfold Net_Model.blocker_check_p. cbv zeta.
  rewrite HTG.
  rewrite (check_agree _ _ (Net_Model.b_tags b) HI), (check_agree _ _ (Net_Model.b_tags b) HT),
          (check_agree _ _ [] HF), (check_agree _ _ (Net_Model.b_tags b) HE).
  reflexivity.
Qed.

Theorem redirect_hits_agree a b : net_agree a b ->
  Net_Model.redirect_hits matches pr a = Net_Model.redirect_hits matches pr b.
Proof. intros H. unfold Net_Model.redirect_hits. apply check_all_agree. apply H. Qed.

Theorem csp_hits_agree a b : net_agree a b ->
  Net_Model.csp_hits matches pr a = Net_Model.csp_hits matches pr b.
Proof.
  intros H. unfold Net_Model.csp_hits. rewrite (na_tags a b H). apply check_all_agree. apply H.
Qed.

Theorem generic_hide_agree a b : net_agree a b ->
  Net_Model.generic_hide_hit matches pr a = Net_Model.generic_hide_hit matches pr b.
Proof.
  intros H. unfold Net_Model.generic_hide_hit. rewrite (na_tags a b H).
  rewrite (check_agree _ _ (Net_Model.b_tags b) (na_generic_hide a b H)). reflexivity.
Qed.

Theorem removeparam_hits_agree a b :
  maps_agree (Net_Model.b_removeparam a) (Net_Model.b_removeparam b) ->
  Net_Model.removeparam_hits matches pr a = Net_Model.removeparam_hits matches pr b.
Proof. intros H. unfold Net_Model.removeparam_hits. apply check_all_agree. exact H. Qed.

Lemma removeparam_hits_none a : Net_Model.b_removeparam a = [] ->
  Net_Model.removeparam_hits matches pr a = [].
Proof. intros H. unfold Net_Model.removeparam_hits. rewrite H. reflexivity. Qed.

Variable supported : bool.
Variable url : str.
Variable rtype : request_type.
Variable st : C13_Model.storage.

(* the whole BlockerResult *)
Theorem engine_check_agree mr fc a b : net_agree_full a b ->
  Engine_Model.engine_check matches pr supported url st mr fc a =
  Engine_Model.engine_check matches pr supported url st mr fc b.
Proof.
  intros [H HR]. unfold Engine_Model.engine_check.
  rewrite (blocker_check_p_agree mr fc a b H), (redirect_hits_agree a b H), (removeparam_hits_agree a b HR).
  reflexivity.
Qed.

(* ... and without any knowledge of the removeparam lists: everything but rewritten_url *)
Theorem engine_check_agree_but_rewritten mr fc a b : net_agree a b ->
  same_but_rewritten (Engine_Model.engine_check matches pr supported url st mr fc a)
                     (Engine_Model.engine_check matches pr supported url st mr fc b).
Proof.
  intros H. unfold same_but_rewritten, Engine_Model.engine_check.
  rewrite (blocker_check_p_agree mr fc a b H), (redirect_hits_agree a b H).
  destruct (negb supported); cbn [Engine_Model.r_matched Engine_Model.r_important Engine_Model.r_exception
    Engine_Model.r_filter Engine_Model.r_redirect]; repeat split; reflexivity.
Qed.

Theorem engine_csp_agree a b : net_agree a b ->
  Engine_Model.engine_csp matches pr rtype a = Engine_Model.engine_csp matches pr rtype b.
Proof. intros H. unfold Engine_Model.engine_csp. rewrite (csp_hits_agree a b H). reflexivity. Qed.

(* with an empty removeparam list no rewrite is ever reported *)
Lemma kept_nil p : C14_Model.kept [] p = true.
Proof.
  unfold C14_Model.kept, C14_Model.removed.
  destruct (C14_Model.split_once C14_Model.EQS p) as [[k v]|]; [|reflexivity].
  cbn [mem_str]. rewrite Bool.andb_false_r. reflexivity.
Qed.

Lemma apply_removeparam_nil u : C14_Model.apply_removeparam [] u = None.
Proof.
  unfold C14_Model.apply_removeparam. cbv zeta.
  destruct (find_byte C14_Model.QMARK _) as [i|]; [|reflexivity].
  assert (E : forall l, forallb (C14_Model.kept []) l = true).
  { induction l as [|p l IH]; cbn [forallb]; [reflexivity|]. rewrite kept_nil, IH. reflexivity. }
  rewrite E. reflexivity.
Qed.

Theorem engine_check_no_rewrite mr fc a : Net_Model.b_removeparam a = [] ->
  Engine_Model.r_rewritten (Engine_Model.engine_check matches pr supported url st mr fc a) = None.
Proof.
  intros H. unfold Engine_Model.engine_check. rewrite (removeparam_hits_none a H).
  destruct (negb supported); cbn [Engine_Model.r_rewritten Engine_Model.default_result]; [reflexivity|].
  unfold C14_Model.rewritten_url. cbn [Engine_Model.names_of flat_map].
  destruct (Net_Model.v_important _); [reflexivity|apply apply_removeparam_nil].
Qed.
End Queries.

(* ================================================================ the translation *)
Lemma bucket_net_map m k : Net_Model.bucket (net_map m) k = map net_rule (getn k m).
Proof.
  unfold Net_Model.bucket, net_map.
  induction m as [|[k' v] m IH]; cbn [map Net_Model.lookup getn fst snd]; [reflexivity|].
  destruct (N.eqb k k'); [reflexivity|exact IH].
Qed.

Lemma net_map_agree m1 m2 : bins_equiv m1 m2 -> maps_agree (net_map m1) (net_map m2).
Proof. intros H k. rewrite !bucket_net_map, (H k). reflexivity. Qed.

Theorem reads_same_net_agree a b : reads_same a b -> net_agree (net_blocker a) (net_blocker b).
Proof.
  intros [H1 H2 H3 H4 H5 H6 H7 HT].
  constructor; cbn [net_blocker Net_Model.b_csp Net_Model.b_exceptions Net_Model.b_importants
    Net_Model.b_redirects Net_Model.b_tagged Net_Model.b_filters Net_Model.b_generic_hide Net_Model.b_tags];
    try (apply net_map_agree; assumption). exact HT.
Qed.

Theorem reads_same_full_net_agree a b : reads_same_full a b -> net_agree_full (net_blocker a) (net_blocker b).
Proof.
  intros [H HR]. split; [apply reads_same_net_agree; exact H|].
  cbn [net_blocker Net_Model.b_removeparam]. apply net_map_agree. exact HR.
Qed.

(* blocker_equiv (C08_Model: permutation of the (key, bucket) pairs) gives bucket-wise agreement
   as soon as keys are distinct — the premises of C08_blocker_equiv_reads *)
Theorem blocker_equiv_reads_same a b : blocker_equiv a b ->
  NoDup (map fst (b_csp a)) -> NoDup (map fst (b_exceptions a)) -> NoDup (map fst (b_importants a)) ->
  NoDup (map fst (b_redirects a)) -> NoDup (map fst (b_removeparam a)) -> NoDup (map fst (b_filters_tagged a)) ->
  NoDup (map fst (b_filters a)) -> NoDup (map fst (b_generic_hide a)) ->
  reads_same_full a b.
Proof.
  intros E N1 N2 N3 N4 N5 N6 N7 N8.
  pose proof (blocker_equiv_reads a b E N1 N2 N3 N4 N5 N6 N7 N8) as R.
  split; [constructor|]; try (intros k; destruct (R k) as (R1 & R2 & R3 & R4 & R5 & R6 & R7 & R8); assumption).
  apply E.
Qed.

Theorem blocker_equiv_net_agree a b : blocker_equiv a b ->
  NoDup (map fst (b_csp a)) -> NoDup (map fst (b_exceptions a)) -> NoDup (map fst (b_importants a)) ->
  NoDup (map fst (b_redirects a)) -> NoDup (map fst (b_removeparam a)) -> NoDup (map fst (b_filters_tagged a)) ->
  NoDup (map fst (b_filters a)) -> NoDup (map fst (b_generic_hide a)) ->
  net_agree_full (net_blocker a) (net_blocker b).
Proof.
  intros E N1 N2 N3 N4 N5 N6 N7 N8. apply reads_same_full_net_agree.
  apply blocker_equiv_reads_same; assumption.
Qed.

(* equivalent states answer every network / CSP / generichide query alike *)
Theorem network_query_equiv a b : blocker_equiv a b ->
  NoDup (map fst (b_csp a)) -> NoDup (map fst (b_exceptions a)) -> NoDup (map fst (b_importants a)) ->
  NoDup (map fst (b_redirects a)) -> NoDup (map fst (b_removeparam a)) -> NoDup (map fst (b_filters_tagged a)) ->
  NoDup (map fst (b_filters a)) -> NoDup (map fst (b_generic_hide a)) ->
  forall matches pr supported url rtype st mr fc,
    Engine_Model.engine_check matches pr supported url st mr fc (net_blocker a) =
    Engine_Model.engine_check matches pr supported url st mr fc (net_blocker b) /\
    Engine_Model.engine_csp matches pr rtype (net_blocker a) =
    Engine_Model.engine_csp matches pr rtype (net_blocker b) /\
    Net_Model.generic_hide_hit matches pr (net_blocker a) = Net_Model.generic_hide_hit matches pr (net_blocker b).
Proof.
  intros E N1 N2 N3 N4 N5 N6 N7 N8 matches pr supported url rtype st mr fc.
  pose proof (blocker_equiv_net_agree a b E N1 N2 N3 N4 N5 N6 N7 N8) as A.
  split; [apply engine_check_agree; exact A|]. destruct A as [A _].
  split; [apply engine_csp_agree; exact A|apply generic_hide_agree; exact A].
Qed.

(* ---- the two models filter the tagged rules alike *)
Lemma tagged_active_net tags l :
  map net_rule (filter (tag_enabled tags) l) = Net_Model.tagged_active tags (map net_rule l).
Proof.
  unfold Net_Model.tagged_active.
  induction l as [|r l IH]; cbn [filter map]; [reflexivity|].
  unfold tag_enabled at 1. cbn [net_rule Net_Model.rtag].
  destruct (match r_tag r with Some t => mem_str t tags | None => false end); cbn [map]; rewrite IH; reflexivity.
Qed.

(* ================================================================ the matcher *)
Lemma net_wire_fpart p : net_fpart (wire_fpart p) = p.
Proof. destruct p; reflexivity. Qed.
Lemma wire_net_fpart p : wire_fpart (net_fpart p) = p.
Proof. destruct p; reflexivity. Qed.

Lemma net_rule_lift f : net_rule (lift_rule f) = f.
Proof.
  destruct f as [i m fp ho d nd mo t]. unfold net_rule, lift_rule.
  cbn [r_id r_mask r_filter r_hostname r_opt_domains r_opt_not_domains r_modifier r_tag
       Net_Model.rid Net_Model.rmask Net_Model.rfilter Net_Model.rhost Net_Model.rdomains
       Net_Model.rnotdomains Net_Model.rmod Net_Model.rtag].
  rewrite net_wire_fpart. reflexivity.
Qed.

Lemma lift_net_rule r : unions_canonical r -> lift_rule (net_rule r) = set_raw None r.
Proof.
  destruct r as [m f od ond mo ho t raw i du ndu]. unfold unions_canonical, lift_rule, net_rule, set_raw.
  cbn [r_id r_mask r_filter r_hostname r_opt_domains r_opt_not_domains r_modifier r_tag r_raw r_dunion r_ndunion
       Net_Model.rid Net_Model.rmask Net_Model.rfilter Net_Model.rhost Net_Model.rdomains
       Net_Model.rnotdomains Net_Model.rmod Net_Model.rtag].
  intros [-> ->]. rewrite wire_net_fpart. reflexivity.
Qed.

(* a matcher stated on the wire rule is the transported matcher on the translated rule *)
Theorem wire_matcher_transport wm r : ignores_raw wm -> unions_canonical r ->
  net_matcher wm (net_rule r) = wm r.
Proof. intros IR UC. unfold net_matcher. rewrite (lift_net_rule r UC). apply IR. Qed.

(* net_rule is injective on the eight fields it keeps *)
Theorem net_rule_fields r r' : net_rule r = net_rule r' ->
  r_id r = r_id r' /\ r_mask r = r_mask r' /\ r_filter r = r_filter r' /\ r_hostname r = r_hostname r' /\
  r_opt_domains r = r_opt_domains r' /\ r_opt_not_domains r = r_opt_not_domains r' /\
  r_modifier r = r_modifier r' /\ r_tag r = r_tag r'.
Proof.
  intros E.
  pose proof (f_equal Net_Model.rid E) as E1. pose proof (f_equal Net_Model.rmask E) as E2.
  pose proof (f_equal Net_Model.rfilter E) as E3. pose proof (f_equal Net_Model.rhost E) as E4.
  pose proof (f_equal Net_Model.rdomains E) as E5. pose proof (f_equal Net_Model.rnotdomains E) as E6.
  pose proof (f_equal Net_Model.rmod E) as E7. pose proof (f_equal Net_Model.rtag E) as E8.
  cbn [net_rule Net_Model.rid Net_Model.rmask Net_Model.rfilter Net_Model.rhost Net_Model.rdomains
       Net_Model.rnotdomains Net_Model.rmod Net_Model.rtag] in *.
  repeat split; try assumption.
  rewrite <- (wire_net_fpart (r_filter r)), <- (wire_net_fpart (r_filter r')), E3. reflexivity.
Qed.

(* ================================================================ the round trip *)
Lemma bins_equiv_wlist m : bucket_rules_ok m -> NoDup (map fst m) -> bins_equiv (from_wlist (to_wlist m)) m.
Proof.
  intros OK ND k. symmetry. apply getn_perm; [|exact ND].
  symmetry. apply wlist_state_roundtrip. exact OK.
Qed.

Lemma keys_distinct_of_wf b : blocker_wf b -> keys_distinct b.
Proof. intros [W1 W2 W3 W4 _ W6 W7]. constructor; assumption. Qed.

Section RoundTrip.
  Variable as_css : str -> option (str * str).
  Variable build_list : list rule -> bool -> bucket_map.

  (* serialize e, load into l, install any tag set: the seven lists read alike, bucket by bucket,
     and the removeparam list is empty (F8) — no hypothesis about removeparam rules, the cosmetic
     side or build_list *)
  Theorem roundtrip_reads_same l e tags : rules_ok (e_blocker e) -> keys_distinct (e_blocker e) ->
    let w := to_wire as_css (e_blocker e) (e_cosmetic e) in
    let e' := engine_use_tags build_list tags (install build_list l w) in
    reads_same (e_blocker e') (e_blocker (engine_use_tags build_list tags e)) /\
    b_removeparam (e_blocker e') = [].
  Proof.
    intros [R1 R2 R3 R4 R5 R6 R7 R8] [K1 K2 K3 K4 K6 K7]. cbv zeta.
    split; [|reflexivity].
    constructor;
      cbn [engine_use_tags install e_blocker use_tags from_wire_blocker b_csp b_exceptions b_importants
           b_redirects b_removeparam b_filters_tagged b_filters b_generic_hide b_tags_enabled b_tagged_all b_opt
           wi_csp wi_exceptions wi_importants wi_redirects wi_filters wi_generic_hide wi_tagged_all wi_opt to_wire];
      try (apply bins_equiv_wlist; assumption); try reflexivity.
    rewrite (map_roundtrip_rules _ R8). intros k. reflexivity.
  Qed.

  Section Query.
    Variable l e : engine.
    Variable tags : list str.
    Hypothesis RO : rules_ok (e_blocker e).
    Hypothesis KD : keys_distinct (e_blocker e).
    Let w := to_wire as_css (e_blocker e) (e_cosmetic e).
    Let e' := engine_use_tags build_list tags (install build_list l w).
    Let e0 := engine_use_tags build_list tags e.

    Lemma roundtrip_net_agree : net_agree (net_blocker (e_blocker e')) (net_blocker (e_blocker e0)).
    Proof. apply reads_same_net_agree. apply (proj1 (roundtrip_reads_same l e tags RO KD)). Qed.

    Lemma roundtrip_net_removeparam : Net_Model.b_removeparam (net_blocker (e_blocker e')) = [].
    Proof.
      cbn [net_blocker Net_Model.b_removeparam]. unfold e', w.
      rewrite (proj2 (roundtrip_reads_same l e tags RO KD)). reflexivity.
    Qed.

    Lemma roundtrip_net_agree_full : no_removeparam (e_blocker e) ->
      net_agree_full (net_blocker (e_blocker e')) (net_blocker (e_blocker e0)).
    Proof.
      intros NR. split; [exact roundtrip_net_agree|]. rewrite roundtrip_net_removeparam.
      unfold e0. cbn [engine_use_tags e_blocker use_tags net_blocker Net_Model.b_removeparam b_removeparam].
      unfold no_removeparam in NR. rewrite NR. intros k. reflexivity.
    Qed.

    (* the network query: BlockerResult field by field; rewritten_url is None after reload (F8),
       and the whole result is equal when the engine holds no removeparam rule *)
    Theorem network_query_roundtrip matches pr supported url st mr fc :
      let r' := Engine_Model.engine_check matches pr supported url st mr fc (net_blocker (e_blocker e')) in
      let r := Engine_Model.engine_check matches pr supported url st mr fc (net_blocker (e_blocker e0)) in
      same_but_rewritten r' r /\ Engine_Model.r_rewritten r' = None /\
      (no_removeparam (e_blocker e) -> r' = r).
    Proof.
      cbv zeta. split; [|split].
      - apply engine_check_agree_but_rewritten. exact roundtrip_net_agree.
      - apply engine_check_no_rewrite. exact roundtrip_net_removeparam.
      - intros NR. apply engine_check_agree. apply roundtrip_net_agree_full. exact NR.
    Qed.

    Theorem csp_query_roundtrip matches pr rtype :
      Engine_Model.engine_csp matches pr rtype (net_blocker (e_blocker e')) =
      Engine_Model.engine_csp matches pr rtype (net_blocker (e_blocker e0)).
    Proof. apply engine_csp_agree. exact roundtrip_net_agree. Qed.

    Theorem generic_hide_roundtrip matches pr :
      Net_Model.generic_hide_hit matches pr (net_blocker (e_blocker e')) =
      Net_Model.generic_hide_hit matches pr (net_blocker (e_blocker e0)).
    Proof. apply generic_hide_agree. exact roundtrip_net_agree. Qed.

    (* the parts, for callers that combine them differently *)
    Theorem verdict_roundtrip matches pr mr fc :
      Net_Model.blocker_check_p matches pr mr fc (net_blocker (e_blocker e')) =
      Net_Model.blocker_check_p matches pr mr fc (net_blocker (e_blocker e0)).
    Proof. apply blocker_check_p_agree. exact roundtrip_net_agree. Qed.
  End Query.
End RoundTrip.

(* ================================================================ examples / witnesses *)
Definition exq_rule (id mask : N) (pat : string) (mo tag : option str) : rule :=
  Build_rule mask (FSimple (bs pat)) None None mo (Some (bs "ads.net")) tag (Some (bs pat)) id None None.

(* rules in five lists, a tagged rule (tag "t1") waiting in tagged_filters_all, an empty bucket *)
Definition exq_blocker : blocker :=
  Build_blocker
    [(7, [exq_rule 1 M_IS_CSP "c" (Some (bs "img-src *")) None])]
    [(5, [exq_rule 2 M_IS_EXCEPTION "e" None None])]
    []
    [(7, [exq_rule 3 M_IS_REDIRECT "r" (Some (bs "noop.js")) None])]
    []
    []
    [(0, []); (5, [exq_rule 4 1 "a" None None; exq_rule 5 1 "b" None None]); (3, [exq_rule 6 1 "d" None None])]
    [(0, [exq_rule 7 M_GENERIC_HIDE "g" None None])]
    []
    [exq_rule 8 1 "t" None (Some (bs "t1")); exq_rule 9 1 "u" None (Some (bs "t2"))]
    true.
Definition exq_engine : engine := Build_engine exq_blocker ex_cosmetic1 [].
(* a stand-in for NetworkFilterList::new: everything under token 9 *)
Definition exq_build (l : list rule) (o : bool) : bucket_map := match l with [] => [] | _ => [(9, l)] end.
Definition exq_store : C13_Model.storage :=
  C13_Model.from_resources
    [C13_Model.mk_res (bs "noop.js") [] (C13Gen.Kind_Mime C13Gen.Mime_ApplicationJavascript) (bs "KGZ1bmN0aW9uKCkge30pKCk7") false true 0].
(* the request at hand matches every rule but the two plain ones with id 4 and 6 *)
Definition exq_matches (f : Net_Model.rule) : bool :=
  negb (N.eqb (Net_Model.rid f) 4 || N.eqb (Net_Model.rid f) 6).
Definition exq_reloaded (tags : list str) : engine :=
  engine_use_tags exq_build tags (install exq_build (loader [bs "zz"]) (to_wire ex_css exq_blocker ex_cosmetic1)).
Definition exq_url : str := bs "https://x.com/a?utm=1&b=2".

Lemma exq_rules_ok : rules_ok exq_blocker.
Proof.
  constructor; unfold bucket_rules_ok; cbn [b_csp b_exceptions b_importants b_redirects
    b_filters_tagged b_filters b_generic_hide b_tagged_all exq_blocker snd]; forall_tac mo_tac.
Qed.
Lemma exq_keys_distinct : keys_distinct exq_blocker.
Proof. constructor; cbn; nodup_tac. Qed.

(* the premises of the round-trip theorems hold on exq_engine, and the answers are not trivial:
   with tag t1 enabled the tagged rule 8 blocks (probe 9), the exception applies, the redirect
   resolves to a data: URL, the CSP query returns the directive, generichide fires *)
Example query_roundtrip_example :
  rules_ok (e_blocker exq_engine) /\ keys_distinct (e_blocker exq_engine) /\ no_removeparam (e_blocker exq_engine) /\
  let b' := net_blocker (e_blocker (exq_reloaded [bs "t1"])) in
  let b := net_blocker (e_blocker (engine_use_tags exq_build [bs "t1"] exq_engine)) in
  let r' := Engine_Model.engine_check exq_matches [9; 7; 5; 0] true exq_url exq_store false false b' in
  let r := Engine_Model.engine_check exq_matches [9; 7; 5; 0] true exq_url exq_store false false b in
  r' = r /\
  Engine_Model.r_filter r = true /\ Engine_Model.r_exception r = true /\ Engine_Model.r_matched r = false /\
  Engine_Model.r_redirect r <> None /\
  Net_Model.ids_of (Net_Model.check_all exq_matches (Net_Model.b_tagged b') [9] [bs "t1"]) = [8] /\
  Engine_Model.engine_csp exq_matches [9; 7; 5; 0] RT_Document b' = Some [bs "img-src *"] /\
  Engine_Model.engine_csp exq_matches [9; 7; 5; 0] RT_Document b = Some [bs "img-src *"] /\
  Net_Model.generic_hide_hit exq_matches [9; 7; 5; 0] b' = true.
Proof.
  split; [exact exq_rules_ok|]. split; [exact exq_keys_distinct|]. split; [reflexivity|].
  vm_compute. repeat split; discriminate.
Qed.

(* F8 at query level: with a removeparam rule in the engine the original reports a rewritten URL,
   the reloaded engine reports none; every other premise of network_query_roundtrip holds *)
Definition exq_engine_rp : engine := Build_engine ex_blocker1 ex_cosmetic1 [].
Lemma exq_keys_distinct1 : keys_distinct ex_blocker1.
Proof. constructor; cbn; nodup_tac. Qed.

Lemma network_query_rewritten_refuted : exists e l tags matches pr url st mr fc,
  rules_ok (e_blocker e) /\ keys_distinct (e_blocker e) /\ ~ no_removeparam (e_blocker e) /\
  let bl := fun (_ : list rule) (_ : bool) => @nil (N * list rule) in
  let e' := engine_use_tags bl tags (install bl l (to_wire ex_css (e_blocker e) (e_cosmetic e))) in
  Engine_Model.r_rewritten (Engine_Model.engine_check matches pr true url st mr fc
     (net_blocker (e_blocker (engine_use_tags bl tags e)))) = Some (bs "https://x.com/a?b=2") /\
  Engine_Model.r_rewritten (Engine_Model.engine_check matches pr true url st mr fc
     (net_blocker (e_blocker e'))) = None.
Proof.
  exists exq_engine_rp, (loader []), [], (fun _ => true), [1; 0], exq_url, C13_Model.empty_store, false, false.
  split; [exact ex_rules_ok1|]. split; [exact exq_keys_distinct1|].
  split; [unfold no_removeparam; cbn; discriminate|].
  vm_compute. split; reflexivity.
Qed.
