(* Tok_Regex_Proofs.v — the token guarantee for REGEX-TYPE patterns (filter texts with '*' and/or
   '^'; not /re/ rules), proved from the concrete tokenizer and C02's token semantics of such
   patterns ([C02_Model.search la ra (toks s) url], what check_pattern_regex_filter computes for a
   nondegenerate filter text given the regex crate's contract [re_std]):
   every token tokenize_filter keeps for the pattern is a whole token of every ASCII, '*'-free URL
   the pattern matches.  A kept token is a maximal run of token bytes delimited inside the pattern by
   literal non-token bytes or by '^' (never by '*'); under a match the run is matched by identical
   URL bytes and each delimiter by the identical byte, by one separator byte, or (trailing '^') by
   the end of the URL, so the run is a maximal delimited run of the URL as well.
   Two premises on the URL are needed and both are known findings when dropped:
     all_ascii url  — '^' matches any byte >= 128, which the tokenizer counts as a token byte (F4);
     ~ In STAR url  — '^' matches a literal '*' of the URL, next to which the request tokenizer
                      (the filter tokenizer) drops the token (F23).
   The tie from the crate's matcher to [search] (C02: [regex_tail]) needs [re_std], which fails for
   filter texts containing a backslash: compile_regex does not escape '\', so `foo\dbar^` is the
   regex foo\dbar(?:...|$) (a digit class) while the tokenizer reads the literal token "dbar"
   ([regex_backslash_witness]; confirmed on the crate: the rule matches https://x.com/foo5bar/ but
   no engine holding it blocks that request). *)
From Adb Require Import Base BaseProofs Generated Hashing Net_Model Net_Proofs Tok_Proofs.
From Adb Require C02_Model C02_Proofs.
From Coq Require Import ZifyBool ZifyNat ZifyN Lia.

Notation PLit := C02_Model.PLit.
Notation PStar := C02_Model.PStar.
Notation PSep := C02_Model.PSep.
Notation CARET := C02_Model.CARET.
Notation rtoks := C02_Model.toks.
Notation rtok_of := C02_Model.tok_of.
Notation rmatch := C02_Model.m.
Notation is_sep := C02_Model.is_sep.
Notation rsearch := C02_Model.search.

(* ---------------------------------------------------------------- bytes and pattern tokens *)
Lemma allowed_tok c : allowed c = true -> rtok_of c = PLit c.
Proof.
  intros H. unfold C02_Model.tok_of.
  destruct (N.eqb_spec c C02_Model.STAR) as [->|_]; [vm_compute in H; discriminate|].
  destruct (N.eqb_spec c CARET) as [->|_]; [vm_compute in H; discriminate|reflexivity].
Qed.

Lemma toks_allowed t : forallb allowed t = true -> rtoks t = map PLit t.
Proof.
  induction t as [|c t IH]; intros H; [reflexivity|].
  cbn [forallb] in H. apply andb_true_iff in H as [Hc Ht].
  unfold C02_Model.toks in *. cbn [map]. rewrite (allowed_tok c Hc), (IH Ht). reflexivity.
Qed.

Lemma toks_app a b : rtoks (a ++ b) = rtoks a ++ rtoks b.
Proof. unfold C02_Model.toks. apply map_app. Qed.

Lemma tok_of_not_star d : d <> STAR -> rtok_of d <> PStar.
Proof.
  intros Hd. unfold C02_Model.tok_of.
  destruct (N.eqb_spec d C02_Model.STAR) as [E|_]; [exfalso; apply Hd; exact E|].
  destruct (N.eqb d CARET); discriminate.
Qed.

Lemma tok_of_lit d c : rtok_of d = PLit c -> c = d.
Proof.
  unfold C02_Model.tok_of. destruct (N.eqb d C02_Model.STAR); [discriminate|].
  destruct (N.eqb d CARET); [discriminate|]. intros H. inversion H. reflexivity.
Qed.

(* which URL bytes can stand where the pattern has a delimiter: the same delimiter, or a byte '^'
   matches *)
Definition dl (c : N) : Prop := delim c \/ is_sep c = true.

(* on an ASCII URL without '*' a byte that '^' matches is a tokenizer delimiter *)
Lemma sep_delim u c : all_ascii u = true -> ~ In STAR u -> In c u -> is_sep c = true -> delim c.
Proof.
  intros Ha Hns Hin Hs. unfold all_ascii in Ha.
  pose proof (proj1 (forallb_forall _ _) Ha c Hin) as Hc. unfold is_ascii in Hc.
  unfold C02_Model.is_sep in Hs. apply negb_true_iff in Hs.
  apply orb_false_iff in Hs as [Hs _]. apply orb_false_iff in Hs as [Hs H37].
  apply orb_false_iff in Hs as [Hs _]. apply orb_false_iff in Hs as [Hal _].
  split.
  - unfold allowed. rewrite Hal. change allowed_extra_char with 37. rewrite H37. cbn [orb].
    apply N.leb_gt. apply N.ltb_lt. exact Hc.
  - intros ->. contradiction.
Qed.

Lemma dl_delim u c : all_ascii u = true -> ~ In STAR u -> In c u -> dl c -> delim c.
Proof. intros Ha Hns Hin [H|H]; [exact H|exact (sep_delim u c Ha Hns Hin H)]. Qed.

(* ---------------------------------------------------------------- cutting a match *)
(* a run of literals is matched by itself *)
Lemma m_lits_split e t : forall p x, rmatch e (map PLit t ++ p) x -> exists x', x = t ++ x' /\ rmatch e p x'.
Proof.
  induction t as [|c t IH]; intros p x H.
  - exists x. split; [reflexivity|exact H].
  - cbn [map app] in H. inversion H as [| |b p' s' Hm| | | |]; subst.
    destruct (IH _ _ Hm) as (x' & -> & Hx'). exists x'. split; [reflexivity|exact Hx'].
Qed.

(* the byte matched by a non-'*' pattern token that is not the last one *)
Lemma m_split_at e p x : rmatch e p x -> forall p1 q p2, p = p1 ++ q :: p2 -> q <> PStar -> p2 <> [] ->
  exists x1 c x2, x = x1 ++ c :: x2 /\ rmatch e p2 x2 /\ (q = PLit c \/ (q = PSep /\ is_sep c = true)).
Proof.
  induction 1 as [s He| |b p s Hm IH|b p s Hs Hm IH| |p s Hm IH|b p s Hm IH]; intros p1 q p2 E Hq Hp2.
  - destruct p1; discriminate.
  - destruct p1; discriminate.
  - destruct p1 as [|a p1]; cbn [app] in E; inversion E; subst.
    + exists [], b, s. split; [reflexivity|]. split; [exact Hm|]. left. reflexivity.
    + destruct (IH p1 q p2 eq_refl Hq Hp2) as (x1 & c & x2 & -> & H2 & H3).
      exists (b :: x1), c, x2. split; [reflexivity|]. split; assumption.
  - destruct p1 as [|a p1]; cbn [app] in E; inversion E; subst.
    + exists [], b, s. split; [reflexivity|]. split; [exact Hm|]. right. split; [reflexivity|exact Hs].
    + destruct (IH p1 q p2 eq_refl Hq Hp2) as (x1 & c & x2 & -> & H2 & H3).
      exists (b :: x1), c, x2. split; [reflexivity|]. split; assumption.
  - destruct p1 as [|a p1]; cbn [app] in E; inversion E; subst.
    + congruence.
    + destruct p1; discriminate.
  - destruct p1 as [|a p1]; cbn [app] in E; inversion E; subst.
    + congruence.
    + exact (IH p1 q p2 eq_refl Hq Hp2).
  - destruct p1 as [|a p1]; cbn [app] in E; inversion E; subst.
    + congruence.
    + destruct (IH (PStar :: p1) q p2 eq_refl Hq Hp2) as (x1 & c & x2 & -> & H2 & H3).
      exists (b :: x1), c, x2. split; [reflexivity|]. split; assumption.
Qed.

(* what can follow the token: the pattern goes on with a delimiter byte *)
Lemma m_head_delim e d b x : delim d -> rmatch e (rtoks (d :: b)) x ->
  x = [] \/ exists c x', x = c :: x' /\ dl c.
Proof.
  intros Hd H. unfold C02_Model.toks in H. cbn [map] in H. unfold C02_Model.tok_of in H.
  destruct (N.eqb_spec d C02_Model.STAR) as [E|_]; [exfalso; apply (proj2 Hd); exact E|].
  destruct (N.eqb d CARET).
  - inversion H as [| | |c p' s' Hs Hm|Hx| |]; subst.
    + right. exists c, s'. split; [reflexivity|right; exact Hs].
    + left. reflexivity.
  - inversion H as [| |c p' s' Hm| | | |]; subst.
    right. exists d, s'. split; [reflexivity|left; exact Hd].
Qed.

(* ---------------------------------------------------------------- the embedding *)
(* a kept token of the pattern, under a match of the whole pattern against [suf] *)
Lemma m_token_embed e a t b suf :
  rmatch e (rtoks (a ++ t ++ b)) suf -> forallb allowed t = true -> t <> [] ->
  (a = [] \/ exists a' d, a = a' ++ [d] /\ delim d) ->
  (b = [] \/ exists d b', b = d :: b' /\ delim d) ->
  (b = [] -> e = true) ->
  exists x1 x2, suf = x1 ++ t ++ x2 /\
    ((a = [] /\ x1 = []) \/ exists w c, x1 = w ++ [c] /\ dl c) /\
    (x2 = [] \/ exists c x2', x2 = c :: x2' /\ dl c).
Proof.
  intros Hm Hall Hne Ha Hb Hbe.
  rewrite !toks_app, (toks_allowed t Hall) in Hm.
  assert (Right : forall x2, rmatch e (rtoks b) x2 -> x2 = [] \/ exists c x2', x2 = c :: x2' /\ dl c).
  { intros x2 H2. destruct Hb as [->|(d & b' & -> & Hd)].
    - left. specialize (Hbe eq_refl). subst e. cbn in H2. inversion H2 as [s He| | | | | |]; [discriminate|reflexivity].
    - exact (m_head_delim e d b' x2 Hd H2). }
  destruct Ha as [->|(a' & d & -> & Hd)].
  - cbn [C02_Model.toks map app] in Hm.
    destruct (m_lits_split e t _ _ Hm) as (x2 & -> & H2).
    exists [], x2. split; [reflexivity|]. split; [left; split; reflexivity|]. exact (Right x2 H2).
  - rewrite toks_app in Hm. unfold C02_Model.toks at 2 in Hm. cbn [map] in Hm. rewrite <- app_assoc in Hm. cbn [app] in Hm.
    destruct (m_split_at e _ _ Hm (rtoks a') (rtok_of d) (map PLit t ++ rtoks b) eq_refl) as (x1 & c & x2 & -> & H2 & Hc).
    { apply tok_of_not_star. exact (proj2 Hd). }
    { destruct t; [congruence|discriminate]. }
    destruct (m_lits_split e t _ _ H2) as (x3 & -> & H3).
    exists (x1 ++ [c]), x3. split; [rewrite <- app_assoc; reflexivity|].
    split; [|exact (Right x3 H3)].
    right. exists x1, c. split; [reflexivity|].
    destruct Hc as [Hc|[_ Hc]]; [left|right; exact Hc].
    apply tok_of_lit in Hc. subst c. exact Hd.
Qed.

(* MAIN LEMMA: every token the rule is indexed under is a token of every ASCII, '*'-free URL that
   the regex-type pattern matches *)
Theorem regex_tokens_covered la ra s u t :
  rsearch la ra (rtoks s) u = true ->
  all_ascii u = true -> ~ In STAR u ->
  In t (tku (negb la) (negb ra) s 0 None None) ->
  In t (tku false false u 0 None None).
Proof.
  intros Hm Hasc Hns Hin. apply tokenize_complete.
  destruct (tokenize_filter_sound _ _ s t Hin) as (a & b & -> & Hu & Hv & Hsf & Hsl & Hall & Hlen).
  assert (Hne : t <> []) by (destruct t; [cbn in Hlen; lia|discriminate]).
  apply C02_Proofs.search_spec in Hm.
  assert (Hsplit : exists pre suf, u = pre ++ suf /\ rmatch ra (rtoks (a ++ t ++ b)) suf /\ (la = true -> pre = [])).
  { destruct la.
    - exists [], u. repeat split; auto.
    - destruct Hm as (pre & suf & E & H). exists pre, suf. repeat split; auto. discriminate. }
  destruct Hsplit as (pre & suf & -> & Hm' & Hla).
  destruct (m_token_embed ra a t b suf Hm' Hall Hne Hu Hv) as (x1 & x2 & -> & Hx1 & Hx2).
  { intros E. specialize (Hsl E). destruct ra; [reflexivity|discriminate]. }
  exists (pre ++ x1), x2. split; [rewrite <- !app_assoc; reflexivity|].
  split; [|split; [|split; [intros _; reflexivity|split; [intros _; reflexivity|split; [exact Hall|exact Hlen]]]]].
  - destruct Hx1 as [[Ea ->]|(w & c & -> & Hc)].
    + rewrite app_nil_r. left. apply Hla. specialize (Hsf Ea). destruct la; [reflexivity|discriminate].
    + right. exists (pre ++ w), c. split; [rewrite <- app_assoc; reflexivity|].
      apply (dl_delim (pre ++ (w ++ [c]) ++ t ++ x2) c Hasc Hns); [|exact Hc].
      apply in_or_app. right. apply in_or_app. left. apply in_or_app. right. left. reflexivity.
  - destruct Hx2 as [->|(c & x2' & -> & Hc)]; [left; reflexivity|].
    right. exists c, x2'. split; [reflexivity|].
    apply (dl_delim (pre ++ x1 ++ t ++ c :: x2') c Hasc Hns); [|exact Hc].
    apply in_or_app. right. apply in_or_app. right. apply in_or_app. right. left. reflexivity.
Qed.

(* non-vacuity of the main lemma: a pattern with '*' and '^' (anchors off: both end tokens are
   skipped, the token next to '*' is dropped) *)
Example regex_tokens_example :
  let s := bs "/banner/*/img^" in let u := bs "https://x.com/banner/a1/img?x" in
  rsearch false false (rtoks s) u = true /\ all_ascii u = true /\ ~ In STAR u /\
  tku true true s 0 None None = [bs "banner"; bs "img"] /\
  tku false false u 0 None None = [bs "https"; bs "com"; bs "banner"; bs "a1"; bs "img"].
Proof.
  cbn zeta. repeat split; try (vm_compute; reflexivity).
  intros H. vm_compute in H. repeat (destruct H as [H|H]; [discriminate H|]). exact H.
Qed.

(* both URL premises are needed: the two known findings, as witnesses against the lemma without them *)
(* F4: '^' matches the first byte of a non-ASCII character, which the tokenizer makes part of the token *)
Lemma regex_tokens_non_ascii_refuted :
  exists la ra s u t,
    rsearch la ra (rtoks s) u = true /\ all_ascii u = false /\ ~ In STAR u /\
    In t (tku (negb la) (negb ra) s 0 None None) /\ ~ In t (tku false false u 0 None None).
Proof.
  exists false, false, (bs "/foo^"), (bs "https://x.com/foo" ++ [195; 169]), (bs "foo").
  split; [vm_compute; reflexivity|]. split; [vm_compute; reflexivity|]. split; [|split].
  - intros H. vm_compute in H. repeat (destruct H as [H|H]; [discriminate H|]). exact H.
  - vm_compute. left. reflexivity.
  - intros H. vm_compute in H. repeat (destruct H as [H|H]; [discriminate H|]). exact H.
Qed.

(* F23: '^' matches a literal '*' of the URL, next to which the request tokenizer drops the token *)
Lemma regex_tokens_star_in_url_refuted :
  exists la ra s u t,
    rsearch la ra (rtoks s) u = true /\ all_ascii u = true /\ In STAR u /\
    In t (tku (negb la) (negb ra) s 0 None None) /\ ~ In t (tku false false u 0 None None).
Proof.
  exists false, true, (bs "ads^foo"), (bs "https://ads.net/ads*foo"), (bs "foo").
  split; [vm_compute; reflexivity|]. split; [vm_compute; reflexivity|]. split; [|split].
  - vm_compute. tauto.
  - vm_compute. left. reflexivity.
  - intros H. vm_compute in H. repeat (destruct H as [H|H]; [discriminate H|]). exact H.
Qed.

(* ---------------------------------------------------------------- regex-type rules *)
(* a rule whose only tokens are those of its regex-type pattern: `pattern*^`, no hostname anchor,
   no domain option, both schemes, not a /re/ rule *)
Definition regex_rule (f : rule) (s : str) : Prop :=
  rfilter f = FSimple s /\ rhost f = None /\ rdomains f = None /\ rnotdomains f = None /\
  is_regex f = true /\ is_complete_regex f = false /\ flag f M_IS_HOSTNAME_ANCHOR = false /\
  flag f M_FROM_HTTP = true /\ flag f M_FROM_HTTPS = true /\
  tokenize_filter s (negb (is_left_anchor f)) (negb (is_right_anchor f)) <> [].

(* what check_pattern_regex_filter computes for such a rule (C02: regex_tail, under the regex
   crate's contract re_std): the token semantics of the filter text on the lower-cased URL *)
Definition regex_match (f : rule) (s url : str) : bool :=
  rsearch (is_left_anchor f) (is_right_anchor f) (rtoks s) url.

Theorem token_guarantee_regex h f s src url :
  regex_rule f s ->
  regex_match f s url = true ->
  all_ascii url = true -> ~ In STAR url ->
  within_cutoff false false url ->
  within_cutoff (negb (is_left_anchor f)) (negb (is_right_anchor f)) s ->
  covered h (probes h src url) f.
Proof.
  intros (Hf & Hh & Hd & Hnd & Hrx & Hcr & Hha & Hhttp & Hhttps & Hne) Hm Hasc Hns Hu Hs.
  unfold covered.
  exists (map h (tokenize_filter s (negb (is_left_anchor f)) (negb (is_right_anchor f)))). split.
  - unfold get_tokens. rewrite Hf, Hh, Hd, Hcr.
    assert (Hs2 : (if flag f M_IS_HOSTNAME_REGEX then [] else []) = @nil N)
      by (destruct (flag f M_IS_HOSTNAME_REGEX); reflexivity).
    rewrite Hs2. cbn [app]. rewrite !app_nil_r.
    set (T := map h (tokenize_filter s (negb (is_left_anchor f)) (negb (is_right_anchor f)))).
    assert (HT : nullb T = false).
    { destruct T eqn:E; [|reflexivity]. apply map_eq_nil in E. contradiction. }
    rewrite HT. cbn [andb]. rewrite Hhttp, Hhttps. cbn [andb negb]. rewrite app_nil_r.
    rewrite HT. left. reflexivity.
  - intros k Hk. apply in_map_iff in Hk as (t & <- & Ht).
    unfold probes. apply in_or_app. right. unfold request_tokens. apply in_or_app. left. apply in_map.
    unfold tokenize, tokenize_filter in *.
    rewrite (tk_eq_tku false false url 0 None None 0) by (cbn; exact Hu).
    rewrite (tk_eq_tku _ _ s 0 None None 0) in Ht by (cbn; exact Hs).
    exact (regex_tokens_covered (is_left_anchor f) (is_right_anchor f) s url t Hm Hasc Hns Ht).
Qed.

Example regex_tg_example :
  let s := bs "/banner/*/img^" in let u := bs "https://x.com/banner/a1/img?x" in
  let f := mkr 31 (N.lor M_DEFAULT_OPTIONS M_IS_REGEX) (FSimple s) None None None None None in
  regex_rule f s /\ regex_match f s u = true /\ all_ascii u = true /\ ~ In STAR u /\
  within_cutoff false false u /\ within_cutoff (negb (is_left_anchor f)) (negb (is_right_anchor f)) s /\
  tokenize_filter s (negb (is_left_anchor f)) (negb (is_right_anchor f)) = [bs "banner"; bs "img"].
Proof.
  cbn zeta. split; [|split; [|split; [|split; [|split; [|split]]]]]; try (vm_compute; reflexivity).
  - repeat split; try (vm_compute; reflexivity). vm_compute. discriminate.
  - intros H. vm_compute in H. repeat (destruct H as [H|H]; [discriminate H|]). exact H.
  - unfold within_cutoff. vm_compute. lia.
  - unfold within_cutoff. vm_compute. lia.
Qed.

(* anchored shapes: |pattern^ (left) and pattern^...| (right) *)
Example regex_tg_example_anchored :
  let s1 := bs "https://ads.*/pixel^" in let s2 := bs "/track^id=*.gif" in
  let u := bs "https://ads.x.com/pixel?a=1&/track?id=77.gif" in
  let f1 := mkr 32 (N.lor M_DEFAULT_OPTIONS (N.lor M_IS_REGEX M_IS_LEFT_ANCHOR)) (FSimple s1) None None None None None in
  let f2 := mkr 33 (N.lor M_DEFAULT_OPTIONS (N.lor M_IS_REGEX M_IS_RIGHT_ANCHOR)) (FSimple s2) None None None None None in
  (regex_rule f1 s1 /\ regex_match f1 s1 u = true /\
   tokenize_filter s1 (negb (is_left_anchor f1)) (negb (is_right_anchor f1)) = [bs "https"; bs "ads"; bs "pixel"]) /\
  (regex_rule f2 s2 /\ regex_match f2 s2 u = true /\
   tokenize_filter s2 (negb (is_left_anchor f2)) (negb (is_right_anchor f2)) = [bs "track"; bs "id"; bs "gif"]).
Proof.
  cbn zeta. split; (split; [|split]; try (vm_compute; reflexivity));
    (repeat split; try (vm_compute; reflexivity); vm_compute; discriminate).
Qed.

(* ---------------------------------------------------------------- down to the modelled matcher *)
(* the same guarantee with the premise stated on C02's model of check_pattern (the code path
   check_pattern -> check_pattern_regex_filter -> RegexManager::matches -> compile_regex), the
   regex crate entering through its contract [re_std] for this rule's regex text *)
Section WithRegexCrate.
Variable re_ok : str -> bool.
Variable re_match : str -> str -> bool.

Lemma regex_rule_nonempty f s : regex_rule f s -> s <> [].
Proof. intros (_ & _ & _ & _ & _ & _ & _ & _ & _ & Hne) ->. apply Hne. reflexivity. Qed.

Lemma check_pattern_is_regex_match f s r :
  regex_rule f s -> flag f M_MATCH_CASE = false ->
  C02_Model.re_std re_ok re_match
    (C02_Model.translate s (is_left_anchor f) (is_right_anchor f))
    (is_left_anchor f) (is_right_anchor f) (rtoks s) ->
  C02_Model.no_nl (C02_Model.r_url r) = true ->
  C02_Model.check_pattern re_ok re_match (rmask f) [s] None r
  = regex_match f s (lower_str (C02_Model.r_url r)).
Proof.
  intros Hr Hmc Hre Hnl. pose proof (regex_rule_nonempty f s Hr) as Hne.
  destruct Hr as (_ & _ & _ & _ & Hrx & Hcr & Hha & _).
  unfold C02_Model.check_pattern, C02_Model.check_pattern_sh.
  set (sh := C02_Model.shape_of_mask (rmask f)).
  change (C02_Model.s_hn sh) with (flag f M_IS_HOSTNAME_ANCHOR). rewrite Hha.
  change (C02_Model.s_rx sh) with (is_regex f). rewrite Hrx. cbn [orb].
  unfold C02_Model.check_pattern_regex_filter, C02_Model.check_pattern_regex_filter_at, C02_Model.get_url.
  change (C02_Model.s_mc sh) with (flag f M_MATCH_CASE). rewrite Hmc.
  change (drop 0 (lower_str (C02_Model.r_url r))) with (lower_str (C02_Model.r_url r)).
  unfold regex_match.
  apply (C02_Proofs.regex_tail re_ok re_match sh s (lower_str (C02_Model.r_url r)) Hne Hrx Hcr Hre).
  apply C02_Proofs.no_nl_lower. exact Hnl.
Qed.

Theorem token_guarantee_regex_check_pattern h f s src r :
  regex_rule f s -> flag f M_MATCH_CASE = false ->
  C02_Model.re_std re_ok re_match
    (C02_Model.translate s (is_left_anchor f) (is_right_anchor f))
    (is_left_anchor f) (is_right_anchor f) (rtoks s) ->
  C02_Model.no_nl (C02_Model.r_url r) = true ->
  C02_Model.check_pattern re_ok re_match (rmask f) [s] None r = true ->
  all_ascii (lower_str (C02_Model.r_url r)) = true -> ~ In STAR (lower_str (C02_Model.r_url r)) ->
  within_cutoff false false (lower_str (C02_Model.r_url r)) ->
  within_cutoff (negb (is_left_anchor f)) (negb (is_right_anchor f)) s ->
  covered h (probes h src (lower_str (C02_Model.r_url r))) f.
Proof.
  intros Hr Hmc Hre Hnl Hcp. rewrite (check_pattern_is_regex_match f s r Hr Hmc Hre Hnl) in Hcp.
  apply token_guarantee_regex; assumption.
Qed.
End WithRegexCrate.

(* Filter texts with a backslash: compile_regex used to leave '\' unescaped, so `foo\dbar^` became
   a regex with the digit class \d, matched https://x.com/foo5bar/ and was indexed under the token
   "dbar" which that URL does not have (a lost rule; found by this proof, repaired in /repo 3b0c504).
   The backslash is now escaped like every other metacharacter: the regex text reads the pattern
   literally and the token semantics rejects that URL. *)
Example regex_backslash_escaped :
  C02_Model.translate (bs "foo\dbar^") false false = bs "foo\\dbar(?:[^\w\d\._%-]|$)" /\
  rsearch false false (rtoks (bs "foo\dbar^")) (bs "https://x.com/foo5bar/") = false /\
  rsearch false false (rtoks (bs "foo\dbar^")) (bs "https://x.com/foo\dbar/") = true.
Proof. repeat split; vm_compute; reflexivity. Qed.

(* ---------------------------------------------------------------- TG discharged for lists *)
(* every rule that matches is a plain rule matched by the plain matcher or a regex-type rule
   matched by the token semantics of its text *)
Definition plain_or_regex_hits (matches : rule -> bool) (url : str) (L : list rule) : Prop :=
  forall f, In f L -> matches f = true ->
    exists s, within_cutoff (negb (is_left_anchor f)) (negb (is_right_anchor f)) s /\
      ((plain_rule f s /\ plain_match (is_left_anchor f) (is_right_anchor f) s url = true) \/
       (regex_rule f s /\ regex_match f s url = true)).

Definition regex_hits (matches : rule -> bool) (url : str) (L : list rule) : Prop :=
  forall f, In f L -> matches f = true ->
    exists s, regex_rule f s /\ regex_match f s url = true /\
              within_cutoff (negb (is_left_anchor f)) (negb (is_right_anchor f)) s.

Lemma regex_hits_plain_or_regex matches url L : regex_hits matches url L -> plain_or_regex_hits matches url L.
Proof.
  intros H f Hf Hm. destruct (H f Hf Hm) as (s & Hr & Hrm & Hc). exists s. split; [exact Hc|]. right. split; assumption.
Qed.
Lemma plain_hits_plain_or_regex matches url L : plain_hits matches url L -> plain_or_regex_hits matches url L.
Proof.
  intros H f Hf Hm. destruct (H f Hf Hm) as (s & Hr & Hrm & Hc). exists s. split; [exact Hc|]. left. split; assumption.
Qed.

Theorem TG_plain_or_regex_list h matches src url L :
  within_cutoff false false url -> all_ascii url = true -> ~ In STAR url ->
  plain_or_regex_hits matches url L -> TG h matches (probes h src url) L.
Proof.
  intros Hu Hasc Hns Hp f Hf Hm. destruct (Hp f Hf Hm) as (s & Hs & [[Hpr Hpm]|[Hrr Hrm]]).
  - apply (token_guarantee_plain h f s src url Hpr Hpm Hu Hs).
  - apply (token_guarantee_regex h f s src url Hrr Hrm Hasc Hns Hu Hs).
Qed.

Theorem TG_regex_list h matches src url L :
  within_cutoff false false url -> all_ascii url = true -> ~ In STAR url ->
  regex_hits matches url L -> TG h matches (probes h src url) L.
Proof.
  intros Hu Hasc Hns Hp. apply TG_plain_or_regex_list; auto. apply regex_hits_plain_or_regex. exact Hp.
Qed.

Lemma probes_zero h src url : In 0 (probes h src url).
Proof. unfold probes, request_tokens. apply in_or_app. right. apply in_or_app. right. left. reflexivity. Qed.

(* the engine theorem with the token guarantee proved instead of assumed *)
Theorem engine_eq_spec_plain_or_regex h matches src url L T :
  id_inj L -> within_cutoff false false url -> all_ascii url = true -> ~ In STAR url ->
  plain_or_regex_hits matches url L ->
  blocker_check matches (probes h src url) (tags_with_set h (blocker_new h L) T) = spec_verdict matches L T.
Proof.
  intros Hi Hu Hasc Hns Hp. apply engine_eq_spec; auto.
  - apply probes_zero.
  - apply TG_plain_or_regex_list; auto.
Qed.

(* the same for the subset query (matched_rule / force_check_exceptions) *)
Theorem engine_eq_spec_p_plain_or_regex h matches src url mr fc L T :
  id_inj L -> within_cutoff false false url -> all_ascii url = true -> ~ In STAR url ->
  plain_or_regex_hits matches url L ->
  blocker_check_p matches (probes h src url) mr fc (tags_with_set h (blocker_new h L) T)
  = spec_verdict_p matches mr fc L T.
Proof.
  intros Hi Hu Hasc Hns Hp. apply engine_eq_spec_p; auto.
  - apply probes_zero.
  - apply TG_plain_or_regex_list; auto.
Qed.

(* non-vacuity of the list-level premises: a list with a regex-type rule and a plain rule that both
   match, a regex-type rule and a plain rule that do not, and a matcher that is the modelled one *)
Definition ex_matcher (url : str) (f : rule) : bool :=
  match rfilter f with
  | FSimple s => if is_regex f then regex_match f s url
                 else plain_match (is_left_anchor f) (is_right_anchor f) s url
  | _ => false
  end.
Example plain_or_regex_list_example :
  let u := bs "https://x.com/banner/a1/img?x" in
  let L := [ mkr 31 (N.lor M_DEFAULT_OPTIONS M_IS_REGEX) (FSimple (bs "/banner/*/img^")) None None None None None;
             mkr 32 M_DEFAULT_OPTIONS (FSimple (bs "/banner/a1")) None None None None None;
             mkr 33 (N.lor M_DEFAULT_OPTIONS M_IS_REGEX) (FSimple (bs "/banner^*.gif")) None None None None None;
             mkr 34 M_DEFAULT_OPTIONS (FSimple (bs "/banner/x2")) None None None None None ] in
  plain_or_regex_hits (ex_matcher u) u L /\ id_inj L /\ within_cutoff false false u /\
  all_ascii u = true /\ ~ In STAR u /\ map (ex_matcher u) L = [true; true; false; false].
Proof.
  cbn zeta. split; [|split; [|split; [|split; [|split]]]].
  - intros f [<-|[<-|[<-|[<-|[]]]]] Hm; try (vm_compute in Hm; discriminate Hm).
    + exists (bs "/banner/*/img^"). split; [unfold within_cutoff; vm_compute; lia|]. right. split; [|vm_compute; reflexivity].
      repeat split; try (vm_compute; reflexivity). vm_compute. discriminate.
    + exists (bs "/banner/a1"). split; [unfold within_cutoff; vm_compute; lia|]. left. split; [|vm_compute; reflexivity].
      repeat split; try (vm_compute; reflexivity). vm_compute. discriminate.
  - intros f g Hf Hg E.
    destruct Hf as [<-|[<-|[<-|[<-|[]]]]]; destruct Hg as [<-|[<-|[<-|[<-|[]]]]];
      try reflexivity; vm_compute in E; discriminate E.
  - unfold within_cutoff. vm_compute. lia.
  - vm_compute. reflexivity.
  - intros H. vm_compute in H. repeat (destruct H as [H|H]; [discriminate H|]). exact H.
  - vm_compute. reflexivity.
Qed.
