(* C18_Proofs.v — lemmas and proofs for property C18 (scriptlets and permissions). *)
From Adb Require Import Base BaseProofs Generated C18_Model.
From Coq Require Import ZifyBool ZifyNat ZifyN Permutation.
Open Scope N_scope.

(* ------------------------------------------------------------------------------------------ *)
(** * A. is_injectable_by = bit subset (65 536 cases by computation, bound in the statement) *)

Definition range256 : list N := map N.of_nat (seq 0 256).
Definition bits8 : list N := [0; 1; 2; 3; 4; 5; 6; 7].
Definition subsetb (r f : N) : bool :=
  forallb (fun i => implb (N.testbit r i) (N.testbit f i)) bits8.

Lemma in_range256 n : n < 256 -> In n range256.
Proof.
  intros Hn. unfold range256. rewrite <- (N2Nat.id n). apply in_map. apply in_seq. lia.
Qed.

Lemma inj_table :
  forallb (fun r => forallb (fun f => Bool.eqb (is_injectable_by r f) (subsetb r f)) range256)
          range256 = true.
Proof. vm_compute. reflexivity. Qed.

Lemma inj_subsetb r f : r < 256 -> f < 256 -> is_injectable_by r f = subsetb r f.
Proof.
  intros Hr Hf. pose proof inj_table as T. rewrite forallb_forall in T.
  specialize (T r (in_range256 r Hr)). rewrite forallb_forall in T.
  specialize (T f (in_range256 f Hf)). apply Bool.eqb_prop in T. exact T.
Qed.

Lemma testbit_high r i : r < 256 -> 8 <= i -> N.testbit r i = false.
Proof.
  intros Hr Hi. rewrite <- (N.mod_small r (2 ^ 8)) by (change (2 ^ 8) with 256; exact Hr).
  apply N.mod_pow2_bits_high. exact Hi.
Qed.

Lemma in_bits8 i : i < 8 -> In i bits8.
Proof.
  intros Hi. unfold bits8.
  assert (H : i = 0 \/ i = 1 \/ i = 2 \/ i = 3 \/ i = 4 \/ i = 5 \/ i = 6 \/ i = 7) by lia.
  simpl. intuition.
Qed.

Lemma subsetb_spec r f : r < 256 -> (subsetb r f = true <-> bit_subset r f).
Proof.
  intros Hr. unfold subsetb, bit_subset. rewrite forallb_forall. split.
  - intros H i Hi. destruct (N.lt_ge_cases i 8) as [Hlt | Hge].
    + specialize (H i (in_bits8 i Hlt)). rewrite Hi in H. exact H.
    + rewrite (testbit_high r i Hr Hge) in Hi. discriminate.
  - intros H i _. destruct (N.testbit r i) eqn:E; [ | reflexivity ].
    rewrite (H i E). reflexivity.
Qed.

Lemma injectable_iff_subset r f :
  r < 256 -> f < 256 -> (is_injectable_by r f = true <-> bit_subset r f).
Proof.
  intros Hr Hf. rewrite (inj_subsetb r f Hr Hf). apply subsetb_spec. exact Hr.
Qed.

(* 0 requires nothing; 255 grants everything *)
Lemma injectable_no_requirement f : f < 256 -> is_injectable_by 0 f = true.
Proof. intros Hf. apply injectable_iff_subset; [ lia | exact Hf | ]. intros i Hi. rewrite N.bits_0 in Hi. discriminate. Qed.

Example injectable_ex : is_injectable_by 5 7 = true /\ is_injectable_by 5 6 = false.
Proof. split; reflexivity. Qed.

(* ------------------------------------------------------------------------------------------ *)
(** * B. stringify_arg *)

(* what write_string_complex emits for one byte *)
Definition enc_byte (ch : N) : str :=
  let escape := esc_of ch in
  if 0 <? escape
  then [c18_ESC_PREFIX; escape] ++ (if escape =? c18_ESC_HEX_TRIGGER then fmt_04x ch else [])
  else if escape =? c18_ESC_HEX_TRIGGER then ch :: fmt_04x ch   (* unreachable: the trigger is > 0 *)
  else [ch].
Definition enc_bytes (s : str) : str := flat_map enc_byte s.

Lemma trigger_pos : 0 <? c18_ESC_HEX_TRIGGER = true.
Proof. reflexivity. Qed.

Lemma enc_bytes_cons c r : enc_bytes (c :: r) = enc_byte c ++ enc_bytes r.
Proof. reflexivity. Qed.

Lemma not_pos_not_trigger e : 0 <? e = false -> e =? c18_ESC_HEX_TRIGGER = false.
Proof.
  intros H. apply N.ltb_ge in H. apply N.eqb_neq. pose proof trigger_pos as T.
  apply N.ltb_lt in T. lia.
Qed.

Lemma enc_byte_pos ch : 0 <? esc_of ch = true ->
  enc_byte ch = [c18_ESC_PREFIX; esc_of ch] ++
                (if esc_of ch =? c18_ESC_HEX_TRIGGER then fmt_04x ch else []).
Proof. intros H. unfold enc_byte. rewrite H. reflexivity. Qed.

Lemma enc_byte_zero ch : 0 <? esc_of ch = false -> enc_byte ch = [ch].
Proof. intros H. unfold enc_byte. rewrite H, (not_pos_not_trigger _ H). reflexivity. Qed.

Lemma slice_snoc (p1 p2 rest : str) (ch : N) :
  slice (p1 ++ p2 ++ ch :: rest) (length p1) (S (length (p1 ++ p2))) = p2 ++ [ch].
Proof.
  unfold slice. rewrite drop_app_length. rewrite app_length.
  replace (S (length p1 + length p2) - length p1)%nat with (length (p2 ++ [ch])) by (rewrite app_length; cbn [length]; lia).
  change (p2 ++ ch :: rest) with (p2 ++ [ch] ++ rest). rewrite app_assoc. apply take_app_length.
Qed.

Lemma slice_mid (p1 p2 rest : str) :
  slice (p1 ++ p2 ++ rest) (length p1) (length (p1 ++ p2)) = p2.
Proof.
  unfold slice. rewrite drop_app_length. rewrite app_length.
  replace (length p1 + length p2 - length p1)%nat with (length p2) by lia. apply take_app_length.
Qed.

(* loop invariant: [p2] = the pending bytes s[start..index], none of which needs escaping *)
Lemma wsc_loop_spec : forall (rest p1 p2 out : str),
  forallb (fun c => negb (0 <? esc_of c)) p2 = true ->
  let s := p1 ++ p2 ++ rest in
  let '(o, st) := wsc_loop s rest (length (p1 ++ p2)) (length p1) out in
  o ++ drop st s = out ++ p2 ++ enc_bytes rest.
Proof.
  induction rest as [ | ch rest IH ]; intros p1 p2 out Hp2; cbn zeta.
  - cbn [wsc_loop enc_bytes flat_map]. rewrite !app_nil_r. rewrite drop_app_length. reflexivity.
  - cbn [wsc_loop]. destruct (0 <? esc_of ch) eqn:Epos.
    + (* escaped byte: flush the pending slice *)
      rewrite slice_mid.
      set (out1 := out ++ p2 ++ [c18_ESC_PREFIX; esc_of ch]).
      set (out2 := if esc_of ch =? c18_ESC_HEX_TRIGGER then out1 ++ fmt_04x ch else out1).
      specialize (IH (p1 ++ p2 ++ [ch]) [] out2 eq_refl). cbn zeta in IH.
      rewrite app_nil_r in IH.
      replace ((p1 ++ p2 ++ [ch]) ++ [] ++ rest) with (p1 ++ p2 ++ ch :: rest) in IH
        by (cbn [app]; rewrite <- !app_assoc; reflexivity).
      replace (length (p1 ++ p2 ++ [ch])) with (S (length (p1 ++ p2))) in IH
        by (rewrite !app_length; cbn [length]; lia).
      destruct (wsc_loop (p1 ++ p2 ++ ch :: rest) rest (S (length (p1 ++ p2))) (S (length (p1 ++ p2))) out2) as [o st].
      rewrite IH. cbn [app]. unfold out2, out1. rewrite enc_bytes_cons, (enc_byte_pos ch Epos).
      destruct (esc_of ch =? c18_ESC_HEX_TRIGGER); rewrite <- ?app_assoc; reflexivity.
    + (* plain byte: stays pending *)
      rewrite (not_pos_not_trigger _ Epos).
      specialize (IH p1 (p2 ++ [ch]) out). cbn zeta in IH.
      replace (p1 ++ (p2 ++ [ch]) ++ rest) with (p1 ++ p2 ++ ch :: rest) in IH
        by (rewrite <- !app_assoc; reflexivity).
      replace (length (p1 ++ p2 ++ [ch])) with (S (length (p1 ++ p2))) in IH
        by (rewrite !app_length; cbn [length]; lia).
      assert (Hp : forallb (fun c => negb (0 <? esc_of c)) (p2 ++ [ch]) = true).
      { rewrite forallb_app, Hp2. cbn [forallb]. rewrite Epos. reflexivity. }
      specialize (IH Hp).
      destruct (wsc_loop (p1 ++ p2 ++ ch :: rest) rest (S (length (p1 ++ p2))) (length p1) out) as [o st].
      rewrite IH. rewrite enc_bytes_cons, (enc_byte_zero ch Epos).
      rewrite <- !app_assoc. reflexivity.
Qed.

Lemma enc_bytes_plain p : forallb (fun c => negb (0 <? esc_of c)) p = true -> enc_bytes p = p.
Proof.
  induction p as [ | c p IH ]; intros H; [ reflexivity | ].
  cbn [forallb] in H. apply andb_prop in H as [Hc Hp]. rewrite enc_bytes_cons, (IH Hp).
  apply Bool.negb_true_iff in Hc. rewrite (enc_byte_zero c Hc). reflexivity.
Qed.

Lemma enc_bytes_app a b : enc_bytes (a ++ b) = enc_bytes a ++ enc_bytes b.
Proof. unfold enc_bytes. apply flat_map_app. Qed.

Lemma write_string_complex_spec out p rest :
  forallb (fun c => negb (0 <? esc_of c)) p = true ->
  write_string_complex out (p ++ rest) (length p) = out ++ enc_bytes (p ++ rest).
Proof.
  intros Hp. unfold write_string_complex. rewrite take_app_length, drop_app_length.
  pose proof (wsc_loop_spec rest p [] (out ++ p) eq_refl) as H. cbn zeta in H.
  rewrite app_nil_r in H. cbn [app] in H.
  destruct (wsc_loop (p ++ rest) rest (length p) (length p) (out ++ p)) as [o st].
  rewrite H. rewrite enc_bytes_app, (enc_bytes_plain p Hp). rewrite <- !app_assoc. reflexivity.
Qed.

Lemma first_escaped_spec : forall s k,
  match first_escaped s k with
  | Some i => exists p rest, s = p ++ rest /\ i = (k + length p)%nat /\
                             forallb (fun c => negb (0 <? esc_of c)) p = true
  | None => forallb (fun c => negb (0 <? esc_of c)) s = true
  end.
Proof.
  induction s as [ | c s IH ]; intros k; cbn [first_escaped]; [ reflexivity | ].
  destruct (0 <? esc_of c) eqn:E.
  - exists [], (c :: s). repeat split. simpl. lia.
  - specialize (IH (S k)). destruct (first_escaped s (S k)) as [ i | ].
    + destruct IH as (p & rest & Hs & Hi & Hp). exists (c :: p), rest. repeat split.
      * rewrite Hs. reflexivity.
      * simpl. lia.
      * cbn [forallb]. rewrite E, Hp. reflexivity.
    + cbn [forallb]. rewrite E, IH. reflexivity.
Qed.

(* stringify_arg is the per-byte encoding, between quotes when QUOTED *)
Lemma stringify_arg_spec q a :
  stringify_arg q a = (if q then [DQUOTE] else []) ++ enc_bytes a ++ (if q then [DQUOTE] else []).
Proof.
  unfold stringify_arg. pose proof (first_escaped_spec a O) as H.
  destruct (first_escaped a O) as [ i | ].
  - destruct H as (p & rest & Hs & Hi & Hp). subst a. simpl in Hi. subst i.
    rewrite (write_string_complex_spec _ p rest Hp).
    destruct q; rewrite <- ?app_assoc, ?app_nil_r; reflexivity.
  - rewrite (enc_bytes_plain a H). destruct q; rewrite <- ?app_assoc, ?app_nil_r; reflexivity.
Qed.

(* ---- the L0 recogniser reads the encoding of every byte back (256 cases by computation) ---- *)

Definition dec_check (c : N) : bool :=
  match enc_byte c with
  | [x] => (x =? c) && negb (x =? 34) && negb (x =? 92) && negb (x <? 32)
  | [b; e] => (b =? 92) && match simple_escape e with Some v => v =? c | None => false end
  | [b; e; h1; h2; h3; h4] =>
      (b =? 92) && (e =? 117) &&
      match simple_escape e with Some _ => false | None => true end &&
      match hex4 h1 h2 h3 h4 with
      | Some v => (v =? c) && match utf8_of_unit v with Some [u] => u =? c | _ => false end
      | None => false
      end
  | _ => false
  end.

Lemma dec_table : forallb dec_check range256 = true.
Proof. vm_compute. reflexivity. Qed.

Lemma escaped_length : length c18_ESCAPED = 256%nat.
Proof. reflexivity. Qed.

Lemma esc_of_high c : 256 <= c -> esc_of c = 0.
Proof. intros H. unfold esc_of. apply nth_overflow. rewrite escaped_length. lia. Qed.

Lemma push_push u v o : push u (push v o) = push (u ++ v) o.
Proof. destruct o as [ [d r] | ]; cbn [push]; [ rewrite app_assoc | ]; reflexivity. Qed.

Lemma js_body_plain x rest :
  x =? 34 = false -> x =? 92 = false -> x <? 32 = false ->
  js_body (x :: rest) = push [x] (js_body rest).
Proof. intros H1 H2 H3. cbn [js_body]. rewrite H1, H2, H3. reflexivity. Qed.

Lemma js_body_enc_byte c rest : js_body (enc_byte c ++ rest) = push [c] (js_body rest).
Proof.
  destruct (N.lt_ge_cases c 256) as [Hlt | Hge].
  - pose proof dec_table as T. rewrite forallb_forall in T. specialize (T c (in_range256 c Hlt)).
    unfold dec_check in T.
    destruct (enc_byte c) as [ | x [ | e [ | h1 [ | h2 [ | h3 [ | h4 [ | ? ? ] ] ] ] ] ] ];
      try discriminate T.
    + apply andb_prop in T as [T T4]. apply andb_prop in T as [T T3]. apply andb_prop in T as [T1 T2].
      apply N.eqb_eq in T1. subst x. apply Bool.negb_true_iff in T2, T3, T4.
      cbn [app]. apply js_body_plain; assumption.
    + apply andb_prop in T as [T1 T2]. apply N.eqb_eq in T1. subst x.
      destruct (simple_escape e) as [ v | ] eqn:Ee; [ | discriminate T2 ].
      apply N.eqb_eq in T2. subst v. cbn [app js_body].
      change (92 =? 34) with false. change (92 =? 92) with true. cbn iota. rewrite Ee. reflexivity.
    + apply andb_prop in T as [T T4]. apply andb_prop in T as [T T3]. apply andb_prop in T as [T1 T2].
      apply N.eqb_eq in T1. subst x.
      destruct (simple_escape e) as [ v | ] eqn:Ee; [ discriminate T3 | ].
      destruct (hex4 h1 h2 h3 h4) as [ v | ] eqn:Eh; [ | discriminate T4 ].
      apply andb_prop in T4 as [T4 T5]. apply N.eqb_eq in T4. subst v.
      destruct (utf8_of_unit c) as [ [ | u [ | ? ? ] ] | ] eqn:Eu; try discriminate T5.
      apply N.eqb_eq in T5. subst u. cbn [app js_body].
      change (92 =? 34) with false. change (92 =? 92) with true. cbn iota.
      rewrite Ee, T2, Eh, Eu. reflexivity.
  - assert (E0 : 0 <? esc_of c = false) by (rewrite (esc_of_high c Hge); reflexivity).
    rewrite (enc_byte_zero c E0). cbn [app]. apply js_body_plain; lia.
Qed.

Lemma js_body_enc_bytes : forall a rest, js_body (enc_bytes a ++ rest) = push a (js_body rest).
Proof.
  induction a as [ | c a IH ]; intros rest.
  - cbn [enc_bytes flat_map app]. destruct (js_body rest) as [ [d r] | ]; reflexivity.
  - rewrite enc_bytes_cons, <- app_assoc, js_body_enc_byte, IH, push_push. reflexivity.
Qed.

(* the central theorem: the quoted form is a literal whose value is the argument, and the literal
   ends exactly where the emitted text ends, whatever follows *)
Lemma stringify_faithful_ctx a rest :
  js_string_literal_parse (stringify_arg true a ++ rest) = Some (a, rest).
Proof.
  rewrite stringify_arg_spec. unfold DQUOTE. cbn [app js_string_literal_parse].
  change (34 =? 34) with true. cbn iota. rewrite <- app_assoc, js_body_enc_bytes.
  cbn [app js_body]. change (34 =? 34) with true. cbn iota. cbn [push]. rewrite app_nil_r. reflexivity.
Qed.

Lemma stringify_faithful a : js_string_literal_parse (stringify_arg true a) = Some (a, []).
Proof. rewrite <- (app_nil_r (stringify_arg true a)). apply stringify_faithful_ctx. Qed.

(* the unquoted form, placed anywhere inside a double-quoted literal, contributes exactly the
   argument and leaves the recogniser inside the literal *)
Lemma stringify_unquoted_inside a rest :
  js_body (stringify_arg false a ++ rest) = push a (js_body rest).
Proof. rewrite stringify_arg_spec. cbn [app]. rewrite app_nil_r. apply js_body_enc_bytes. Qed.

(* direct formulation: scanning left to right, a backslash always has a partner, and outside
   such pairs there is no double quote and no control byte *)
Definition plain (c : N) : bool := negb (c =? 92) && negb (c =? 34) && negb (c <? 32).
Fixpoint no_unescaped (s : str) : bool :=
  match s with
  | [] => true
  | c :: r => if c =? 92 then match r with [] => false | _ :: r' => no_unescaped r' end
              else negb (c =? 34) && negb (c <? 32) && no_unescaped r
  end.

Lemma no_unescaped_plain : forall p rest,
  forallb plain p = true -> no_unescaped (p ++ rest) = no_unescaped rest.
Proof.
  induction p as [ | c p IH ]; intros rest H; [ reflexivity | ].
  cbn [forallb] in H. apply andb_prop in H as [Hc Hp]. unfold plain in Hc.
  apply andb_prop in Hc as [Hc H3]. apply andb_prop in Hc as [H1 H2].
  apply Bool.negb_true_iff in H1. cbn [app no_unescaped]. rewrite H1, H2, H3, (IH rest Hp). reflexivity.
Qed.

Definition unesc_check (c : N) : bool :=
  match enc_byte c with
  | [x] => plain x
  | b :: e :: tl => (b =? 92) && forallb plain tl
  | [] => false
  end.
Lemma unesc_table : forallb unesc_check range256 = true.
Proof. vm_compute. reflexivity. Qed.

Lemma no_unescaped_enc_byte c rest : no_unescaped (enc_byte c ++ rest) = no_unescaped rest.
Proof.
  destruct (N.lt_ge_cases c 256) as [Hlt | Hge].
  - pose proof unesc_table as T. rewrite forallb_forall in T. specialize (T c (in_range256 c Hlt)).
    unfold unesc_check in T. destruct (enc_byte c) as [ | x [ | e tl ] ]; [ discriminate T | | ].
    + apply (no_unescaped_plain [x]). cbn [forallb]. rewrite T. reflexivity.
    + apply andb_prop in T as [T1 T2]. cbn [app no_unescaped]. rewrite T1.
      apply no_unescaped_plain. exact T2.
  - assert (E0 : 0 <? esc_of c = false) by (rewrite (esc_of_high c Hge); reflexivity).
    rewrite (enc_byte_zero c E0). apply (no_unescaped_plain [c]). cbn [forallb]. unfold plain.
    rewrite Bool.andb_true_r. repeat (apply andb_true_intro; split); apply Bool.negb_true_iff; lia.
Qed.

Lemma stringify_unquoted_no_unescaped a : no_unescaped (stringify_arg false a) = true.
Proof.
  rewrite stringify_arg_spec. cbn [app]. rewrite app_nil_r.
  induction a as [ | c a IH ]; [ reflexivity | ].
  rewrite enc_bytes_cons, no_unescaped_enc_byte. exact IH.
Qed.

(* every backslash of the unquoted form starts one of the escapes: no lone backslash can swallow
   the closing quote of the surrounding literal *)
Definition escape_wf (s : str) : bool :=
  match js_body (s ++ [34]) with Some (_, []) => true | _ => false end.
Lemma stringify_unquoted_wf a : escape_wf (stringify_arg false a) = true.
Proof.
  unfold escape_wf. rewrite stringify_unquoted_inside. cbn [js_body].
  change (34 =? 34) with true. cbn iota. cbn [push]. reflexivity.
Qed.

(* ---- the argument list of an invocation ---- *)

(* L0: lit {", " lit} ")" *)
Fixpoint parse_lits (fuel : nat) (s : str) : option (list str) :=
  match fuel with
  | O => None
  | S f =>
      match js_string_literal_parse s with
      | Some (v, r) =>
          match r with
          | [c] => if c =? 41 then Some [v] else None
          | c :: d :: r' =>
              if (c =? 44) && (d =? 32)
              then match parse_lits f r' with Some l => Some (v :: l) | None => None end
              else None
          | [] => None
          end
      | None => None
      end
  end.

Lemma parse_lits_last f a : parse_lits (S f) (stringify_arg true a ++ [RPAR]) = Some [a].
Proof.
  cbn [parse_lits]. rewrite stringify_faithful_ctx. unfold RPAR. change (41 =? 41) with true.
  reflexivity.
Qed.

Lemma parse_lits_step f a tail :
  parse_lits (S f) (stringify_arg true a ++ COMMA_SP ++ tail) =
  match parse_lits f tail with Some l => Some (a :: l) | None => None end.
Proof.
  cbn [parse_lits]. rewrite stringify_faithful_ctx. unfold COMMA_SP. cbn [app].
  change (44 =? 44) with true. change (32 =? 32) with true. reflexivity.
Qed.

Lemma invocation_args_faithful : forall args, args <> [] ->
  parse_lits (length args) (join_with COMMA_SP (map (stringify_arg true) args) ++ [RPAR]) = Some args.
Proof.
  induction args as [ | a args IH ]; intros Hne; [ congruence | ].
  destruct args as [ | b args ].
  - cbn [map join_with length]. apply parse_lits_last.
  - specialize (IH ltac:(discriminate)).
    change (join_with COMMA_SP (map (stringify_arg true) (a :: b :: args)))
      with (stringify_arg true a ++ COMMA_SP ++ join_with COMMA_SP (map (stringify_arg true) (b :: args))).
    change (length (a :: b :: args)) with (S (length (b :: args))).
    rewrite <- !app_assoc, parse_lits_step, IH. reflexivity.
Qed.

Example stringify_ex :
  stringify_arg true (bs "a""b\" ++ [10; 1; 226; 128; 168]) = bs """a\""b\\\n\u0001" ++ [226; 128; 168; 34].
Proof. vm_compute. reflexivity. Qed.
