(* C18_Proofs.v — lemmas and proofs for property C18 (scriptlets and permissions). *)
From Adb Require Import Base BaseProofs Generated C18_Model.
From Coq Require Import ZifyBool ZifyNat ZifyN Permutation.
Open Scope N_scope.

(* ------------------------------------------------------------------------------------------ *)
(** * A. is_injectable_by = bit subset (65 536 cases by computation, bound in the statement) *)

Definition range256 : list N := map N.of_nat (seq 0 256).
Definition bits8 : list N := [0; 1; 2; 3; 4; 5; 6; 7].
Definition subsetb (r f : N) : bool :=
  forallb (fun i => implb (N.testbit r i) (N.testbit f i)) bits8.

Lemma in_range256 n : n < 256 -> In n range256.
Proof.
  intros Hn. unfold range256. rewrite <- (N2Nat.id n). apply in_map. apply in_seq. lia.
Qed.

Lemma inj_table :
  forallb (fun r => forallb (fun f => Bool.eqb (is_injectable_by r f) (subsetb r f)) range256)
          range256 = true.
Proof. vm_compute. reflexivity. Qed.

Lemma inj_subsetb r f : r < 256 -> f < 256 -> is_injectable_by r f = subsetb r f.
Proof.
  intros Hr Hf. pose proof inj_table as T. rewrite forallb_forall in T.
  specialize (T r (in_range256 r Hr)). rewrite forallb_forall in T.
  specialize (T f (in_range256 f Hf)). apply Bool.eqb_prop in T. exact T.
Qed.

Lemma testbit_high r i : r < 256 -> 8 <= i -> N.testbit r i = false.
Proof.
  intros Hr Hi. rewrite <- (N.mod_small r (2 ^ 8)) by (change (2 ^ 8) with 256; exact Hr).
  apply N.mod_pow2_bits_high. exact Hi.
Qed.

Lemma in_bits8 i : i < 8 -> In i bits8.
Proof.
  intros Hi. unfold bits8.
  assert (H : i = 0 \/ i = 1 \/ i = 2 \/ i = 3 \/ i = 4 \/ i = 5 \/ i = 6 \/ i = 7) by lia.
  simpl. intuition.
Qed.

Lemma subsetb_spec r f : r < 256 -> (subsetb r f = true <-> bit_subset r f).
Proof.
  intros Hr. unfold subsetb, bit_subset. rewrite forallb_forall. split.
  - intros H i Hi. destruct (N.lt_ge_cases i 8) as [Hlt | Hge].
    + specialize (H i (in_bits8 i Hlt)). rewrite Hi in H. exact H.
    + rewrite (testbit_high r i Hr Hge) in Hi. discriminate.
  - intros H i _. destruct (N.testbit r i) eqn:E; [ | reflexivity ].
    rewrite (H i E). reflexivity.
Qed.

Lemma injectable_iff_subset r f :
  r < 256 -> f < 256 -> (is_injectable_by r f = true <-> bit_subset r f).
Proof.
  intros Hr Hf. rewrite (inj_subsetb r f Hr Hf). apply subsetb_spec. exact Hr.
Qed.

(* 0 requires nothing; 255 grants everything *)
Lemma injectable_no_requirement f : f < 256 -> is_injectable_by 0 f = true.
Proof. intros Hf. apply injectable_iff_subset; [ lia | exact Hf | ]. intros i Hi. rewrite N.bits_0 in Hi. discriminate. Qed.

Example injectable_ex : is_injectable_by 5 7 = true /\ is_injectable_by 5 6 = false.
Proof. split; reflexivity. Qed.

(* ------------------------------------------------------------------------------------------ *)
(** * B. stringify_arg *)

(* what write_string_complex emits for one byte *)
Definition enc_byte (ch : N) : str :=
  let escape := esc_of ch in
  if 0 <? escape
  then [c18_ESC_PREFIX; escape] ++ (if escape =? c18_ESC_HEX_TRIGGER then fmt_04x ch else [])
  else if escape =? c18_ESC_HEX_TRIGGER then ch :: fmt_04x ch   (* unreachable: the trigger is > 0 *)
  else [ch].
Definition enc_bytes (s : str) : str := flat_map enc_byte s.

Lemma trigger_pos : 0 <? c18_ESC_HEX_TRIGGER = true.
Proof. reflexivity. Qed.

Lemma enc_bytes_cons c r : enc_bytes (c :: r) = enc_byte c ++ enc_bytes r.
Proof. reflexivity. Qed.

Lemma not_pos_not_trigger e : 0 <? e = false -> e =? c18_ESC_HEX_TRIGGER = false.
Proof.
  intros H. apply N.ltb_ge in H. apply N.eqb_neq. pose proof trigger_pos as T.
  apply N.ltb_lt in T. lia.
Qed.

Lemma enc_byte_pos ch : 0 <? esc_of ch = true ->
  enc_byte ch = [c18_ESC_PREFIX; esc_of ch] ++
                (if esc_of ch =? c18_ESC_HEX_TRIGGER then fmt_04x ch else []).
Proof. intros H. unfold enc_byte. rewrite H. reflexivity. Qed.

Lemma enc_byte_zero ch : 0 <? esc_of ch = false -> enc_byte ch = [ch].
Proof. intros H. unfold enc_byte. rewrite H, (not_pos_not_trigger _ H). reflexivity. Qed.

Lemma slice_snoc (p1 p2 rest : str) (ch : N) :
  slice (p1 ++ p2 ++ ch :: rest) (length p1) (S (length (p1 ++ p2))) = p2 ++ [ch].
Proof.
  unfold slice. rewrite drop_app_length. rewrite app_length.
  replace (S (length p1 + length p2) - length p1)%nat with (length (p2 ++ [ch])) by (rewrite app_length; cbn [length]; lia).
  change (p2 ++ ch :: rest) with (p2 ++ [ch] ++ rest). rewrite app_assoc. apply take_app_length.
Qed.

Lemma slice_mid (p1 p2 rest : str) :
  slice (p1 ++ p2 ++ rest) (length p1) (length (p1 ++ p2)) = p2.
Proof.
  unfold slice. rewrite drop_app_length. rewrite app_length.
  replace (length p1 + length p2 - length p1)%nat with (length p2) by lia. apply take_app_length.
Qed.

(* loop invariant: [p2] = the pending bytes s[start..index], none of which needs escaping *)
Lemma wsc_loop_spec : forall (rest p1 p2 out : str),
  forallb (fun c => negb (0 <? esc_of c)) p2 = true ->
  let s := p1 ++ p2 ++ rest in
  let '(o, st) := wsc_loop s rest (length (p1 ++ p2)) (length p1) out in
  o ++ drop st s = out ++ p2 ++ enc_bytes rest.
Proof.
  induction rest as [ | ch rest IH ]; intros p1 p2 out Hp2; cbn zeta.
  - cbn [wsc_loop enc_bytes flat_map]. rewrite !app_nil_r. rewrite drop_app_length. reflexivity.
  - cbn [wsc_loop]. destruct (0 <? esc_of ch) eqn:Epos.
    + (* escaped byte: flush the pending slice *)
      rewrite slice_mid.
      set (out1 := out ++ p2 ++ [c18_ESC_PREFIX; esc_of ch]).
      set (out2 := if esc_of ch =? c18_ESC_HEX_TRIGGER then out1 ++ fmt_04x ch else out1).
      specialize (IH (p1 ++ p2 ++ [ch]) [] out2 eq_refl). cbn zeta in IH.
      rewrite app_nil_r in IH.
      replace ((p1 ++ p2 ++ [ch]) ++ [] ++ rest) with (p1 ++ p2 ++ ch :: rest) in IH
        by (cbn [app]; rewrite <- !app_assoc; reflexivity).
      replace (length (p1 ++ p2 ++ [ch])) with (S (length (p1 ++ p2))) in IH
        by (rewrite !app_length; cbn [length]; lia).
      destruct (wsc_loop (p1 ++ p2 ++ ch :: rest) rest (S (length (p1 ++ p2))) (S (length (p1 ++ p2))) out2) as [o st].
      rewrite IH. cbn [app]. unfold out2, out1. rewrite enc_bytes_cons, (enc_byte_pos ch Epos).
      destruct (esc_of ch =? c18_ESC_HEX_TRIGGER); rewrite <- ?app_assoc; reflexivity.
    + (* plain byte: stays pending *)
      rewrite (not_pos_not_trigger _ Epos).
      specialize (IH p1 (p2 ++ [ch]) out). cbn zeta in IH.
      replace (p1 ++ (p2 ++ [ch]) ++ rest) with (p1 ++ p2 ++ ch :: rest) in IH
        by (rewrite <- !app_assoc; reflexivity).
      replace (length (p1 ++ p2 ++ [ch])) with (S (length (p1 ++ p2))) in IH
        by (rewrite !app_length; cbn [length]; lia).
      assert (Hp : forallb (fun c => negb (0 <? esc_of c)) (p2 ++ [ch]) = true).
      { rewrite forallb_app, Hp2. cbn [forallb]. rewrite Epos. reflexivity. }
      specialize (IH Hp).
      destruct (wsc_loop (p1 ++ p2 ++ ch :: rest) rest (S (length (p1 ++ p2))) (length p1) out) as [o st].
      rewrite IH. rewrite enc_bytes_cons, (enc_byte_zero ch Epos).
      rewrite <- !app_assoc. reflexivity.
Qed.

Lemma enc_bytes_plain p : forallb (fun c => negb (0 <? esc_of c)) p = true -> enc_bytes p = p.
Proof.
  induction p as [ | c p IH ]; intros H; [ reflexivity | ].
  cbn [forallb] in H. apply andb_prop in H as [Hc Hp]. rewrite enc_bytes_cons, (IH Hp).
  apply Bool.negb_true_iff in Hc. rewrite (enc_byte_zero c Hc). reflexivity.
Qed.

Lemma enc_bytes_app a b : enc_bytes (a ++ b) = enc_bytes a ++ enc_bytes b.
Proof. unfold enc_bytes. apply flat_map_app. Qed.

Lemma write_string_complex_spec out p rest :
  forallb (fun c => negb (0 <? esc_of c)) p = true ->
  write_string_complex out (p ++ rest) (length p) = out ++ enc_bytes (p ++ rest).
Proof.
  intros Hp. unfold write_string_complex. rewrite take_app_length, drop_app_length.
  pose proof (wsc_loop_spec rest p [] (out ++ p) eq_refl) as H. cbn zeta in H.
  rewrite app_nil_r in H. cbn [app] in H.
  destruct (wsc_loop (p ++ rest) rest (length p) (length p) (out ++ p)) as [o st].
  rewrite H. rewrite enc_bytes_app, (enc_bytes_plain p Hp). rewrite <- !app_assoc. reflexivity.
Qed.

Lemma first_escaped_spec : forall s k,
  match first_escaped s k with
  | Some i => exists p rest, s = p ++ rest /\ i = (k + length p)%nat /\
                             forallb (fun c => negb (0 <? esc_of c)) p = true
  | None => forallb (fun c => negb (0 <? esc_of c)) s = true
  end.
Proof.
  induction s as [ | c s IH ]; intros k; cbn [first_escaped]; [ reflexivity | ].
  destruct (0 <? esc_of c) eqn:E.
  - exists [], (c :: s). repeat split. simpl. lia.
  - specialize (IH (S k)). destruct (first_escaped s (S k)) as [ i | ].
    + destruct IH as (p & rest & Hs & Hi & Hp). exists (c :: p), rest. repeat split.
      * rewrite Hs. reflexivity.
      * simpl. lia.
      * cbn [forallb]. rewrite E, Hp. reflexivity.
    + cbn [forallb]. rewrite E, IH. reflexivity.
Qed.

(* stringify_arg is the per-byte encoding, between quotes when QUOTED *)
Lemma stringify_arg_spec q a :
  stringify_arg q a = (if q then [DQUOTE] else []) ++ enc_bytes a ++ (if q then [DQUOTE] else []).
Proof.
  unfold stringify_arg. pose proof (first_escaped_spec a O) as H.
  destruct (first_escaped a O) as [ i | ].
  - destruct H as (p & rest & Hs & Hi & Hp). subst a. simpl in Hi. subst i.
    rewrite (write_string_complex_spec _ p rest Hp).
    destruct q; rewrite <- ?app_assoc, ?app_nil_r; reflexivity.
  - rewrite (enc_bytes_plain a H). destruct q; rewrite <- ?app_assoc, ?app_nil_r; reflexivity.
Qed.

(* ---- the L0 recogniser reads the encoding of every byte back (256 cases by computation) ---- *)

Definition dec_check (c : N) : bool :=
  match enc_byte c with
  | [x] => (x =? c) && negb (x =? 34) && negb (x =? 92) && negb (x <? 32)
  | [b; e] => (b =? 92) && match simple_escape e with Some v => v =? c | None => false end
  | [b; e; h1; h2; h3; h4] =>
      (b =? 92) && (e =? 117) &&
      match simple_escape e with Some _ => false | None => true end &&
      match hex4 h1 h2 h3 h4 with
      | Some v => (v =? c) && match utf8_of_unit v with Some [u] => u =? c | _ => false end
      | None => false
      end
  | _ => false
  end.

Lemma dec_table : forallb dec_check range256 = true.
Proof. vm_compute. reflexivity. Qed.

Lemma escaped_length : length c18_ESCAPED = 256%nat.
Proof. reflexivity. Qed.

Lemma esc_of_high c : 256 <= c -> esc_of c = 0.
Proof. intros H. unfold esc_of. apply nth_overflow. rewrite escaped_length. lia. Qed.

Lemma push_push u v o : push u (push v o) = push (u ++ v) o.
Proof. destruct o as [ [d r] | ]; cbn [push]; [ rewrite app_assoc | ]; reflexivity. Qed.

Lemma js_body_plain x rest :
  x =? 34 = false -> x =? 92 = false -> x <? 32 = false ->
  js_body (x :: rest) = push [x] (js_body rest).
Proof. intros H1 H2 H3. cbn [js_body]. rewrite H1, H2, H3. reflexivity. Qed.

Lemma js_body_enc_byte c rest : js_body (enc_byte c ++ rest) = push [c] (js_body rest).
Proof.
  destruct (N.lt_ge_cases c 256) as [Hlt | Hge].
  - pose proof dec_table as T. rewrite forallb_forall in T. specialize (T c (in_range256 c Hlt)).
    unfold dec_check in T.
    destruct (enc_byte c) as [ | x [ | e [ | h1 [ | h2 [ | h3 [ | h4 [ | ? ? ] ] ] ] ] ] ];
      try discriminate T.
    + apply andb_prop in T as [T T4]. apply andb_prop in T as [T T3]. apply andb_prop in T as [T1 T2].
      apply N.eqb_eq in T1. subst x. apply Bool.negb_true_iff in T2, T3, T4.
      cbn [app]. apply js_body_plain; assumption.
    + apply andb_prop in T as [T1 T2]. apply N.eqb_eq in T1. subst x.
      destruct (simple_escape e) as [ v | ] eqn:Ee; [ | discriminate T2 ].
      apply N.eqb_eq in T2. subst v. cbn [app js_body].
      change (92 =? 34) with false. change (92 =? 92) with true. cbn iota. rewrite Ee. reflexivity.
    + apply andb_prop in T as [T T4]. apply andb_prop in T as [T T3]. apply andb_prop in T as [T1 T2].
      apply N.eqb_eq in T1. subst x.
      destruct (simple_escape e) as [ v | ] eqn:Ee; [ discriminate T3 | ].
      destruct (hex4 h1 h2 h3 h4) as [ v | ] eqn:Eh; [ | discriminate T4 ].
      apply andb_prop in T4 as [T4 T5]. apply N.eqb_eq in T4. subst v.
      destruct (utf8_of_unit c) as [ [ | u [ | ? ? ] ] | ] eqn:Eu; try discriminate T5.
      apply N.eqb_eq in T5. subst u. cbn [app js_body].
      change (92 =? 34) with false. change (92 =? 92) with true. cbn iota.
      rewrite Ee, T2, Eh, Eu. reflexivity.
  - assert (E0 : 0 <? esc_of c = false) by (rewrite (esc_of_high c Hge); reflexivity).
    rewrite (enc_byte_zero c E0). cbn [app]. apply js_body_plain; lia.
Qed.

Lemma js_body_enc_bytes : forall a rest, js_body (enc_bytes a ++ rest) = push a (js_body rest).
Proof.
  induction a as [ | c a IH ]; intros rest.
  - cbn [enc_bytes flat_map app]. destruct (js_body rest) as [ [d r] | ]; reflexivity.
  - rewrite enc_bytes_cons, <- app_assoc, js_body_enc_byte, IH, push_push. reflexivity.
Qed.

(* the central theorem: the quoted form is a literal whose value is the argument, and the literal
   ends exactly where the emitted text ends, whatever follows *)
Lemma stringify_faithful_ctx a rest :
  js_string_literal_parse (stringify_arg true a ++ rest) = Some (a, rest).
Proof.
  rewrite stringify_arg_spec. unfold DQUOTE. cbn [app js_string_literal_parse].
  change (34 =? 34) with true. cbn iota. rewrite <- app_assoc, js_body_enc_bytes.
  cbn [app js_body]. change (34 =? 34) with true. cbn iota. cbn [push]. rewrite app_nil_r. reflexivity.
Qed.

Lemma stringify_faithful a : js_string_literal_parse (stringify_arg true a) = Some (a, []).
Proof. rewrite <- (app_nil_r (stringify_arg true a)). apply stringify_faithful_ctx. Qed.

(* the unquoted form, placed anywhere inside a double-quoted literal, contributes exactly the
   argument and leaves the recogniser inside the literal *)
Lemma stringify_unquoted_inside a rest :
  js_body (stringify_arg false a ++ rest) = push a (js_body rest).
Proof. rewrite stringify_arg_spec. cbn [app]. rewrite app_nil_r. apply js_body_enc_bytes. Qed.

(* direct formulation: scanning left to right, a backslash always has a partner, and outside
   such pairs there is no double quote and no control byte *)
Definition plain (c : N) : bool := negb (c =? 92) && negb (c =? 34) && negb (c <? 32).
Fixpoint no_unescaped (s : str) : bool :=
  match s with
  | [] => true
  | c :: r => if c =? 92 then match r with [] => false | _ :: r' => no_unescaped r' end
              else negb (c =? 34) && negb (c <? 32) && no_unescaped r
  end.

Lemma no_unescaped_plain : forall p rest,
  forallb plain p = true -> no_unescaped (p ++ rest) = no_unescaped rest.
Proof.
  induction p as [ | c p IH ]; intros rest H; [ reflexivity | ].
  cbn [forallb] in H. apply andb_prop in H as [Hc Hp]. unfold plain in Hc.
  apply andb_prop in Hc as [Hc H3]. apply andb_prop in Hc as [H1 H2].
  apply Bool.negb_true_iff in H1. cbn [app no_unescaped]. rewrite H1, H2, H3, (IH rest Hp). reflexivity.
Qed.

Definition unesc_check (c : N) : bool :=
  match enc_byte c with
  | [x] => plain x
  | b :: e :: tl => (b =? 92) && forallb plain tl
  | [] => false
  end.
Lemma unesc_table : forallb unesc_check range256 = true.
Proof. vm_compute. reflexivity. Qed.

Lemma no_unescaped_enc_byte c rest : no_unescaped (enc_byte c ++ rest) = no_unescaped rest.
Proof.
  destruct (N.lt_ge_cases c 256) as [Hlt | Hge].
  - pose proof unesc_table as T. rewrite forallb_forall in T. specialize (T c (in_range256 c Hlt)).
    unfold unesc_check in T. destruct (enc_byte c) as [ | x [ | e tl ] ]; [ discriminate T | | ].
    + apply (no_unescaped_plain [x]). cbn [forallb]. rewrite T. reflexivity.
    + apply andb_prop in T as [T1 T2]. cbn [app no_unescaped]. rewrite T1.
      apply no_unescaped_plain. exact T2.
  - assert (E0 : 0 <? esc_of c = false) by (rewrite (esc_of_high c Hge); reflexivity).
    rewrite (enc_byte_zero c E0). apply (no_unescaped_plain [c]). cbn [forallb]. unfold plain.
    rewrite Bool.andb_true_r. repeat (apply andb_true_intro; split); apply Bool.negb_true_iff; lia.
Qed.

Lemma stringify_unquoted_no_unescaped a : no_unescaped (stringify_arg false a) = true.
Proof.
  rewrite stringify_arg_spec. cbn [app]. rewrite app_nil_r.
  induction a as [ | c a IH ]; [ reflexivity | ].
  rewrite enc_bytes_cons, no_unescaped_enc_byte. exact IH.
Qed.

(* every backslash of the unquoted form starts one of the escapes: no lone backslash can swallow
   the closing quote of the surrounding literal *)
Definition escape_wf (s : str) : bool :=
  match js_body (s ++ [34]) with Some (_, []) => true | _ => false end.
Lemma stringify_unquoted_wf a : escape_wf (stringify_arg false a) = true.
Proof.
  unfold escape_wf. rewrite stringify_unquoted_inside. cbn [js_body].
  change (34 =? 34) with true. cbn iota. cbn [push]. reflexivity.
Qed.

(* ---- only ASCII changes: the bytes >= 0x80 of the argument are copied through in order and
   every inserted byte is ASCII, so a valid UTF-8 argument gives valid UTF-8 text (the
   String::from_utf8(..).unwrap() at the end of stringify_arg cannot fail) ---- *)
Definition high (c : N) : bool := N.leb 128 c.

Lemma high_table :
  forallb (fun c => str_eqb (filter high (enc_byte c)) (filter high [c])) range256 = true.
Proof. vm_compute. reflexivity. Qed.

Lemma filter_high_enc_byte c : filter high (enc_byte c) = filter high [c].
Proof.
  destruct (N.lt_ge_cases c 256) as [Hlt | Hge].
  - pose proof high_table as T. rewrite forallb_forall in T. apply str_eqb_eq.
    exact (T c (in_range256 c Hlt)).
  - assert (E0 : 0 <? esc_of c = false) by (rewrite (esc_of_high c Hge); reflexivity).
    rewrite (enc_byte_zero c E0). reflexivity.
Qed.

Lemma stringify_high_bytes q a : filter high (stringify_arg q a) = filter high a.
Proof.
  rewrite stringify_arg_spec.
  assert (H : filter high (enc_bytes a) = filter high a).
  { induction a as [ | c a IH ]; [ reflexivity | ].
    rewrite enc_bytes_cons, filter_app, filter_high_enc_byte, IH.
    change (c :: a) with ([c] ++ a). rewrite filter_app. reflexivity. }
  destruct q.
  - rewrite !filter_app, H. change (filter high [DQUOTE]) with (@nil N). rewrite app_nil_r. reflexivity.
  - cbn [app]. rewrite app_nil_r. exact H.
Qed.

(* ---- the argument list of an invocation ---- *)

(* L0: lit {", " lit} ")" *)
Fixpoint parse_lits (fuel : nat) (s : str) : option (list str) :=
  match fuel with
  | O => None
  | S f =>
      match js_string_literal_parse s with
      | Some (v, r) =>
          match r with
          | [c] => if c =? 41 then Some [v] else None
          | c :: d :: r' =>
              if (c =? 44) && (d =? 32)
              then match parse_lits f r' with Some l => Some (v :: l) | None => None end
              else None
          | [] => None
          end
      | None => None
      end
  end.

Lemma parse_lits_last f a : parse_lits (S f) (stringify_arg true a ++ [RPAR]) = Some [a].
Proof.
  cbn [parse_lits]. rewrite stringify_faithful_ctx. unfold RPAR. change (41 =? 41) with true.
  reflexivity.
Qed.

Lemma parse_lits_step f a tail :
  parse_lits (S f) (stringify_arg true a ++ COMMA_SP ++ tail) =
  match parse_lits f tail with Some l => Some (a :: l) | None => None end.
Proof.
  cbn [parse_lits]. rewrite stringify_faithful_ctx. unfold COMMA_SP. cbn [app].
  change (44 =? 44) with true. change (32 =? 32) with true. reflexivity.
Qed.

Lemma invocation_args_faithful : forall args, args <> [] ->
  parse_lits (length args) (join_with COMMA_SP (map (stringify_arg true) args) ++ [RPAR]) = Some args.
Proof.
  induction args as [ | a args IH ]; intros Hne; [ congruence | ].
  destruct args as [ | b args ].
  - cbn [map join_with length]. apply parse_lits_last.
  - specialize (IH ltac:(discriminate)).
    change (join_with COMMA_SP (map (stringify_arg true) (a :: b :: args)))
      with (stringify_arg true a ++ COMMA_SP ++ join_with COMMA_SP (map (stringify_arg true) (b :: args))).
    change (length (a :: b :: args)) with (S (length (b :: args))).
    rewrite <- !app_assoc, parse_lits_step, IH. reflexivity.
Qed.

Example stringify_ex :
  stringify_arg true (bs "a""b\" ++ [10; 1; 226; 128; 168]) = bs """a\""b\\\n\u0001" ++ [226; 128; 168; 34].
Proof. vm_compute. reflexivity. Qed.

(* ------------------------------------------------------------------------------------------ *)
(** * C. the permission gate on the scriptlet and on every transitive dependency *)

Definition perm_ok (mask : N) (r : resource) : Prop := is_injectable_by (r_perm r) mask = true.

(* everything in [p] that was not already in [prev] is a stored resource that passed the gate *)
Definition gated (st : store) (mask : N) (prev p : list resource) : Prop :=
  forall r, In r p -> In r prev \/ (In r (st_res st) /\ perm_ok mask r).

Lemma gated_refl st mask p : gated st mask p p.
Proof. intros r H. left. exact H. Qed.

Lemma gated_trans st mask a b c : gated st mask a b -> gated st mask b c -> gated st mask a c.
Proof.
  intros Hab Hbc r Hr. destruct (Hbc r Hr) as [Hb | Hok]; [ apply Hab; exact Hb | right; exact Hok ].
Qed.

Lemma find_res_In name l r : find_res name l = Some r -> In r l /\ r_name r = name.
Proof.
  induction l as [ | x l IH ]; cbn [find_res]; [ discriminate | ].
  destruct (str_eqb (r_name x) name) eqn:E.
  - intros H. injection H as <-. split; [ left; reflexivity | apply str_eqb_eq; exact E ].
  - intros H. destruct (IH H) as [Hin Hn]. split; [ right; exact Hin | exact Hn ].
Qed.

Lemma get_internal_In st ident r : get_internal_resource st ident = Some r -> In r (st_res st).
Proof.
  unfold get_internal_resource. destruct (find_res ident (st_res st)) as [ x | ] eqn:E.
  - intros H. injection H as <-. apply (find_res_In _ _ _ E).
  - destruct (find_alias ident (st_alias st)) as [ c | ]; [ | discriminate ].
    intros H. apply (find_res_In _ _ _ H).
Qed.

Lemma get_permissioned_ok st n mask r :
  get_permissioned_resource st n mask = SOk r ->
  get_internal_resource st n = Some r /\ In r (st_res st) /\ perm_ok mask r.
Proof.
  unfold get_permissioned_resource. destruct (get_internal_resource st n) as [ x | ] eqn:E; [ | discriminate ].
  destruct (is_injectable_by (r_perm x) mask) eqn:Ei; [ | discriminate ].
  intros H. injection H as <-. repeat split; [ exact (get_internal_In _ _ _ E) | exact Ei ].
Qed.

Lemma fold_deps_inv (P : list resource -> Prop) step :
  (forall d p, P p -> P (fst (step d p))) ->
  forall ds p, P p -> P (fst (fold_deps step ds p)).
Proof.
  intros Hstep. induction ds as [ | d ds IH ]; intros p Hp; cbn [fold_deps]; [ exact Hp | ].
  specialize (Hstep d p Hp). destruct (step d p) as [p1 e]. cbn [fst] in Hstep.
  destruct e; [ exact Hstep | apply IH; exact Hstep ].
Qed.

Lemma rec_deps_gate : forall fuel st n prev mask,
  gated st mask prev (fst (recursive_dependencies fuel st n prev mask)).
Proof.
  induction fuel as [ | f IH ]; intros st n prev mask; cbn [recursive_dependencies].
  - apply gated_refl.
  - destruct (get_permissioned_resource st n mask) as [ r0 | e ] eqn:Eg; [ | apply gated_refl ].
    destruct (has_name (r_name r0) prev); [ apply gated_refl | ].
    apply (fold_deps_inv (gated st mask prev)).
    + intros d p Hp. eapply gated_trans; [ exact Hp | apply IH ].
    + intros r Hr. apply in_app_or in Hr as [Hr | [<- | []]]; [ left; exact Hr | right ].
      destruct (get_permissioned_ok _ _ _ _ Eg) as (_ & Hin & Hok). split; assumption.
Qed.

Lemma fold_rec_deps_gate fuel st mask ds prev :
  gated st mask prev
        (fst (fold_deps (fun d p => recursive_dependencies fuel st d p mask) ds prev)).
Proof.
  apply (fold_deps_inv (gated st mask prev)); [ | apply gated_refl ].
  intros d p Hp. eapply gated_trans; [ exact Hp | apply rec_deps_gate ].
Qed.

(* get_scriptlet_resource: whatever it adds to required_deps passed the gate — also when it
   finally returns an error *)
Lemma scriptlet_deps_gate st text mask deps :
  gated st mask deps (fst (get_scriptlet_resource st text mask deps)).
Proof.
  unfold get_scriptlet_resource.
  destruct (parse_scriptlet_args text) as [ [ | name args ] | ]; try apply gated_refl.
  destruct (object_syntax args); [ apply gated_refl | ].
  destruct (get_permissioned_resource st (with_js_extension name) mask) as [ r0 | e ] eqn:Eg;
    [ | apply gated_refl ].
  destruct (negb (c18_supports_scriptlet_injection (r_kind r0))); [ apply gated_refl | ].
  pose proof (fold_rec_deps_gate (dep_fuel st) st mask (r_deps r0) deps) as G.
  destruct (fold_deps _ (r_deps r0) deps) as [deps1 e]. cbn [fst] in G.
  destruct e; [ exact G | ].
  destruct (r_decoded r0); try exact G.
  destruct (r_fname r0); [ | exact G ].
  cbn [fst]. destruct (has_name (r_name r0) deps1); [ exact G | ].
  intros r Hr. apply in_app_or in Hr as [Hr | [<- | []]]; [ apply G; exact Hr | right ].
  destruct (get_permissioned_ok _ _ _ _ Eg) as (_ & Hin & Hok). split; assumption.
Qed.

(* a successful invocation belongs to a stored, injectable-kind resource that passed the gate,
   and its text is the function call with stringified arguments or the patched template *)
Lemma scriptlet_ok_inv st text mask deps deps' inv :
  get_scriptlet_resource st text mask deps = (deps', SOk inv) ->
  exists name args r0,
    parse_scriptlet_args text = Some (name :: args) /\
    get_internal_resource st (with_js_extension name) = Some r0 /\
    perm_ok mask r0 /\
    c18_supports_scriptlet_injection (r_kind r0) = true /\
    ((exists fname, r_fname r0 = Some fname /\ inv = invocation fname args /\
                    has_name (r_name r0) deps' = true) \/
     (exists template, r_decoded r0 = Text template /\ r_fname r0 = None /\
                       inv = patch_template_scriptlet template (map (stringify_arg false) args))).
Proof.
  unfold get_scriptlet_resource.
  destruct (parse_scriptlet_args text) as [ [ | name args ] | ]; try discriminate.
  destruct (object_syntax args); [ discriminate | ].
  destruct (get_permissioned_resource st (with_js_extension name) mask) as [ r0 | e ] eqn:Eg;
    [ | discriminate ].
  destruct (c18_supports_scriptlet_injection (r_kind r0)) eqn:Ek; cbn [negb]; [ | discriminate ].
  destruct (fold_deps _ (r_deps r0) deps) as [deps1 e].
  destruct e; [ discriminate | ].
  destruct (get_permissioned_ok _ _ _ _ Eg) as (Hint & Hin & Hok).
  destruct (r_decoded r0) as [ | | template ] eqn:Ed; try discriminate.
  destruct (r_fname r0) as [ fname | ] eqn:Ef; intros H; injection H as <- <-;
    exists name, args, r0; repeat split; try assumption.
  - left. exists fname. split; [ exact Ef | split; [ reflexivity | ] ].
    destruct (has_name (r_name r0) deps1) eqn:Eh; [ exact Eh | ].
    unfold has_name. rewrite existsb_app. cbn [existsb]. rewrite str_eqb_refl.
    rewrite Bool.orb_true_r. reflexivity.
  - right. exists template. split; [ exact Ed | split; [ exact Ef | reflexivity ] ].
Qed.

(* the whole fold of get_scriptlet_resources *)
Lemma gsr_fold_gate : forall st injections deps invs r,
  In r (fst (gsr_fold st injections deps invs)) ->
  In r deps \/ exists s mask, In (s, mask) injections /\ In r (st_res st) /\ perm_ok mask r.
Proof.
  induction injections as [ | [s mask] rest IH ]; intros deps invs r Hr; cbn [gsr_fold] in Hr.
  - left. exact Hr.
  - pose proof (scriptlet_deps_gate st s mask deps) as G.
    destruct (get_scriptlet_resource st s mask deps) as [deps1 res]. cbn [fst] in G.
    destruct (IH _ _ _ Hr) as [Hd | (s' & m' & Hin & Hst & Hok)].
    + destruct (G r Hd) as [H0 | [Hst Hok]]; [ left; exact H0 | right ].
      exists s, mask. repeat split; [ left; reflexivity | exact Hst | exact Hok ].
    + right. exists s', m'. repeat split; [ right; exact Hin | exact Hst | exact Hok ].
Qed.

Lemma deps_gate st injections r :
  In r (fst (gsr_fold st injections [] [])) ->
  exists s mask, In (s, mask) injections /\ In r (st_res st) /\
                 is_injectable_by (r_perm r) mask = true.
Proof.
  intros Hr. destruct (gsr_fold_gate _ _ _ _ _ Hr) as [[] | H]. exact H.
Qed.

(* ------------------------------------------------------------------------------------------ *)
(** * D. termination: the visited list strictly grows, fuel = |resources| + 1 suffices *)

Definition unvisited (st : store) (prev : list resource) : nat :=
  length (filter (fun r => negb (has_name (r_name r) prev)) (st_res st)).

Lemma filter_length_le {A} (f g : A -> bool) l :
  (forall x, In x l -> f x = true -> g x = true) ->
  (length (filter f l) <= length (filter g l))%nat.
Proof.
  induction l as [ | x l IH ]; intros H; [ cbn; lia | ].
  cbn [filter]. assert (IH' := IH (fun y Hy => H y (or_intror Hy))).
  destruct (f x) eqn:Ef.
  - rewrite (H x (or_introl eq_refl) Ef). cbn [length]. lia.
  - destruct (g x); cbn [length]; lia.
Qed.

Lemma filter_length_lt {A} (f g : A -> bool) l x0 :
  (forall x, In x l -> f x = true -> g x = true) ->
  In x0 l -> f x0 = false -> g x0 = true ->
  (length (filter f l) < length (filter g l))%nat.
Proof.
  induction l as [ | x l IH ]; intros H Hin Hf Hg; [ destruct Hin | ].
  cbn [filter]. destruct Hin as [-> | Hin].
  - rewrite Hf, Hg. cbn [length].
    pose proof (filter_length_le f g l (fun y Hy => H y (or_intror Hy))). lia.
  - specialize (IH (fun y Hy => H y (or_intror Hy)) Hin Hf Hg).
    destruct (f x) eqn:Ef.
    + rewrite (H x (or_introl eq_refl) Ef). cbn [length]. lia.
    + destruct (g x); cbn [length]; lia.
Qed.

Lemma filter_length_bound {A} (f : A -> bool) l : (length (filter f l) <= length l)%nat.
Proof. induction l as [ | x l IH ]; cbn [filter]; [ lia | destruct (f x); cbn [length]; lia ]. Qed.

Lemma has_name_incl n p p' : incl p p' -> has_name n p = true -> has_name n p' = true.
Proof.
  unfold has_name. intros Hi H. apply existsb_exists in H as (x & Hx & Hn).
  apply existsb_exists. exists x. split; [ apply Hi; exact Hx | exact Hn ].
Qed.

Lemma unvisited_mono st p p' : incl p p' -> (unvisited st p' <= unvisited st p)%nat.
Proof.
  intros Hi. unfold unvisited. apply filter_length_le. intros x _ Hx.
  apply Bool.negb_true_iff in Hx. apply Bool.negb_true_iff.
  destruct (has_name (r_name x) p) eqn:E; [ | reflexivity ].
  rewrite (has_name_incl _ _ _ Hi E) in Hx. discriminate.
Qed.

Lemma has_name_snoc n p r : has_name n (p ++ [r]) = has_name n p || str_eqb (r_name r) n.
Proof. unfold has_name. rewrite existsb_app. cbn [existsb]. rewrite Bool.orb_false_r. reflexivity. Qed.

Lemma unvisited_push st prev r0 :
  In r0 (st_res st) -> has_name (r_name r0) prev = false ->
  (unvisited st (prev ++ [r0]) < unvisited st prev)%nat.
Proof.
  intros Hin Hn. unfold unvisited. apply (filter_length_lt _ _ _ r0).
  - intros x _ Hx. apply Bool.negb_true_iff in Hx. apply Bool.negb_true_iff.
    rewrite has_name_snoc in Hx. apply Bool.orb_false_iff in Hx as [Hx _]. exact Hx.
  - exact Hin.
  - rewrite has_name_snoc, str_eqb_refl, Bool.orb_true_r. reflexivity.
  - rewrite Hn. reflexivity.
Qed.

Lemma fold_deps_inv2 (P : list resource -> Prop) (Q : option serr -> Prop) step :
  Q None ->
  (forall d p, P p -> P (fst (step d p)) /\ Q (snd (step d p))) ->
  forall ds p, P p -> P (fst (fold_deps step ds p)) /\ Q (snd (fold_deps step ds p)).
Proof.
  intros HQ Hstep. induction ds as [ | d ds IH ]; intros p Hp; cbn [fold_deps].
  - split; [ exact Hp | exact HQ ].
  - specialize (Hstep d p Hp). destruct (step d p) as [p1 e]. cbn [fst snd] in Hstep.
    destruct Hstep as [H1 H2]. destruct e; [ split; assumption | apply IH; exact H1 ].
Qed.

Lemma get_permissioned_err st n mask e :
  get_permissioned_resource st n mask = SErr e -> e <> OutOfFuel.
Proof.
  unfold get_permissioned_resource. destruct (get_internal_resource st n) as [ x | ].
  - destruct (is_injectable_by (r_perm x) mask); [ discriminate | ].
    intros H. injection H as <-. discriminate.
  - intros H. injection H as <-. discriminate.
Qed.

Lemma rec_deps_fuel : forall fuel st n prev mask,
  (unvisited st prev < fuel)%nat ->
  incl prev (fst (recursive_dependencies fuel st n prev mask)) /\
  snd (recursive_dependencies fuel st n prev mask) <> Some OutOfFuel.
Proof.
  induction fuel as [ | f IH ]; intros st n prev mask Hu; [ lia | ].
  cbn [recursive_dependencies].
  destruct (get_permissioned_resource st n mask) as [ r0 | e ] eqn:Eg.
  - destruct (has_name (r_name r0) prev) eqn:Eh.
    + cbn [fst snd]. split; [ apply incl_refl | discriminate ].
    + destruct (get_permissioned_ok _ _ _ _ Eg) as (_ & Hin & _).
      pose proof (unvisited_push st prev r0 Hin Eh) as Hlt.
      destruct (fold_deps_inv2 (fun p => incl (prev ++ [r0]) p) (fun e => e <> Some OutOfFuel)
                  (fun d p => recursive_dependencies f st d p mask)
                  ltac:(discriminate)) with (ds := r_deps r0) (p := prev ++ [r0]) as [H1 H2].
      * intros d p Hp. pose proof (unvisited_mono st _ _ Hp) as Hm.
        destruct (IH st d p mask ltac:(lia)) as [Hi Hq].
        split; [ eapply incl_tran; [ exact Hp | exact Hi ] | exact Hq ].
      * apply incl_refl.
      * split; [ | exact H2 ]. eapply incl_tran; [ apply incl_appl; apply incl_refl | exact H1 ].
  - cbn [fst snd]. split; [ apply incl_refl | ].
    intros H. injection H as ->. exact (get_permissioned_err _ _ _ _ Eg eq_refl).
Qed.

Lemma unvisited_lt_dep_fuel st prev : (unvisited st prev < dep_fuel st)%nat.
Proof. unfold unvisited, dep_fuel. pose proof (filter_length_bound (fun r => negb (has_name (r_name r) prev)) (st_res st)). lia. Qed.

Lemma deps_terminate st n prev mask :
  snd (recursive_dependencies (dep_fuel st) st n prev mask) <> Some OutOfFuel.
Proof. apply rec_deps_fuel. apply unvisited_lt_dep_fuel. Qed.

Lemma scriptlet_never_out_of_fuel st text mask deps :
  snd (get_scriptlet_resource st text mask deps) <> SErr OutOfFuel.
Proof.
  unfold get_scriptlet_resource.
  destruct (parse_scriptlet_args text) as [ [ | name args ] | ]; try discriminate.
  destruct (object_syntax args); [ discriminate | ].
  destruct (get_permissioned_resource st (with_js_extension name) mask) as [ r0 | e ] eqn:Eg.
  - destruct (negb (c18_supports_scriptlet_injection (r_kind r0))); [ discriminate | ].
    destruct (fold_deps_inv2 (fun _ => True) (fun e => e <> Some OutOfFuel)
                (fun d p => recursive_dependencies (dep_fuel st) st d p mask)
                ltac:(discriminate)) with (ds := r_deps r0) (p := deps) as [_ H2].
    + intros d p _. split; [ exact I | apply deps_terminate ].
    + exact I.
    + destruct (fold_deps _ (r_deps r0) deps) as [deps1 e]. cbn [snd] in H2.
      destruct e as [ e | ].
      * cbn [snd]. intros H. injection H as ->. apply H2. reflexivity.
      * destruct (r_decoded r0); try discriminate. destruct (r_fname r0); discriminate.
  - cbn [snd]. intros H. injection H as ->. exact (get_permissioned_err _ _ _ _ Eg eq_refl).
Qed.

(* the visited list holds distinct canonical names *)
Definition distinct_names (p : list resource) : Prop := NoDup (map r_name p).

Lemma has_name_false_notin n p : has_name n p = false -> ~ In n (map r_name p).
Proof.
  intros H Hin. apply in_map_iff in Hin as (x & Hx & Hi).
  assert (E : has_name n p = true).
  { unfold has_name. apply existsb_exists. exists x. split; [ exact Hi | ]. rewrite Hx. apply str_eqb_refl. }
  rewrite E in H. discriminate.
Qed.

Lemma NoDup_app_snoc {A} (l : list A) x : NoDup l -> ~ In x l -> NoDup (l ++ [x]).
Proof.
  induction l as [ | y l IH ]; intros Hd Hn.
  - cbn [app]. constructor; [ intros [] | constructor ].
  - inversion Hd as [ | ? ? Hy Hl ]; subst. cbn [app]. constructor.
    + intros Hin. apply in_app_or in Hin as [H | [H | []]]; [ contradiction | ].
      subst. apply Hn. left. reflexivity.
    + apply IH; [ exact Hl | ]. intros H. apply Hn. right. exact H.
Qed.

Lemma rec_deps_distinct : forall fuel st n prev mask,
  distinct_names prev -> distinct_names (fst (recursive_dependencies fuel st n prev mask)).
Proof.
  induction fuel as [ | f IH ]; intros st n prev mask Hd; cbn [recursive_dependencies]; [ exact Hd | ].
  destruct (get_permissioned_resource st n mask) as [ r0 | e ]; [ | exact Hd ].
  destruct (has_name (r_name r0) prev) eqn:Eh; [ exact Hd | ].
  apply (fold_deps_inv distinct_names).
  - intros d p Hp. apply IH. exact Hp.
  - unfold distinct_names. rewrite map_app. cbn [map].
    apply NoDup_app_snoc; [ exact Hd | apply has_name_false_notin; exact Eh ].
Qed.


Lemma visited_grows_distinct : forall fuel st n prev mask,
  incl prev (fst (recursive_dependencies fuel st n prev mask)) /\
  (NoDup (map r_name prev) ->
   NoDup (map r_name (fst (recursive_dependencies fuel st n prev mask)))).
Proof.
  intros fuel st n prev mask. split.
  - destruct (Nat.lt_ge_cases (unvisited st prev) fuel) as [H | H].
    + apply rec_deps_fuel. exact H.
    + (* not enough fuel: still monotone *)
      revert n prev mask H. induction fuel as [ | f IH ]; intros n prev mask H.
      * apply incl_refl.
      * cbn [recursive_dependencies].
        destruct (get_permissioned_resource st n mask) as [ r0 | e ]; [ | apply incl_refl ].
        destruct (has_name (r_name r0) prev); [ apply incl_refl | ].
        eapply incl_tran; [ apply incl_appl; apply incl_refl | ].
        apply (fold_deps_inv (fun p => incl (prev ++ [r0]) p)); [ | apply incl_refl ].
        intros d p Hp. eapply incl_tran; [ exact Hp | ].
        destruct (Nat.lt_ge_cases (unvisited st p) f) as [H' | H'].
        -- apply rec_deps_fuel. exact H'.
        -- apply IH. exact H'.
  - apply rec_deps_distinct.
Qed.

(* ------------------------------------------------------------------------------------------ *)
(** * E. redirects refuse permissioned resources *)

Lemma redirect_some st ident out :
  get_redirect_resource st ident = Some out ->
  exists r, get_internal_resource st ident = Some r /\ r_perm r = 0 /\
            c18_supports_redirect (r_kind r) = true.
Proof.
  unfold get_redirect_resource. destruct (get_internal_resource st ident) as [ r | ]; [ | discriminate ].
  destruct (c18_perm_is_default (r_perm r)) eqn:Ed; cbn [negb]; [ | discriminate ].
  destruct (c18_supports_redirect (r_kind r)) eqn:Es; cbn [negb]; [ | discriminate ].
  intros _. exists r. split; [ reflexivity | split; [ | exact Es ] ].
  unfold c18_perm_is_default in Ed. apply N.eqb_eq in Ed. exact Ed.
Qed.

Lemma redirect_refuses_permissioned st ident r :
  get_internal_resource st ident = Some r -> r_perm r <> 0 -> get_redirect_resource st ident = None.
Proof.
  intros Hr Hp. destruct (get_redirect_resource st ident) as [ out | ] eqn:E; [ | reflexivity ].
  destruct (redirect_some _ _ _ E) as (r' & Hr' & Hp' & _). rewrite Hr in Hr'. injection Hr' as <-.
  contradiction.
Qed.

(* ------------------------------------------------------------------------------------------ *)
(** * F. per-host merge: exceptions and the permission union *)

Fixpoint lookup (x : str) (l : list (str * N)) : option N :=
  match l with
  | [] => None
  | (k, m) :: r => if str_eqb k x then Some m else lookup x r
  end.

Definition union_from (a : N) (injs : list (str * N)) (x : str) : N :=
  fold_left (fun acc e => if str_eqb (fst e) x then c18_perm_bitor acc (snd e) else acc) injs a.
Definition mentions (x : str) (injs : list (str * N)) : bool :=
  existsb (fun e => str_eqb (fst e) x) injs.

Lemma union_mask_from injs x : union_mask injs x = union_from 0 injs x.
Proof. reflexivity. Qed.

Lemma bitor_0_l m : c18_perm_bitor 0 m = m.
Proof. unfold c18_perm_bitor. apply N.lor_0_l. Qed.

Lemma str_eqb_sym a b : str_eqb a b = str_eqb b a.
Proof.
  destruct (str_eqb a b) eqn:E.
  - apply str_eqb_eq in E. subst. symmetry. apply str_eqb_refl.
  - destruct (str_eqb b a) eqn:E'; [ | reflexivity ]. apply str_eqb_eq in E'. subst.
    rewrite str_eqb_refl in E. discriminate.
Qed.

Lemma lookup_upsert x k m l :
  lookup x (map_upsert k m l) =
  if str_eqb k x
  then Some (match lookup x l with Some a => c18_perm_bitor a m | None => m end)
  else lookup x l.
Proof.
  induction l as [ | [k' m'] l IH ]; cbn [map_upsert lookup].
  - destruct (str_eqb k x); reflexivity.
  - destruct (str_eqb k' k) eqn:Ek.
    + apply str_eqb_eq in Ek. subst k'. cbn [lookup]. destruct (str_eqb k x); reflexivity.
    + cbn [lookup]. destruct (str_eqb k' x) eqn:Ex.
      * apply str_eqb_eq in Ex. subst k'. rewrite str_eqb_sym, Ek. reflexivity.
      * exact IH.
Qed.

Lemma lookup_merge : forall injs acc x,
  lookup x (fold_left (fun acc e => map_upsert (fst e) (snd e) acc) injs acc) =
  match lookup x acc with
  | Some a => Some (union_from a injs x)
  | None => if mentions x injs then Some (union_from 0 injs x) else None
  end.
Proof.
  induction injs as [ | [k m] rest IH ]; intros acc x.
  - cbn [fold_left mentions existsb]. unfold union_from. cbn [fold_left]. destruct (lookup x acc); reflexivity.
  - cbn [fold_left fst snd]. rewrite IH, lookup_upsert. unfold mentions, union_from.
    cbn [existsb fold_left fst snd]. destruct (str_eqb k x) eqn:Ek.
    + destruct (lookup x acc) as [ a | ]; [ reflexivity | ]. cbn [orb]. rewrite bitor_0_l. reflexivity.
    + cbn [orb]. reflexivity.
Qed.

Lemma upsert_keys y k m l : In y (map fst (map_upsert k m l)) <-> y = k \/ In y (map fst l).
Proof.
  induction l as [ | [k' m'] l IH ]; cbn [map_upsert map fst In].
  - intuition.
  - destruct (str_eqb k' k) eqn:Ek.
    + apply str_eqb_eq in Ek. subst k'. cbn [map fst In]. intuition.
    + cbn [map fst In]. rewrite IH. intuition.
Qed.

Lemma upsert_nodup k m l : NoDup (map fst l) -> NoDup (map fst (map_upsert k m l)).
Proof.
  induction l as [ | [k' m'] l IH ]; intros Hd; cbn [map_upsert map fst].
  - constructor; [ intros [] | constructor ].
  - cbn [map fst] in Hd. inversion Hd as [ | ? ? Hn Hl ]; subst.
    destruct (str_eqb k' k) eqn:Ek; cbn [map fst].
    + constructor; assumption.
    + constructor; [ | apply IH; exact Hl ].
      intros Hin. apply upsert_keys in Hin as [-> | Hin]; [ | contradiction ].
      rewrite str_eqb_refl in Ek. discriminate.
Qed.

Lemma merge_nodup_from : forall injs acc,
  NoDup (map fst acc) ->
  NoDup (map fst (fold_left (fun acc e => map_upsert (fst e) (snd e) acc) injs acc)).
Proof.
  induction injs as [ | e rest IH ]; intros acc Hd; cbn [fold_left]; [ exact Hd | ].
  apply IH. apply upsert_nodup. exact Hd.
Qed.

Lemma merge_nodup injs : NoDup (map fst (merge_injections injs)).
Proof. apply merge_nodup_from. constructor. Qed.

Lemma lookup_In x m l : NoDup (map fst l) -> (In (x, m) l <-> lookup x l = Some m).
Proof.
  induction l as [ | [k a] l IH ]; intros Hd; cbn [lookup In].
  - split; [ intros [] | discriminate ].
  - cbn [map fst] in Hd. inversion Hd as [ | ? ? Hn Hl ]; subst.
    destruct (str_eqb k x) eqn:Ek.
    + apply str_eqb_eq in Ek. subst k. split.
      * intros [H | H]; [ injection H as ->; reflexivity | ].
        exfalso. apply Hn. apply in_map_iff. exists (x, m). split; [ reflexivity | exact H ].
      * intros H. injection H as ->. left. reflexivity.
    + rewrite <- (IH Hl). split; [ | intros H; right; exact H ].
      intros [H | H]; [ | exact H ]. injection H as -> ->. rewrite str_eqb_refl in Ek. discriminate.
Qed.

Lemma mentions_requested x injs : mentions x injs = true <-> requested injs x.
Proof.
  unfold mentions, requested. rewrite existsb_exists. split.
  - intros ([k m] & Hin & He). cbn [fst] in He. apply str_eqb_eq in He. subst k.
    apply in_map_iff. exists (x, m). split; [ reflexivity | exact Hin ].
  - intros H. apply in_map_iff in H as ([k m] & Hk & Hin). cbn [fst] in Hk. subst k.
    exists (x, m). split; [ exact Hin | apply str_eqb_refl ].
Qed.

Lemma merge_spec injs x m :
  In (x, m) (merge_injections injs) <-> requested injs x /\ m = union_mask injs x.
Proof.
  rewrite (lookup_In x m _ (merge_nodup injs)). unfold merge_injections. rewrite lookup_merge.
  cbn [lookup]. change (union_mask injs x) with (union_from 0 injs x). destruct (mentions x injs) eqn:Em.
  - apply mentions_requested in Em. split.
    + intros H. injection H as <-. split; [ exact Em | reflexivity ].
    + intros [_ ->]. reflexivity.
  - split; [ discriminate | ]. intros [Hr _]. apply mentions_requested in Hr. rewrite Hr in Em. discriminate.
Qed.

Lemma apply_uninject_all : forall excs, apply_uninject excs true [] = [].
Proof.
  induction excs as [ | s r IH ]; cbn [apply_uninject]; [ reflexivity | ].
  destruct (null s); exact IH.
Qed.

Lemma null_nil (s : str) : null s = true <-> s = [].
Proof. destruct s; cbn [null]; split; intros H; try reflexivity; discriminate. Qed.

Lemma apply_uninject_spec : forall excs m x a,
  In (x, a) (apply_uninject excs false m) <-> In (x, a) m /\ ~ In x excs /\ ~ blanket excs.
Proof.
  unfold blanket. induction excs as [ | s r IH ]; intros m x a; cbn [apply_uninject In].
  - intuition.
  - destruct (null s) eqn:En.
    + apply null_nil in En. subst s. rewrite apply_uninject_all. cbn [In]. intuition.
    + rewrite IH. unfold map_remove. rewrite filter_In. cbn [fst].
      assert (Hs : s <> []) by (intros ->; discriminate En).
      split.
      * intros ((Hin & Hne) & Hx & Hb). apply Bool.negb_true_iff in Hne. apply str_eqb_neq in Hne.
        repeat split; [ exact Hin | | ].
        -- intros [H | H]; [ apply Hne; symmetry; exact H | apply Hx; exact H ].
        -- intros [H | H]; [ apply Hs; exact H | apply Hb; exact H ].
      * intros (Hin & Hx & Hb). repeat split; [ exact Hin | | | ].
        -- apply Bool.negb_true_iff. apply str_eqb_neq. intros ->. apply Hx. left. reflexivity.
        -- intros H. apply Hx. right. exact H.
        -- intros H. apply Hb. right. exact H.
Qed.

(* the injections of a host, completely characterised *)
Lemma host_injections_spec injs excs x m :
  In (x, m) (host_injections injs excs) <->
  requested injs x /\ ~ In x excs /\ ~ blanket excs /\ m = union_mask injs x.
Proof. unfold host_injections. rewrite apply_uninject_spec, merge_spec. intuition. Qed.

Lemma exception_exact injs excs x :
  In x (map fst (host_injections injs excs)) <-> requested injs x /\ ~ In x excs /\ ~ blanket excs.
Proof.
  rewrite in_map_iff. split.
  - intros ([k m] & Hk & Hin). cbn [fst] in Hk. subst k.
    apply host_injections_spec in Hin. intuition.
  - intros (Hr & Hx & Hb). exists (x, union_mask injs x). split; [ reflexivity | ].
    apply host_injections_spec. intuition.
Qed.

Lemma blanket_exception_all injs excs : blanket excs -> host_injections injs excs = [].
Proof.
  intros Hb. destruct (host_injections injs excs) as [ | [x m] l ] eqn:E; [ reflexivity | ].
  assert (H : In (x, m) (host_injections injs excs)) by (rewrite E; left; reflexivity).
  apply host_injections_spec in H. exfalso. intuition.
Qed.

Lemma filter_nodup_keys (f : str * N -> bool) l : NoDup (map fst l) -> NoDup (map fst (filter f l)).
Proof.
  induction l as [ | e l IH ]; intros Hd; cbn [filter map]; [ constructor | ].
  cbn [map] in Hd. inversion Hd as [ | ? ? Hn Hl ]; subst.
  destruct (f e); [ | apply IH; exact Hl ]. cbn [map]. constructor; [ | apply IH; exact Hl ].
  intros Hin. apply Hn. apply in_map_iff in Hin as (y & Hy & Hi). apply filter_In in Hi as [Hi _].
  apply in_map_iff. exists y. split; assumption.
Qed.

Lemma apply_uninject_nodup : forall excs b m,
  NoDup (map fst m) -> NoDup (map fst (apply_uninject excs b m)).
Proof.
  induction excs as [ | s r IH ]; intros b m Hd; cbn [apply_uninject]; [ exact Hd | ].
  destruct (null s).
  - apply IH. constructor.
  - destruct b; apply IH; [ exact Hd | ]. apply filter_nodup_keys. exact Hd.
Qed.

(* every argument text is injected at most once per host *)
Lemma host_injections_nodup injs excs : NoDup (map fst (host_injections injs excs)).
Proof. apply apply_uninject_nodup. apply merge_nodup. Qed.

(* ---- F18: which mask gates an injection ---- *)

Lemma bitor_idem a m : c18_perm_bitor (c18_perm_bitor a m) m = c18_perm_bitor a m.
Proof. unfold c18_perm_bitor. rewrite <- N.lor_assoc, N.lor_diag. reflexivity. Qed.

Lemma union_from_const : forall injs x m0 a,
  (forall e, In e injs -> fst e = x -> snd e = m0) ->
  union_from a injs x = if mentions x injs then c18_perm_bitor a m0 else a.
Proof.
  induction injs as [ | [k m] rest IH ]; intros x m0 a H; [ reflexivity | ].
  unfold union_from, mentions. cbn [fold_left existsb fst snd].
  destruct (str_eqb k x) eqn:Ek.
  - apply str_eqb_eq in Ek. subst k. assert (m = m0) by (apply (H (x, m)); [ left | ]; reflexivity). subst m.
    cbn [orb]. fold (union_from (c18_perm_bitor a m0) rest x).
    rewrite (IH x m0 _ (fun e He => H e (or_intror He))). rewrite bitor_idem.
    destruct (mentions x rest); reflexivity.
  - cbn [orb]. fold (union_from a rest x). fold (mentions x rest).
    apply IH. intros e He. apply H. right. exact He.
Qed.

Lemma not_mixed injs : mixed_masks injs = false ->
  forall e e', In e injs -> In e' injs -> fst e = fst e' -> snd e = snd e'.
Proof.
  unfold mixed_masks. intros H e e' He He' Hk.
  destruct (N.eq_dec (snd e) (snd e')) as [Heq | Hne]; [ exact Heq | exfalso ].
  assert (T : existsb (fun e0 => existsb (fun e'0 => str_eqb (fst e0) (fst e'0) && negb (snd e0 =? snd e'0)) injs) injs = true).
  { apply existsb_exists. exists e. split; [ exact He | ]. apply existsb_exists. exists e'. split; [ exact He' | ].
    rewrite Hk, str_eqb_refl. cbn [andb]. apply Bool.negb_true_iff. apply N.eqb_neq. exact Hne. }
  rewrite T in H. discriminate.
Qed.

(* without F18's class, the merged mask is the mask of the list that wrote the rule *)
Lemma union_mask_single injs x m :
  mixed_masks injs = false -> In (x, m) injs -> union_mask injs x = m.
Proof.
  intros Hm Hin. change (union_mask injs x) with (union_from 0 injs x).
  rewrite (union_from_const injs x m 0).
  - assert (E : mentions x injs = true).
    { apply mentions_requested. apply in_map_iff. exists (x, m). split; [ reflexivity | exact Hin ]. }
    rewrite E. apply bitor_0_l.
  - intros e He Hk. exact (not_mixed injs Hm e (x, m) He Hin Hk).
Qed.

(* ---- host level: the gate, per merged mask, in any iteration order ---- *)

Lemma host_deps_gate st injs excs order r :
  Permutation order (host_injections injs excs) ->
  In r (fst (gsr_fold st order [] [])) ->
  exists x, requested injs x /\ ~ In x excs /\ ~ blanket excs /\ In r (st_res st) /\
            is_injectable_by (r_perm r) (union_mask injs x) = true.
Proof.
  intros Hp Hr. destruct (deps_gate _ _ _ Hr) as (s & mask & Hin & Hst & Hok).
  apply (Permutation_in _ Hp) in Hin. apply host_injections_spec in Hin as (H1 & H2 & H3 & ->).
  exists s. repeat split; assumption.
Qed.

Lemma host_deps_gate_single st injs excs order r :
  mixed_masks injs = false ->
  Permutation order (host_injections injs excs) ->
  In r (fst (gsr_fold st order [] [])) ->
  exists x m, In (x, m) injs /\ ~ In x excs /\ ~ blanket excs /\ In r (st_res st) /\
              is_injectable_by (r_perm r) m = true.
Proof.
  intros Hm Hp Hr. destruct (host_deps_gate _ _ _ _ _ Hp Hr) as (x & Hreq & H2 & H3 & Hst & Hok).
  unfold requested in Hreq. apply in_map_iff in Hreq as ([k m] & Hk & Hin). cbn [fst] in Hk. subst k.
  exists x, m. rewrite (union_mask_single injs x m Hm Hin) in Hok. repeat split; assumption.
Qed.

(* ------------------------------------------------------------------------------------------ *)
(** * G. witnesses of the known findings, and examples showing that the hypotheses of the
      conditional theorems are satisfiable on non-trivial inputs *)

Definition js_res (name : string) (deps : list string) (perm : N) : resource :=
  mkRes (bs name) [] (RK_Mime MT_ApplicationJavascript) [] (Text (bs "function " ++ bs name ++ bs "(){}"))
        (Some (bs name)) (map bs deps) perm.

(* F18: lists granted 01 and 10 both ask for +js(p); p.js requires 11 *)
Definition f18_store : store := from_resources [js_res "p.js" [] 3].
Definition f18_injs : list (str * N) := [(bs "p", 1); (bs "p", 2)].

Lemma permission_union_refuted :
  exists st injs r,
    mixed_masks injs = true /\
    In r (fst (gsr_fold st (host_injections injs []) [] [])) /\
    (forall x m, In (x, m) injs -> is_injectable_by (r_perm r) m = false) /\
    is_injectable_by (r_perm r) (union_mask injs (bs "p")) = true.
Proof.
  exists f18_store, f18_injs, (js_res "p.js" [] 3). split; [ vm_compute; reflexivity | ].
  split; [ vm_compute; left; reflexivity | ]. split; [ | vm_compute; reflexivity ].
  intros x m [H | [H | []]]; injection H as <- <-; vm_compute; reflexivity.
Qed.

(* F25: a.js -> x.js -> y.js (y.js requires bit 0), b.js -> x.js *)
Definition f25_store : store :=
  from_resources [js_res "a.js" ["x.js"] 0; js_res "x.js" ["y.js"] 0; js_res "y.js" [] 1;
                  js_res "b.js" ["x.js"] 0].

(* alone, +js(b) from a list without the bit is refused; after +js(a) from a list with the bit it
   is accepted, because x.js is already collected and its subtree is not looked at again *)
Lemma visited_dependency_skips_gate_refuted :
  exists st,
    snd (get_scriptlet_resource st (bs "b") 0 []) = SErr InsufficientPermissions /\
    exists inv, snd (get_scriptlet_resource st (bs "b") 0
                       (fst (get_scriptlet_resource st (bs "a") 1 []))) = SOk inv.
Proof.
  exists f25_store. split; [ vm_compute; reflexivity | ]. eexists. vm_compute. reflexivity.
Qed.

(* in the other order +js(a) is invoked although its dependency y.js is not in the script: the
   refused +js(b) left x.js behind; so the script depends on the HashMap iteration order *)
Lemma injection_order_matters_refuted :
  exists st i1 i2,
    has_name (bs "y.js") (fst (gsr_fold st [i2; i1] [] [])) = false /\
    has_name (bs "y.js") (fst (gsr_fold st [i1; i2] [] [])) = true /\
    snd (gsr_fold st [i2; i1] [] []) <> [] /\
    get_scriptlet_resources st [i1; i2] <> get_scriptlet_resources st [i2; i1].
Proof.
  exists f25_store, (bs "a", 1), (bs "b", 0).
  split; [ vm_compute; reflexivity | ]. split; [ vm_compute; reflexivity | ].
  split; vm_compute; discriminate.
Qed.

(* a store with aliases, a dependency cycle through an alias, a missing dependency *)
Definition ex_store : store :=
  from_resources
    [ mkRes (bs "s.js") [bs "alias-s.js"] (RK_Mime MT_ApplicationJavascript) []
            (Text (bs "function s(a){}")) (Some (bs "s")) [bs "d1.fn"; bs "alias-d2"] 1;
      mkRes (bs "d1.fn") [] (RK_Mime MT_FnJavascript) [] (Text (bs "function d1(){}"))
            (Some (bs "d1")) [bs "alias-s.js"] 0;
      mkRes (bs "d2.fn") [bs "alias-d2"] (RK_Mime MT_FnJavascript) [] (Text (bs "function d2(){}"))
            (Some (bs "d2")) [bs "d1.fn"] 1;
      mkRes (bs "t.js") [] RK_Template [] (Text (bs "x('{{1}}')")) None [bs "nosuch"] 0;
      mkRes (bs "secret.js") [] (RK_Mime MT_ApplicationJavascript) [] (Text (bs "/* */")) None [] 2 ].
Definition ex_injs : list (str * N) :=
  [(bs "alias-s, ""q"", a\,b", 1); (bs "s", 0); (bs "secret", 1); (bs "t, x", 3)].
Definition ex_excs : list str := [bs "t, x"].

Example deps_gate_ex :
  map r_name (fst (gsr_fold ex_store (host_injections ex_injs ex_excs) [] []))
  = [bs "d1.fn"; bs "s.js"; bs "d2.fn"] /\
  mixed_masks ex_injs = false /\
  map fst (host_injections ex_injs ex_excs) = [bs "alias-s, ""q"", a\,b"; bs "s"; bs "secret"].
Proof. vm_compute. repeat split. Qed.

Example script_ex :
  get_scriptlet_resources ex_store (host_injections ex_injs ex_excs) =
  bs "function d1(){}" ++ [10] ++ bs "function s(a){}" ++ [10] ++ bs "function d2(){}" ++ [10] ++
  bs "try {" ++ [10] ++ bs "s(""q"", ""a,b"")" ++ [10] ++ bs "} catch ( e ) { }" ++ [10].
Proof. vm_compute. reflexivity. Qed.

Example redirect_ex :
  (exists r, get_internal_resource ex_store (bs "secret.js") = Some r /\ r_perm r <> 0) /\
  get_redirect_resource ex_store (bs "alias-s.js") = None /\
  get_redirect_resource ex_store (bs "d2.fn") = None.
Proof.
  split; [ eexists; split; [ vm_compute; reflexivity | vm_compute; discriminate ] | ].
  split; vm_compute; reflexivity.
Qed.

Example invocation_args_ex :
  parse_lits 2 (bs """a\""b"", ""c\\""" ++ [RPAR]) = Some [bs "a""b"; bs "c\"].
Proof. vm_compute. reflexivity. Qed.

(* U+2028 / U+2029 are emitted raw: legal inside string literals since ES2019, a line terminator
   (syntax error) before; the recogniser follows ES2019 *)
Example line_separator_raw :
  stringify_arg true [226; 128; 168] = [34; 226; 128; 168; 34].
Proof. vm_compute. reflexivity. Qed.

(* ------------------------------------------------------------------------------------------ *)
(** * H. outside F25's class (an injection evaluated on an empty visited list) the collected set
      is closed under dependencies and wholly gated by the rule's own mask *)

(* every dependency name of r resolves, passes the gate of [mask], and is (by canonical name) in p *)
Definition deps_in (st : store) (mask : N) (r : resource) (p : list resource) : Prop :=
  forall d, In d (r_deps r) ->
            exists r', get_permissioned_resource st d mask = SOk r' /\ has_name (r_name r') p = true.

Definition closed_new (st : store) (mask : N) (prev p : list resource) : Prop :=
  forall r, In r p -> In r prev \/ deps_in st mask r p.

Lemma deps_in_incl st mask r p q : incl p q -> deps_in st mask r p -> deps_in st mask r q.
Proof.
  intros Hi H d Hd. destruct (H d Hd) as (r' & Hg & Hn). exists r'. split; [ exact Hg | ].
  exact (has_name_incl _ _ _ Hi Hn).
Qed.

Lemma closed_new_trans st mask a b c :
  closed_new st mask a b -> closed_new st mask b c -> incl b c -> closed_new st mask a c.
Proof.
  intros Hab Hbc Hi r Hr. destruct (Hbc r Hr) as [Hb | Hc]; [ | right; exact Hc ].
  destruct (Hab r Hb) as [Ha | Hc]; [ left; exact Ha | right ].
  exact (deps_in_incl _ _ _ _ _ Hi Hc).
Qed.

Definition dfs_post (st : store) (mask : N) (d : str) (p q : list resource) : Prop :=
  incl p q /\ closed_new st mask p q /\
  exists r', get_permissioned_resource st d mask = SOk r' /\ has_name (r_name r') q = true.

Lemma fold_dfs st mask step :
  (forall d p q, step d p = (q, None) -> dfs_post st mask d p q) ->
  forall ds p q, fold_deps step ds p = (q, None) ->
    incl p q /\ closed_new st mask p q /\
    forall d, In d ds -> exists r', get_permissioned_resource st d mask = SOk r' /\
                                    has_name (r_name r') q = true.
Proof.
  intros Hstep. induction ds as [ | d ds IH ]; intros p q H; cbn [fold_deps] in H.
  - injection H as <-. split; [ apply incl_refl | ]. split; [ intros r Hr; left; exact Hr | intros d [] ].
  - destruct (step d p) as [p1 e] eqn:Es. destruct e as [ e | ]; [ discriminate H | ].
    destruct (Hstep d p p1 Es) as (Hi1 & Hc1 & r' & Hg & Hn).
    destruct (IH p1 q H) as (Hi2 & Hc2 & Hall).
    split; [ eapply incl_tran; eassumption | ].
    split; [ eapply closed_new_trans; eassumption | ].
    intros d' [<- | Hd'].
    + exists r'. split; [ exact Hg | exact (has_name_incl _ _ _ Hi2 Hn) ].
    + apply Hall. exact Hd'.
Qed.

Lemma has_name_In r p : In r p -> has_name (r_name r) p = true.
Proof.
  intros H. unfold has_name. apply existsb_exists. exists r. split; [ exact H | apply str_eqb_refl ].
Qed.

Lemma rec_deps_dfs : forall fuel st mask d p q,
  recursive_dependencies fuel st d p mask = (q, None) -> dfs_post st mask d p q.
Proof.
  induction fuel as [ | f IH ]; intros st mask d p q H; cbn [recursive_dependencies] in H;
    [ discriminate H | ].
  destruct (get_permissioned_resource st d mask) as [ r0 | e ] eqn:Eg; [ | discriminate H ].
  destruct (has_name (r_name r0) p) eqn:Eh.
  - injection H as <-. split; [ apply incl_refl | ]. split; [ intros r Hr; left; exact Hr | ].
    exists r0. split; [ exact Eg | exact Eh ].
  - destruct (fold_dfs st mask (fun d p => recursive_dependencies f st d p mask)
                (fun d0 p0 q0 => IH st mask d0 p0 q0) _ _ _ H) as (Hi & Hc & Hall).
    assert (Hr0 : In r0 q) by (apply Hi; apply in_or_app; right; left; reflexivity).
    split; [ eapply incl_tran; [ apply incl_appl; apply incl_refl | exact Hi ] | ].
    split.
    + intros r Hr. destruct (Hc r Hr) as [Hp | Hd]; [ | right; exact Hd ].
      apply in_app_or in Hp as [Hp | [<- | []]]; [ left; exact Hp | right; exact Hall ].
    + exists r0. split; [ exact Eg | apply has_name_In; exact Hr0 ].
Qed.

(* An injection evaluated alone: when it succeeds, the collected set S = deps' is closed under
   dependencies (every dependency name of every member resolves, by canonical name, to a member),
   every member passed the gate of this rule's own mask, and the scriptlet's own dependencies are
   in S.  So the scriptlet and ALL its transitive dependencies were granted by this rule's list. *)
Lemma closure_gate_alone st text mask deps' inv :
  get_scriptlet_resource st text mask [] = (deps', SOk inv) ->
  exists name args r0,
    parse_scriptlet_args text = Some (name :: args) /\
    get_internal_resource st (with_js_extension name) = Some r0 /\
    perm_ok mask r0 /\
    deps_in st mask r0 deps' /\
    forall r, In r deps' -> In r (st_res st) /\ perm_ok mask r /\ deps_in st mask r deps'.
Proof.
  intros H. pose proof (scriptlet_deps_gate st text mask []) as G. rewrite H in G. cbn [fst] in G.
  revert H. unfold get_scriptlet_resource.
  destruct (parse_scriptlet_args text) as [ [ | name args ] | ]; try discriminate.
  destruct (object_syntax args); [ discriminate | ].
  destruct (get_permissioned_resource st (with_js_extension name) mask) as [ r0 | e ] eqn:Eg;
    [ | discriminate ].
  destruct (negb (c18_supports_scriptlet_injection (r_kind r0))); [ discriminate | ].
  destruct (fold_deps _ (r_deps r0) []) as [deps1 e] eqn:Ef.
  destruct e as [ e | ]; [ discriminate | ].
  destruct (fold_dfs st mask (fun d p => recursive_dependencies (dep_fuel st) st d p mask)
              (fun d0 p0 q0 => rec_deps_dfs (dep_fuel st) st mask d0 p0 q0) _ _ _ Ef) as (_ & Hc & Hall).
  destruct (get_permissioned_ok _ _ _ _ Eg) as (Hint & Hin0 & Hok0).
  assert (Hgate : forall r, In r deps' -> In r (st_res st) /\ perm_ok mask r).
  { intros r Hr. destruct (G r Hr) as [[] | Hx]. exact Hx. }
  destruct (r_decoded r0) as [ | | template ]; try discriminate.
  destruct (r_fname r0) as [ fname | ]; intros H; injection H as <- <-;
    exists name, args, r0; (split; [ reflexivity | split; [ exact Hint | split; [ exact Hok0 | ] ] ]).
  - destruct (has_name (r_name r0) deps1) eqn:Eh.
    + split; [ exact Hall | ]. intros r Hr. destruct (Hgate r Hr) as [Ha Hb].
      split; [ exact Ha | split; [ exact Hb | ] ].
      destruct (Hc r Hr) as [[] | Hd]. exact Hd.
    + assert (Hi : incl deps1 (deps1 ++ [r0])) by (apply incl_appl; apply incl_refl).
      split; [ exact (deps_in_incl _ _ _ _ _ Hi Hall) | ].
      intros r Hr. destruct (Hgate r Hr) as [Ha Hb]. split; [ exact Ha | split; [ exact Hb | ] ].
      apply in_app_or in Hr as [Hr | [<- | []]].
      * destruct (Hc r Hr) as [[] | Hd]. exact (deps_in_incl _ _ _ _ _ Hi Hd).
      * exact (deps_in_incl _ _ _ _ _ Hi Hall).
  - split; [ exact Hall | ]. intros r Hr. destruct (Hgate r Hr) as [Ha Hb].
    split; [ exact Ha | split; [ exact Hb | ] ].
    destruct (Hc r Hr) as [[] | Hd]. exact Hd.
Qed.

Example closure_gate_alone_ex :
  exists deps' inv, get_scriptlet_resource ex_store (bs "alias-s, x") 1 [] = (deps', SOk inv) /\
                    map r_name deps' = [bs "d1.fn"; bs "s.js"; bs "d2.fn"].
Proof. eexists. eexists. vm_compute. split; reflexivity. Qed.
