(* C18_Proofs.v — lemmas for property C18 *)
From Adb Require Import Base BaseProofs Generated C18_Model.
Open Scope N_scope.
