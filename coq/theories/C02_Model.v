(* C02_Model.v — L1 model of the pattern matchers of src/filters/network_matchers.rs
   (anchored_hostname_end, get_url_after_hostname, get_url_after_anchor, the nine check_pattern_*
   functions and the check_pattern dispatch), of compile_regex's string translation
   (src/regex_manager.rs) and of the pattern part of NetworkFilter::parse (src/filters/network.rs),
   plus the L0 vocabulary: ABP pattern tokens, the matching relation [m], hostname anchoring
   [anchor_at], pattern ASTs and [ref_match].  Definitions only (proofs: C02_Proofs.v). *)
From Adb Require Import Base Generated.

Definition DOT : N := 46.   Definition STAR : N := 42.  Definition CARET : N := 94.
Definition SLASH : N := 47. Definition PIPE : N := 124. Definition NL : N := 10.
Definition BACKSLASH : N := 92. Definition COLON : N := 58. Definition DOLLAR : N := 36.

Definition nullb {A} (l : list A) : bool := match l with [] => true | _ => false end.
Definition nthb (s : str) (i : nat) : N := nth i s 0.
Definition head_is (c : N) (s : str) : bool := match s with x :: _ => N.eqb x c | [] => false end.
Definition last_is (c : N) (s : str) : bool := match s with [] => false | _ => N.eqb (last s 0) c end.

(* ====================================================================================== *)
(* L0 — specification vocabulary                                                          *)
(* ====================================================================================== *)

(* --- hostname anchoring: [h] occurs in [host] at offset [o], starting and ending at a label
   boundary.  [w]: the pattern continues with '*' (no label end required); [e]: the occurrence
   has to end the hostname. *)
Definition anchor_at (h host : str) (w e : bool) (o : nat) : Prop :=
  exists pre post,
    host = pre ++ h ++ post /\ length pre = o /\
    (pre = [] \/ head_is DOT h = true \/ last_is DOT pre = true) /\
    (post = [] \/ (e = false /\ (w = true \/ last_is DOT h = true \/ head_is DOT post = true))).

(* executable form of the same predicate (offset arithmetic) *)
Definition anchor_atb (h host : str) (w e : bool) (o : nat) : bool :=
  prefixb h (drop o host)
  && (Nat.eqb o 0 || head_is DOT h || N.eqb (nthb host (o - 1)) DOT)
  && (Nat.eqb (o + length h) (length host)
      || (negb e && (w || last_is DOT h || N.eqb (nthb host (o + length h)) DOT))).

(* first acceptable occurrence, scanning offsets from the left; [Some] = offset just after it *)
Definition ref_anchor_end (h host : str) (w e : bool) : option nat :=
  if nullb h then Some O
  else match find (anchor_atb h host w e) (seq 0 (S (length host))) with
       | Some o => Some (o + length h)%nat
       | None => None
       end.

(* --- ABP pattern language *)
Inductive ptok := PLit (b : N) | PStar | PSep.

(* separator: anything but a letter, a digit, or one of _ - . %  (bytes; regex \w with unicode off) *)
Definition is_sep (b : N) : bool :=
  negb (is_alnum b || N.eqb b 95 || N.eqb b 46 || N.eqb b 37 || N.eqb b 45).

(* [m e p s]: pattern [p] matches a prefix of [s] ([e = false]) / the whole of [s] ([e = true]).
   '^' is one separator byte, or the end of the string when it is the last token. *)
Inductive m (e : bool) : list ptok -> str -> Prop :=
| m_nil_any  : forall s, e = false -> m e [] s
| m_nil_end  : m e [] []
| m_lit      : forall b p s, m e p s -> m e (PLit b :: p) (b :: s)
| m_sep      : forall b p s, is_sep b = true -> m e p s -> m e (PSep :: p) (b :: s)
| m_sep_end  : m e [PSep] []
| m_star_skip: forall p s, m e p s -> m e (PStar :: p) s
| m_star_eat : forall b p s, m e (PStar :: p) s -> m e (PStar :: p) (b :: s).

(* the pattern matches starting at some offset *)
Definition m_somewhere (e : bool) (p : list ptok) (s : str) : Prop :=
  exists pre suf, s = pre ++ suf /\ m e p suf.

(* executable matcher *)
Fixpoint mb (e : bool) (p : list ptok) : str -> bool :=
  match p with
  | [] => fun s => if e then nullb s else true
  | PLit b :: p' => fun s => match s with x :: s' => N.eqb x b && mb e p' s' | [] => false end
  | PSep :: p' => fun s => match s with x :: s' => is_sep x && mb e p' s' | [] => nullb p' end
  | PStar :: p' =>
      fix star (s : str) : bool :=
        mb e p' s || match s with [] => false | _ :: s' => star s' end
  end.

Fixpoint mb_somewhere (e : bool) (p : list ptok) (s : str) : bool :=
  mb e p s || match s with [] => false | _ :: s' => mb_somewhere e p s' end.

Definition search (la e : bool) (p : list ptok) (s : str) : bool :=
  if la then mb e p s else mb_somewhere e p s.

(* filter text -> tokens *)
Definition tok_of (b : N) : ptok :=
  if N.eqb b STAR then PStar else if N.eqb b CARET then PSep else PLit b.
Definition toks (f : str) : list ptok := map tok_of f.

(* --- pattern AST and reference semantics *)
Inductive lanchor := LNone | LPipe | LHost (h : str).
Record past := { pa_left : lanchor; pa_body : list ptok; pa_right : bool }.

Definition starts_with_star (p : list ptok) : bool := match p with PStar :: _ => true | _ => false end.

(* [url]: the lower-cased URL; [host]: the request hostname; [hs]: offset of the host in the URL *)
Definition ref_match (a : past) (url host : str) (hs : nat) : Prop :=
  match pa_left a with
  | LNone => m_somewhere (pa_right a) (pa_body a) url
  | LPipe => m (pa_right a) (pa_body a) url
  | LHost h =>
      exists o, anchor_at h host (starts_with_star (pa_body a)) false o /\
                m (pa_right a) (pa_body a) (drop (hs + o + length h) url)
  end.

(* executable version, used by the correspondence cases and the refutation witnesses *)
Definition ref_matchb (a : past) (url host : str) (hs : nat) : bool :=
  match pa_left a with
  | LNone => mb_somewhere (pa_right a) (pa_body a) url
  | LPipe => mb (pa_right a) (pa_body a) url
  | LHost h =>
      existsb (fun o => anchor_atb h host (starts_with_star (pa_body a)) false o
                        && mb (pa_right a) (pa_body a) (drop (hs + o + length h) url))
              (seq 0 (S (length host)))
  end.

(* ====================================================================================== *)
(* L1 — src/filters/network_matchers.rs                                                   *)
(* ====================================================================================== *)

(* fn anchored_hostname_end: the while loop; [fuel] bounds the number of iterations
   (search_from strictly increases and stays <= hostname_len). *)
Fixpoint ahe_loop (fuel : nat) (fh host : str) (w e : bool) (search_from : nat) : option nat :=
  match fuel with
  | O => None
  | S fuel' =>
      if Nat.leb (search_from + length fh) (length host) then
        match find_sub fh (drop search_from host) with
        | None => None                                         (* the `?` *)
        | Some j =>
            let match_index := (search_from + j)%nat in
            let match_end := (match_index + length fh)%nat in
            let starts_label :=
              Nat.eqb match_index 0 || head_is DOT fh || N.eqb (nthb host (match_index - 1)) DOT in
            let ends_label :=
              Nat.eqb match_end (length host)
              || (negb e && (w || last_is DOT fh || N.eqb (nthb host match_end) DOT)) in
            if starts_label && ends_label then Some match_end
            else ahe_loop fuel' fh host w e (S match_index)
        end
      else None
  end.

Definition anchored_hostname_end (fh host : str) (w e : bool) : option nat :=
  if Nat.eqb (length fh) 0 then Some O
  else if Nat.ltb (length host) (length fh) then None
  else ahe_loop (S (length host)) fh host w e 0.

Definition is_anchored_by_hostname (fh host : str) (w : bool) : bool :=
  match anchored_hostname_end fh host w false with Some _ => true | None => false end.

(* fn get_url_after_hostname.  `url.len() - hostname.len()` is truncated subtraction here: when
   the hostname does not occur in the URL and is longer than it, a build with overflow checks
   panics and a build without returns "" (as this model does).  Unreachable for a request whose
   hostname is a slice of its URL. *)
Definition get_url_after_hostname (url hostname : str) : str :=
  let start := match find_sub hostname url with
               | Some i => i
               | None => (length url - length hostname)%nat
               end in
  drop (start + length hostname) url.

(* first offset of a byte of [cs] (str::find with a char predicate, ASCII) *)
Fixpoint find_first_of (cs : list N) (s : str) : option nat :=
  match s with
  | [] => None
  | x :: t => if memN x cs then Some O
              else match find_first_of cs t with Some i => Some (S i) | None => None end
  end.
Definition AT : N := 64.
(* where fn get_url_after_anchor starts looking for the request hostname: after "://" (or at 0),
   and after the last '@' of the authority (= up to the first '/', '?' or '#') *)
Definition host_search_start (url : str) : nat :=
  let authority_start := match find_sub (bs "://") url with Some i => (i + 3)%nat | None => O end in
  let rest := drop authority_start url in
  let authority_len := match find_first_of [47; 63; 35] rest with
                       | Some i => i
                       | None => (length url - authority_start)%nat
                       end in
  match rfind_byte AT (take authority_len rest) with
  | Some i => (authority_start + i + 1)%nat
  | None => authority_start
  end.
(* fn get_url_after_anchor (byte level: `url.get(start..)` never fails on ASCII input) *)
Definition get_url_after_anchor (url request_hostname : str) (anchor_end : nat) : str :=
  if Nat.eqb anchor_end 0 then url
  else
    let hss := host_search_start url in
    let rest := (length (get_url_after_hostname (drop hss url) request_hostname)
                 + (length request_hostname - anchor_end))%nat in
    if Nat.leb rest (length url) then drop (length url - rest) url else [].

(* --- request and mask views *)
Record request := { r_url : str; r_host : str }.
(* Request::get_url: url_lower_cased is url.to_ascii_lowercase() by construction *)
Definition get_url (r : request) (case_sensitive : bool) : str :=
  if case_sensitive then r_url r else lower_str (r_url r).

Definition has (mask flag : N) : bool := N.eqb (N.land mask flag) flag.   (* bitflags contains *)

Record shape := {
  s_hn : bool;     (* IS_HOSTNAME_ANCHOR *)
  s_rx : bool;     (* IS_REGEX *)
  s_cr : bool;     (* IS_COMPLETE_REGEX *)
  s_la : bool;     (* IS_LEFT_ANCHOR *)
  s_ra : bool;     (* IS_RIGHT_ANCHOR *)
  s_wild : bool;   (* IS_HOSTNAME_REGEX *)
  s_mc : bool      (* MATCH_CASE *)
}.
Definition shape_of_mask (mask : N) : shape :=
  {| s_hn := has mask M_IS_HOSTNAME_ANCHOR; s_rx := has mask M_IS_REGEX;
     s_cr := has mask M_IS_COMPLETE_REGEX; s_la := has mask M_IS_LEFT_ANCHOR;
     s_ra := has mask M_IS_RIGHT_ANCHOR; s_wild := has mask M_IS_HOSTNAME_REGEX;
     s_mc := has mask M_MATCH_CASE |}.
Definition mask_of_shape (sh : shape) : N :=
  (if s_hn sh then M_IS_HOSTNAME_ANCHOR else 0) + (if s_rx sh then M_IS_REGEX else 0)
  + (if s_cr sh then M_IS_COMPLETE_REGEX else 0) + (if s_la sh then M_IS_LEFT_ANCHOR else 0)
  + (if s_ra sh then M_IS_RIGHT_ANCHOR else 0) + (if s_wild sh then M_IS_HOSTNAME_REGEX else 0)
  + (if s_mc sh then M_MATCH_CASE else 0).

(* ====================================================================================== *)
(* L1 — src/regex_manager.rs: compile_regex, string level                                 *)
(* ====================================================================================== *)

(* SPECIAL_RE = ([\|\.\$\+\?\{\}\(\)\[\]\\])   (the backslash since /repo 3b0c504) *)
Definition is_special (b : N) : bool :=
  memN b [124; 46; 36; 43; 63; 123; 125; 40; 41; 91; 93; 92].

Definition SEP_TXT : str := bs "(?:[^\w\d\._%-])".
Definition SEP_EOL_TXT : str := bs "(?:[^\w\d\._%-]|$)".
Definition DOTSTAR : str := [46; 42].

(* SPECIAL_RE.replace_all(_, "\\$1") *)
Definition pass_special (s : str) : str :=
  flat_map (fun b => if is_special b then [BACKSLASH; b] else [b]) s.
(* WILDCARD_RE.replace_all(_, ".*") *)
Definition pass_wildcard (s : str) : str :=
  flat_map (fun b => if N.eqb b STAR then DOTSTAR else [b]) s.
(* ANCHOR_RE = \^(.) replaced by "(?:[^\w\d\._%-])$1": leftmost, non-overlapping; '.' does not
   match a line feed.  (Byte level: the captured character's first byte is copied here and its
   continuation bytes, which are never '^', by the following steps.) *)
Fixpoint pass_anchor (s : str) : str :=
  match s with
  | [] => []
  | x :: t =>
      if N.eqb x CARET then
        match t with
        | [] => [x]
        | c :: r => if N.eqb c NL then x :: pass_anchor t else SEP_TXT ++ c :: pass_anchor r
        end
      else x :: pass_anchor t
  end.
(* ANCHOR_RE_EOL = \^$ *)
Fixpoint pass_anchor_eol (s : str) : str :=
  match s with
  | [] => []
  | x :: t => match t with
              | [] => if N.eqb x CARET then SEP_EOL_TXT else [x]
              | _ => x :: pass_anchor_eol t
              end
  end.

Definition translate (f : str) (la ra : bool) : str :=
  (if la then [CARET] else []) ++
  pass_anchor_eol (pass_anchor (pass_wildcard (pass_special f))) ++
  (if ra then [DOLLAR] else []).

(* String::replace of a two-byte sequence by one byte *)
Fixpoint replace2 (a b c : N) (s : str) : str :=
  match s with
  | [] => []
  | x :: t => match t with
              | y :: r => if N.eqb x a && N.eqb y b then c :: replace2 a b c r
                          else x :: replace2 a b c t
              | [] => [x]
              end
  end.
Definition strip_slashes (f : str) : str :=
  match f with
  | x :: t => if N.eqb x SLASH && last_is SLASH t then removelast t else f
  | [] => f
  end.
Definition unescape_complete (f : str) : str :=
  replace2 BACKSLASH COLON COLON (replace2 BACKSLASH SLASH SLASH (strip_slashes f)).

Inductive compiled := MatchAll | Pats (ps : list str).

(* the loop over the filter parts; [None] = early `return MatchAll` on an empty part *)
Fixpoint compile_pats (fs : list str) (ra la cr : bool) : option (list str) :=
  match fs with
  | [] => Some []
  | f :: r =>
      if nullb f then None
      else match compile_pats r ra la cr with
           | None => None
           | Some ps => Some ((if cr then unescape_complete f else translate f la ra) :: ps)
           end
  end.
Definition compile_regex (fs : list str) (ra la cr : bool) : compiled :=
  match compile_pats fs ra la cr with
  | None => MatchAll
  | Some [] => MatchAll
  | Some ps => Pats ps
  end.

(* what verif_hooks::compile_regex_text prints (Display of CompiledRegex), given whether the
   regex crate accepted the patterns *)
Definition SPACE_BAR_SPACE : str := [32; 124; 32].
(* [oks]: for each pattern, whether the regex crate compiles it.  A set that does not build is
   rebuilt from its members that compile individually (all of them failing: parsing error). *)
Fixpoint keep_ok (ps : list str) (oks : list bool) : list str :=
  match ps, oks with
  | p :: ps', b :: oks' => if b then p :: keep_ok ps' oks' else keep_ok ps' oks'
  | _, _ => []
  end.
Definition compiled_text (c : compiled) (oks : list bool) : str :=
  match c with
  | MatchAll => DOTSTAR
  | Pats ps => match keep_ok ps oks with
               | [] => bs "ERROR"
               | valid => join_with SPACE_BAR_SPACE valid
               end
  end.

(* token printer: the regex text a token list stands for *)
Definition print_tok (is_last : bool) (t : ptok) : str :=
  match t with
  | PLit b => if is_special b then [BACKSLASH; b] else [b]
  | PStar => DOTSTAR
  | PSep => if is_last then SEP_EOL_TXT else SEP_TXT
  end.
Fixpoint print_toks (p : list ptok) : str :=
  match p with
  | [] => []
  | t :: r => match r with
              | [] => print_tok true t
              | _ => print_tok false t ++ print_toks r
              end
  end.
Definition regex_text (p : list ptok) (la ra : bool) : str :=
  (if la then [CARET] else []) ++ print_toks p ++ (if ra then [DOLLAR] else []).

(* degenerate spellings of the string translation *)
Fixpoint has_double_caret (f : str) : bool :=
  match f with
  | x :: t => (N.eqb x CARET && head_is CARET t) || has_double_caret t
  | [] => false
  end.
Definition no_nl (s : str) : bool := forallb (fun b => negb (N.eqb b NL)) s.
Definition no_backslash (s : str) : bool := forallb (fun b => negb (N.eqb b BACKSLASH)) s.

Section WithRegex.
  (* The regex crate (bytes::RegexBuilder::new(text).unicode(false)): whether [text] compiles,
     and Regex::is_match.  Third-party code: a Section variable, never an axiom; the theorems
     state what they need from it as explicit premises ([re_std]). *)
  Variable re_ok : str -> bool.
  Variable re_match : str -> str -> bool.

  (* one pattern: Compiled or RegexParsingError; several: a RegexSet of the members that compile
     (if the set as a whole does not build it is rebuilt from those; none compiles: no match) *)
  Definition is_match (c : compiled) (s : str) : bool :=
    match c with
    | MatchAll => true
    | Pats [p] => re_ok p && re_match p s
    | Pats ps => existsb (fun p => re_match p s) (filter re_ok ps)
    end.

  (* RegexManager::matches with a fresh manager (the cache is the subject of C06) *)
  Definition regex_manager_matches (sh : shape) (fs : list str) (s : str) : bool :=
    if negb (s_rx sh) && negb (s_cr sh) then true
    else is_match (compile_regex fs (s_ra sh) (s_la sh) (s_cr sh)) s.

  (* pattern *)
  Definition check_pattern_plain_filter_filter (sh : shape) (fs : list str) (r : request) : bool :=
    if nullb fs then true
    else existsb (fun f => containsb f (get_url r (s_mc sh))) fs.
  (* pattern| *)
  Definition check_pattern_right_anchor_filter (sh : shape) (fs : list str) (r : request) : bool :=
    if nullb fs then true
    else existsb (fun f => suffixb f (get_url r (s_mc sh))) fs.
  (* |pattern *)
  Definition check_pattern_left_anchor_filter (sh : shape) (fs : list str) (r : request) : bool :=
    if nullb fs then true
    else existsb (fun f => prefixb f (get_url r (s_mc sh))) fs.
  (* |pattern| *)
  Definition check_pattern_left_right_anchor_filter (sh : shape) (fs : list str) (r : request) : bool :=
    if nullb fs then true
    else existsb (fun f => str_eqb (get_url r (s_mc sh)) f) fs.
  (* pattern*^ *)
  Definition check_pattern_regex_filter_at (sh : shape) (fs : list str) (r : request) (start_from : nat) : bool :=
    regex_manager_matches sh fs (drop start_from (get_url r (s_mc sh))).
  Definition check_pattern_regex_filter (sh : shape) (fs : list str) (r : request) : bool :=
    check_pattern_regex_filter_at sh fs r 0.

  Definition at_hostname_end (sh : shape) (fs : list str) : bool := s_la sh && negb (nullb fs).

  (* ||pattern*^ *)
  Definition check_pattern_hostname_anchor_regex_filter
             (sh : shape) (fs : list str) (hostname : option str) (r : request) : bool :=
    let request_url := get_url r (s_mc sh) in
    match hostname with
    | None => false
    | Some h =>
        match anchored_hostname_end h (r_host r) (s_wild sh) (at_hostname_end sh fs) with
        | Some anchor_end =>
            let after := get_url_after_anchor request_url (r_host r) anchor_end in
            check_pattern_regex_filter_at sh fs r (length request_url - length after)
        | None => false
        end
    end.
  (* ||pattern| *)
  Definition check_pattern_hostname_right_anchor_filter
             (sh : shape) (fs : list str) (hostname : option str) (r : request) : bool :=
    match hostname with
    | None => false
    | Some h =>
        (* without a pattern the hostname has to end the request hostname *)
        match anchored_hostname_end h (r_host r) (s_wild sh) (nullb fs || s_la sh) with
        | Some _ =>
            if nullb fs then true
            else check_pattern_right_anchor_filter sh fs r
        | None => false
        end
    end.
  (* |||pattern| *)
  Definition check_pattern_hostname_left_right_anchor_filter
             (sh : shape) (fs : list str) (hostname : option str) (r : request) : bool :=
    match hostname with
    | None => false
    | Some h =>
        match anchored_hostname_end h (r_host r) (s_wild sh) (at_hostname_end sh fs) with
        | Some anchor_end =>
            if nullb fs then true
            else
              let after := get_url_after_anchor (get_url r (s_mc sh)) (r_host r) anchor_end in
              existsb (fun f => str_eqb after f) fs
        | None => false
        end
    end.
  (* ||pattern + left-anchor *)
  Definition check_pattern_hostname_left_anchor_filter
             (sh : shape) (fs : list str) (hostname : option str) (r : request) : bool :=
    match hostname with
    | None => false
    | Some h =>
        match anchored_hostname_end h (r_host r) (s_wild sh) (at_hostname_end sh fs) with
        | Some anchor_end =>
            if nullb fs then true
            else
              let after := get_url_after_anchor (get_url r (s_mc sh)) (r_host r) anchor_end in
              existsb (fun f => prefixb f after) fs
        | None => false
        end
    end.
  (* ||pattern *)
  Definition check_pattern_hostname_anchor_filter
             (sh : shape) (fs : list str) (hostname : option str) (r : request) : bool :=
    match hostname with
    | None => false
    | Some h =>
        match anchored_hostname_end h (r_host r) (s_wild sh) (at_hostname_end sh fs) with
        | Some anchor_end =>
            if nullb fs then true
            else
              let after := get_url_after_anchor (get_url r (s_mc sh)) (r_host r) anchor_end in
              existsb (fun f => containsb f after) fs
        | None => false
        end
    end.

  (* pub fn check_pattern *)
  Definition check_pattern_sh (sh : shape) (fs : list str) (hostname : option str) (r : request) : bool :=
    if s_hn sh then
      if s_rx sh then check_pattern_hostname_anchor_regex_filter sh fs hostname r
      else if s_ra sh && s_la sh then check_pattern_hostname_left_right_anchor_filter sh fs hostname r
      else if s_ra sh then check_pattern_hostname_right_anchor_filter sh fs hostname r
      else if s_la sh then check_pattern_hostname_left_anchor_filter sh fs hostname r
      else check_pattern_hostname_anchor_filter sh fs hostname r
    else if s_rx sh || s_cr sh then check_pattern_regex_filter sh fs r
    else if s_la sh && s_ra sh then check_pattern_left_right_anchor_filter sh fs r
    else if s_la sh then check_pattern_left_anchor_filter sh fs r
    else if s_ra sh then check_pattern_right_anchor_filter sh fs r
    else check_pattern_plain_filter_filter sh fs r.

  Definition check_pattern (mask : N) (fs : list str) (hostname : option str) (r : request) : bool :=
    check_pattern_sh (shape_of_mask mask) fs hostname r.

  (* premise about the regex crate for one rule: its text compiles and, on haystacks without a
     line feed, is_match is the standard semantics of the token list the text stands for *)
  Definition re_std (txt : str) (la ra : bool) (p : list ptok) : Prop :=
    re_ok txt = true /\ forall s, no_nl s = true -> re_match txt s = search la ra p s.
End WithRegex.

(* ====================================================================================== *)
(* what the parsed fields of a rule denote                                                *)
(* ====================================================================================== *)

(* FilterPart::Empty = None, FilterPart::Simple f = Some f (AnyOf only arises from the optimizer: C05) *)
Definition fs_of (filter : option str) : list str := match filter with Some f => [f] | None => [] end.
Definition body_of (filter : option str) : list ptok := match filter with Some f => toks f | None => [] end.

Definition ast_of_fields (sh : shape) (filter : option str) (hostname : option str) : past :=
  if s_hn sh then
    let h := match hostname with Some h => h | None => [] end in
    match filter with
    | None =>
        (* ||host (any URL on the host) / ||host^ (parser: lone '^' => right anchor) *)
        {| pa_left := LHost h; pa_body := if s_ra sh then [PSep] else []; pa_right := false |}
    | Some f =>
        (* a pattern that is not pinned directly after the host lost its leading '*' in the parser *)
        {| pa_left := LHost h;
           pa_body := if s_la sh then toks f else PStar :: toks f;
           pa_right := s_ra sh |}
    end
  else
    {| pa_left := if s_la sh then LPipe else LNone; pa_body := body_of filter; pa_right := s_ra sh |}.

Definition body_starts_sep (p : list ptok) : bool :=
  match p with PLit b :: _ => is_sep b | PSep :: _ => true | _ => false end.
Definition all_lits (f : str) : bool := forallb (fun b => negb (N.eqb b STAR || N.eqb b CARET)) f.

(* invariants of the fields NetworkFilter::parse produces (checked on every parsed rule by the
   correspondence run) *)
Definition wf_fields (sh : shape) (filter : option str) (hostname : option str) : bool :=
  negb (s_cr sh)
  && negb (s_mc sh)
  && match filter with
     | None => true
     | Some f => negb (nullb f) && Bool.eqb (s_rx sh) (negb (all_lits f))
     end
  && (if s_hn sh then
        match hostname with
        | None => false
        | Some h =>
            match filter with
            | Some f => if s_la sh then body_starts_sep (toks f) else s_wild sh
            | None => true
            end
        end
      else true).

(* field shapes that only degenerate spellings produce (leading/trailing '*' leaving an empty
   filter with a left anchor, ||host*...|, an empty ||host) *)
Definition nondegenerate_fields (sh : shape) (filter : option str) (hostname : option str) : bool :=
  match filter with
  | None => negb (s_la sh) && negb (s_rx sh) && negb (s_wild sh)
  | Some f => negb (s_hn sh && (s_ra sh && negb (s_la sh) && negb (s_rx sh)))
  end
  && (if s_hn sh then match hostname with Some h => negb (nullb h) | None => false end else true).
(* filter texts on which compile_regex's string translation is the canonical printing of the
   token list and that text means what the tokens mean *)
Definition regex_nondegenerate (f : str) : bool :=
  negb (has_double_caret f) && no_nl f.

(* request well-formedness: searching from where get_url_after_anchor starts (after "://" and the
   credentials) the first occurrence of the hostname in the lower-cased URL is the host, at offset
   [hs]; the hostname is not empty and its bytes are not separators (no IPv6 literal); what follows
   the host is the end of the URL or a separator (':' '/' '?' '#'); no line feed in the URL *)
Definition wf_request (r : request) (hs : nat) : Prop :=
  let url := lower_str (r_url r) in
  (host_search_start url <= hs)%nat /\
  find_sub (r_host r) (drop (host_search_start url) url) = Some (hs - host_search_start url)%nat /\
  r_host r <> [] /\
  forallb (fun b => negb (is_sep b)) (r_host r) = true /\
  (let post := drop (hs + length (r_host r)) url in
   post = [] \/ exists b t, post = b :: t /\ is_sep b = true) /\
  no_nl (r_url r) = true.
Definition wf_requestb (r : request) (hs : nat) : bool :=
  let url := lower_str (r_url r) in
  Nat.leb (host_search_start url) hs
  && opt_eqb Nat.eqb (find_sub (r_host r) (drop (host_search_start url) url))
                     (Some (hs - host_search_start url)%nat)
  && negb (nullb (r_host r))
  && forallb (fun b => negb (is_sep b)) (r_host r)
  && match drop (hs + length (r_host r)) url with [] => true | b :: _ => is_sep b end
  && no_nl (r_url r).

(* ====================================================================================== *)
(* L1 — pattern part of NetworkFilter::parse (src/filters/network.rs) and                  *)
(*      AbstractNetworkFilter::parse (anchors), for option-free lines                      *)
(* ====================================================================================== *)

Definition check_is_regex (f : str) : bool := negb (all_lits f).

Fixpoint trim_www (fuel : nat) (h : str) : str :=     (* str::trim_start_matches("www.") *)
  match fuel with
  | O => h
  | S k => if prefixb (bs "www.") h then trim_www k (drop 4 h) else h
  end.

Fixpoint find_first_sep (s : str) : option nat :=     (* Regex "[/^*]" find *)
  match s with
  | [] => None
  | x :: t => if N.eqb x SLASH || N.eqb x CARET || N.eqb x STAR then Some O
              else match find_first_sep t with Some i => Some (S i) | None => None end
  end.

(* lowercase_regex_body (since /repo 5436c47): the body of a /regex/ rule is lower-cased except for
   the byte that follows a backslash (\D, \W, \S, \B are not \d, \w, \s, \b) *)
Fixpoint lower_regex_esc (escaped : bool) (s : str) : str :=
  match s with
  | [] => []
  | c :: r => if escaped then c :: lower_regex_esc false r
              else to_lower c :: lower_regex_esc (N.eqb c BACKSLASH) r
  end.
Definition lower_regex_body (s : str) : str := lower_regex_esc false s.

Record pfields := { pf_shape : shape; pf_filter : option str; pf_hostname : option str;
                    pf_http : option bool; pf_https : option bool; pf_ws : bool }.

Inductive left_kind := KNone | KSingle | KDouble.

(* [pattern] is parsed.pattern.pattern (ASCII in this model: to_lowercase = to_ascii_lowercase
   and idna is not reached); returns None for the parse errors of this part
   (FullRegexUnsupported cannot happen: the feature is on) *)
Definition parse_pattern (lk : left_kind) (right_pipe : bool) (pattern : str) : pfields :=
  let hn0 := match lk with KDouble => true | _ => false end in
  let la0 := match lk with KSingle => true | _ => false end in
  let ra0 := right_pipe in
  let rx0 := check_is_regex pattern in
  let cr := head_is SLASH pattern && last_is SLASH pattern && Nat.ltb 1 (length pattern) in
  let fie0 := length pattern in
  (* hostname extraction *)
  let '(hostname, fis1, la1, ra1, rx1, wild) :=
    if hn0 then
      if rx0 then
        match find_first_sep pattern with
        | Some i =>
            let w := N.eqb (nthb pattern i) STAR in
            if Nat.eqb (fie0 - i) 1 && head_is CARET (drop i pattern)
            then (Some (take i pattern), fie0, la0, true, false, w)
            else (Some (take i pattern), i, true, ra0, check_is_regex (drop i pattern), w)
        | None => (None, O, la0, ra0, rx0, false)
        end
      else
        match find_byte SLASH pattern with
        | Some i => (Some (take i pattern), i, true, ra0, rx0, false)
        | None => (Some pattern, fie0, la0, ra0, rx0, false)
        end
    else (None, O, la0, ra0, rx0, false) in
  (* trailing '*' *)
  let fie1 := if Nat.ltb fis1 fie0 && last_is STAR pattern then (fie0 - 1)%nat else fie0 in
  (* leading '*' *)
  let '(fis2, la2) :=
    if Nat.ltb fis1 fie1 && head_is STAR (drop fis1 pattern) then (S fis1, false) else (fis1, la1) in
  (* protocol patterns *)
  let rest := drop fis2 pattern in
  let '(fis3, la3, http, https, ws) :=
    if la2 then
      if Nat.eqb fie1 (fis2 + 5) && prefixb (bs "ws://") rest then (fie1, false, Some false, Some false, true)
      else if Nat.eqb fie1 (fis2 + 7) && prefixb (bs "http://") rest then (fie1, false, Some true, Some false, false)
      else if Nat.eqb fie1 (fis2 + 8) && prefixb (bs "https://") rest then (fie1, false, Some false, Some true, false)
      else if Nat.eqb fie1 (fis2 + 8) && prefixb (bs "http*://") rest then (fie1, false, Some true, Some true, false)
      else (fis2, la2, None, None, false)
    else (fis2, la2, None, None, false) in
  let filter := if Nat.ltb fis3 fie1
                then Some ((if cr then lower_regex_body else lower_str) (take (fie1 - fis3) (drop fis3 pattern))) else None in
  let rx2 := match filter with Some f => check_is_regex f | None => rx1 end in
  let hostname' :=
    match hostname with
    | Some h => let l := lower_str h in Some (if hn0 then trim_www (length l) l else l)
    | None => None
    end in
  {| pf_shape := {| s_hn := hn0; s_rx := rx2; s_cr := cr; s_la := la3; s_ra := ra1;
                    s_wild := wild; s_mc := false |};
     pf_filter := filter; pf_hostname := hostname';
     pf_http := http; pf_https := https; pf_ws := ws |}.

(* AbstractNetworkFilter::parse on a line without '$' *)
Definition split_line (line : str) : (bool * left_kind * bool * str) :=
  let '(exc, l1) := if prefixb (bs "@@") line then (true, drop 2 line) else (false, line) in
  let '(lk, l2) := if prefixb [PIPE; PIPE] l1 then (KDouble, drop 2 l1)
                   else if prefixb [PIPE] l1 then (KSingle, drop 1 l1) else (KNone, l1) in
  if negb (nullb l2) && last_is PIPE l2 then (exc, lk, true, removelast l2)
  else (exc, lk, false, l2).

Definition parse_line (line : str) : pfields :=
  let '(_, lk, rp, pattern) := split_line line in parse_pattern lk rp pattern.

(* --- the declarative reading of a rule's text (L0) *)
Definition ast_of_text (line : str) : past :=
  let '(_, lk, rp, pattern) := split_line line in
  let p := lower_str pattern in
  match lk with
  | KNone => {| pa_left := LNone; pa_body := toks p; pa_right := rp |}
  | KSingle => {| pa_left := LPipe; pa_body := toks p; pa_right := rp |}
  | KDouble =>
      let cut := match find_first_sep p with Some i => i | None => length p end in
      let h := take cut p in
      {| pa_left := LHost (trim_www (length h) h); pa_body := toks (drop cut p); pa_right := rp |}
  end.

(* the property's degenerate spellings, on the text *)
Definition is_scheme_pattern (p : str) : bool :=
  str_eqb p (bs "ws://") || str_eqb p (bs "http://") || str_eqb p (bs "https://") || str_eqb p (bs "http*://").
Definition nondegenerate_text (line : str) : bool :=
  let '(_, lk, rp, pattern) := split_line line in
  let p := lower_str pattern in
  negb (nullb p)
  && no_nl p && negb (has_double_caret p)
  && negb (head_is STAR p) && negb (last_is STAR p)
  && negb (head_is SLASH p && last_is SLASH p && Nat.ltb 1 (length p))
  && negb (memN DOLLAR p)
  && match lk with
     | KNone => true
     | KSingle => negb (is_scheme_pattern p)
     | KDouble =>
         let cut := match find_first_sep p with Some i => i | None => length p end in
         let h := take cut p in
         let rest := drop cut p in
         negb (nullb (trim_www (length h) h))
         && negb (rp && (last_is CARET p || memN STAR p))
         && negb (is_scheme_pattern rest)
     end.
(* F22: a right '|' directly after a bare ||host (treated like '^'), and |scheme://| *)
Definition host_right_pipe (line : str) : bool :=
  let '(_, lk, rp, pattern) := split_line line in
  let p := lower_str pattern in
  rp && match lk with
        | KDouble => match find_first_sep p with None => true | Some _ => false end
        | KSingle => is_scheme_pattern p
        | KNone => false
        end.

(* --- boolean comparison helpers for the correspondence cases *)
Definition onat_eqb := opt_eqb Nat.eqb.
Definition ostr_eqb := opt_eqb str_eqb.
Definition ptok_eqb (a b : ptok) : bool :=
  match a, b with
  | PLit x, PLit y => N.eqb x y
  | PStar, PStar => true
  | PSep, PSep => true
  | _, _ => false
  end.
Definition lanchor_eqb (a b : lanchor) : bool :=
  match a, b with
  | LNone, LNone => true
  | LPipe, LPipe => true
  | LHost x, LHost y => str_eqb x y
  | _, _ => false
  end.
Definition past_eqb (a b : past) : bool :=
  lanchor_eqb (pa_left a) (pa_left b) && list_eqb ptok_eqb (pa_body a) (pa_body b)
  && Bool.eqb (pa_right a) (pa_right b).
Definition shape_eqb (a b : shape) : bool :=
  Bool.eqb (s_hn a) (s_hn b) && Bool.eqb (s_rx a) (s_rx b) && Bool.eqb (s_cr a) (s_cr b)
  && Bool.eqb (s_la a) (s_la b) && Bool.eqb (s_ra a) (s_ra b) && Bool.eqb (s_wild a) (s_wild b)
  && Bool.eqb (s_mc a) (s_mc b).

(* --- correspondence helpers: the crate's parsed fields against the model of the parser, and
   against the declarative reading of the text *)
Definition obool_is (o : option bool) (b : bool) : bool :=
  Bool.eqb (match o with Some x => x | None => true end) b.
Definition fields_agree (line : str) (mask : N) (filter hostname : option str) : bool :=
  let pf := parse_line line in
  shape_eqb (pf_shape pf) (shape_of_mask mask)
  && ostr_eqb (pf_filter pf) filter && ostr_eqb (pf_hostname pf) hostname
  && obool_is (pf_http pf) (has mask M_FROM_HTTP) && obool_is (pf_https pf) (has mask M_FROM_HTTPS)
  && (if pf_ws pf then has mask M_FROM_WEBSOCKET else true).
Definition text_tie (line : str) (mask : N) (filter hostname : option str) : bool :=
  let sh := shape_of_mask mask in
  implb (nondegenerate_text line && negb (host_right_pipe line))
        (wf_fields sh filter hostname && nondegenerate_fields sh filter hostname
         && past_eqb (ast_of_fields sh filter hostname) (ast_of_text line)).
(* the L0 reading of the text against the implementation's answer [impl], outside the carve-outs *)
Definition text_ref_agrees (line : str) (mask : N) (filter hostname : option str)
           (r : request) (hs : nat) (impl : bool) : bool :=
  implb (nondegenerate_text line && negb (host_right_pipe line) && wf_requestb r hs)
        (Bool.eqb (ref_matchb (ast_of_text line) (lower_str (r_url r)) (r_host r) hs) impl).
Definition len_in (s : str) (lens : list N) : bool := memN (N.of_nat (length s)) lens.
