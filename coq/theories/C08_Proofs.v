(* C08_Proofs.v — proofs for C08_Model.v *)
From Adb Require Import Base BaseProofs Generated Wire_Model Wire_Proofs C09_Model C09_Proofs C08_Model.
From Coq Require Import Permutation Sorted ZifyBool ZifyNat ZifyN.

(* ------------------------------------------------------------------ rule lists *)
Lemma wlist_state_roundtrip m : bucket_rules_ok m -> Permutation (from_wlist (to_wlist m)) m.
Proof.
  intros OK. unfold from_wlist, to_wlist.
  etransitivity; [apply Permutation_map; apply sort_nmap_permutation|].
  rewrite map_map. cbn [fst snd].
  assert (E : map (fun x : N * list rule => (fst x, map from_wrule (map to_wrule (snd x)))) m = m).
  { induction OK as [|[k v] m H F IH]; cbn; [reflexivity|]. cbn in H.
    rewrite map_roundtrip_rules by assumption. rewrite IH. reflexivity. }
  rewrite E. reflexivity.
Qed.

(* ------------------------------------------------------------------ host db *)
Lemma getn_forall {V} (P : V -> Prop) k (m : list (N * list V)) :
  Forall (fun kb => Forall P (snd kb)) m -> Forall P (getn k m).
Proof.
  induction 1 as [|[k' v] m H F IH]; cbn; [constructor|]. destruct (N.eqb k k'); assumption.
Qed.

Lemma map_id_on {A} (f : A -> A) l : Forall (fun a => f a = a) l -> map f l = l.
Proof. induction 1 as [|a l H _ IH]; cbn; [reflexivity|]. rewrite H, IH. reflexivity. Qed.

Section HostDb.
  Variable as_css : str -> option (str * str).

  (* what the reloaded host db reads, bin by bin, with no hypothesis on the permissions *)
  Theorem hostdb_roundtrip_exact b c k : hostdb_wf (c_specific c) ->
    let h := c_specific c in
    let h' := from_wire_hostdb (to_wire as_css b c) in
    getn k (h_hide h') = getn k (h_hide h) /\ getn k (h_unhide h') = getn k (h_unhide h) /\
    getn k (h_inject h') = map (fun sm => (fst sm, 0)) (getn k (h_inject h)) /\
    getn k (h_uninject h') = getn k (h_uninject h) /\
    getn k (h_proc h') = getn k (h_proc h) /\ getn k (h_proc_exc h') = getn k (h_proc_exc h).
  Proof.
    intros HW. cbn zeta. pose proof HW as HW'. destruct HW' as [D1 D2 D3 D4 D5 D6].
    unfold from_wire_hostdb. cbn [h_hide h_unhide h_inject h_uninject h_proc h_proc_exc wi_specific wi_proc wi_proc_exc to_wire].
    assert (ND : NoDup (map fst (sort_nmap (legacy_db as_css (c_specific c))))) by (apply sort_nmap_keys, legacy_db_nodup).
    rewrite !getn_push_all by exact ND. cbn [getn app].
    rewrite !getn_sort by (try apply legacy_db_nodup; assumption).
    rewrite getn_legacy_db by exact HW. unfold legacy_bin.
    destruct (recon_parts as_css (getn k (h_hide (c_specific c))) (getn k (h_unhide (c_specific c)))
                (getn k (h_uninject (c_specific c))) (getn k (h_inject (c_specific c)))
                (getn k (h_proc (c_specific c))) (getn k (h_proc_exc (c_specific c)))) as (E1 & E2 & E3 & E4).
    cbn zeta in E1, E2, E3, E4. rewrite E1, E2, E3, E4. repeat split; reflexivity.
  Qed.

  Theorem hostdb_roundtrip b c : hostdb_wf (c_specific c) -> scriptlet_perms_default c ->
    hostdb_equiv (from_wire_hostdb (to_wire as_css b c)) (c_specific c).
  Proof.
    intros HW PD.
    constructor; intros k; destruct (hostdb_roundtrip_exact b c k HW) as (E1 & E2 & E3 & E4 & E5 & E6); try assumption.
    rewrite E3. apply map_id_on. unfold scriptlet_perms_default in PD.
    pose proof (getn_forall (fun sm : str * N => snd sm = 0) k _ PD) as F.
    eapply Forall_impl; [|exact F]. intros [s p] H. cbn in *. subst. reflexivity.
  Qed.

  Theorem cosmetic_roundtrip b c : hostdb_wf (c_specific c) -> scriptlet_perms_default c ->
    cosmetic_equiv (from_wire_cosmetic (to_wire as_css b c)) c.
  Proof.
    intros HW PD. constructor; cbn [from_wire_cosmetic c_simple_class c_simple_id c_complex_class c_complex_id c_specific c_misc
                                    wi_simple_class wi_simple_id wi_complex_class wi_complex_id wi_misc to_wire].
    - apply sort_set_permutation.
    - apply sort_set_permutation.
    - apply sort_smap_permutation.
    - apply sort_smap_permutation.
    - apply hostdb_roundtrip; assumption.
    - apply sort_set_permutation.
  Qed.

  Variable build_list : list rule -> bool -> bucket_map.

  Theorem blocker_roundtrip tags b c : no_removeparam b -> rules_ok b ->
    blocker_equiv (use_tags build_list tags (from_wire_blocker (to_wire as_css b c))) (use_tags build_list tags b).
  Proof.
    intros NR [R1 R2 R3 R4 R5 R6 R7 R8].
    assert (TA : b_tagged_all (from_wire_blocker (to_wire as_css b c)) = b_tagged_all b).
    { cbn [from_wire_blocker b_tagged_all wi_tagged_all to_wire]. apply map_roundtrip_rules. exact R8. }
    constructor;
      cbn [use_tags from_wire_blocker b_csp b_exceptions b_importants b_redirects b_removeparam b_filters_tagged
           b_filters b_generic_hide b_tags_enabled b_tagged_all b_opt
           wi_csp wi_exceptions wi_importants wi_redirects wi_filters wi_generic_hide wi_tagged_all wi_opt to_wire];
      try (apply wlist_state_roundtrip; assumption); try reflexivity.
    - rewrite NR. reflexivity.
    - rewrite (map_roundtrip_rules _ R8). reflexivity.
    - apply map_roundtrip_rules. exact R8.
  Qed.

  (* wire_roundtrip_state: loading what was serialized (into any engine, whose enabled tags are
     re-applied) and then enabling any tag set gives a state that reads like the original under
     the same tag set, on every container the queries read *)
  Theorem wire_roundtrip_state l e tags :
    no_removeparam (e_blocker e) -> scriptlet_perms_default (e_cosmetic e) ->
    rules_ok (e_blocker e) -> hostdb_wf (c_specific (e_cosmetic e)) ->
    let w := to_wire as_css (e_blocker e) (e_cosmetic e) in
    let e' := engine_use_tags build_list tags (install build_list l w) in
    blocker_equiv (e_blocker e') (e_blocker (engine_use_tags build_list tags e)) /\
    cosmetic_equiv (e_cosmetic e') (e_cosmetic e) /\ e_resources e' = e_resources l.
  Proof.
    intros NR PD RO HW. cbn zeta. split; [|split].
    - cbn [engine_use_tags install e_blocker].
      pose proof (blocker_roundtrip tags (e_blocker e) (e_cosmetic e) NR RO) as B.
      destruct B as [B1 B2 B3 B4 B5 B6 B7 B8 B9 B10 B11].
      constructor; cbn [use_tags b_csp b_exceptions b_importants b_redirects b_removeparam b_filters_tagged
           b_filters b_generic_hide b_tags_enabled b_tagged_all b_opt] in *; try assumption.
    - cbn [engine_use_tags install e_cosmetic]. apply cosmetic_roundtrip; assumption.
    - reflexivity.
  Qed.

  (* the exact losses, without the two hypotheses: the removeparam list comes back empty and every
     scriptlet permission comes back 0; nothing else changes *)
  Theorem roundtrip_losses b c : hostdb_wf (c_specific c) ->
    b_removeparam (from_wire_blocker (to_wire as_css b c)) = [] /\
    forall k, getn k (h_inject (from_wire_hostdb (to_wire as_css b c))) =
              map (fun sm => (fst sm, 0)) (getn k (h_inject (c_specific c))).
  Proof.
    intros HW. split; [reflexivity|]. intros k.
    destruct (hostdb_roundtrip_exact b c k HW) as (_ & _ & E & _). exact E.
  Qed.
End HostDb.

(* ------------------------------------------------------------------ equivalent states read the same *)
Lemma gets_perm {V} k (m m' : list (str * list V)) :
  Permutation m m' -> NoDup (map fst m) -> gets k m = gets k m'.
Proof.
  induction 1 as [|[k1 v1] l l' P IH|[k1 v1] [k2 v2] l|l l' l'' P1 IH1 P2 IH2]; intros ND.
  - reflexivity.
  - cbn. inversion ND; subst. rewrite IH by assumption. reflexivity.
  - cbn. destruct (str_eqb k k1) eqn:E1, (str_eqb k k2) eqn:E2; try reflexivity.
    apply str_eqb_eq in E1, E2. subst. cbn in ND. inversion ND as [|? ? NI _]. exfalso. apply NI. left. reflexivity.
  - rewrite IH1 by assumption. apply IH2. eapply Permutation_NoDup; [|exact ND].
    apply Permutation_map. exact P1.
Qed.

(* network side: every bucket probe `filter_map.get(token)` answers the same *)
Theorem blocker_equiv_reads a b : blocker_equiv a b ->
  NoDup (map fst (b_csp a)) -> NoDup (map fst (b_exceptions a)) -> NoDup (map fst (b_importants a)) ->
  NoDup (map fst (b_redirects a)) -> NoDup (map fst (b_removeparam a)) -> NoDup (map fst (b_filters_tagged a)) ->
  NoDup (map fst (b_filters a)) -> NoDup (map fst (b_generic_hide a)) ->
  forall k, getn k (b_csp a) = getn k (b_csp b) /\ getn k (b_exceptions a) = getn k (b_exceptions b) /\
            getn k (b_importants a) = getn k (b_importants b) /\ getn k (b_redirects a) = getn k (b_redirects b) /\
            getn k (b_removeparam a) = getn k (b_removeparam b) /\
            getn k (b_filters_tagged a) = getn k (b_filters_tagged b) /\
            getn k (b_filters a) = getn k (b_filters b) /\ getn k (b_generic_hide a) = getn k (b_generic_hide b).
Proof.
  intros [P1 P2 P3 P4 P5 P6 P7 P8 _ _ _] N1 N2 N3 N4 N5 N6 N7 N8 k.
  repeat split; apply getn_perm; assumption.
Qed.

(* cosmetic side: set membership, the two keyed maps, the six per-host bins *)
Theorem cosmetic_equiv_reads a b : cosmetic_equiv a b ->
  NoDup (map fst (c_complex_class a)) -> NoDup (map fst (c_complex_id a)) ->
  (forall x, In x (c_simple_class a) <-> In x (c_simple_class b)) /\
  (forall x, In x (c_simple_id a) <-> In x (c_simple_id b)) /\
  (forall x, In x (c_misc a) <-> In x (c_misc b)) /\
  (forall k, gets k (c_complex_class a) = gets k (c_complex_class b)) /\
  (forall k, gets k (c_complex_id a) = gets k (c_complex_id b)) /\
  hostdb_equiv (c_specific a) (c_specific b).
Proof.
  intros [P1 P2 P3 P4 H P6] N3 N4.
  repeat split; try (intros I; eapply Permutation_in; [|exact I]; (assumption || (symmetry; assumption)));
    try (intros k; apply gets_perm; assumption); apply H.
Qed.

(* ------------------------------------------------------------------ F8 / F9 witnesses *)
Ltac mo_tac := unfold mo_ok; first [left; reflexivity | right; left; reflexivity | right; right; reflexivity].
Ltac forall_tac leaf := repeat (apply Forall_cons || apply Forall_nil); try leaf.
Ltac rules_ok_tac := constructor; unfold bucket_rules_ok; cbn [b_csp b_exceptions b_importants b_redirects
  b_filters_tagged b_filters b_generic_hide b_tagged_all ex_blocker1 ex_blocker2 snd]; forall_tac mo_tac.

Lemma ex_rules_ok1 : rules_ok ex_blocker1.
Proof. rules_ok_tac. Qed.
Lemma ex_rules_ok2 : rules_ok ex_blocker2.
Proof. rules_ok_tac. Qed.
Lemma ex_hostdb_wf1 : hostdb_wf (c_specific ex_cosmetic1).
Proof. constructor; cbn; nodup_tac. Qed.
Lemma ex_perms1 : scriptlet_perms_default ex_cosmetic1.
Proof. unfold scriptlet_perms_default. cbn. repeat constructor. Qed.

(* F8: a state with a removeparam rule: the rule is gone after the round trip *)
Lemma wire_removeparam_refuted : exists b c,
  rules_ok b /\ hostdb_wf (c_specific c) /\ scriptlet_perms_default c /\
  b_removeparam b <> [] /\ b_removeparam (from_wire_blocker (to_wire ex_css b c)) = [].
Proof.
  exists ex_blocker1, ex_cosmetic1.
  split; [exact ex_rules_ok1|]. split; [exact ex_hostdb_wf1|]. split; [exact ex_perms1|].
  split; [cbn; discriminate|reflexivity].
Qed.

(* F9: a scriptlet rule parsed with permission bits 1: the bits are 0 after the round trip *)
Definition ex_cosmetic_perm1 : cosmetic :=
  Build_cosmetic [] [] [] [] (Build_hostdb [] [] [(9, [(bs "trusted, 1", 1)])] [] [] []) [].
Lemma wire_permission_refuted : exists b c k,
  no_removeparam b /\ rules_ok b /\ hostdb_wf (c_specific c) /\
  getn k (h_inject (c_specific (from_wire_cosmetic (to_wire ex_css b c)))) <> getn k (h_inject (c_specific c)).
Proof.
  exists ex_blocker2, ex_cosmetic_perm1, 9.
  split; [reflexivity|]. split; [exact ex_rules_ok2|].
  split; [constructor; cbn; nodup_tac|].
  vm_compute. intros H. inversion H.
Qed.

(* the hypotheses of wire_roundtrip_state are satisfiable on a non-trivial state *)
Example roundtrip_example :
  no_removeparam ex_blocker2 /\ scriptlet_perms_default ex_cosmetic1 /\ rules_ok ex_blocker2 /\
  hostdb_wf (c_specific ex_cosmetic1) /\
  mp_eqb (digest (engine_use_tags (fun _ _ => []) [bs "t1"] (install (fun _ _ => []) (loader [bs "zz"])
                    (to_wire ex_css ex_blocker2 ex_cosmetic1))))
         (digest (engine_use_tags (fun _ _ => []) [bs "t1"] (Build_engine ex_blocker2 ex_cosmetic1 []))) = true.
Proof.
  split; [reflexivity|]. split; [exact ex_perms1|]. split; [exact ex_rules_ok2|]. split; [exact ex_hostdb_wf1|].
  vm_compute. reflexivity.
Qed.

(* translator ties: the two losses are what the source says *)
Lemma losses_as_in_source :
  REMOVEPARAM_ON_WIRE = false /\ REMOVEPARAM_RESTORED_EMPTY = true /\ SCRIPT_PERMISSION_RESTORED_DEFAULT = true.
Proof. repeat split. Qed.
Lemma mo_okb_iff r : mo_okb r = true <-> mo_ok r.
Proof.
  unfold mo_okb, mo_ok. destruct (is_redirect r), (is_csp r), (r_modifier r); cbn; split; intros H; auto;
    try discriminate; destruct H as [H|[H|H]]; discriminate.
Qed.

(* ------------------------------------------------------------------ class/id query, end to end *)
Lemma mem_str_perm x l l' : Permutation l l' -> mem_str x l = mem_str x l'.
Proof.
  intros P. destruct (mem_str x l) eqn:A, (mem_str x l') eqn:B; try reflexivity.
  - apply mem_str_In in A. apply (Permutation_in _ P) in A. apply mem_str_In in A. congruence.
  - apply mem_str_In in B. apply (Permutation_in _ (Permutation_sym P)) in B. apply mem_str_In in B. congruence.
Qed.

Lemma hidden_for_equiv p s s' m m' exc name :
  Permutation s s' -> Permutation m m' -> NoDup (map fst m) ->
  hidden_for p s m exc name = hidden_for p s' m' exc name.
Proof.
  intros PS PM ND. unfold hidden_for. rewrite (mem_str_perm name _ _ PS), (gets_perm name _ _ PM ND). reflexivity.
Qed.

(* equivalent cosmetic states give the same answer, as a list, to every class/id query *)
Theorem class_id_query_equiv a b classes ids exc : cosmetic_equiv a b ->
  NoDup (map fst (c_complex_class a)) -> NoDup (map fst (c_complex_id a)) ->
  hidden_class_id_selectors a classes ids exc = hidden_class_id_selectors b classes ids exc.
Proof.
  intros [P1 P2 P3 P4 _ _] N3 N4. unfold hidden_class_id_selectors. f_equal.
  - induction classes as [|x l IH]; cbn; [reflexivity|]. rewrite IH.
    rewrite (hidden_for_equiv DOT _ _ _ _ exc x P1 P3 N3). reflexivity.
  - induction ids as [|x l IH]; cbn; [reflexivity|]. rewrite IH.
    rewrite (hidden_for_equiv HASH _ _ _ _ exc x P2 P4 N4). reflexivity.
Qed.

(* hence: the class/id query on the reloaded engine returns what it returned on the original
   (no hypothesis about removeparam rules or permissions is needed for this query) *)
Theorem class_id_query_roundtrip as_css b c classes ids exc :
  hostdb_wf (c_specific c) -> NoDup (map fst (c_complex_class c)) -> NoDup (map fst (c_complex_id c)) ->
  hidden_class_id_selectors (from_wire_cosmetic (to_wire as_css b c)) classes ids exc =
  hidden_class_id_selectors c classes ids exc.
Proof.
  intros HW N3 N4. unfold hidden_class_id_selectors.
  cbn [from_wire_cosmetic c_simple_class c_simple_id c_complex_class c_complex_id
       wi_simple_class wi_simple_id wi_complex_class wi_complex_id to_wire].
  f_equal.
  - induction classes as [|x l IH]; cbn; [reflexivity|]. rewrite IH. f_equal.
    apply hidden_for_equiv; [apply sort_set_permutation|apply sort_smap_permutation|].
    eapply Permutation_NoDup; [|exact N3]. apply Permutation_map. symmetry. apply sort_smap_permutation.
  - induction ids as [|x l IH]; cbn; [reflexivity|]. rewrite IH. f_equal.
    apply hidden_for_equiv; [apply sort_set_permutation|apply sort_smap_permutation|].
    eapply Permutation_NoDup; [|exact N4]. apply Permutation_map. symmetry. apply sort_smap_permutation.
Qed.
