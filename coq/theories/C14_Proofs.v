(* C14_Proofs.v — apply_removeparam refines the L0 description for every URL and name set. *)
From Adb Require Import Base BaseProofs C14_Model.
From Coq Require Import ZifyBool ZifyNat ZifyN.

Definition spec_rewrite (names : list str) (pre q post : str) : option str :=
  let ps := split_on AMP q in
  if forallb (kept names) ps then None
  else let p := join_with [AMP] (filter (kept names) ps) in
       Some (pre ++ (if null p then [] else QMARK :: p) ++ post).

Lemma find_hash_split pre q post :
  find_byte HASH pre = None -> find_byte HASH q = None ->
  (post = [] \/ exists r, post = HASH :: r) ->
  (match find_byte HASH (pre ++ QMARK :: q ++ post) with Some j => j | None => length (pre ++ QMARK :: q ++ post) end)
  = (length pre + 1 + length q)%nat.
Proof.
  intros Hp Hq Hpost.
  apply find_byte_None in Hp. apply find_byte_None in Hq.
  rewrite find_byte_app_notin by exact Hp.
  cbn [find_byte]. change (N.eqb QMARK HASH) with false. cbn iota.
  rewrite find_byte_app_notin by exact Hq.
  destruct Hpost as [->|[r ->]].
  - cbn [find_byte]. rewrite !app_length. cbn [length]. rewrite app_length. cbn. lia.
  - cbn [find_byte]. rewrite N.eqb_refl. lia.
Qed.

Theorem removeparam_split names url pre q post :
  url_split url pre q post ->
  apply_removeparam names url = spec_rewrite names pre q post.
Proof.
  intros [Hurl HpQ HpH HqH Hpost].
  unfold apply_removeparam. subst url.
  rewrite (find_hash_split pre q post HpH HqH Hpost).
  assert (Htake : take (length pre + 1 + length q) (pre ++ QMARK :: q ++ post) = pre ++ QMARK :: q).
  { replace (pre ++ QMARK :: q ++ post) with ((pre ++ QMARK :: q) ++ post)
      by (rewrite <- app_assoc; reflexivity).
    replace (length pre + 1 + length q)%nat with (length (pre ++ QMARK :: q))
      by (rewrite app_length; cbn; lia).
    apply take_app_length. }
  rewrite Htake.
  pose proof (proj1 (find_byte_None _ _) HpQ) as HpQ'.
  rewrite find_byte_app_notin by exact HpQ'.
  cbn [find_byte]. rewrite N.eqb_refl. rewrite Nat.add_0_r.
  assert (Hdrop : drop (S (length pre)) (pre ++ QMARK :: q ++ post) = q ++ post).
  { replace (pre ++ QMARK :: q ++ post) with ((pre ++ [QMARK]) ++ q ++ post)
      by (rewrite <- app_assoc; reflexivity).
    replace (S (length pre)) with (length (pre ++ [QMARK])) by (rewrite app_length; cbn; lia).
    apply drop_app_length. }
  rewrite Hdrop.
  pose proof (proj1 (find_byte_None _ _) HqH) as HqH'.
  assert (Hhi : match find_byte HASH (q ++ post) with
                | Some j => (S (length pre) + j)%nat
                | None => length (pre ++ QMARK :: q ++ post) end = (length pre + 1 + length q)%nat).
  { rewrite find_byte_app_notin by exact HqH'.
    destruct Hpost as [->|[r ->]].
    - cbn [find_byte]. rewrite app_length. cbn [length]. rewrite app_length. cbn. lia.
    - cbn [find_byte]. rewrite N.eqb_refl. lia. }
  rewrite Hhi.
  replace (length pre + 1 + length q - S (length pre))%nat with (length q) by lia.
  rewrite take_app_length.
  assert (Hpre : take (length pre) (pre ++ QMARK :: q ++ post) = pre) by apply take_app_length.
  rewrite Hpre.
  assert (Hpost' : drop (length pre + 1 + length q) (pre ++ QMARK :: q ++ post) = post).
  { replace (pre ++ QMARK :: q ++ post) with ((pre ++ QMARK :: q) ++ post)
      by (rewrite <- app_assoc; reflexivity).
    replace (length pre + 1 + length q)%nat with (length (pre ++ QMARK :: q))
      by (rewrite app_length; cbn; lia).
    apply drop_app_length. }
  rewrite Hpost'. unfold spec_rewrite. reflexivity.
Qed.

(* No query before the fragment: nothing is rewritten. *)
Theorem removeparam_no_query names url :
  no_query url -> apply_removeparam names url = None.
Proof.
  intros Hn. unfold apply_removeparam.
  destruct (find_byte HASH url) as [j|] eqn:Hh.
  - destruct (find_byte QMARK (take j url)) as [i|] eqn:Hq; [|reflexivity]. exfalso.
    destruct (find_byte_Some _ _ _ Hq) as (Hlt & _ & _ & _).
    assert (Hq' : find_byte QMARK url = Some i).
    { rewrite <- (take_drop j url). apply find_byte_app_in. exact Hq. }
    destruct (Hn i Hq') as (j' & Hj' & Hlt'). rewrite Hh in Hj'. inversion Hj'; subst j'.
    unfold take in Hlt. rewrite firstn_length in Hlt. lia.
  - unfold take. rewrite firstn_all.
    destruct (find_byte QMARK url) as [i|] eqn:Hq; [|reflexivity]. exfalso.
    destruct (Hn i Hq) as (j' & Hj' & _). rewrite Hh in Hj'. discriminate.
Qed.

(* Every URL either has no query or splits (so the two theorems above cover every input). *)
Theorem url_split_total url :
  no_query url \/ exists pre q post, url_split url pre q post.
Proof.
  destruct (find_byte HASH url) as [j|] eqn:Hh.
  - destruct (find_byte QMARK (take j url)) as [i|] eqn:Hq.
    + right. destruct (find_byte_Some _ _ _ Hq) as (Hlt & _ & HnoneQ & Hdec).
      destruct (find_byte_Some _ _ _ Hh) as (Hltj & _ & HnoneH & Hdecj).
      exists (take i (take j url)), (drop (S i) (take j url)), (drop j url).
      constructor.
      * rewrite <- (take_drop j url) at 1. rewrite Hdec at 1. rewrite <- app_assoc. reflexivity.
      * exact HnoneQ.
      * apply find_byte_None. intros Hin. apply (proj1 (find_byte_None _ _) HnoneH).
        unfold take in *. apply (In_firstn_aux _ _ _ Hin).
      * apply find_byte_None. intros Hin. apply (proj1 (find_byte_None _ _) HnoneH).
        unfold drop in Hin. apply (In_skipn_aux _ _ _ Hin).
      * right. exists (drop (S j) url). rewrite Hdecj at 1. rewrite drop_app_length'. reflexivity.
        unfold take. rewrite firstn_length. lia.
    + left. intros i Hi. exists j. split; [exact Hh|].
      destruct (Nat.lt_ge_cases j i) as [L|G]; [exact L|exfalso].
      destruct (find_byte_Some _ _ _ Hh) as (_ & Hnth & _ & _).
      destruct (find_byte_Some _ _ _ Hi) as (Hlti & Hnthi & HnoneI & Hdeci).
      assert (i <> j). { intros ->. rewrite Hnth in Hnthi. discriminate. }
      assert (Hin : In QMARK (take j url)).
      { rewrite Hdeci. unfold take. rewrite firstn_app. apply in_or_app. right.
        rewrite firstn_length. replace (j - Nat.min i (length url))%nat with (S (j - i - 1)) by lia.
        cbn. left. reflexivity. }
      apply (proj1 (find_byte_None _ _) Hq). exact Hin.
  - destruct (find_byte QMARK url) as [i|] eqn:Hq.
    + right. destruct (find_byte_Some _ _ _ Hq) as (Hlt & _ & HnoneQ & Hdec).
      exists (take i url), (drop (S i) url), []. constructor.
      * rewrite app_nil_r. exact Hdec.
      * exact HnoneQ.
      * apply find_byte_None. intros Hin. apply (proj1 (find_byte_None _ _) Hh).
        apply (In_firstn_aux _ _ _ Hin).
      * apply find_byte_None. intros Hin. apply (proj1 (find_byte_None _ _) Hh).
        apply (In_skipn_aux _ _ _ Hin).
      * left. reflexivity.
    + left. intros i Hi. rewrite Hq in Hi. discriminate.
Qed.

Lemma removed_iff names p :
  removed names p = true <->
  exists k v, p = k ++ EQS :: v /\ ~ In EQS k /\ v <> [] /\ In k names.
Proof.
  unfold removed, split_once. destruct (find_byte EQS p) as [i|] eqn:F.
  - destruct (find_byte_Some _ _ _ F) as (Hlt & _ & Hnone & Hdec).
    rewrite andb_true_iff, mem_str_In. split.
    + intros [Hv Hk]. exists (take i p), (drop (S i) p). repeat split; auto.
      * apply find_byte_None. exact Hnone.
      * intros E. rewrite E in Hv. discriminate.
    + intros (k & v & Hp & Hk & Hv & Hin).
      assert (i = length k).
      { subst p. rewrite find_byte_app_notin in F by exact Hk. cbn in F. rewrite N.eqb_refl in F.
        inversion F. lia. }
      subst i. subst p. rewrite take_app_length.
      replace (S (length k)) with (length (k ++ [EQS])) by (rewrite app_length; cbn; lia).
      replace (k ++ EQS :: v) with ((k ++ [EQS]) ++ v) by (rewrite <- app_assoc; reflexivity).
      rewrite drop_app_length. split; [destruct v; [contradiction|reflexivity]|exact Hin].
  - split; [discriminate|]. intros (k & v & Hp & _). subst p.
    apply find_byte_None in F. exfalso. apply F. apply in_or_app. right. left. reflexivity.
Qed.

Lemma join_null_iff (ks : list str) :
  null (join_with [AMP] ks) = true <-> ks = [] \/ ks = [[]].
Proof.
  destruct ks as [|a [|b r]]; cbn.
  - split; auto.
  - destruct a; cbn; split; auto; try discriminate. intros [H|H]; discriminate.
  - split.
    + destruct a; cbn; discriminate.
    + intros [H|H]; discriminate.
Qed.

Theorem url_split_unique url pre q post pre' q' post' :
  url_split url pre q post -> url_split url pre' q' post' ->
  pre = pre' /\ q = q' /\ post = post'.
Proof.
  intros S1 S2. pose proof (removeparam_split [] url _ _ _ S1) as _.
  destruct S1 as [U1 Q1 H1 G1 P1]. destruct S2 as [U2 Q2 H2 G2 P2].
  assert (Hpre : length pre = length pre').
  { assert (F1 : find_byte QMARK url = Some (length pre)).
    { rewrite U1. rewrite find_byte_app_notin by (apply find_byte_None; exact Q1).
      cbn. rewrite N.eqb_refl. f_equal. lia. }
    assert (F2 : find_byte QMARK url = Some (length pre')).
    { rewrite U2. rewrite find_byte_app_notin by (apply find_byte_None; exact Q2).
      cbn. rewrite N.eqb_refl. f_equal. lia. }
    congruence. }
  assert (E : pre = pre').
  { rewrite <- (take_app_length pre (QMARK :: q ++ post)), <- U1, Hpre, U2. apply take_app_length. }
  subst pre'. rewrite U1 in U2. apply app_inv_head in U2. inversion U2 as [U3].
  assert (Hq : length q = length q').
  { pose proof (find_hash_split [] q post eq_refl G1 P1) as A.
    pose proof (find_hash_split [] q' post' eq_refl G2 P2) as B.
    cbn [app length] in A, B. cbn [find_byte] in A, B.
    change (N.eqb QMARK HASH) with false in A, B. cbn iota in A, B.
    rewrite U3 in A.
    destruct (find_byte HASH (q' ++ post')); lia. }
  assert (E2 : q = q').
  { rewrite <- (take_app_length q post), U3, Hq. apply take_app_length. }
  subst q'. apply app_inv_head in U3. auto.
Qed.

Theorem no_rewrite_when_important names url : rewritten_url true names url = None.
Proof. reflexivity. Qed.

(* non-vacuity: a concrete URL with a fragment containing '?', and one that is rewritten *)
Example split_example :
  url_split (bs "https://x.com/a?utm=1&b=2#f?utm=3") (bs "https://x.com/a") (bs "utm=1&b=2") (bs "#f?utm=3").
Proof.
  constructor; try reflexivity. right. eexists. reflexivity.
Qed.
Example rewrite_example :
  apply_removeparam [bs "utm"] (bs "https://x.com/a?utm=1&b=2#f?utm=3") = Some (bs "https://x.com/a?b=2#f?utm=3")
  /\ apply_removeparam [bs "utm"] (bs "https://x.com/a#f?utm=3") = None
  /\ apply_removeparam [bs "utm"] (bs "https://x.com/a?utm=1") = Some (bs "https://x.com/a").
Proof. vm_compute. auto. Qed.
