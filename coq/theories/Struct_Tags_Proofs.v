(* Struct_Tags_Proofs.v — tie between the tag operations of src/blocker.rs / src/engine.rs as the
   translator extracts them on every run (Generated.TagGen: the set expression each of use_tags /
   enable_tags / disable_tags hands to tags_with_set; what tags_with_set replaces, which vector it
   selects the active tagged rules from and by which predicate, which list it rebuilds; that the
   Engine methods are plain forwarders) and the hand-written Net_Model (use_tags / enable_tags /
   disable_tags / tags_with_set / tag_exists).
   [set_denotes] gives a set expression its meaning as a membership test; the theorems show that
   after each operation the model's enabled set has exactly that membership, and that the tagged
   list is rebuilt from exactly the rules the extracted predicate keeps while every other list is
   left alone.  `union` turned into `difference`, a forwarder that calls another operation, a
   keep-predicate that forgets the tag test, or a rebuild of another list changes the generated
   data and breaks a proof. *)
From Coq Require Import String.
From Adb Require Import Base BaseProofs Generated Hashing Net_Model Net_Proofs C07_Model C07_Proofs.
Import TagGen.
Local Open Scope string_scope.
Local Open Scope list_scope.

(* meaning of a set expression over the argument and the currently enabled set *)
Definition set_denotes (e : string) (given enabled : str -> bool) (t : str) : option bool :=
  if String.eqb e "given" then Some (given t)
  else if String.eqb e "given+enabled" then Some (given t || enabled t)
  else if String.eqb e "enabled-given" then Some (enabled t && negb (given t))
  else None.

Section WithHash.
Variable h : str -> N.

(* the blocker operation a name denotes *)
Definition op_named (n : string) : option (blocker -> list str -> blocker) :=
  if String.eqb n "use_tags" then Some (use_tags h)
  else if String.eqb n "enable_tags" then Some (enable_tags h)
  else if String.eqb n "disable_tags" then Some (disable_tags h)
  else None.
Definition set_of_op (n : string) : string :=
  if String.eqb n "use_tags" then use_tags_set
  else if String.eqb n "enable_tags" then enable_tags_set
  else if String.eqb n "disable_tags" then disable_tags_set
  else "".

(* after each of the three operations the enabled set is what the extracted expression denotes *)
Theorem tag_ops_are_model b ts t :
  set_denotes use_tags_set (fun x => mem_str x ts) (tag_exists b) t = Some (tag_exists (use_tags h b ts) t)
  /\ set_denotes enable_tags_set (fun x => mem_str x ts) (tag_exists b) t = Some (tag_exists (enable_tags h b ts) t)
  /\ set_denotes disable_tags_set (fun x => mem_str x ts) (tag_exists b) t = Some (tag_exists (disable_tags h b ts) t).
Proof.
  unfold use_tags_set, enable_tags_set, disable_tags_set, set_denotes.
  cbn [String.eqb Ascii.eqb Bool.eqb].
  rewrite use_tags_assign, enable_tags_union, disable_tags_diff. repeat split; reflexivity.
Qed.

(* the Engine methods forward to the blocker operation of the same name: what an embedder calls
   has the same effect on the enabled set *)
Theorem engine_forwards_to_same_op n m b ts t f g :
  In (n, m) engine_forwards -> op_named m = Some f -> op_named n = Some g ->
  tag_exists (f b ts) t = tag_exists (g b ts) t
  /\ set_denotes (set_of_op n) (fun x => mem_str x ts) (tag_exists b) t = Some (tag_exists (f b ts) t).
Proof.
  unfold engine_forwards. cbn [In].
  intros [H|[H|[H|[]]]] Hf Hg; inversion H; subst n m; clear H;
    cbn [op_named String.eqb Ascii.eqb Bool.eqb] in Hf, Hg; inversion Hf; inversion Hg; subst f g;
    (split; [reflexivity|]); unfold set_of_op; cbn [String.eqb Ascii.eqb Bool.eqb];
    apply (tag_ops_are_model b ts t).
Qed.

(* ---- tags_with_set ---- *)
Definition keep_denotes (k : string) (T : list str) (f : rule) : option bool :=
  if String.eqb k "tag_some&&enabled_contains_tag"
  then Some (match rtag f with Some t => mem_str t T | None => false end)
  else None.
Definition source_named (n : string) (b : blocker) : option (list rule) :=
  if String.eqb n "tagged_filters_all" then Some (b_tagged_all b) else None.

Lemma filter_ext_opt (k : string) T (l : list rule) p :
  (forall f, keep_denotes k T f = Some (p f)) ->
  filter (fun f => match keep_denotes k T f with Some v => v | None => false end) l = filter p l.
Proof. intro H. apply filter_ext. intro f. rewrite H. reflexivity. Qed.

Theorem tags_with_set_is_model b T :
  tws_first_assigns_enabled = true /\ tws_rebuilds = "filters_tagged" /\ tws_clears_regex_cache = true
  /\ b_tags (tags_with_set h b T) = T
  /\ (match source_named tws_source b with
      | Some src => Some (fl_new h (filter (fun f => match keep_denotes tws_keep T f with Some v => v | None => false end) src))
      | None => None
      end) = Some (b_tagged (tags_with_set h b T))
  /\ b_tagged_all (tags_with_set h b T) = b_tagged_all b
  /\ b_filters (tags_with_set h b T) = b_filters b /\ b_exceptions (tags_with_set h b T) = b_exceptions b
  /\ b_importants (tags_with_set h b T) = b_importants b /\ b_redirects (tags_with_set h b T) = b_redirects b
  /\ b_csp (tags_with_set h b T) = b_csp b /\ b_removeparam (tags_with_set h b T) = b_removeparam b
  /\ b_generic_hide (tags_with_set h b T) = b_generic_hide b.
Proof.
  repeat split.
Qed.
End WithHash.
