(* C14_Relevant_Proofs.v — the engine's rewritten_url under the relevance-restricted token
   guarantee.

   Engine_Proofs.engine_rewritten assumes TG for the whole list.  For a $removeparam rule without
   pattern / hostname / single-domain token TG is simply false on URLs that lack the parameter:
   the rule matches every URL but is filed under the tokens of its parameter name.  The answer is
   right all the same, because a rule whose parameter is not a removable key of the URL removes
   nothing.  Here:
     (1) apply_removeparam only depends on the names that are keys of removable parameters;
     (2) the engine theorems (bits and rewritten_url) under TG_rp: plain TG for every rule except
         the $removeparam rules that are irrelevant for the URL;
     (3) TG_rp proved from the concrete tokenizer for the fallback shape, and for lists mixing
         fallback rules with the rules of Tok_Ext_Proofs;
     (4) non-vacuity: $removeparam=utm_source. *)
From Coq Require Import Permutation ZArith.
From Adb Require Import Base BaseProofs Generated Hashing Net_Model Net_Proofs Engine_Model Engine_Proofs
  Tok_Proofs Tok_Ext_Model Tok_Ext_Proofs C14_Relevant_Model.
From Adb Require C02_Model C03_Model C13_Model C13_Proofs C14_Model C14_Proofs C15_Model C15_Proofs.
From Coq Require Import ZifyBool ZifyNat ZifyN.

(* ================================================================ (1) only relevant names count *)
Lemma forallb_ext_in {A} (f g : A -> bool) l : (forall x, In x l -> f x = g x) -> forallb f l = forallb g l.
Proof.
  induction l as [|x r IH]; intros H; cbn; [reflexivity|].
  rewrite (H x) by (left; reflexivity). rewrite IH; [reflexivity|]. intros y Hy. apply H. right. exact Hy.
Qed.
Lemma filter_ext_in_all {A} (f g : A -> bool) l : (forall x, In x l -> f x = g x) -> filter f l = filter g l.
Proof.
  induction l as [|x r IH]; intros H; cbn; [reflexivity|].
  rewrite (H x) by (left; reflexivity). rewrite IH; [reflexivity|]. intros y Hy. apply H. right. exact Hy.
Qed.

Lemma mem_str_filter k (p : str -> bool) names : mem_str k (filter p names) = mem_str k names && p k.
Proof.
  induction names as [|y r IH]; [reflexivity|]. cbn [filter mem_str].
  destruct (str_eqb k y) eqn:E.
  - apply str_eqb_eq in E. subst y. destruct (p k) eqn:Pk.
    + cbn [mem_str]. rewrite str_eqb_refl. reflexivity.
    + rewrite IH. rewrite !andb_false_r. reflexivity.
  - destruct (p y); [cbn [mem_str]; rewrite E|]; cbn [orb]; exact IH.
Qed.

Lemma kept_relevant url names p :
  In p (query_params url) ->
  C14_Model.kept names p = C14_Model.kept (filter (relevant url) names) p.
Proof.
  intros Hin. unfold C14_Model.kept, C14_Model.removed.
  destruct (C14_Model.split_once C14_Model.EQS p) as [[k v]|] eqn:E; [|reflexivity].
  rewrite mem_str_filter. destruct (C14_Model.null v) eqn:Ev; [reflexivity|]. cbn [negb andb].
  destruct (mem_str k names); [|reflexivity]. cbn [andb].
  assert (R : relevant url k = true).
  { unfold relevant. apply existsb_exists. exists p. split; [exact Hin|].
    unfold C14_Model.removed. rewrite E, Ev. cbn [mem_str]. rewrite str_eqb_refl. reflexivity. }
  rewrite R. reflexivity.
Qed.

(* the rewrite is the rewrite over the relevant names only *)
Theorem apply_removeparam_relevant names url :
  C14_Model.apply_removeparam names url
  = C14_Model.apply_removeparam (filter (relevant url) names) url.
Proof.
  pose proof (kept_relevant url names) as K. unfold query_params in K.
  unfold C14_Model.apply_removeparam. cbv zeta in *.
  destruct (find_byte C14_Model.QMARK _) as [i|]; [|reflexivity].
  rewrite (forallb_ext_in _ _ _ K), (filter_ext_in_all _ _ _ K). reflexivity.
Qed.

(* set-level form: two name lists with the same relevant members give the same rewrite *)
Theorem apply_removeparam_relevant_set n1 n2 url :
  (forall k, relevant url k = true -> (In k n1 <-> In k n2)) ->
  C14_Model.apply_removeparam n1 url = C14_Model.apply_removeparam n2 url.
Proof.
  intros H. rewrite (apply_removeparam_relevant n1), (apply_removeparam_relevant n2).
  apply apply_removeparam_set_only. intros k. rewrite !filter_In. split; intros [Hk Hr]; split; auto; apply (H k Hr); exact Hk.
Qed.

(* a name that is relevant is really removed: relevance is not an over-approximation *)
Theorem relevant_changes url n : relevant url n = true -> C14_Model.apply_removeparam [n] url <> None.
Proof.
  unfold relevant, query_params, C14_Model.apply_removeparam. cbv zeta.
  destruct (find_byte C14_Model.QMARK _) as [i|]; [|discriminate].
  intros H. apply existsb_exists in H as (p & Hp & Hr).
  destruct (forallb (C14_Model.kept [n]) _) eqn:E; [|discriminate].
  rewrite forallb_forall in E. specialize (E p Hp). unfold C14_Model.kept in E. rewrite Hr in E. discriminate.
Qed.
Theorem irrelevant_unchanged url names :
  (forall n, In n names -> relevant url n = false) -> C14_Model.apply_removeparam names url = C14_Model.apply_removeparam [] url.
Proof.
  intros H. apply apply_removeparam_relevant_set. intros k Hk. split; [|intros []].
  intros Hin. rewrite (H k Hin) in Hk. discriminate.
Qed.

(* ================================================================ (2) the engine under TG_rp *)
Section Relevant.
Variable h : str -> N.
Variable matches : rule -> bool.
Variable pr : list N.
Hypothesis pr_zero : In 0 pr.
Variable url : str.                       (* request.original_url *)

(* the relevance-restricted token guarantee: every matching rule has a token group among the
   probes, except $removeparam rules whose parameter is not a removable key of the URL *)
Definition TG_rp (L : list rule) : Prop :=
  forall f, In f L -> matches f = true ->
    (is_removeparam f = true -> relevant_rule url f = true) -> covered h pr f.

Lemma TG_TG_rp L : TG h matches pr L -> TG_rp L.
Proof. intros H f Hf Hm _. apply H; auto. Qed.

(* TG_rp is TG on the other rules plus the restricted guarantee on the $removeparam rules *)
Lemma TG_rp_split L :
  TG_rp L <->
  TG h matches pr (filter (fun f => negb (is_removeparam f)) L) /\
  (forall f, In f L -> is_removeparam f = true -> matches f = true -> relevant_rule url f = true -> covered h pr f).
Proof.
  split.
  - intros H. split.
    + intros f Hf Hm. apply filter_In in Hf as [Hf Hn]. apply H; auto.
      intros E. rewrite E in Hn. discriminate.
    + intros f Hf Hr Hm Hrel. apply H; auto.
  - intros [H1 H2] f Hf Hm Hrel. destruct (is_removeparam f) eqn:E.
    + apply H2; auto.
    + apply H1; auto. apply filter_In. split; auto. rewrite E. reflexivity.
Qed.

Lemma cat_not_removeparam f :
  category_of f = CImportant \/ category_of f = CTagged \/ category_of f = CNormal \/ category_of f = CException ->
  is_removeparam f = false.
Proof.
  unfold category_of. destruct (is_csp f); [intros [?|[?|[?|?]]]; discriminate|].
  destruct (is_removeparam f); [intros [?|[?|[?|?]]]; discriminate|reflexivity].
Qed.

Lemma TG_rp_blocking L Ls :
  incl Ls L ->
  (forall f, In f Ls -> category_of f = CImportant \/ category_of f = CTagged \/ category_of f = CNormal \/ category_of f = CException) ->
  TG_rp L -> TG h matches pr Ls.
Proof.
  intros Hi Hc H f Hf Hm. apply H; auto. intros E. rewrite (cat_not_removeparam f (Hc f Hf)) in E. discriminate.
Qed.

Local Notation found := (Net_Proofs.found h matches pr).

Lemma found_bool_self Ls tags : id_inj Ls -> TG h matches pr Ls ->
  existsb (hit matches tags) Ls = is_some (found Ls tags).
Proof. intros Hinj Htg. apply (found_bool h matches pr pr_zero Ls Ls tags); auto. apply incl_refl. Qed.

(* matched / important / exception / filter: Net_Proofs.engine_eq_spec_p under TG_rp *)
Theorem engine_eq_spec_p_rp mr fc L T :
  id_inj L -> TG_rp L ->
  blocker_check_p matches pr mr fc (tags_with_set h (blocker_new h L) T) = spec_verdict_p matches mr fc L T.
Proof.
  intros Hinj Htg.
  unfold blocker_check_p, spec_verdict_p, tags_with_set, blocker_new.
  cbn [b_importants b_tagged b_filters b_exceptions b_tags b_tagged_all].
  fold (found (of_cat CImportant L) T).
  fold (found (tagged_active T (of_cat CTagged L)) T).
  fold (found (of_cat CNormal L) []).
  fold (found (of_cat CException L) T).
  change (act matches) with (hit matches).
  pose proof (of_cat_incl CImportant L) as I1.
  pose proof (of_cat_incl CNormal L) as I3.
  pose proof (of_cat_incl CException L) as I4.
  assert (I2 : incl (tagged_active T (of_cat CTagged L)) L).
  { intros x Hx. apply (of_cat_incl CTagged L). eapply tagged_active_incl; eauto. }
  assert (G1 : TG h matches pr (of_cat CImportant L)).
  { apply (TG_rp_blocking L); auto. intros f Hf. left. eapply of_cat_cat; eauto. }
  assert (G2 : TG h matches pr (tagged_active T (of_cat CTagged L))).
  { apply (TG_rp_blocking L); auto. intros f Hf. right; left. eapply of_cat_cat. eapply tagged_active_incl; eauto. }
  assert (G3 : TG h matches pr (of_cat CNormal L)).
  { apply (TG_rp_blocking L); auto. intros f Hf. right; right; left. eapply of_cat_cat; eauto. }
  assert (G4 : TG h matches pr (of_cat CException L)).
  { apply (TG_rp_blocking L); auto. intros f Hf. right; right; right. eapply of_cat_cat; eauto. }
  rewrite (found_bool_self _ T (id_inj_incl _ _ I1 Hinj) G1), (found_bool_self _ T (id_inj_incl _ _ I2 Hinj) G2),
          (found_bool_self _ [] (id_inj_incl _ _ I3 Hinj) G3), (found_bool_self _ T (id_inj_incl _ _ I4 Hinj) G4).
  destruct (found (of_cat CImportant L) T) as [fi|] eqn:Ei.
  - destruct (found_in h matches pr _ _ _ Ei) as [Hin _].
    rewrite (cat_important fi (of_cat_cat _ _ _ Hin)). cbn.
    destruct (found (of_cat CException L) T); reflexivity.
  - cbn [is_some orb negb andb]. destruct mr.
    + cbn. destruct (found (of_cat CException L) T); cbn; reflexivity.
    + cbn [negb andb orb]. unfold orelse.
      destruct (found (tagged_active T (of_cat CTagged L)) T) as [ft|] eqn:Et.
      * destruct (found_in h matches pr _ _ _ Et) as [Hin _].
        assert (Hni : is_important ft = false).
        { apply cat_not_important. left. eapply of_cat_cat. eapply tagged_active_incl; eauto. }
        rewrite Hni. cbn. destruct (found (of_cat CException L) T); reflexivity.
      * cbn [is_some orb]. destruct (found (of_cat CNormal L) []) as [fn|] eqn:En.
        -- destruct (found_in h matches pr _ _ _ En) as [Hin _].
           assert (Hni : is_important fn = false).
           { apply cat_not_important. right. eapply of_cat_cat; eauto. }
           rewrite Hni. cbn. destruct (found (of_cat CException L) T); reflexivity.
        -- cbn. destruct fc; cbn; destruct (found (of_cat CException L) T); reflexivity.
Qed.

(* the removeparam lookup: sound without any token premise, complete for the relevant rules *)
Theorem removeparam_hits_sound L T f :
  In f (removeparam_hits matches pr (tags_with_set h (blocker_new h L) T)) ->
  In f (spec_removeparam_hits matches L).
Proof.
  unfold removeparam_hits, spec_removeparam_hits, tags_with_set, blocker_new. cbn [b_removeparam].
  intros H. apply filter_In.
  apply (check_all_sound h matches pr (fl_new h (of_cat CRemoveparam L)) (of_cat CRemoveparam L) [] f); auto.
  apply new_well_indexed.
Qed.

Theorem removeparam_hits_complete_relevant L T f :
  id_inj L -> TG_rp L ->
  In f (spec_removeparam_hits matches L) -> relevant_rule url f = true ->
  In f (removeparam_hits matches pr (tags_with_set h (blocker_new h L) T)).
Proof.
  intros Hinj Htg. unfold removeparam_hits, spec_removeparam_hits, tags_with_set, blocker_new. cbn [b_removeparam].
  intros Hf Hrel. apply filter_In in Hf as [Hf Hact].
  apply (check_all_complete h matches pr pr_zero (fl_new h (of_cat CRemoveparam L)) (of_cat CRemoveparam L) [] f); auto.
  - apply new_well_indexed.
  - eapply id_inj_incl; [apply of_cat_incl|exact Hinj].
  - apply Htg; auto.
    + eapply of_cat_incl; eauto.
    + unfold act in Hact. apply andb_true_iff in Hact. tauto.
Qed.

(* the other lists whose every hit is used.  validate_options (src/filters/network.rs) rejects a
   rule with more than one of $csp / $redirect / $redirect-rule / $removeparam
   (MultipleModifierOptions), so no $removeparam rule sits in the redirect or csp list; the rule
   record of the model does not know that, hence the premise [one_modifier]. *)
Definition one_modifier (L : list rule) : Prop :=
  forall f, In f L -> is_removeparam f = true -> is_redirect f = false /\ is_csp f = false.

Theorem redirect_hits_exact_rp L T f : id_inj L -> TG_rp L -> one_modifier L ->
  (In f (redirect_hits matches pr (tags_with_set h (blocker_new h L) T))
   <-> In f (spec_redirect_hits matches L)).
Proof.
  intros Hinj Htg Hone. unfold redirect_hits, spec_redirect_hits, tags_with_set, blocker_new. cbn [b_redirects].
  assert (I : incl (filter is_redirect (live L)) L).
  { intros x Hx. apply live_incl. eapply incl_filter; eauto. }
  apply (check_all_exact h matches pr pr_zero); [apply new_well_indexed| |].
  - eapply id_inj_incl; [exact I|exact Hinj].
  - intros g Hg Hm. apply Htg; auto. intros E. destruct (Hone g (I g Hg) E) as [E1 _].
    apply filter_In in Hg as [_ Hr]. congruence.
Qed.
Theorem csp_hits_exact_rp L T f : id_inj L -> TG_rp L -> one_modifier L ->
  (In f (csp_hits matches pr (tags_with_set h (blocker_new h L) T))
   <-> In f (spec_csp_hits matches L T)).
Proof.
  intros Hinj Htg Hone. unfold csp_hits, spec_csp_hits, tags_with_set, blocker_new. cbn [b_csp b_tags].
  apply (check_all_exact h matches pr pr_zero); [apply new_well_indexed| |].
  - eapply id_inj_incl; [apply of_cat_incl|exact Hinj].
  - intros g Hg Hm. apply Htg; auto; [eapply of_cat_incl; eauto|]. intros E.
    destruct (Hone g (of_cat_incl _ _ g Hg) E) as [_ E2].
    apply of_cat_cat in Hg. unfold category_of in Hg. rewrite E2, E in Hg. discriminate.
Qed.
Theorem generic_hide_exact_rp L T : id_inj L -> TG_rp L ->
  generic_hide_hit matches pr (tags_with_set h (blocker_new h L) T) = spec_generic_hide matches L T.
Proof.
  intros Hinj Htg. unfold generic_hide_hit, spec_generic_hide, tags_with_set, blocker_new. cbn [b_generic_hide b_tags].
  fold (found (of_cat CGenericHide L) T). change (act matches) with (hit matches).
  pose proof (of_cat_incl CGenericHide L) as I.
  assert (G : TG h matches pr (of_cat CGenericHide L)).
  { intros g Hg Hm. apply Htg; auto. intros E. apply of_cat_cat in Hg. unfold category_of in Hg.
    rewrite E in Hg. destruct (is_csp g); discriminate. }
  rewrite (found_bool_self _ T (id_inj_incl _ _ I Hinj) G). reflexivity.
Qed.

Section Compose.
Variable st : C13_Model.storage.
Variable L : list rule.
Variable T : list str.
Hypothesis Hinj : id_inj L.
Hypothesis Htg : TG_rp L.

Let B := tags_with_set h (blocker_new h L) T.

Theorem engine_bits_rp mr fc :
  let r := engine_check matches pr true url st mr fc B in
  {| v_matched := r_matched r; v_important := r_important r; v_exception := r_exception r; v_filter := r_filter r |}
  = spec_verdict_p matches mr fc L T.
Proof.
  cbv zeta. unfold engine_check. cbn [negb r_matched r_important r_exception r_filter].
  rewrite <- (engine_eq_spec_p_rp mr fc L T Hinj Htg). unfold B.
  destruct (blocker_check_p matches pr mr fc _); reflexivity.
Qed.

(* rewritten URL: same right-hand side as Engine_Proofs.engine_rewritten, weaker premise *)
Theorem engine_rewritten_rp mr fc :
  r_rewritten (engine_check matches pr true url st mr fc B)
  = C14_Model.rewritten_url (v_important (spec_verdict_p matches mr fc L T)) (spec_param_names matches L) url.
Proof.
  unfold engine_check. cbn [negb r_rewritten]. unfold B.
  rewrite (engine_eq_spec_p_rp mr fc L T Hinj Htg).
  unfold C14_Model.rewritten_url. destruct (v_important _); [reflexivity|].
  apply apply_removeparam_relevant_set. intros k Hk. unfold spec_param_names. rewrite !names_of_In. split.
  - intros (f & Hf & Hm). exists f. split; [|exact Hm]. apply (removeparam_hits_sound L T f Hf).
  - intros (f & Hf & Hm). exists f. split; [|exact Hm].
    apply (removeparam_hits_complete_relevant L T f Hinj Htg Hf). unfold relevant_rule. rewrite Hm. exact Hk.
Qed.
(* redirect and CSP: as in Engine_Proofs, under TG_rp and one_modifier *)
Theorem engine_redirect_eq_rp mr fc : one_modifier L ->
  r_redirect (engine_check matches pr true url st mr fc B) = C13_Model.redirect_of st (spec_redirects matches L).
Proof.
  intros Hone. unfold engine_check. cbn [negb r_redirect]. unfold B, C13_Model.redirect_of.
  rewrite (C13_Proofs.pick_redirect_set_only _ (spec_redirects matches L)); [reflexivity|].
  unfold spec_redirects. apply map_In_ext. intros f.
  apply (redirect_hits_exact_rp L T f Hinj Htg Hone).
Qed.
Theorem engine_csp_policy_rp rtype : one_modifier L ->
  C15_Model.same_policy (engine_csp matches pr rtype B) (C15_Model.get_csp_for rtype (spec_csp_rules matches L T)).
Proof.
  intros Hone. unfold engine_csp, C15_Model.get_csp_for, B. apply C15_Proofs.csp_set_only.
  unfold spec_csp_rules. apply map_In_ext. intros f.
  apply (csp_hits_exact_rp L T f Hinj Htg Hone).
Qed.
End Compose.
End Relevant.

(* ================================================================ (3) TG_rp from the tokenizer *)
Ltac norm_app := repeat first [rewrite <- app_assoc | progress cbn [app]].
(* the real tokenizer only loses tokens (the cut-off) relative to the unbounded one: no premise on
   the number of tokens of the parameter name is needed *)
Lemma tk_incl_tku sf sl s : forall i cur prec n t,
  In t (tk sf sl s i cur prec n) -> In t (tku sf sl s i cur prec).
Proof.
  induction s as [|c r IH]; intros i cur prec n t H; [exact H|].
  cbn [tk tku] in *. destruct (Nat.leb TOKENS_MAX n); [destruct H|].
  destruct (allowed c).
  - destruct cur as [[st t0]|]; eapply IH; exact H.
  - destruct cur as [[st t0]|]; [|eapply IH; exact H].
    destruct ((negb (Nat.eqb st 0) || negb sf) && Nat.ltb 1 (length t0) && negb (N.eqb c STAR) && negb (is_star_opt prec)).
    + destruct H as [<-|H]; [left; reflexivity|right; eapply IH; exact H].
    + eapply IH; exact H.
Qed.

(* '?', '&' and '=' are token separators (is_allowed_filter: alphanumeric or '%') *)
Definition key_delim (d : N) : Prop := d = C14_Model.QMARK \/ d = C14_Model.AMP.
Lemma key_delim_delim d : key_delim d -> delim d.
Proof. intros [->| ->]; (split; [vm_compute; reflexivity|discriminate]). Qed.
Lemma eqs_delim : delim C14_Model.EQS.
Proof. split; [vm_compute; reflexivity|discriminate]. Qed.

(* the tokenized URL contains the lower-cased key between '?' or '&' and '=' *)
Definition key_in (ul n : str) : Prop :=
  exists a d b, key_delim d /\ ul = a ++ d :: lower_str n ++ C14_Model.EQS :: b.

(* every token of the lower-cased name is then a token of the URL -- for any name: '_' and '-'
   inside a VALID_PARAM name are separators on both sides alike, '%' cannot touch the key *)
Theorem key_tokens_covered ul n t :
  key_in ul n -> In t (tku false false (lower_str n) 0 None None) -> In t (tku false false ul 0 None None).
Proof.
  intros (a & d & b & Hd & ->) Hin. apply tokenize_complete.
  destruct (tokenize_filter_sound false false _ t Hin) as (u & v & Hs & Hu & Hv & _ & _ & Hall & Hlen).
  exists (a ++ d :: u), (v ++ C14_Model.EQS :: b). split.
  - rewrite Hs. norm_app. reflexivity.
  - split; [|split; [|split; [|split; [|split]]]].
    + right. destruct Hu as [->|(u' & d0 & -> & Hd0)].
      * exists a, d. split; [reflexivity|apply key_delim_delim; exact Hd].
      * exists (a ++ d :: u'), d0. split; [rewrite <- app_assoc; reflexivity|exact Hd0].
    + right. destruct Hv as [->|(d0 & v' & -> & Hd0)].
      * exists C14_Model.EQS, b. split; [reflexivity|apply eqs_delim].
      * exists d0, (v' ++ C14_Model.EQS :: b). split; [reflexivity|exact Hd0].
    + intros _. reflexivity.
    + intros _. reflexivity.
    + exact Hall.
    + exact Hlen.
Qed.

(* ---------------------------------------------------------------- a relevant name is a delimited key *)
Lemma split_on_head c s : forall q qs, split_on c s = q :: qs -> exists r, s = q ++ r.
Proof.
  induction s as [|x s IH]; intros q qs H.
  - cbn in H. inversion H; subst. exists []. reflexivity.
  - cbn [split_on] in H. destruct (N.eqb x c).
    + inversion H; subst. exists (x :: s). reflexivity.
    + destruct (split_on c s) as [|q' qs'] eqn:Es.
      * exfalso. apply (split_on_nonempty c s Es).
      * inversion H; subst. destruct (IH q' qs eq_refl) as [r ->]. exists r. reflexivity.
Qed.
Lemma split_on_tail c s : forall q qs p, split_on c s = q :: qs -> In p qs -> exists l r, s = l ++ c :: p ++ r.
Proof.
  induction s as [|x s IH]; intros q qs p H Hp.
  - cbn in H. inversion H; subst. destruct Hp.
  - cbn [split_on] in H. destruct (N.eqb x c) eqn:E.
    + apply N.eqb_eq in E. subst x. inversion H; subst.
      destruct (split_on c s) as [|q' qs'] eqn:Es; [destruct Hp|].
      destruct Hp as [<-|Hp].
      * destruct (split_on_head c s q' qs' Es) as [r ->]. exists [], r. reflexivity.
      * destruct (IH q' qs' p eq_refl Hp) as (l & r & ->). exists (c :: l), r. reflexivity.
    + destruct (split_on c s) as [|q' qs'] eqn:Es.
      * exfalso. apply (split_on_nonempty c s Es).
      * inversion H; subst. destruct (IH q' qs p eq_refl Hp) as (l & r & ->). exists (x :: l), r. reflexivity.
Qed.
Lemma split_on_In c s p : In p (split_on c s) -> (exists r, s = p ++ r) \/ (exists l r, s = l ++ c :: p ++ r).
Proof.
  destruct (split_on c s) as [|q qs] eqn:Es; [intros []|]. intros [<-|Hp].
  - left. apply (split_on_head c s q qs Es).
  - right. apply (split_on_tail c s q qs p Es Hp).
Qed.

(* [n] stands in [u] between '?' or '&' and '=', at or after the first '?' of [u] *)
Definition has_key (u n : str) : Prop :=
  exists a d b i, key_delim d /\ u = a ++ d :: n ++ C14_Model.EQS :: b /\
    find_byte C14_Model.QMARK u = Some i /\ (i <= length a)%nat.

Theorem relevant_has_key u n : relevant u n = true -> has_key u n.
Proof.
  unfold relevant, query_params. cbv zeta.
  set (fs := match find_byte C14_Model.HASH u with Some j => j | None => length u end).
  destruct (find_byte C14_Model.QMARK (take fs u)) as [i|] eqn:Hq; [|discriminate].
  set (m := ((match find_byte C14_Model.HASH (drop (S i) u) with Some j => (S i + j)%nat | None => length u end) - S i)%nat).
  intros H. apply existsb_exists in H as (p & Hp & Hr).
  apply C14_Proofs.removed_iff in Hr as (k & v & Hpk & _ & _ & Hk). destruct Hk as [<-|[]].
  assert (Hq' : find_byte C14_Model.QMARK u = Some i).
  { rewrite <- (take_drop fs u). apply find_byte_app_in. exact Hq. }
  destruct (find_byte_Some _ _ _ Hq') as (Hlt & _ & _ & Hdec).
  assert (Hlen : length (take i u) = i) by (unfold take; rewrite firstn_length; lia).
  pose proof (take_drop m (drop (S i) u)) as Htl.
  apply split_on_In in Hp as [(r & Hs)|(l & r & Hs)].
  - exists (take i u), C14_Model.QMARK, (v ++ r ++ drop m (drop (S i) u)), i.
    split; [left; reflexivity|]. split; [|split; [exact Hq'|lia]].
    rewrite Hdec at 1. f_equal. f_equal. transitivity (take m (drop (S i) u) ++ drop m (drop (S i) u)); [symmetry; exact Htl|]. rewrite Hs, Hpk.
    norm_app. reflexivity.
  - exists (take i u ++ C14_Model.QMARK :: l), C14_Model.AMP, (v ++ r ++ drop m (drop (S i) u)), i.
    split; [right; reflexivity|]. split; [|split; [exact Hq'|rewrite app_length; lia]].
    rewrite Hdec at 1. rewrite <- app_assoc. f_equal. cbn [app]. f_equal. transitivity (take m (drop (S i) u) ++ drop m (drop (S i) u)); [symmetry; exact Htl|]. rewrite Hs, Hpk.
    norm_app. reflexivity.
Qed.

(* ---------------------------------------------------------------- original URL vs tokenized URL
   apply_removeparam reads request.original_url; the probes are the tokens of the lower-cased
   request.url.  Request::preparsed: the same string (lower-cased).  Request::new: request.url is
   the parser's serialisation -- input trimmed of C0-control/space at both ends, scheme
   lower-cased, slashes / userinfo / host rewritten, and everything after the host copied as it is.
   [url_tie u ul]: [ul] contains the lower-cased text of [u] from some offset [k] at or before the
   first '?', up to a tail of bytes <= 0x20 that may have been trimmed. *)
Definition url_tie (u ul : str) : Prop :=
  exists k m w z, ul = w ++ lower_str (take m (drop k u)) ++ z /\
    (forall i, find_byte C14_Model.QMARK u = Some i -> (k <= i)%nat) /\
    forallb (fun c => N.leb c 32) (drop m (drop k u)) = true.

Lemma url_tie_lower u : url_tie u (lower_str u).
Proof.
  exists 0%nat, (length u), [], []. cbn [app drop skipn]. unfold take, drop. rewrite firstn_all, skipn_all, app_nil_r.
  split; [reflexivity|]. split; [intros; lia|reflexivity].
Qed.
Lemma url_tie_suffix u w k :
  (forall i, find_byte C14_Model.QMARK u = Some i -> (k <= i)%nat) -> url_tie u (w ++ lower_str (drop k u)).
Proof.
  intros Hk. exists k, (length (drop k u)), w, []. unfold take, drop. rewrite firstn_all, skipn_all, app_nil_r.
  split; [reflexivity|]. split; [exact Hk|reflexivity].
Qed.

Lemma lower_key a d n b : key_delim d ->
  lower_str (a ++ d :: n ++ C14_Model.EQS :: b) = lower_str a ++ d :: lower_str n ++ C14_Model.EQS :: lower_str b.
Proof.
  intros Hd. unfold lower_str. rewrite map_app. cbn [map]. rewrite map_app. cbn [map].
  destruct Hd as [-> | ->]; reflexivity.
Qed.

Theorem tie_key u ul n : has_key u n -> url_tie u ul -> key_in ul n.
Proof.
  intros (a & d & b & i & Hd & Hu & Hq & Hle) (k & m & w & z & Hul & Hk & Htail).
  specialize (Hk i Hq).
  assert (Hdrop : drop k u = (drop k a ++ d :: n) ++ C14_Model.EQS :: b).
  { rewrite Hu. unfold drop. rewrite skipn_app. replace (k - length a)%nat with 0%nat by lia.
    cbn [skipn]. rewrite <- app_assoc. reflexivity. }
  set (p := drop k a ++ d :: n) in *.
  assert (Hm : (length p < m)%nat).
  { destruct (Nat.lt_ge_cases (length p) m) as [Hlt|Hge]; [exact Hlt|exfalso].
    rewrite Hdrop in Htail. unfold drop in Htail. rewrite skipn_app in Htail.
    replace (m - length p)%nat with 0%nat in Htail by lia. cbn [skipn] in Htail.
    rewrite forallb_app in Htail. apply andb_true_iff in Htail as [_ Ht]. cbn in Ht. discriminate. }
  assert (Htake : take m (drop k u) = p ++ C14_Model.EQS :: take (m - length p - 1) b).
  { rewrite Hdrop. unfold take. rewrite firstn_app. rewrite (firstn_all2 p) by lia.
    destruct (m - length p)%nat as [|j] eqn:Ej; [lia|]. cbn [firstn]. replace (S j - 1)%nat with j by lia. reflexivity. }
  rewrite Htake in Hul. unfold p in Hul. rewrite <- app_assoc in Hul. cbn [app] in Hul.
  rewrite (lower_key _ d n _ Hd) in Hul.
  exists (w ++ lower_str (drop k a)), d, (lower_str (take (m - length (drop k a ++ d :: n) - 1) b) ++ z).
  split; [exact Hd|]. rewrite Hul. norm_app. reflexivity.
Qed.

(* ---------------------------------------------------------------- the fallback group is probed *)
Lemma covered_fallback h pr f :
  no_param_fallback h f = false ->
  incl (param_tokens h f) pr -> incl (tok_scheme h f) pr ->
  (nullb (param_tokens h f) = true -> forall ds, rdomains f = Some ds -> rnotdomains f = None ->
     exists d, In d ds /\ In d pr) ->
  covered h pr f.
Proof.
  intros Hnp Hp Hs Hdisp. unfold covered. rewrite get_tokens_parts. cbv zeta.
  unfold no_param_fallback in Hnp. apply negb_false_iff in Hnp. rewrite Hnp.
  unfold param_tokens in *.
  set (P := match rmod f with
            | Some p => if valid_param p then map h (tokenize (lower_str p)) else []
            | None => [] end) in *.
  assert (Hgrp : incl (P ++ tok_scheme h f) pr) by (apply incl_app; assumption).
  destruct (nullb P) eqn:En.
  - destruct (rdomains f) as [ds|] eqn:Ed.
    + destruct (rnotdomains f) as [nd|] eqn:End_.
      * eexists. split; [left; reflexivity|exact Hgrp].
      * destruct (Hdisp eq_refl ds eq_refl eq_refl) as (d & Hin & Hpr).
        exists [d]. split; [apply in_map_iff; exists d; auto|]. intros x [<-|[]]. exact Hpr.
    + eexists. split; [left; reflexivity|exact Hgrp].
  - eexists. split; [left; reflexivity|exact Hgrp].
Qed.

Theorem param_tokens_probed h f src u ul :
  relevant_rule u f = true -> url_tie u ul -> within_cutoff false false ul ->
  incl (param_tokens h f) (probes h src ul).
Proof.
  unfold relevant_rule, param_tokens. destruct (rmod f) as [n|]; [|discriminate]. intros Hr Ht Hu.
  destruct (valid_param n); [|intros x []].
  intros x Hx. apply in_map_iff in Hx as (t & <- & Ht'). apply url_token_probed; [exact Hu|].
  apply (key_tokens_covered ul n t).
  - apply (tie_key u ul n); [apply relevant_has_key; exact Hr|exact Ht].
  - unfold tokenize, tokenize_filter in Ht'. apply (tk_incl_tku _ _ _ _ _ _ _ _ Ht').
Qed.

(* the fallback shape: a $removeparam rule whose pattern / hostname / domain option yield no
   token (in particular: no pattern, no hostname, no domain option).  If its parameter is a
   removable key of the original URL, its token group is among the probes. *)
Theorem token_guarantee_param h f r odu ondu u ul :
  no_param_fallback h f = false ->
  relevant_rule u f = true ->
  url_tie u ul ->
  C03_Model.check_options (rmask f) (rdomains f) odu (rnotdomains f) ondu r = true ->
  (needs_source f = true -> nullb (param_tokens h f) = true -> C03_Model.rq_src r <> None) ->
  (scheme_restricted f = true -> C03_Model.rq_http r || C03_Model.rq_https r = true) ->
  scheme_tie r ul ->
  within_cutoff false false ul ->
  covered h (probes h (C03_Model.rq_src r) ul) f.
Proof.
  intros Hnp Hrel Htie Hopt Hsrc Hweb Hst Hu.
  destruct (check_options_parts _ _ _ _ _ _ Hopt) as [Hs Hi].
  apply covered_fallback; auto.
  - apply (param_tokens_probed h f _ u ul); assumption.
  - apply scheme_tokens_probed; auto.
  - intros En ds Ed End_. unfold needs_source in Hsrc. rewrite Ed, End_ in Hsrc. specialize (Hsrc eq_refl En).
    rewrite Ed in Hi. destruct (C03_Model.rq_src r) as [hs|]; [|congruence].
    destruct (included_pass_hit ds odu hs Hi) as (x & Hx & Hd).
    exists x. split; [exact Hd|]. unfold probes. apply in_or_app. left. exact Hx.
Qed.

(* ---------------------------------------------------------------- lists mixing both kinds
   Rules that take their tokens from a pattern / hostname / single domain (including $removeparam
   rules with such a token: plain TG, Tok_Ext_Proofs.token_guarantee_ext) must have been accepted
   by the modelled matchers; of a fallback $removeparam rule nothing is asked but the option
   check. *)
Definition mixed_hits (h : str -> N) (matches : rule -> bool) (r : C03_Model.request) (ul host : str)
           (L : list rule) : Prop :=
  forall f, In f L -> matches f = true ->
    (exists odu ondu, C03_Model.check_options (rmask f) (rdomains f) odu (rnotdomains f) ondu r = true) /\
    (no_param_fallback h f = true -> pat_hit f ul host).

Lemma ext_hits_mixed h matches r ul host L : ext_hits h matches r ul host L -> mixed_hits h matches r ul host L.
Proof. intros H f Hf Hm. destruct (H f Hf Hm) as (_ & Ho & Hp). split; auto. Qed.

Theorem TG_rp_mixed_list h matches r u ul host L :
  within_cutoff false false ul -> web_request r ul -> url_tie u ul -> mixed_hits h matches r ul host L ->
  TG_rp h matches (probes h (C03_Model.rq_src r) ul) u L.
Proof.
  intros Hu (Hsrc & Hweb & Hst) Htie Hx f Hf Hm Hrel.
  destruct (Hx f Hf Hm) as ((odu & ondu & Hopt) & Hp).
  destruct (no_param_fallback h f) eqn:Enp.
  - apply (token_guarantee_ext h f r odu ondu ul host); auto.
  - apply (token_guarantee_param h f r odu ondu u ul); auto.
    apply Hrel. unfold no_param_fallback in Enp. apply negb_false_iff in Enp.
    apply andb_true_iff in Enp. tauto.
Qed.

(* the engine theorems with the guarantee proved instead of assumed *)
Theorem engine_bits_mixed h matches r u ul host st mr fc L T :
  id_inj L -> within_cutoff false false ul -> web_request r ul -> url_tie u ul ->
  mixed_hits h matches r ul host L ->
  let e := engine_check matches (probes h (C03_Model.rq_src r) ul) true u st mr fc
             (tags_with_set h (blocker_new h L) T) in
  {| v_matched := r_matched e; v_important := r_important e; v_exception := r_exception e; v_filter := r_filter e |}
  = spec_verdict_p matches mr fc L T.
Proof.
  intros Hi Hu Hw Ht Hx. apply engine_bits_rp; auto; [apply probes_zero_ext|].
  apply (TG_rp_mixed_list h matches r u ul host L); auto.
Qed.

Theorem engine_rewritten_mixed h matches r u ul host st mr fc L T :
  id_inj L -> within_cutoff false false ul -> web_request r ul -> url_tie u ul ->
  mixed_hits h matches r ul host L ->
  r_rewritten (engine_check matches (probes h (C03_Model.rq_src r) ul) true u st mr fc
                 (tags_with_set h (blocker_new h L) T))
  = C14_Model.rewritten_url (v_important (spec_verdict_p matches mr fc L T)) (spec_param_names matches L) u.
Proof.
  intros Hi Hu Hw Ht Hx. apply engine_rewritten_rp; auto; [apply probes_zero_ext|].
  apply (TG_rp_mixed_list h matches r u ul host L); auto.
Qed.

(* ================================================================ (4) non-vacuity *)
(* the mask of a parsed `$removeparam=name` rule: default mask, IS_REMOVEPARAM, and the default
   request types document / subdocument / xmlhttprequest *)
Definition rp_mask : N :=
  N.lor (N.lor (C03_Model.initial_mask false) M_IS_REMOVEPARAM) C03_Model.removeparam_default_types.

Definition rp_rule_utm : rule := mkr 51 rp_mask FEmpty None None None (Some (bs "utm_source")) None.
Definition rp_url : str := bs "https://a.com/p?x=1&utm_source=z#f".
Definition rp_url_plain : str := bs "https://a.com/p?x=1".
Definition rp_req : C03_Model.request :=
  C03_Model.from_detailed_parameters seahash (bs "xmlhttprequest") (bs "https") (bs "www.site.org") true.

(* `$removeparam=utm_source`: filed under the tokens `utm` and `source` of its name *)
Example rp_rule_tokens :
  no_param_fallback seahash rp_rule_utm = false /\
  get_tokens seahash rp_rule_utm = [[seahash (bs "utm"); seahash (bs "source")]] /\
  category_of rp_rule_utm = CRemoveparam.
Proof. repeat split; vm_compute; reflexivity. Qed.

(* on https://a.com/p?x=1&utm_source=z#f the rule is relevant, and token_guarantee_param applies *)
Example rp_token_guarantee_example :
  relevant_rule rp_url rp_rule_utm = true /\
  url_tie rp_url (lower_str rp_url) /\
  C03_Model.check_options (rmask rp_rule_utm) (rdomains rp_rule_utm) None (rnotdomains rp_rule_utm) None rp_req = true /\
  scheme_tie rp_req (lower_str rp_url) /\ within_cutoff false false (lower_str rp_url) /\
  covered seahash (probes seahash (C03_Model.rq_src rp_req) (lower_str rp_url)) rp_rule_utm.
Proof.
  assert (Hrel : relevant_rule rp_url rp_rule_utm = true) by (vm_compute; reflexivity).
  assert (Htie : url_tie rp_url (lower_str rp_url)) by apply url_tie_lower.
  assert (Hopt : C03_Model.check_options (rmask rp_rule_utm) (rdomains rp_rule_utm) None (rnotdomains rp_rule_utm) None rp_req = true)
    by (vm_compute; reflexivity).
  assert (Hst : scheme_tie rp_req (lower_str rp_url)).
  { split; [intros H; vm_compute in H; discriminate|intros _; vm_compute; reflexivity]. }
  assert (Hu : within_cutoff false false (lower_str rp_url)) by (vm_compute; lia).
  split; [exact Hrel|]. split; [exact Htie|]. split; [exact Hopt|]. split; [exact Hst|]. split; [exact Hu|].
  apply (token_guarantee_param seahash rp_rule_utm rp_req None None rp_url (lower_str rp_url));
    [vm_compute; reflexivity|exact Hrel|exact Htie|exact Hopt|intros H; vm_compute in H; discriminate H
    |intros H; vm_compute in H; discriminate H|exact Hst|exact Hu].
Qed.

(* why plain TG is the wrong premise: the same rule passes the option check on
   https://a.com/p?x=1, has neither pattern nor hostname (check_pattern accepts every URL), and
   none of its tokens is probed there -- while it is irrelevant for that URL *)
Lemma TG_fallback_refuted :
  exists f u,
    C03_Model.check_options (rmask f) (rdomains f) None (rnotdomains f) None rp_req = true /\
    rfilter f = FEmpty /\ rhost f = None /\
    no_param_fallback seahash f = false /\ relevant_rule u f = false /\
    ~ covered seahash (probes seahash (C03_Model.rq_src rp_req) (lower_str u)) f.
Proof.
  exists rp_rule_utm, rp_url_plain. repeat split; try (vm_compute; reflexivity).
  intros (g & Hg & Hi). vm_compute in Hg. destruct Hg as [<-|[]].
  specialize (Hi _ (or_introl eq_refl)). apply memN_In in Hi. vm_compute in Hi. discriminate.
Qed.

(* list level: two fallback rules (one relevant, one not), a $removeparam rule with a pattern
   token (plain TG), a blocking decoy; every $removeparam rule matches *)
Definition rp_example_list : list rule :=
  [ rp_rule_utm;
    mkr 52 rp_mask FEmpty None None None (Some (bs "fbclid")) None;
    mkr 53 rp_mask (FSimple (bs "a.com/p")) None None None (Some (bs "ref")) None;
    mkr 54 M_DEFAULT_OPTIONS (FSimple (bs "/ads/")) None None None None None ].
Definition rp_example_matches (f : rule) : bool := memN (rid f) [51; 52; 53].

Example rp_list_example :
  let pr := probes seahash (C03_Model.rq_src rp_req) (lower_str rp_url) in
  id_inj rp_example_list /\ within_cutoff false false (lower_str rp_url) /\
  web_request rp_req (lower_str rp_url) /\ url_tie rp_url (lower_str rp_url) /\
  mixed_hits seahash rp_example_matches rp_req (lower_str rp_url) (bs "a.com") rp_example_list /\
  TG_rp seahash rp_example_matches pr rp_url rp_example_list /\
  ~ TG seahash rp_example_matches pr rp_example_list /\
  spec_param_names rp_example_matches rp_example_list = [bs "utm_source"; bs "fbclid"; bs "ref"] /\
  r_rewritten (engine_check rp_example_matches pr true rp_url C13_Model.empty_store false false
                 (tags_with_set seahash (blocker_new seahash rp_example_list) []))
  = Some (bs "https://a.com/p?x=1#f").
Proof.
  cbv zeta.
  destruct rp_token_guarantee_example as (_ & Htie & Hopt & Hst & Hu & _).
  assert (Hinj : id_inj rp_example_list).
  { apply nodup_ids_inj. apply nodupN_b_sound. vm_compute. reflexivity. }
  assert (Hw : web_request rp_req (lower_str rp_url)).
  { split; [vm_compute; discriminate|]. split; [vm_compute; reflexivity|exact Hst]. }
  assert (Hx : mixed_hits seahash rp_example_matches rp_req (lower_str rp_url) (bs "a.com") rp_example_list).
  { intros f Hf Hm. unfold rp_example_list in Hf.
    repeat (destruct Hf as [Hf|Hf]; [subst f|]); try destruct Hf; try (vm_compute in Hm; discriminate Hm).
    - split; [exists None, None; exact Hopt|]. intros H. vm_compute in H. discriminate.
    - split; [exists None, None; vm_compute; reflexivity|]. intros H. vm_compute in H. discriminate.
    - split; [exists None, None; vm_compute; reflexivity|]. intros _.
      change (plain_match false false (bs "a.com/p") (lower_str rp_url) = true /\
              within_cutoff true true (bs "a.com/p")).
      split; [vm_compute; reflexivity|vm_compute; lia]. }
  assert (Htg : TG_rp seahash rp_example_matches
                  (probes seahash (C03_Model.rq_src rp_req) (lower_str rp_url)) rp_url rp_example_list).
  { apply (TG_rp_mixed_list seahash rp_example_matches rp_req rp_url (lower_str rp_url) (bs "a.com")); auto. }
  split; [exact Hinj|]. split; [exact Hu|]. split; [exact Hw|]. split; [exact Htie|]. split; [exact Hx|].
  split; [exact Htg|]. split; [|split; [vm_compute; reflexivity|]].
  - (* $removeparam=fbclid matches and is not covered *)
    intros Htg0.
    destruct (Htg0 (mkr 52 rp_mask FEmpty None None None (Some (bs "fbclid")) None)) as (g & Hg & Hi).
    + right; left; reflexivity.
    + vm_compute. reflexivity.
    + vm_compute in Hg. destruct Hg as [<-|[]].
      specialize (Hi _ (or_introl eq_refl)). apply memN_In in Hi. vm_compute in Hi. discriminate.
  - rewrite (engine_rewritten_rp seahash rp_example_matches _ (probes_zero_ext _ _ _) rp_url C13_Model.empty_store rp_example_list []
               Hinj Htg false false).
    vm_compute. reflexivity.
Qed.

(* why url_tie is a premise: relevance is read off request.original_url, the probes off
   request.url; if the two were unrelated (Request::preparsed given one URL, the original set to
   another) a relevant fallback rule would not be found *)
Lemma url_tie_needed_refuted :
  exists f u ul,
    no_param_fallback seahash f = false /\ relevant_rule u f = true /\
    within_cutoff false false ul /\ ~ url_tie u ul /\
    ~ covered seahash (probes seahash (C03_Model.rq_src rp_req) ul) f.
Proof.
  exists rp_rule_utm, rp_url, (bs "https://a.com/p").
  assert (Hnc : ~ covered seahash (probes seahash (C03_Model.rq_src rp_req) (bs "https://a.com/p")) rp_rule_utm).
  { intros (g & Hg & Hi). vm_compute in Hg. destruct Hg as [<-|[]].
    specialize (Hi _ (or_introl eq_refl)). apply memN_In in Hi. vm_compute in Hi. discriminate. }
  split; [vm_compute; reflexivity|]. split; [vm_compute; reflexivity|]. split; [vm_compute; lia|].
  split; [|exact Hnc]. intros Ht. apply Hnc.
  destruct rp_token_guarantee_example as (Hrel & _ & Hopt & _ & _ & _).
  apply (token_guarantee_param seahash rp_rule_utm rp_req None None rp_url (bs "https://a.com/p"));
    [vm_compute; reflexivity|exact Hrel|exact Ht|exact Hopt|intros H; vm_compute in H; discriminate H
    |intros H; vm_compute in H; discriminate H| |vm_compute; lia].
  split; [intros H; vm_compute in H; discriminate|intros _; vm_compute; reflexivity].
Qed.
