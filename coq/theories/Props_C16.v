(* Props_C16.v — pinned statements for property C16 (per-site cosmetic resources contain exactly
   the rules scoped to that host).  Only statements, `exact`, and Print Assumptions.
   [h] = the 64-bit string hash (seahash), [uw] = regex `\w` on code points >= 128: arbitrary
   functions here; injectivity of [h] on the strings of the case is a stated hypothesis. *)
From Adb Require Import Base BaseProofs C17_Model C17_Proofs C16_Model C16_Proofs.
From Adb Require Generated.

(* L0 vocabulary: the label-aligned suffixes of s are s and whatever follows one of its dots *)
Theorem C16_label_suffixes_In : forall s x,
  In x (label_suffixes s) <-> x = s \/ exists a, s = a ++ DOT :: x.
Proof. exact label_suffixes_In. Qed.
Print Assumptions C16_label_suffixes_In.

(* the hash lists are the hashes of these strings (the loop of get_hashes_from_labels as recursion
   on dot positions) *)
Theorem C16_hash_lists : forall h host dom,
  get_entity_hashes_from_labels h host dom = map h (entity_strings host dom) /\
  get_hostname_hashes_from_labels h host dom = map h (hostname_strings host dom) /\
  (forall e sod, get_hashes_from_labels h host e sod = map h (label_strings host e sod)).
Proof. exact hash_lists. Qed.
Print Assumptions C16_hash_lists.

(* hostname hashes: exactly the label-aligned suffixes of the host down to the domain *)
Theorem C16_hostname_hashes_enum : forall host dom x,
  host <> [] -> (length dom <= length host)%nat ->
  (In x (hostname_strings host dom) <-> In x (label_suffixes host) /\ (length dom <= length x)%nat).
Proof. exact hostname_strings_enum. Qed.
Print Assumptions C16_hostname_hashes_enum.

(* entity hashes, host = pre ++ l1 ++ "." ++ ps with domain l1.ps (l1 one label): the label-aligned
   suffixes of host-minus-.ps, and ps; none when the domain has no dot *)
Theorem C16_entity_hashes_enum : forall pre l1 ps x,
  ~ In DOT l1 -> pre ++ l1 <> [] ->
  (In x (entity_strings (pre ++ l1 ++ DOT :: ps) (l1 ++ DOT :: ps)) <->
   In x (label_suffixes (pre ++ l1)) \/ x = ps).
Proof. exact entity_strings_enum. Qed.
Print Assumptions C16_entity_hashes_enum.

Theorem C16_entity_hashes_nodot : forall host dom, ~ In DOT dom -> entity_strings host dom = [].
Proof. exact entity_strings_nodot. Qed.
Print Assumptions C16_entity_hashes_nodot.

(* the strings hashed for the bin lookup are S host (DESIGN.md §4 C16), as a set *)
Theorem C16_lookup_set_is_S : forall host dom x,
  psl_contract host dom -> (covers host dom x <-> In x (S_host host dom)).
Proof. exact lookup_set_is_S. Qed.
Print Assumptions C16_lookup_set_is_S.

(* store_rule: a bin holds, in insertion order, the payloads of the (location, kind) pairs of the
   rules - positive locations with the rule's kind, negated locations with the negated kind - whose
   location hashes to the bin's key *)
Theorem C16_bin_spec : forall h uw rules tg hh,
  bget (tg, hh) (db (build_cache h uw rules)) =
  map snd (filter (fun e => bkey_eqb (tg, hh) (fst e)) (flat_map (rule_entries h) rules)).
Proof. exact bin_spec. Qed.
Print Assumptions C16_bin_spec.

(* add_filter: the generic stores are C17's stores over the selectors of the unscoped rules and of
   the rules that have only negated locations (hidden generic rules) *)
Theorem C16_generic_part : forall h uw rules,
  gen (build_cache h uw rules) = build uw (generic_selectors rules).
Proof. exact gen_build. Qed.
Print Assumptions C16_generic_part.

(* populate / prune: result = (union of bins over the lookup hashes) minus (union of exception
   bins); blanket `#@#+js()` empties the scripts; generichide drops the generic part *)
Theorem C16_resources_algebra : forall h c host dom gh,
  let R := hostname_cosmetic_resources h c host dom gh in
  (forall s, In s (hide_selectors R) <->
     (In s (Us h c host dom THide) /\ ~ In s (Us h c host dom TUnhide)) \/
     (gh = false /\ In s (misc (gen c)) /\ ~ In s (Us h c host dom TUnhide))) /\
  (forall s, In s (exceptions R) <-> In s (Us h c host dom TUnhide)) /\
  (forall s, In s (procedural_actions R) <->
     In s (Us h c host dom TProc) /\ ~ In s (Us h c host dom TProcExc)) /\
  (forall s, In s (map fst (script_injections R)) <->
     In s (Us h c host dom TInject) /\ ~ In s (Us h c host dom TUninject) /\ ~ In [] (Us h c host dom TUninject)) /\
  generichide R = gh.
Proof. exact resources_algebra. Qed.
Print Assumptions C16_resources_algebra.

(* The property.  With [A tg s] = "some rule of the list stores content s with tag tg under a
   location that covers the host" (covers = membership in S host by C16_lookup_set_is_S):
   hide selectors = specific hides not unhidden for the host, plus - unless generichide - the
   generic selectors without a class/id key that are not unhidden for the host; exceptions = every
   selector unhidden for the host; procedural/action filters and scriptlets likewise, a blanket
   script exception removing every scriptlet.
   The permission mask attached to an injected scriptlet is C16_script_mask_spec below.
   Not covered here: the scriptlet text assembly (C18), the value of generichide (network matching
   of $generichide exceptions, an input here) and the URL -> hostname step (C12). *)
Theorem C16_cosmetic_spec : forall h uw rules host dom gh,
  inj_on h (lookup_strings host dom ++ all_locations rules) ->
  let R := hostname_cosmetic_resources h (build_cache h uw rules) host dom gh in
  let A := applies_s rules host dom in
  (forall s, In s (hide_selectors R) <->
     (A THide s /\ ~ A TUnhide s) \/
     (gh = false /\ In s (generic_selectors rules) /\ key_from_selector uw s = None /\ ~ A TUnhide s)) /\
  (forall s, In s (exceptions R) <-> A TUnhide s) /\
  (forall s, In s (procedural_actions R) <-> A TProc s /\ ~ A TProcExc s) /\
  (forall s, In s (map fst (script_injections R)) <->
     A TInject s /\ ~ A TUninject s /\ ~ A TUninject []) /\
  generichide R = gh.
Proof. exact cosmetic_spec. Qed.
Print Assumptions C16_cosmetic_spec.

(* the permission mask the result holds for an injected scriptlet (HashMap get = sget) is the
   union, bit by bit, of the masks of the identical injections of rules covering the host *)
Theorem C16_script_mask_spec : forall h uw rules host dom gh s p,
  inj_on h (lookup_strings host dom ++ all_locations rules) ->
  sget s (script_injections (hostname_cosmetic_resources h (build_cache h uw rules) host dom gh)) = Some p ->
  forall i, N.testbit p i = true <->
            exists q, applies rules host dom TInject s q /\ N.testbit q i = true.
Proof. exact script_mask_spec. Qed.
Print Assumptions C16_script_mask_spec.

(* translator tie: the arms of SpecificFilterType::negated and HostnameRuleDb::store and the order
   entities-then-hostnames in the source are the ones C16_Model.v transcribes *)
Theorem C16_tables_as_modelled :
  Generated.c16_negated_table = map (fun t => (tag_name t, tag_name (neg_tag t))) all_tags /\
  Generated.c16_store_table = map (fun t => (tag_name t, bin_name t)) all_tags /\
  Generated.c16_hash_chain = ["request_entities"%string; "request_hostnames"%string].
Proof. exact tables_as_modelled. Qed.
Print Assumptions C16_tables_as_modelled.

(* ------------------------------------------------------------------ the WHOLE answer of
   Engine::url_cosmetic_resources: the generichide bit is computed by the network index
   (check_generic_hide on the page as its own document request, with the enabled tags since
   /repo b8d0ade) and equals the rule-by-rule reading; composed with C16's cache *)
(* paste-ready pins for C16_Engine_* (whole answer of Engine::url_cosmetic_resources) *)
From Adb Require Import Base BaseProofs C17_Model C17_Proofs C16_Model C16_Proofs C16_Engine_Model C16_Engine_Proofs.
From Adb Require Hashing Net_Model Net_Proofs C05_Model C06_History_Model Wire_Model C08_Model C08_Query_Model.

(* the rule-by-rule reading in C16's vocabulary = Net_Model's category vocabulary *)
Theorem C16_spec_generichide_cats : forall matches L T,
  spec_generichide matches L T = Net_Model.spec_generic_hide matches L T.
Proof. exact spec_generichide_cats. Qed.
Print Assumptions C16_spec_generichide_cats.

(* check_generic_hide = rule by rule, for every enabled tag set *)
Theorem C16_generichide_eq_spec : forall h matches pr L T,
  Net_Proofs.id_inj L -> Net_Proofs.TG h matches pr L -> In 0 pr ->
  Net_Model.generic_hide_hit matches pr (Net_Model.tags_with_set h (Net_Model.blocker_new h L) T)
  = spec_generichide matches L T.
Proof. exact generichide_eq_spec. Qed.
Print Assumptions C16_generichide_eq_spec.

(* a generichide rule carrying `$tag=t` counts iff t is enabled; an untagged one always *)
Theorem C16_tagged_generichide_iff_enabled : forall matches L T f t,
  Net_Model.rtag f = Some t ->
  generichide_rule matches L T f = generichide_core matches L f && mem_str t T.
Proof. exact tagged_generichide_iff_enabled. Qed.
Print Assumptions C16_tagged_generichide_iff_enabled.

Theorem C16_untagged_generichide_any_tags : forall matches L T f,
  Net_Model.rtag f = None -> generichide_rule matches L T f = generichide_core matches L f.
Proof. exact untagged_generichide_any_tags. Qed.
Print Assumptions C16_untagged_generichide_any_tags.

(* at the level of the lookup: f (tag t) the only candidate of the list => the answer is "t enabled" *)
Theorem C16_tagged_generichide_lookup_iff_enabled : forall h matches pr L T f t,
  Net_Proofs.id_inj L -> Net_Proofs.TG h matches pr L -> In 0 pr ->
  In f L -> Net_Model.rtag f = Some t -> generichide_core matches L f = true ->
  (forall g, In g L -> g <> f -> generichide_core matches L g = false) ->
  Net_Model.generic_hide_hit matches pr (Net_Model.tags_with_set h (Net_Model.blocker_new h L) T)
  = mem_str t T.
Proof. exact tagged_generichide_lookup_iff_enabled. Qed.
Print Assumptions C16_tagged_generichide_lookup_iff_enabled.

(* @@||a.com^$generichide,tag=x on https://a.com/ : premises hold; fires with x enabled, not otherwise *)
Theorem C16_tagged_generichide_example :
  Net_Model.rtag ex_gh_tagged = Some (bs "x") /\
  Net_Proofs.id_inj [ex_gh_tagged] /\
  Net_Proofs.TG Hashing.seahash (ex_page_matches A_COM) (ex_page_probes A_COM) [ex_gh_tagged] /\
  In 0 (ex_page_probes A_COM) /\
  generichide_core (ex_page_matches A_COM) [ex_gh_tagged] ex_gh_tagged = true /\
  Net_Model.generic_hide_hit (ex_page_matches A_COM) (ex_page_probes A_COM)
    (Net_Model.tags_with_set Hashing.seahash (Net_Model.blocker_new Hashing.seahash [ex_gh_tagged]) [bs "x"]) = true /\
  Net_Model.generic_hide_hit (ex_page_matches A_COM) (ex_page_probes A_COM)
    (Net_Model.tags_with_set Hashing.seahash (Net_Model.blocker_new Hashing.seahash [ex_gh_tagged]) []) = false /\
  ex_answer [ex_gh_tagged] [bs "x"] A_COM = mkRes [bs ".x"] [] [] [] true /\
  ex_answer [ex_gh_tagged] [bs "y"; bs "x"] A_COM = mkRes [bs ".x"] [] [] [] true /\
  ex_answer [ex_gh_tagged] [] A_COM = mkRes [bs "div[ad]"; bs ".x"] [] [] [] false /\
  ex_answer [ex_gh_tagged] [bs "y"] A_COM = mkRes [bs "div[ad]"; bs ".x"] [] [] [] false.
Proof. exact tagged_generichide_example. Qed.
Print Assumptions C16_tagged_generichide_example.

(* the whole answer of url_cosmetic_resources meets C16's specification with gh := spec_generichide *)
Theorem C16_url_cosmetic_resources_spec : forall h uw matches pr L T crules host dom,
  Net_Proofs.id_inj L -> Net_Proofs.TG h matches pr L -> In 0 pr ->
  inj_on h (lookup_strings host dom ++ all_locations crules) ->
  cosmetic_answer_spec uw crules host dom (spec_generichide matches L T)
    (url_cosmetic_resources_model h matches pr true
       (Net_Model.tags_with_set h (Net_Model.blocker_new h L) T) (build_cache h uw crules) host dom).
Proof. exact url_cosmetic_resources_spec. Qed.
Print Assumptions C16_url_cosmetic_resources_spec.

Theorem C16_url_cosmetic_resources_unparsed : forall h matches pr b c host dom,
  url_cosmetic_resources_model h matches pr false b c host dom = empty_resources.
Proof. exact url_cosmetic_resources_unparsed. Qed.
Print Assumptions C16_url_cosmetic_resources_unparsed.

Theorem C16_generichide_on : forall h uw matches pr L T crules host dom,
  Net_Proofs.id_inj L -> Net_Proofs.TG h matches pr L -> In 0 pr ->
  inj_on h (lookup_strings host dom ++ all_locations crules) ->
  (exists f, In f L /\ generichide_rule matches L T f = true) ->
  let R := url_cosmetic_resources_model h matches pr true
             (Net_Model.tags_with_set h (Net_Model.blocker_new h L) T) (build_cache h uw crules) host dom in
  generichide R = true /\
  (forall s, In s (hide_selectors R) <->
             applies_s crules host dom THide s /\ ~ applies_s crules host dom TUnhide s) /\
  (forall s, ~ applies_s crules host dom THide s -> ~ In s (hide_selectors R)).
Proof. exact generichide_on. Qed.
Print Assumptions C16_generichide_on.

Theorem C16_generichide_off : forall h uw matches pr L T crules host dom,
  Net_Proofs.id_inj L -> Net_Proofs.TG h matches pr L -> In 0 pr ->
  inj_on h (lookup_strings host dom ++ all_locations crules) ->
  (forall f, In f L -> generichide_rule matches L T f = false) ->
  let R := url_cosmetic_resources_model h matches pr true
             (Net_Model.tags_with_set h (Net_Model.blocker_new h L) T) (build_cache h uw crules) host dom in
  generichide R = false /\
  (forall s, In s (hide_selectors R) <->
     (applies_s crules host dom THide s /\ ~ applies_s crules host dom TUnhide s) \/
     (In s (generic_selectors crules) /\ key_from_selector uw s = None /\ ~ applies_s crules host dom TUnhide s)) /\
  (forall s, In s (generic_selectors crules) -> key_from_selector uw s = None ->
             ~ applies_s crules host dom TUnhide s -> In s (hide_selectors R)).
Proof. exact generichide_off. Qed.
Print Assumptions C16_generichide_off.

(* after any history of add_filter / use_tags / enable_tags / disable_tags / optimize *)
Theorem C16_generichide_history : forall h om pm pr ops,
  In 0 pr -> Net_Proofs.id_inj (C06_History_Model.loaded ops) ->
  Net_Proofs.TG h (C05_Model.rmatch om pm) pr (C06_History_Model.loaded ops) ->
  (forall g, In g (C06_History_Model.loaded ops) -> C05_Model.wfp g = true) ->
  Net_Model.generic_hide_hit (C05_Model.rmatch om pm) pr (C06_History_Model.hrun h ops)
  = spec_generichide (C05_Model.rmatch om pm) (C06_History_Model.loaded ops) (C06_History_Model.tagset ops).
Proof. exact generichide_history. Qed.
Print Assumptions C16_generichide_history.

Theorem C16_url_cosmetic_resources_history : forall h uw om pm pr ops crules host dom,
  In 0 pr -> Net_Proofs.id_inj (C06_History_Model.loaded ops) ->
  Net_Proofs.TG h (C05_Model.rmatch om pm) pr (C06_History_Model.loaded ops) ->
  (forall g, In g (C06_History_Model.loaded ops) -> C05_Model.wfp g = true) ->
  inj_on h (lookup_strings host dom ++ all_locations crules) ->
  cosmetic_answer_spec uw crules host dom
    (spec_generichide (C05_Model.rmatch om pm) (C06_History_Model.loaded ops) (C06_History_Model.tagset ops))
    (url_cosmetic_resources_model h (C05_Model.rmatch om pm) pr true
       (C06_History_Model.hrun h ops) (build_cache h uw crules) host dom).
Proof. exact url_cosmetic_resources_history. Qed.
Print Assumptions C16_url_cosmetic_resources_history.

(* add_filter refuses $badfilter rules: after a history no cancellation clause is needed *)
Theorem C16_spec_generichide_history : forall matches ops T,
  spec_generichide matches (C06_History_Model.loaded ops) T =
  existsb (fun f => Net_Model.is_generic_hide f && negb (Net_Model.is_csp f) && negb (Net_Model.is_removeparam f)
                    && Net_Model.tag_ok T f && matches f) (C06_History_Model.loaded ops).
Proof. exact spec_generichide_history. Qed.
Print Assumptions C16_spec_generichide_history.

(* across serialize -> load into any engine -> use_tags: same whole answer (same cosmetic cache) *)
Theorem C16_url_cosmetic_resources_agree : forall h matches pr parsed a b c host dom,
  C08_Query_Model.net_agree a b ->
  url_cosmetic_resources_model h matches pr parsed a c host dom =
  url_cosmetic_resources_model h matches pr parsed b c host dom.
Proof. exact url_cosmetic_resources_agree. Qed.
Print Assumptions C16_url_cosmetic_resources_agree.

Theorem C16_url_cosmetic_resources_roundtrip : forall as_css build_list l e tags,
  C08_Model.rules_ok (Wire_Model.e_blocker e) -> C08_Query_Model.keys_distinct (Wire_Model.e_blocker e) ->
  let w := Wire_Model.to_wire as_css (Wire_Model.e_blocker e) (Wire_Model.e_cosmetic e) in
  let e' := C08_Model.engine_use_tags build_list tags (Wire_Model.install build_list l w) in
  let e0 := C08_Model.engine_use_tags build_list tags e in
  forall h matches pr parsed c host dom,
  url_cosmetic_resources_model h matches pr parsed (C08_Query_Model.net_blocker (Wire_Model.e_blocker e')) c host dom =
  url_cosmetic_resources_model h matches pr parsed (C08_Query_Model.net_blocker (Wire_Model.e_blocker e0)) c host dom.
Proof. exact url_cosmetic_resources_roundtrip. Qed.
Print Assumptions C16_url_cosmetic_resources_roundtrip.

(* ---- `hostname_cosmetic_resources` itself, re-read from src/cosmetic_filter_cache.rs on every run
   (tools/gen_fragments/c16_resources_structure.py -> Generated.ResGen): the chained hash lists, the
   statements of the collecting and of the excepting pass with the bins and sets they connect, the
   two shapes of the answer; interpreted over the model's state it IS the model, step by step and
   as a whole, for every hash function, cache, host and generichide flag ---- *)
From Adb Require Struct_Resources_Proofs.
Theorem C16_src_pass1_is_populate_step : forall (d : hdb) (st : state) (hh : N),
  Struct_Resources_Proofs.interp_pass1 d st hh = Some (populate_step d st hh).
Proof. exact Struct_Resources_Proofs.interp_pass1_is_populate_step. Qed.
Print Assumptions C16_src_pass1_is_populate_step.

Theorem C16_src_pass2_is_prune_step : forall (d : hdb) (st : state) (hh : N),
  Struct_Resources_Proofs.interp_pass2 d st hh = Some (prune_step d st hh).
Proof. exact Struct_Resources_Proofs.interp_pass2_is_prune_step. Qed.
Print Assumptions C16_src_pass2_is_prune_step.

Theorem C16_src_hostname_cosmetic_resources_is_model :
  forall (h : str -> N) (c : cache) (hostname dom : str) (gh : bool),
  Struct_Resources_Proofs.interp_resources h c hostname dom gh =
  Some (hostname_cosmetic_resources h c hostname dom gh).
Proof. exact Struct_Resources_Proofs.interp_resources_is_model. Qed.
Print Assumptions C16_src_hostname_cosmetic_resources_is_model.

(* where `CosmeticFilterCache::add_filter` stores a rule (Generated.RouteGen: the statements of its
   two branches): a rule with a hostname constraint goes to the per-host database and, if it has a
   hidden generic form, ALSO to the generic stores; any other rule to the generic stores only *)
Theorem C16_src_add_filter_is_model : forall (h : str -> N) (uw : N -> bool) (c : cache) (r : crule),
  Struct_Resources_Proofs.interp_add_filter h uw c r = add_filter h uw c r.
Proof. exact Struct_Resources_Proofs.interp_add_filter_is_model. Qed.
Print Assumptions C16_src_add_filter_is_model.
