(* Props_C16.v — pinned statements for property C16 (per-site cosmetic resources contain exactly
   the rules scoped to that host).  Only statements, `exact`, and Print Assumptions.
   [h] = the 64-bit string hash (seahash), [uw] = regex `\w` on code points >= 128: arbitrary
   functions here; injectivity of [h] on the strings of the case is a stated hypothesis. *)
From Adb Require Import Base BaseProofs C17_Model C17_Proofs C16_Model C16_Proofs.
From Adb Require Generated.

(* L0 vocabulary: the label-aligned suffixes of s are s and whatever follows one of its dots *)
Theorem C16_label_suffixes_In : forall s x,
  In x (label_suffixes s) <-> x = s \/ exists a, s = a ++ DOT :: x.
Proof. exact label_suffixes_In. Qed.
Print Assumptions C16_label_suffixes_In.

(* the hash lists are the hashes of these strings (the loop of get_hashes_from_labels as recursion
   on dot positions) *)
Theorem C16_hash_lists : forall h host dom,
  get_entity_hashes_from_labels h host dom = map h (entity_strings host dom) /\
  get_hostname_hashes_from_labels h host dom = map h (hostname_strings host dom) /\
  (forall e sod, get_hashes_from_labels h host e sod = map h (label_strings host e sod)).
Proof. exact hash_lists. Qed.
Print Assumptions C16_hash_lists.

(* hostname hashes: exactly the label-aligned suffixes of the host down to the domain *)
Theorem C16_hostname_hashes_enum : forall host dom x,
  host <> [] -> (length dom <= length host)%nat ->
  (In x (hostname_strings host dom) <-> In x (label_suffixes host) /\ (length dom <= length x)%nat).
Proof. exact hostname_strings_enum. Qed.
Print Assumptions C16_hostname_hashes_enum.

(* entity hashes, host = pre ++ l1 ++ "." ++ ps with domain l1.ps (l1 one label): the label-aligned
   suffixes of host-minus-.ps, and ps; none when the domain has no dot *)
Theorem C16_entity_hashes_enum : forall pre l1 ps x,
  ~ In DOT l1 -> pre ++ l1 <> [] ->
  (In x (entity_strings (pre ++ l1 ++ DOT :: ps) (l1 ++ DOT :: ps)) <->
   In x (label_suffixes (pre ++ l1)) \/ x = ps).
Proof. exact entity_strings_enum. Qed.
Print Assumptions C16_entity_hashes_enum.

Theorem C16_entity_hashes_nodot : forall host dom, ~ In DOT dom -> entity_strings host dom = [].
Proof. exact entity_strings_nodot. Qed.
Print Assumptions C16_entity_hashes_nodot.

(* the strings hashed for the bin lookup are S host (DESIGN.md §4 C16), as a set *)
Theorem C16_lookup_set_is_S : forall host dom x,
  psl_contract host dom -> (covers host dom x <-> In x (S_host host dom)).
Proof. exact lookup_set_is_S. Qed.
Print Assumptions C16_lookup_set_is_S.

(* store_rule: a bin holds, in insertion order, the payloads of the (location, kind) pairs of the
   rules - positive locations with the rule's kind, negated locations with the negated kind - whose
   location hashes to the bin's key *)
Theorem C16_bin_spec : forall h uw rules tg hh,
  bget (tg, hh) (db (build_cache h uw rules)) =
  map snd (filter (fun e => bkey_eqb (tg, hh) (fst e)) (flat_map (rule_entries h) rules)).
Proof. exact bin_spec. Qed.
Print Assumptions C16_bin_spec.

(* add_filter: the generic stores are C17's stores over the selectors of the unscoped rules and of
   the rules that have only negated locations (hidden generic rules) *)
Theorem C16_generic_part : forall h uw rules,
  gen (build_cache h uw rules) = build uw (generic_selectors rules).
Proof. exact gen_build. Qed.
Print Assumptions C16_generic_part.

(* populate / prune: result = (union of bins over the lookup hashes) minus (union of exception
   bins); blanket `#@#+js()` empties the scripts; generichide drops the generic part *)
Theorem C16_resources_algebra : forall h c host dom gh,
  let R := hostname_cosmetic_resources h c host dom gh in
  (forall s, In s (hide_selectors R) <->
     (In s (Us h c host dom THide) /\ ~ In s (Us h c host dom TUnhide)) \/
     (gh = false /\ In s (misc (gen c)) /\ ~ In s (Us h c host dom TUnhide))) /\
  (forall s, In s (exceptions R) <-> In s (Us h c host dom TUnhide)) /\
  (forall s, In s (procedural_actions R) <->
     In s (Us h c host dom TProc) /\ ~ In s (Us h c host dom TProcExc)) /\
  (forall s, In s (map fst (script_injections R)) <->
     In s (Us h c host dom TInject) /\ ~ In s (Us h c host dom TUninject) /\ ~ In [] (Us h c host dom TUninject)) /\
  generichide R = gh.
Proof. exact resources_algebra. Qed.
Print Assumptions C16_resources_algebra.

(* The property.  With [A tg s] = "some rule of the list stores content s with tag tg under a
   location that covers the host" (covers = membership in S host by C16_lookup_set_is_S):
   hide selectors = specific hides not unhidden for the host, plus - unless generichide - the
   generic selectors without a class/id key that are not unhidden for the host; exceptions = every
   selector unhidden for the host; procedural/action filters and scriptlets likewise, a blanket
   script exception removing every scriptlet.
   The permission mask attached to an injected scriptlet is C16_script_mask_spec below.
   Not covered here: the scriptlet text assembly (C18), the value of generichide (network matching
   of $generichide exceptions, an input here) and the URL -> hostname step (C12). *)
Theorem C16_cosmetic_spec : forall h uw rules host dom gh,
  inj_on h (lookup_strings host dom ++ all_locations rules) ->
  let R := hostname_cosmetic_resources h (build_cache h uw rules) host dom gh in
  let A := applies_s rules host dom in
  (forall s, In s (hide_selectors R) <->
     (A THide s /\ ~ A TUnhide s) \/
     (gh = false /\ In s (generic_selectors rules) /\ key_from_selector uw s = None /\ ~ A TUnhide s)) /\
  (forall s, In s (exceptions R) <-> A TUnhide s) /\
  (forall s, In s (procedural_actions R) <-> A TProc s /\ ~ A TProcExc s) /\
  (forall s, In s (map fst (script_injections R)) <->
     A TInject s /\ ~ A TUninject s /\ ~ A TUninject []) /\
  generichide R = gh.
Proof. exact cosmetic_spec. Qed.
Print Assumptions C16_cosmetic_spec.

(* the permission mask the result holds for an injected scriptlet (HashMap get = sget) is the
   union, bit by bit, of the masks of the identical injections of rules covering the host *)
Theorem C16_script_mask_spec : forall h uw rules host dom gh s p,
  inj_on h (lookup_strings host dom ++ all_locations rules) ->
  sget s (script_injections (hostname_cosmetic_resources h (build_cache h uw rules) host dom gh)) = Some p ->
  forall i, N.testbit p i = true <->
            exists q, applies rules host dom TInject s q /\ N.testbit q i = true.
Proof. exact script_mask_spec. Qed.
Print Assumptions C16_script_mask_spec.

(* translator tie: the arms of SpecificFilterType::negated and HostnameRuleDb::store and the order
   entities-then-hostnames in the source are the ones C16_Model.v transcribes *)
Theorem C16_tables_as_modelled :
  Generated.c16_negated_table = map (fun t => (tag_name t, tag_name (neg_tag t))) all_tags /\
  Generated.c16_store_table = map (fun t => (tag_name t, bin_name t)) all_tags /\
  Generated.c16_hash_chain = ["request_entities"%string; "request_hostnames"%string].
Proof. exact tables_as_modelled. Qed.
Print Assumptions C16_tables_as_modelled.
