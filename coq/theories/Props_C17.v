(* Props_C17.v — pinned statements for property C17 (generic class/id lookup returns exactly the
   unexcepted generic selectors; every generic selector is reachable through the lookup xor through
   the per-site misc list).  Only statements, `exact`, and Print Assumptions.
   [uw] is the regex crate's `\w` on code points >= 128 (third-party table, arbitrary here). *)
From Adb Require Import Base BaseProofs C17_Model C17_Proofs.
From Adb Require Generated.
From Coq Require Import Permutation.

(* key_from_selector (two regex passes + re-scan of the match) computes the CSS unescaping of the
   leading simple selector (single-pass L0 item reader), for every byte string. *)
Theorem C17_key_refines : forall uw s, key_from_selector uw s = key_spec uw s.
Proof. exact key_refines. Qed.
Print Assumptions C17_key_refines.

Theorem C17_key_unescape : forall uw s k,
  key_from_selector uw s = Some k -> css_unescape uw (leading_simple_selector uw s) = Some k.
Proof. exact key_unescape. Qed.
Print Assumptions C17_key_unescape.

(* What a key is: s = p ++ spelling of the longest run of identifier items ++ rest, p is '.' or
   '#', at least one item, no item starts at rest, and the key is p ++ the items' values
   (word characters and '-' for themselves, `\h+ ` as the scalar value with hex code h, `\c` as c). *)
Theorem C17_key_some_iff : forall uw s k,
  key_from_selector uw s = Some k <->
  exists p its rest v,
    s = p :: spell its ++ rest /\ (p = DOT \/ p = HASHC) /\ its <> [] /\ chain uw its rest /\
    next_item uw rest = None /\ css_value its = Some v /\ k = p :: v.
Proof. exact key_some_iff. Qed.
Print Assumptions C17_key_some_iff.

(* What makes it return None: not a class/id selector, no identifier item after the first
   character, or a hex escape in the leading identifier that is not a Unicode scalar value. *)
Theorem C17_key_none_iff : forall uw s,
  key_from_selector uw s = None <->
  match s with
  | [] => True
  | p :: r => (p <> DOT /\ p <> HASHC) \/ fst (lead_items uw r) = [] \/ css_value (fst (lead_items uw r)) = None
  end.
Proof. exact key_none_iff. Qed.
Print Assumptions C17_key_none_iff.

(* the two `assert!(key.starts_with(..))` of add_generic_filter never fire *)
Theorem C17_key_head : forall uw s k,
  key_from_selector uw s = Some k -> exists p r k', s = p :: r /\ k = p :: k' /\ (p = DOT \/ p = HASHC).
Proof. exact key_head. Qed.
Print Assumptions C17_key_head.

(* Every generic plain selector added is held by exactly one store (the one the if-chain names),
   and the stores hold nothing else: never lost, never in two stores.  (A rule given twice sits
   twice in the same complex bucket: the bucket is a Vec.) *)
Theorem C17_partition_exclusive : forall uw G pl s,
  holds (build uw G) pl s = true <-> In s G /\ classify uw s = pl.
Proof. exact partition_exclusive. Qed.
Print Assumptions C17_partition_exclusive.

Theorem C17_partition_unique : forall uw G s,
  In s G -> exists! pl, holds (build uw G) pl s = true.
Proof. exact partition_unique. Qed.
Print Assumptions C17_partition_unique.

(* The lookup returns exactly [ s | generic s, key s in .C u #I, s not in E ]:
   as sets for all inputs, and as multisets (a permutation) when no rule and no name is repeated. *)
Theorem C17_lookup_spec_set : forall uw G C I E s,
  In s (hidden (build uw G) C I E) <-> In s (lookup_ref uw G C I E).
Proof. exact lookup_set. Qed.
Print Assumptions C17_lookup_spec_set.

Theorem C17_lookup_spec : forall uw G C I E,
  NoDup G -> NoDup C -> NoDup I ->
  Permutation (hidden (build uw G) C I E) (lookup_ref uw G C I E).
Proof. exact lookup_perm. Qed.
Print Assumptions C17_lookup_spec.

(* Every generic selector is reachable through the lookup or through the per-site misc list,
   never both and never neither. *)
Theorem C17_reach_once : forall uw G s,
  In s G ->
  ((exists C I, In s (hidden (build uw G) C I [])) /\ ~ In s (misc (build uw G))) \/
  ((forall C I E, ~ In s (hidden (build uw G) C I E)) /\ In s (misc (build uw G))).
Proof. exact reach_once. Qed.
Print Assumptions C17_reach_once.

(* ... and the name to ask for is the unescaped leading identifier *)
Theorem C17_reach_by_key : forall uw G s k,
  In s G -> key_from_selector uw s = Some k ->
  In s (hidden (build uw G) [tl k] [tl k] []) /\ ~ In s (misc (build uw G)).
Proof. exact reach_lookup. Qed.
Print Assumptions C17_reach_by_key.

(* translator tie: the three regular expressions, the radix and the prefix tests in the source are
   the ones C17_Model.v transcribes *)
Theorem C17_regexes_as_modelled :
  Generated.c17_re_plain_selector = "^[#.][\w\\-]+"%string /\
  Generated.c17_re_plain_selector_escaped = "^[#.](?:\\[0-9A-Fa-f]+ |\\.|\w|-)+"%string /\
  Generated.c17_re_escape_sequence = "\\([0-9A-Fa-f]+ |.)"%string /\
  Generated.c17_escape_radix = 16%N /\
  Generated.c17_regex_use_order = ["RE_PLAIN_SELECTOR"; "RE_PLAIN_SELECTOR_ESCAPED"; "RE_ESCAPE_SEQUENCE"]%string /\
  Generated.c17_store_prefixes = ["."; "#"]%string.
Proof. exact regexes_as_modelled. Qed.
Print Assumptions C17_regexes_as_modelled.

(* ---- `hidden_class_id_selectors` itself, re-read from src/cosmetic_filter_cache.rs on every run
   (tools/gen_fragments/c17_lookup_structure.py -> Generated.LookupGen) and interpreted over the
   model's stores: it IS the lookup every theorem of this file speaks about ---- *)
From Adb Require Struct_Lookup_Proofs.
Theorem C17_src_hidden_is_model : forall (st : stores) (C I E : list str),
  Struct_Lookup_Proofs.interp_hidden st C I E = Some (hidden st C I E).
Proof. exact Struct_Lookup_Proofs.interp_hidden_is_model. Qed.
Print Assumptions C17_src_hidden_is_model.
