(* Struct_Lookup_Proofs.v — tie between CosmeticFilterCache::hidden_class_id_selectors as the
   translator extracts it on every run (Generated.LookupGen: per loop the argument walked, the set
   consulted for the bare selector, the prefix of the exception test and of the pushed selector,
   the compound map; both `if`s independent) and C17_Model.hidden.  A loop that consults the other
   store, tests the exception with another prefix than it pushes, or walks the ids first changes
   the generated data and breaks the proof; an early exit between the two `if`s is another spelling
   and fails the fragment closed (seeded C17-14). *)
From Coq Require Import String.
From Adb Require Import Base Generated C17_Model.
Import LookupGen.
Local Open Scope string_scope.
Local Open Scope list_scope.

Definition set_named (st : stores) (n : string) : option (list str) :=
  if String.eqb n "simple_class_rules" then Some (simple_class st)
  else if String.eqb n "simple_id_rules" then Some (simple_id st)
  else if String.eqb n "misc_generic_selectors" then Some (misc st)
  else None.
Definition map_named (st : stores) (n : string) : option (list (str * list str)) :=
  if String.eqb n "complex_class_rules" then Some (complex_class st)
  else if String.eqb n "complex_id_rules" then Some (complex_id st)
  else None.

(* one name of the page against one loop's description *)
Definition interp_one (simple : list str) (complex : list (str * list str)) (ep pp : N) (E : list str)
           (c : str) : list str :=
  (if mem_str c simple && negb (mem_str (ep :: c) E) then [pp :: c] else []) ++
  match map_get c complex with
  | Some b => filter (fun s => negb (mem_str s E)) b
  | None => []
  end.

Definition arg_named (C I : list str) (n : string) : option (list str) :=
  if String.eqb n "classes" then Some C else if String.eqb n "ids" then Some I else None.

Fixpoint interp_blocks (bs : list (string * (string * N * N * string))) (st : stores)
         (C I E : list str) : option (list str) :=
  match bs with
  | [] => Some []
  | (arg, (sn, ep, pp, cn)) :: rest =>
      match arg_named C I arg, set_named st sn, map_named st cn, interp_blocks rest st C I E with
      | Some names, Some simple, Some complex, Some tail =>
          Some (flat_map (interp_one simple complex ep pp E) names ++ tail)
      | _, _, _, _ => None
      end
  end.
Definition interp_hidden := interp_blocks blocks.

Theorem interp_hidden_is_model st C I E : interp_hidden st C I E = Some (hidden st C I E).
Proof.
  unfold interp_hidden, blocks, hidden.
  cbn [interp_blocks arg_named set_named map_named String.eqb Ascii.eqb Bool.eqb].
  rewrite app_nil_r. reflexivity.
Qed.
