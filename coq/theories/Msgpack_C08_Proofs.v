(* Msgpack_C08_Proofs.v — C08_Engine_Proofs.engine_deserialize_own / engine_bytes_roundtrip with the
   decoder parameter instantiated by the modelled one (Msgpack_Model.decode_wire =
   rmps::decode::from_slice::<DeserializeFormat>), so that the premise
       decode (encode (wire_tree (fe_wire as_css e))) = Some (fe_wire as_css e)
   is discharged.  What remains of it is [wire_fits (fe_wire as_css e) = true]: every integer of the
   value handed to the encoder fits its Rust type (u64 hashes, u32 masks) and every string / Vec /
   map length fits u32 — true of every value the crate can hold in memory, and not expressible
   away in a model whose integers are unbounded (Msgpack_Proofs.decode_encode_wf_needed,
   from_tree_u32_needed). *)
From Adb Require Import Base BaseProofs Generated Wire_Model Wire_Proofs C09_Model C09_Proofs C08_Model C08_Proofs
                        C08_Query_Model C08_Query_Proofs C08_Engine_Model C08_Engine_Proofs
                        Msgpack_Model Msgpack_Proofs.
From Adb Require Net_Model Engine_Model C13_Model C10_Model C10_Proofs.

Section Engine.
  Variable as_css : str -> option (str * str).
  Variable build_list : list rule -> bool -> bucket_map.

  Theorem engine_deserialize_own_msgpack l e :
    wire_fits (fe_wire as_css e) = true ->
    fe_deserialize build_list decode_wire l (fe_serialize as_css e) =
    Ok (fe_install build_list l (fe_wire as_css e), None).
  Proof.
    intros W. apply engine_deserialize_own. apply decode_wire_own. exact W.
  Qed.

  Theorem engine_bytes_roundtrip_msgpack l e :
    wire_fits (fe_wire as_css e) = true ->
    rules_ok (e_blocker (fe_state e)) -> keys_distinct (e_blocker (fe_state e)) ->
    stores_agree (fe_store l) (fe_store e) ->
    tags_installed build_list (e_blocker (fe_state e)) ->
    b_tags_enabled (e_blocker (fe_state l)) = b_tags_enabled (e_blocker (fe_state e)) ->
    exists g', fe_deserialize build_list decode_wire l (fe_serialize as_css e) = Ok (g', None) /\
               same_answers_but_rewritten g' e /\
               (no_removeparam (e_blocker (fe_state e)) -> same_answers g' e).
  Proof.
    intros W. apply engine_bytes_roundtrip. apply decode_wire_own. exact W.
  Qed.

  (* a truncated copy of the engine's bytes is refused and the receiver is unchanged *)
  Theorem engine_deserialize_truncated l e p :
    wire_fits (fe_wire as_css e) = true -> strict_prefix p (fe_serialize as_css e) ->
    fe_deserialize build_list decode_wire l p = Ok (l, Some C10_Model.ENoHeader) \/
    fe_deserialize build_list decode_wire l p = Ok (l, Some C10_Model.ERmp).
  Proof.
    intros W S. unfold fe_deserialize.
    destruct (deserialize_truncated build_list (fe_state l) _ p W S) as [H|H]; rewrite H;
      [left|right]; destruct l; reflexivity.
  Qed.
End Engine.

(* the example engine of C08_Engine_Proofs, through the real bytes and the modelled decoder *)
Example engine_bytes_example_msgpack :
  let e := exe_engine false in
  let l := exe_receiver [bs "t1"] [exe_res] in
  wire_fits (fe_wire ex_css e) = true /\
  exists g', fe_deserialize exe_build decode_wire l (fe_serialize ex_css e) = Ok (g', None) /\ same_answers g' e.
Proof.
  cbv zeta. assert (W : wire_fits (fe_wire ex_css (exe_engine false)) = true) by (vm_compute; reflexivity).
  split; [exact W|].
  destruct (engine_bytes_roundtrip_msgpack ex_css exe_build (exe_receiver [bs "t1"] [exe_res]) (exe_engine false) W
              (exe_rules_ok false) (exe_keys_distinct false) (stores_agree_refl _) (exe_tags_installed false) eq_refl)
    as (g' & E & _ & S).
  exists g'. split; [exact E|]. apply S. reflexivity.
Qed.

Example engine_truncation_example_msgpack :
  let e := exe_engine false in
  let l := exe_receiver [bs "t1"] [exe_res] in
  forallb (fun k => match fe_deserialize exe_build decode_wire l (take k (fe_serialize ex_css e)) with
                    | Ok (_, Some _) => true | _ => false end)
          (seq 0 (length (fe_serialize ex_css e))) = true /\
  Nat.ltb 100 (length (fe_serialize ex_css e)) = true.
Proof. vm_compute. split; reflexivity. Qed.
