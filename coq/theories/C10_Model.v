(* C10_Model.v — loading hostile serialized data: header / version dispatch
   (src/data_format/mod.rs, DeserializeFormat::deserialize; src/data_format/v0.rs up to the rmp
   call), Engine::deserialize as a state transformer (src/engine.rs), and the panic skeleton of
   the matchers on decoded rules (src/filters/network_matchers.rs check_pattern,
   src/regex_manager.rs compile_regex).  Definitions only.

   Not modelled: the msgpack decoder (rmp-serde + serde derive).  It is a Section variable
   `decode : bytes -> option wire`; what it does on hostile bytes (panics, allocation) is covered
   by the fault enumeration of harness/src/bin/c10.rs, not by a theorem. *)
From Adb Require Import Base Generated Wire_Model.

(* ------------------------------------------------------------------ header dispatch *)
Inductive dispatch :=
  | DDecode (payload : list N)          (* Some(0): v0 decoder runs on the payload *)
  | DVersion (v : N)                    (* Err(UnsupportedFormatVersion(v)) *)
  | DNoHeader                           (* Err(NoHeaderFound) *)
  | DLegacy.                            (* Err(LegacyFormatNoLongerSupported) *)

(* v0::DeserializeFormat::deserialize before the rmp call:
     assert!(serialized.starts_with(&MAGIC)); assert!(serialized[MAGIC.len()] == 0);
     &serialized[MAGIC.len() + 1..] *)
Definition v0_payload (b : list N) : res (list N) :=
  if negb (prefixb DAT_MAGIC b) then Panic "assert starts_with"
  else match nth_error b (length DAT_MAGIC) with
       | None => Panic "index out of bounds"
       | Some v =>
           if negb (N.eqb v V0_VERSION_BYTE) then Panic "assert version"
           else if Nat.ltb (length b) V0_PAYLOAD_OFFSET then Panic "slice start out of range"
           else Ok (drop V0_PAYLOAD_OFFSET b)
       end.

(* DeserializeFormat::deserialize *)
Definition header_dispatch (b : list N) : res dispatch :=
  if prefixb DAT_MAGIC b then
    match nth_error b (length DAT_MAGIC) with            (* serialized.get(MAGIC.len()).copied() *)
    | None => Ok DNoHeader
    | Some v => if N.eqb v DISPATCH_V0_VERSION
                then rbind (v0_payload b) (fun p => Ok (DDecode p))
                else Ok (DVersion v)
    end
  else if prefixb GZ_HEADER b then Ok DLegacy
  else Ok DNoHeader.

(* the code before `fix: deserialize rejects a buffer that ends right after the magic bytes`
   (F10): `serialized[MAGIC.len()]` – kept to show what the theorem excludes *)
Definition header_dispatch_f10 (b : list N) : res dispatch :=
  if prefixb DAT_MAGIC b then
    match nth_error b (length DAT_MAGIC) with
    | None => Panic "index out of bounds"
    | Some v => if N.eqb v DISPATCH_V0_VERSION
                then rbind (v0_payload b) (fun p => Ok (DDecode p))
                else Ok (DVersion v)
    end
  else if prefixb GZ_HEADER b then Ok DLegacy
  else Ok DNoHeader.

(* L0: the classification the property text asks for, stated without reference to the code *)
Inductive header_class (b : list N) : dispatch -> Prop :=
  | HC_decode : forall rest, b = DAT_MAGIC ++ 0 :: rest -> header_class b (DDecode rest)
  | HC_version : forall v rest, b = DAT_MAGIC ++ v :: rest -> v <> 0 -> header_class b (DVersion v)
  | HC_magic_only : b = DAT_MAGIC -> header_class b DNoHeader
  | HC_legacy : forall rest, b = GZ_HEADER ++ rest -> header_class b DLegacy
  | HC_none : (forall rest, b <> DAT_MAGIC ++ rest) -> (forall rest, b <> GZ_HEADER ++ rest) ->
              header_class b DNoHeader.

(* what `adblock::verif_hooks::decode_class` can observe of a dispatch *)
Definition class_code (d : res dispatch) : N :=
  match d with
  | Ok (DDecode _) => 0      (* "ok" | "rmp" *)
  | Ok (DVersion _) => 1     (* "version" *)
  | Ok DNoHeader => 2        (* "noheader" *)
  | Ok DLegacy => 3          (* "legacy" *)
  | Panic _ => 4
  end.
Definition dispatch_payload (d : res dispatch) : list N :=
  match d with Ok (DDecode p) => p | _ => [] end.

(* ------------------------------------------------------------------ Engine::deserialize *)
Inductive load_error := ERmp | EVersion (v : N) | ENoHeader | ELegacy.

Section Load.
  Variable decode : list N -> option wire.                  (* rmps::decode::from_read, Err = None *)
  Variable build_list : list rule -> bool -> bucket_map.    (* NetworkFilterList::new *)

  (* pub fn deserialize(&mut self, serialized) -> Result<(), DeserializationError>:
       let current_tags = self.blocker.tags_enabled();
       let deserialize_format = DeserializeFormat::deserialize(serialized)?;     -- early return
       let (blocker, cosmetic_cache) = deserialize_format.build();
       self.blocker = blocker; self.blocker.use_tags(current_tags); self.cosmetic_cache = ...; Ok(())
     The result is (engine after the call, None = Ok(()) | Some err). *)
  Definition deserialize (e : engine) (b : list N) : res (engine * option load_error) :=
    match header_dispatch b with
    | Panic w => Panic w
    | Ok (DVersion v) => Ok (e, Some (EVersion v))
    | Ok DNoHeader => Ok (e, Some ENoHeader)
    | Ok DLegacy => Ok (e, Some ELegacy)
    | Ok (DDecode p) =>
        match decode p with
        | None => Ok (e, Some ERmp)
        | Some w => Ok (install build_list e w, None)
        end
    end.
End Load.

(* ------------------------------------------------------------------ matchers on decoded rules *)
Inductive mpath := PHostRegex | PHostLeftRight | PHostRight | PHostLeft | PHostPlain
                 | PRegex | PLeftRight | PLeft | PRight | PPlain.

(* check_pattern: which of the ten bodies runs *)
Definition check_pattern_path (mask : N) : mpath :=
  if mask_has mask M_IS_HOSTNAME_ANCHOR then
    if mask_has mask M_IS_REGEX then PHostRegex
    else if mask_has mask M_IS_RIGHT_ANCHOR && mask_has mask M_IS_LEFT_ANCHOR then PHostLeftRight
    else if mask_has mask M_IS_RIGHT_ANCHOR then PHostRight
    else if mask_has mask M_IS_LEFT_ANCHOR then PHostLeft
    else PHostPlain
  else if mask_has mask M_IS_REGEX || mask_has mask M_IS_COMPLETE_REGEX then PRegex
  else if mask_has mask M_IS_LEFT_ANCHOR && mask_has mask M_IS_RIGHT_ANCHOR then PLeftRight
  else if mask_has mask M_IS_LEFT_ANCHOR then PLeft
  else if mask_has mask M_IS_RIGHT_ANCHOR then PRight
  else PPlain.

Definition host_path (p : mpath) : bool :=
  match p with PHostRegex | PHostLeftRight | PHostRight | PHostLeft | PHostPlain => true | _ => false end.

Section Match.
  (* the bodies once the hostname is known to be present (or irrelevant); what they compute is
     C02's subject.  They take the hostname as a plain string: no Option is left to unwrap. *)
  Variable body : mpath -> N -> list str -> str -> bool.

  (* every hostname-anchored body is `hostname.as_ref().map(|hostname| …).unwrap_or(false)` *)
  Definition check_pattern (mask : N) (filters : list str) (hostname : option str) : res bool :=
    let p := check_pattern_path mask in
    if host_path p then
      match hostname with
      | None => Ok false
      | Some h => Ok (body p mask filters h)
      end
    else Ok (body p mask filters []).

  (* the code before `fix: rules loaded from serialized data must not panic the matchers` (F11) *)
  Definition check_pattern_f11 (mask : N) (filters : list str) (hostname : option str) : res bool :=
    let p := check_pattern_path mask in
    if host_path p then
      match hostname with
      | None => Panic "unreachable!()"
      | Some h => Ok (body p mask filters h)
      end
    else Ok (body p mask filters []).
End Match.

(* compile_regex on an IS_COMPLETE_REGEX rule: the text between the slashes.
   now: filter_str.strip_prefix('/').and_then(|s| s.strip_suffix('/')).unwrap_or(filter_str) *)
Definition SLASH : N := 47.
Definition strip_prefix_byte (c : N) (s : str) : option str :=
  match s with x :: r => if N.eqb x c then Some r else None | [] => None end.
Definition strip_suffix_byte (c : N) (s : str) : option str :=
  match rev s with x :: r => if N.eqb x c then Some (rev r) else None | [] => None end.
Definition complete_regex_body (f : str) : res str :=
  Ok (match strip_prefix_byte SLASH f with
      | Some s => match strip_suffix_byte SLASH s with Some t => t | None => f end
      | None => f
      end).
(* before F11: &filter_str[1..filter_str.len() - 1] ('/' is ASCII: only the range can fail) *)
Definition complete_regex_body_f11 (f : str) : res str :=
  match length f with
  | O => Panic "attempt to subtract with overflow"
  | S n => if Nat.ltb n 1 then Panic "slice index starts at 1 but ends at 0"
           else Ok (take (n - 1) (drop 1 f))
  end.
