(* Tok_Complete_Parse_Proofs.v — the whole-line parser model (C11_Model.network_parse =
   AbstractNetworkFilter::parse + NetworkFilter::parse, options and masks included) only builds
   complete-regex rules of the shape [Tok_Complete_Model.complete_class] asks for:
     - MATCH_CASE in the mask implies IS_COMPLETE_REGEX in the mask
       (NetworkFilterError::MatchCaseWithoutFullRegex otherwise),
     - IS_COMPLETE_REGEX in the mask implies: no hostname, or the empty hostname (`||/re/`).
   No premise on the line (not even UTF-8 validity: a panicking parse produces no rule). *)
From Coq Require Import Lia ZifyBool ZifyNat ZifyN.
From Adb Require Import Base BaseProofs Generated C11_Model.
From Adb Require C03_Model C03_Proofs Net_Model Tok_HostRegex_Model Tok_Complete_Model Tok_Complete_Proofs.

(* ================================================================ bits *)
Lemma mhas_bit m k : mhas m (2 ^ k) = N.testbit m k.
Proof. exact (C03_Proofs.has_flag_bit m k). Qed.

Lemma mset_bit m v on k : N.testbit v k = false -> N.testbit (mset m v on) k = N.testbit m k.
Proof.
  intros Hv. unfold mset. destruct on.
  - rewrite N.lor_spec, Hv. apply orb_false_r.
  - rewrite N.ldiff_spec, Hv. apply andb_true_r.
Qed.

Lemma mset_bit_on m k : N.testbit (mset m (2 ^ k) true) k = true.
Proof. unfold mset. rewrite N.lor_spec, N.pow2_bits_true. apply orb_true_r. Qed.

(* the two bits followed through the parser *)
Definition MC : N := 14.   (* MATCH_CASE = 1 << 14 *)
Definition CR : N := 24.   (* IS_COMPLETE_REGEX = 1 << 24 *)
Definition clean (m : N) : bool := negb (N.testbit m MC) && negb (N.testbit m CR).

Lemma clean_bits m : clean m = true -> N.testbit m MC = false /\ N.testbit m CR = false.
Proof.
  unfold clean. intros H. apply andb_true_iff in H as [H1 H2].
  apply negb_true_iff in H1. apply negb_true_iff in H2. auto.
Qed.

(* ================================================================ the options only carry type bits *)
Definition opt_ok (o : nf_option) : bool :=
  match o with OCpt bit _ => clean bit | _ => true end.

Lemma lookup_cpt_clean name : forall t bit,
  forallb (fun p => clean (snd p)) t = true -> lookup_cpt name t = Some bit -> clean bit = true.
Proof.
  induction t as [|[n b] t IH]; intros bit Hall H; [discriminate|].
  cbn [forallb snd] in Hall. apply andb_true_iff in Hall as [Hb Hall]. cbn [lookup_cpt] in H.
  destruct (str_eqb name (bs n)); [inversion H; subst; exact Hb|exact (IH bit Hall H)].
Qed.

Lemma parse_option_ok raw o : parse_option raw = inl o -> opt_ok o = true.
Proof.
  unfold parse_option. cbv zeta.
  repeat match goal with
         | |- (if ?c then _ else _) = _ -> _ => destruct c
         end;
  try (intros E; inversion E; subst; reflexivity).
  destruct (lookup_cpt _ cpt_options) as [bit|] eqn:El; [|discriminate].
  intros E. inversion E; subst. cbn [opt_ok].
  eapply lookup_cpt_clean; [|exact El]. vm_compute. reflexivity.
Qed.

Lemma parse_options_list_ok raws : forall os,
  parse_options_list raws = inl os -> forallb opt_ok os = true.
Proof.
  induction raws as [|r rest IH]; intros os H; cbn [parse_options_list] in H.
  - inversion H; subst. reflexivity.
  - destruct (parse_option r) as [o|e] eqn:Eo; [|discriminate].
    destruct (parse_options_list rest) as [os'|e]; [|discriminate].
    inversion H; subst. cbn [forallb]. rewrite (parse_option_ok r o Eo), (IH os' eq_refl). reflexivity.
Qed.

Definition opts_ok (o : option (list nf_option)) : bool :=
  match o with Some os => forallb opt_ok os | None => true end.

Lemma abstract_tail_options line exc fis0 fie0 options a :
  abstract_tail line exc fis0 fie0 options = Ok (inl a) -> af_options a = options.
Proof.
  unfold abstract_tail.
  destruct (slice_from line fis0) as [r1|w]; cbn [rbind]; [|discriminate].
  match goal with |- rbind ?x _ = _ -> _ => destruct x as [sl|w] end; cbn [rbind]; [|discriminate].
  match goal with |- rbind ?x _ = _ -> _ => destruct x as [rt|w] end; cbn [rbind]; [|discriminate].
  match goal with |- rbind ?x _ = _ -> _ => destruct x as [pt|w] end; cbn [rbind]; [|discriminate].
  unfold ret. intros E. inversion E; subst. reflexivity.
Qed.

Lemma abstract_parse_options line a : abstract_parse line = Ok (inl a) -> opts_ok (af_options a) = true.
Proof.
  unfold abstract_parse. cbv zeta.
  destruct (rfind_byte c_DOLLAR line) as [oi|].
  - destruct (slice_from line (S oi)) as [raw|w]; cbn [rbind]; [|discriminate].
    destruct (parse_filter_options raw) as [os|e] eqn:Eo; [|discriminate].
    intros H. rewrite (abstract_tail_options _ _ _ _ _ _ H). cbn [opts_ok].
    exact (parse_options_list_ok _ os Eo).
  - intros H. rewrite (abstract_tail_options _ _ _ _ _ _ H). reflexivity.
Qed.

(* ================================================================ the option loop *)
(* IS_COMPLETE_REGEX is never set by an option; the type masks never hold either bit *)
Definition acc_ok (a : opt_acc) : bool :=
  negb (N.testbit (a_mask a) CR) && clean (a_pos a) && clean (a_neg a).

Ltac tb_simpl :=
  repeat first
    [ rewrite mset_bit by reflexivity
    | rewrite N.lor_spec
    | rewrite N.ldiff_spec ].

Lemma apply_option_ok a o : acc_ok a = true -> opt_ok o = true -> acc_ok (apply_option a o) = true.
Proof.
  destruct a as [m p n mo tg d nd]. unfold acc_ok. cbn [a_mask a_pos a_neg]. intros Ha Ho.
  apply andb_true_iff in Ha as [Ha Hn]. apply andb_true_iff in Ha as [Hm Hp].
  apply negb_true_iff in Hm.
  destruct (clean_bits p Hp) as [Hp1 Hp2]. destruct (clean_bits n Hn) as [Hn1 Hn2].
  assert (Hbase : negb (N.testbit m CR) && clean p && clean n = true) by (rewrite Hm, Hp, Hn; reflexivity).
  destruct o as [ds| | | |b|b|v|v|v|v|v| | |bit en];
    try (destruct b); try (destruct en); cbn [apply_option a_mask a_pos a_neg];
    try exact Hbase;
    try (unfold clean; tb_simpl; rewrite ?Hm, ?Hp1, ?Hp2, ?Hn1, ?Hn2; reflexivity).
  - (* OCpt bit true *)
    cbn [opt_ok] in Ho. destruct (clean_bits bit Ho) as [Hb1 Hb2].
    unfold clean, mset. rewrite !N.lor_spec, Hm, Hp1, Hp2, Hn1, Hn2, Hb1, Hb2. reflexivity.
  - cbn [opt_ok] in Ho. destruct (clean_bits bit Ho) as [Hb1 Hb2].
    unfold clean, mset. rewrite !N.lor_spec, Hm, Hp1, Hp2, Hn1, Hn2, Hb1, Hb2. reflexivity.
Qed.

Lemma fold_options_ok os : forall a,
  acc_ok a = true -> forallb opt_ok os = true -> acc_ok (fold_left apply_option os a) = true.
Proof.
  induction os as [|o os IH]; intros a Ha Hos; [exact Ha|].
  cbn [forallb] in Hos. apply andb_true_iff in Hos as [Ho Hos]. cbn [fold_left].
  apply IH; [apply apply_option_ok; assumption|exact Hos].
Qed.

(* ================================================================ the pattern pipeline *)
Section WithOracles.
Variable lower : str -> str.
Variable idna : str -> option str.

Ltac run :=
  repeat first
    [ progress cbn [rbind]
    | match goal with |- rbind ?x _ = _ -> _ => destruct x; cbn [rbind] end
    | match goal with |- (if ?c then _ else _) = _ -> _ => destruct c end
    | match goal with |- (match ?x with Some _ => _ | None => _ end) = _ -> _ => destruct x end
    | match goal with |- Panic _ = _ -> _ => discriminate end ].

Definition keeps (m m' : N) : Prop :=
  N.testbit m' MC = N.testbit m MC /\ N.testbit m' CR = N.testbit m CR.
Lemma keeps_refl m : keeps m m. Proof. split; reflexivity. Qed.
Lemma keeps_trans a b c : keeps a b -> keeps b c -> keeps a c.
Proof. intros [H1 H2] [H3 H4]. split; congruence. Qed.

Ltac keeps_tac :=
  split; cbv beta iota delta [mset];
  repeat first [ rewrite N.lor_spec | rewrite N.ldiff_spec
               | match goal with |- context [N.testbit (if ?c then _ else _) _] => destruct c end ];
  C03_Proofs.tb_const;
  try match goal with |- context [N.testbit ?m ?k] => destruct (N.testbit m k) end; reflexivity.

Lemma hostname_step_keeps p mask rx m h fis :
  hostname_step p mask rx = Ok (m, h, fis) -> keeps mask m.
Proof.
  unfold hostname_step. cbv zeta. run; intros E; inversion E; subst; keeps_tac.
Qed.

Lemma strip_stars_keeps p mask fis m fis' fie :
  strip_stars p mask fis = Ok (m, fis', fie) -> keeps mask m.
Proof.
  unfold strip_stars. cbv zeta. run; intros E; inversion E; subst;
    match goal with |- keeps _ (if ?c then _ else _) => destruct c end; keeps_tac.
Qed.

Lemma protocol_step_keeps p mask fis fie m f :
  protocol_step p mask fis fie = Ok (m, f) -> keeps mask m.
Proof.
  unfold protocol_step. run; intros E; inversion E; subst; keeps_tac.
Qed.

Lemma final_filter_keeps p mask fis fie m flt :
  final_filter p mask fis fie = Ok (m, flt) -> keeps mask m.
Proof.
  unfold final_filter. run; intros E; inversion E; subst; keeps_tac.
Qed.

(* a pattern that starts with '/' leaves the empty hostname behind the `||` split *)
Lemma hostname_step_slash p mask rx m h fis :
  prefixb [c_SLASH] p = true -> hostname_step p mask rx = Ok (m, h, fis) -> h = Some [].
Proof.
  intros Hp. destruct p as [|c t]; [discriminate|]. cbn [prefixb] in Hp.
  rewrite andb_true_r in Hp. apply N.eqb_eq in Hp. subst c.
  unfold hostname_step. cbv zeta. destruct rx.
  - change (find_separator (c_SLASH :: t)) with (Some O). cbv iota beta.
    change (slice_to (c_SLASH :: t) 0) with (Ok (@nil N)).
    run; intros E; inversion E; subst; reflexivity.
  - change (find_byte c_SLASH (c_SLASH :: t)) with (Some O). cbv iota beta.
    change (slice_to (c_SLASH :: t) 0) with (Ok (@nil N)). cbn [rbind].
    intros E; inversion E; subst; reflexivity.
Qed.

Lemma pattern_pipeline_props p mask ha rx m h flt :
  pattern_pipeline p mask ha rx = Ok (m, h, flt) ->
  keeps mask m /\
  (ha = false -> h = None) /\ (prefixb [c_SLASH] p = true -> ha = true -> h = Some []).
Proof.
  unfold pattern_pipeline.
  destruct (if ha then hostname_step p mask rx else Ok (mask, None, O)) as [[[m1 h1] fis1]|w] eqn:E1;
    cbn [rbind]; [|discriminate].
  destruct (strip_stars p m1 fis1) as [[[m2 fis2] fie2]|w] eqn:E2; cbn [rbind]; [|discriminate].
  destruct (protocol_step p m2 fis2 fie2) as [[m3 fis3]|w] eqn:E3; cbn [rbind]; [|discriminate].
  destruct (final_filter p m3 fis3 fie2) as [[m4 flt4]|w] eqn:E4; cbn [rbind]; [|discriminate].
  intros E. inversion E; subst m4 h1 flt4. clear E.
  assert (K1 : keeps mask m1).
  { destruct ha; [exact (hostname_step_keeps _ _ _ _ _ _ E1)|inversion E1; subst; apply keeps_refl]. }
  split; [|split].
  - eapply keeps_trans; [exact K1|]. eapply keeps_trans; [exact (strip_stars_keeps _ _ _ _ _ _ E2)|].
    eapply keeps_trans; [exact (protocol_step_keeps _ _ _ _ _ _ E3)|exact (final_filter_keeps _ _ _ _ _ _ E4)].
  - intros ->. inversion E1; subst. reflexivity.
  - intros Hp ->. exact (hostname_step_slash _ _ _ _ _ _ Hp E1).
Qed.

(* ================================================================ NetworkFilter::parse *)
Lemma decode_empty mask : decode_hostname lower idna mask [] = inl [].
Proof. unfold decode_hostname. destruct (mhas mask M_IS_HOSTNAME_ANCHOR); reflexivity. Qed.

Theorem network_build_complete_shape line parsed nr :
  opts_ok (af_options parsed) = true ->
  network_build lower idna line parsed = Ok (inl nr) ->
  (mhas (nr_mask nr) M_MATCH_CASE = true -> mhas (nr_mask nr) M_IS_COMPLETE_REGEX = true) /\
  Tok_Complete_Model.complete_shape_ok (mhas (nr_mask nr) M_IS_COMPLETE_REGEX) (nr_hostname nr) = true.
Proof.
  intros Hos. unfold network_build. cbv zeta.
  set (mask00 := N.lor (N.lor M_THIRD_PARTY M_FIRST_PARTY) (N.lor M_FROM_HTTPS M_FROM_HTTP)).
  set (mask0 := if af_exception parsed then mset mask00 M_IS_EXCEPTION true else mask00).
  assert (H0 : acc_ok (mkAcc mask0 0 0 None None None None) = true).
  { unfold acc_ok, mask0. cbn [a_mask a_pos a_neg]. destruct (af_exception parsed); vm_compute; reflexivity. }
  match goal with |- pbind ?x _ = _ -> _ => set (accr := x) end.
  assert (Hacc : forall acc, accr = Ok (inl acc) -> acc_ok acc = true).
  { intros acc. unfold accr. destruct (af_options parsed) as [os|].
    - destruct (validate_options os); [discriminate|]. unfold ret. intros E. inversion E; subst.
      apply fold_options_ok; [exact H0|exact Hos].
    - unfold ret. intros E. inversion E; subst. exact H0. }
  destruct accr as [[acc|e]|w]; cbn [pbind]; [|discriminate|discriminate].
  specialize (Hacc acc eq_refl). clear H0 Hos.
  unfold acc_ok in Hacc. apply andb_true_iff in Hacc as [Hacc Hneg]. apply andb_true_iff in Hacc as [Hm Hpos].
  apply negb_true_iff in Hm.
  destruct (clean_bits _ Hpos) as [Hp1 Hp2]. destruct (clean_bits _ Hneg) as [Hn1 Hn2].
  set (complete := prefixb [c_SLASH] (af_pattern parsed) && suffixb [c_SLASH] (af_pattern parsed)
                   && Nat.ltb 1 (length (af_pattern parsed))).
  match goal with |- (if negb complete && mhas ?m M_MATCH_CASE then _ else _) = _ -> _ => set (mask_a := m) end.
  assert (Ha24 : N.testbit mask_a CR = false).
  { unfold mask_a.
    repeat first
      [ rewrite mset_bit by reflexivity
      | rewrite N.lor_spec
      | match goal with |- context [N.testbit (if ?c then _ else _) _] => destruct c end
      | match goal with |- context [N.testbit (match ?c with _ => _ end) _] => destruct c end ];
    rewrite ?Hm, ?Hp2; reflexivity. }
  destruct (negb complete && mhas mask_a M_MATCH_CASE) eqn:Echeck; [discriminate|].
  set (mask_b := if complete then mset mask_a M_IS_COMPLETE_REGEX true else mask_a).
  assert (Hb14 : N.testbit mask_b MC = true -> complete = true).
  { unfold mask_b. destruct complete; [reflexivity|]. cbn [negb andb] in Echeck.
    change M_MATCH_CASE with (2 ^ MC) in Echeck. rewrite mhas_bit in Echeck. congruence. }
  assert (Hb24 : N.testbit mask_b CR = complete).
  { unfold mask_b. destruct complete; [exact (mset_bit_on mask_a CR)|exact Ha24]. }
  destruct (pattern_pipeline (af_pattern parsed) mask_b _ (check_is_regex (af_pattern parsed)))
    as [[[m h] flt]|w] eqn:Epp; cbn [rbind]; [|discriminate].
  destruct (pattern_pipeline_props _ _ _ _ _ _ _ Epp) as ((K14 & K24) & Hnone & Hslash).
  destruct (mhas m M_GENERIC_HIDE && negb (af_exception parsed)); [discriminate|].
  destruct (mhas m M_IS_REMOVEPARAM && af_exception parsed); [discriminate|].
  match goal with |- context [N.ldiff ?x (a_neg acc)] => set (mask_c := x) end.
  assert (Hc14 : N.testbit (N.ldiff mask_c (a_neg acc)) MC = N.testbit mask_b MC).
  { rewrite N.ldiff_spec, Hn1, andb_true_r. unfold mask_c.
    match goal with |- context [if ?c then _ else _] => destruct c end;
      rewrite ?N.lor_spec, K14; [apply orb_false_r|reflexivity]. }
  assert (Hc24 : N.testbit (N.ldiff mask_c (a_neg acc)) CR = complete).
  { rewrite N.ldiff_spec, Hn2, andb_true_r. unfold mask_c.
    match goal with |- context [if ?c then _ else _] => destruct c end;
      rewrite ?N.lor_spec, K24, Hb24; [apply orb_false_r|reflexivity]. }
  assert (Hhost : complete = true -> h = None \/ h = Some []).
  { intros Hc. destruct (af_left parsed) as [[|]|]; try (left; apply Hnone; reflexivity).
    right. apply Hslash; [|reflexivity]. unfold complete in Hc.
    apply andb_true_iff in Hc as [Hc _]. apply andb_true_iff in Hc as [Hc _]. exact Hc. }
  destruct h as [hn|].
  - destruct (decode_hostname lower idna m hn) as [x|e] eqn:Ed; [|discriminate].
    unfold ret. intros E. inversion E; subst nr. clear E. cbn [nr_mask nr_hostname].
    change M_MATCH_CASE with (2 ^ MC). change M_IS_COMPLETE_REGEX with (2 ^ CR).
    rewrite !mhas_bit, Hc14, Hc24. split; [exact Hb14|].
    unfold Tok_Complete_Model.complete_shape_ok. destruct complete; [|reflexivity].
    destruct (Hhost eq_refl) as [Hh|Hh]; [discriminate|]. inversion Hh; subst hn.
    rewrite decode_empty in Ed. inversion Ed; subst x. reflexivity.
  - unfold ret. intros E. inversion E; subst nr. clear E. cbn [nr_mask nr_hostname].
    change M_MATCH_CASE with (2 ^ MC). change M_IS_COMPLETE_REGEX with (2 ^ CR).
    rewrite !mhas_bit, Hc14, Hc24. split; [exact Hb14|].
    unfold Tok_Complete_Model.complete_shape_ok. destruct complete; reflexivity.
Qed.

(* THE PARSER THEOREM: every rule the whole-line parser produces has the shape the class asks for *)
Theorem network_parse_complete_shape line nr :
  network_parse lower idna line = Ok (inl nr) ->
  (mhas (nr_mask nr) M_MATCH_CASE = true -> mhas (nr_mask nr) M_IS_COMPLETE_REGEX = true) /\
  Tok_Complete_Model.complete_shape_ok (mhas (nr_mask nr) M_IS_COMPLETE_REGEX) (nr_hostname nr) = true.
Proof.
  unfold network_parse.
  destruct (abstract_parse line) as [[parsed|e]|w] eqn:Ea; cbn [pbind]; [|discriminate|discriminate].
  apply network_build_complete_shape. exact (abstract_parse_options line parsed Ea).
Qed.
End WithOracles.

(* in the words of the class: a rule record that carries the mask, hostname and filter of a parsed
   line and is a complete regex is in [complete_class] as soon as it is not stored under the tokens
   of its `$removeparam` name (C14_Relevant_Proofs deals with those); and a rule record of a parsed
   line that is not a complete regex does not carry MATCH_CASE *)
Theorem parsed_complete_in_class (lower : str -> str) (idna : str -> option str) line nr (f : Net_Model.rule) :
  network_parse lower idna line = Ok (inl nr) ->
  Net_Model.rmask f = nr_mask nr -> Net_Model.rhost f = nr_hostname nr ->
  Net_Model.rfilter f = match nr_filter nr with Some s => Net_Model.FSimple s | None => Net_Model.FEmpty end ->
  (Net_Model.is_complete_regex f = true ->
   negb (Tok_HostRegex_Model.base_nil f && Net_Model.is_removeparam f) = true ->
   Tok_Complete_Model.complete_class f = true) /\
  (Net_Model.is_complete_regex f = false -> Net_Model.flag f M_MATCH_CASE = false).
Proof.
  intros Hp Hm Hh Hf. destruct (network_parse_complete_shape lower idna line nr Hp) as [Hmc Hsh].
  change (mhas (nr_mask nr) M_IS_COMPLETE_REGEX) with (Net_Model.has (nr_mask nr) M_IS_COMPLETE_REGEX) in *.
  change (mhas (nr_mask nr) M_MATCH_CASE) with (Net_Model.has (nr_mask nr) M_MATCH_CASE) in *.
  rewrite <- Hm, <- Hh in *.
  change (Net_Model.has (Net_Model.rmask f) M_IS_COMPLETE_REGEX) with (Net_Model.is_complete_regex f) in *.
  change (Net_Model.has (Net_Model.rmask f) M_MATCH_CASE) with (Net_Model.flag f M_MATCH_CASE) in *.
  split.
  - intros Hcr Hnp. unfold Tok_Complete_Model.complete_class. rewrite Hcr, Hnp, Hf.
    rewrite (Tok_Complete_Proofs.complete_shape_tokenless f Hsh Hcr). destruct (nr_filter nr); reflexivity.
  - intros Hcr. destruct (Net_Model.flag f M_MATCH_CASE); [|reflexivity].
    rewrite (Hmc eq_refl) in Hcr. discriminate.
Qed.

(* ================================================================ non-vacuity *)
(* the example rule of Tok_Complete_Proofs is what the whole-line parser builds from its text;
   `||/re/` gets the empty hostname; `$match-case` on anything else is refused *)
Definition ex_lower (s : str) : str := s.
Definition ex_idna (s : str) : option str := None.

Example network_parse_examples :
  (exists nr, network_parse ex_lower ex_idna (bs "/ad[0-9]+\.js/$match-case,domain=site.org") = Ok (inl nr) /\
     nr_mask nr = Net_Model.rmask Tok_Complete_Proofs.cx_rule /\
     Some (Net_Model.FSimple (bs "/ad[0-9]+\.js/")) = option_map Net_Model.FSimple (nr_filter nr) /\
     nr_hostname nr = Net_Model.rhost Tok_Complete_Proofs.cx_rule /\
     nr_domains nr = Some [bs "site.org"] /\ nr_not_domains nr = None /\
     mhas (nr_mask nr) M_MATCH_CASE = true /\ mhas (nr_mask nr) M_IS_COMPLETE_REGEX = true) /\
  (exists nr, network_parse ex_lower ex_idna (bs "||/ad[0-9]+/$match-case") = Ok (inl nr) /\
     nr_hostname nr = Some [] /\ mhas (nr_mask nr) M_IS_HOSTNAME_ANCHOR = true /\
     mhas (nr_mask nr) M_IS_COMPLETE_REGEX = true) /\
  network_parse ex_lower ex_idna (bs "ads$match-case") = Ok (inr "MatchCaseWithoutFullRegex"%string).
Proof.
  split; [|split].
  - eexists. split; [vm_compute; reflexivity|]. repeat split; vm_compute; reflexivity.
  - eexists. split; [vm_compute; reflexivity|]. repeat split; vm_compute; reflexivity.
  - vm_compute. reflexivity.
Qed.
