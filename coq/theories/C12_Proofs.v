(* C12_Proofs.v — lemmas and proofs for property C12 (request normalisation). *)
From Adb Require Import Base BaseProofs Generated C12_Model.
From Coq Require Import ZifyBool ZifyNat ZifyN.

(* ------------------------------------------------------------------ small list facts *)
Lemma all_ascii_app a b : all_ascii (a ++ b) = all_ascii a && all_ascii b.
Proof. unfold all_ascii. apply forallb_app. Qed.

Lemma all_ascii_nth s i : all_ascii s = true -> (i < length s)%nat -> is_ascii (nth i s 0) = true.
Proof.
  intros H Hi. unfold all_ascii in H. rewrite forallb_forall in H. apply H. apply nth_In. exact Hi.
Qed.

Lemma ascii_not_cont b : is_ascii b = true -> is_cont b = false.
Proof. unfold is_ascii, is_cont, in_range. lia. Qed.

Lemma length_take_le {A} n (l : list A) : (n <= length l)%nat -> length (take n l) = n.
Proof. intros H. unfold take. rewrite firstn_length. lia. Qed.

Lemma take_drop_mid {A} (a b c : list A) :
  take (length b) (drop (length a) (a ++ b ++ c)) = b.
Proof. rewrite drop_app_length. apply take_app_length. Qed.

Lemma nth_mid {A} (a b : list A) (x d : A) : nth (length a) (a ++ x :: b) d = x.
Proof. rewrite app_nth2 by lia. rewrite Nat.sub_diag. reflexivity. Qed.

(* ------------------------------------------------------------------ char boundaries, slices *)
Lemma boundary_zero s : is_char_boundary s 0 = true.
Proof. reflexivity. Qed.

Lemma boundary_len s : is_char_boundary s (length s) = true.
Proof. unfold is_char_boundary. rewrite Nat.eqb_refl, orb_true_r. reflexivity. Qed.

Lemma boundary_at a x b : is_cont x = false -> is_char_boundary (a ++ x :: b) (length a) = true.
Proof.
  intros H. unfold is_char_boundary. rewrite nth_mid, H.
  rewrite app_length. cbn [length].
  destruct (Nat.ltb_spec (length a) (length a + S (length b))); [|lia].
  cbn. apply orb_true_r.
Qed.

(* an offset followed by nothing or by a byte that is not a continuation byte *)
Definition starts_char (rest : str) : Prop := rest = [] \/ exists b r, rest = b :: r /\ is_cont b = false.

Lemma boundary_before a rest : starts_char rest -> is_char_boundary (a ++ rest) (length a) = true.
Proof.
  intros [->|(b & r & -> & H)].
  - rewrite app_nil_r. apply boundary_len.
  - apply boundary_at. exact H.
Qed.

Lemma slice_mid a b c :
  starts_char (b ++ c) -> starts_char c ->
  slice (a ++ b ++ c) (length a) (length a + length b) = Ok b.
Proof.
  intros Hb Hc. unfold slice.
  assert (H1 : is_char_boundary (a ++ b ++ c) (length a) = true) by (apply boundary_before; exact Hb).
  assert (H2 : is_char_boundary (a ++ b ++ c) (length a + length b) = true).
  { replace (a ++ b ++ c) with ((a ++ b) ++ c) by (rewrite app_assoc; reflexivity).
    rewrite <- app_length. apply boundary_before. exact Hc. }
  rewrite H1, H2.
  assert (H3 : Nat.leb (length a) (length a + length b) = true) by (apply Nat.leb_le; lia).
  assert (H4 : Nat.leb (length a + length b) (length (a ++ b ++ c)) = true).
  { apply Nat.leb_le. rewrite !app_length. lia. }
  rewrite H3, H4. cbn [andb].
  replace (length a + length b - length a)%nat with (length b) by lia.
  rewrite take_drop_mid. reflexivity.
Qed.

Lemma starts_char_ascii s rest : all_ascii s = true -> starts_char rest -> starts_char (s ++ rest).
Proof.
  intros Ha Hr. destruct s as [|x s]; [exact Hr|].
  right. exists x, (s ++ rest). split; [reflexivity|].
  apply ascii_not_cont. cbn in Ha. apply andb_true_iff in Ha. apply Ha.
Qed.

(* ------------------------------------------------------------------ UTF-8 encoding *)
Lemma encode_cp_starts c : exists b r, encode_cp c = b :: r /\ is_cont b = false.
Proof.
  unfold encode_cp.
  destruct (N.ltb c 128) eqn:E1; [exists c, []; split; [reflexivity|unfold is_cont, in_range; lia]|].
  destruct (N.ltb c 2048) eqn:E2;
    [eexists; eexists; split; [reflexivity|unfold is_cont, in_range; lia]|].
  destruct (N.ltb c 65536) eqn:E3;
    eexists; eexists; (split; [reflexivity|unfold is_cont, in_range; lia]).
Qed.

Lemma encode_all_starts l : starts_char (encode_all l).
Proof.
  destruct l as [|c l]; [left; reflexivity|].
  right. cbn [encode_all flat_map]. destruct (encode_cp_starts c) as (b & r & -> & H).
  exists b, (r ++ flat_map encode_cp l). split; [reflexivity|exact H].
Qed.

Lemma is_cont_to_lower b : is_cont (to_lower b) = is_cont b.
Proof. unfold to_lower, is_upper, is_cont, in_range. destruct (N.leb 65 b && N.leb b 90) eqn:E; lia. Qed.

Lemma lower_starts s : starts_char s -> starts_char (lower_str s).
Proof.
  intros [->|(b & r & -> & H)]; [left; reflexivity|].
  right. exists (to_lower b), (lower_str r). split; [reflexivity|]. rewrite is_cont_to_lower. exact H.
Qed.

(* ------------------------------------------------------------------ scheme *)
Definition scheme_char (c : N) : bool := is_lower c || is_digit c || N.eqb c PLUS || N.eqb c MINUS || N.eqb c DOT.

Lemma scheme_loop_spec l s r :
  scheme_loop l = Some (s, r) ->
  forallb scheme_char s = true /\ length l = (length s + 1 + length r)%nat.
Proof.
  revert s r; induction l as [|c l IH]; intros s r H; cbn in H; [discriminate|].
  destruct (N.eqb c COLON) eqn:E0.
  { inversion H; subst. cbn. split; [reflexivity|lia]. }
  destruct (is_lower c || is_digit c || N.eqb c PLUS || N.eqb c MINUS || N.eqb c DOT) eqn:E1.
  { destruct (scheme_loop l) as [[s' r']|] eqn:E; [|discriminate]. inversion H; subst.
    destruct (IH _ _ eq_refl) as [A B]. cbn [forallb length]. unfold scheme_char at 1. rewrite E1, A.
    split; [reflexivity|lia]. }
  destruct (is_upper c) eqn:E2; [|discriminate].
  destruct (scheme_loop l) as [[s' r']|] eqn:E; [|discriminate]. inversion H; subst.
  destruct (IH _ _ eq_refl) as [A B]. cbn [forallb length]. rewrite A.
  split; [|lia]. rewrite andb_true_r. unfold scheme_char, is_lower, is_upper in *. lia.
Qed.

Lemma scheme_char_facts c : scheme_char c = true -> is_ascii c = true /\ c <> COLON.
Proof.
  unfold scheme_char, is_lower, is_digit, is_ascii, PLUS, MINUS, DOT, COLON. intros H. split; lia.
Qed.

Lemma scheme_chars_facts s : forallb scheme_char s = true -> all_ascii s = true /\ ~ In COLON s.
Proof.
  induction s as [|c s IH]; cbn [forallb]; intros H; [split; [reflexivity|cbn; tauto]|].
  apply andb_true_iff in H as [H1 H2]. destruct (IH H2) as [A B].
  destruct (scheme_char_facts c H1) as [C D]. unfold all_ascii in *. cbn [forallb]. rewrite C, A.
  split; [reflexivity|]. intros [E|E]; [congruence|tauto].
Qed.

(* ------------------------------------------------------------------ userinfo *)
Lemma hex_upper_ascii d : d < 16 -> is_ascii (hex_upper d) = true.
Proof. unfold hex_upper, is_ascii. intros H. destruct (N.ltb d 10); lia. Qed.

Lemma pct_encode_byte_ascii b : all_ascii (pct_encode_byte b) = true.
Proof.
  unfold pct_encode_byte. destruct (N.leb 128 b || in_userinfo_set b) eqn:E.
  - cbn [all_ascii forallb].
    rewrite (hex_upper_ascii ((b / 16) mod 16)) by (apply N.mod_lt; lia).
    rewrite (hex_upper_ascii (b mod 16)) by (apply N.mod_lt; lia). reflexivity.
  - cbn. unfold is_ascii. apply orb_false_iff in E. lia.
Qed.

Lemma pct_encode_ascii s : all_ascii (pct_encode_userinfo s) = true.
Proof.
  induction s as [|b s IH]; [reflexivity|]. unfold pct_encode_userinfo in *. cbn [flat_map].
  rewrite all_ascii_app, pct_encode_byte_ascii, IH. reflexivity.
Qed.

Lemma userinfo_loop_spec n : forall input ser ues hp hu ser' hu' hp',
  userinfo_loop n input ser ues hp hu = Some (ser', hu', hp') ->
  exists ui, ser' = ser ++ ui /\ all_ascii ui = true.
Proof.
  induction n as [|n IH]; intros input ser ues hp hu ser' hu' hp' H; cbn [userinfo_loop] in H.
  - inversion H; subst. exists []. rewrite app_nil_r. split; reflexivity.
  - destruct (next_utf8 input) as [[c input']|]; [|discriminate].
    destruct (N.eqb c COLON && negb ues).
    + destruct (Nat.ltb 0 n).
      * apply IH in H as (ui & -> & Hui). exists ([COLON] ++ ui). rewrite <- app_assoc.
        split; [reflexivity|]. rewrite all_ascii_app, Hui. reflexivity.
      * apply IH in H. exact H.
    + apply IH in H as (ui & -> & Hui). exists (pct_encode_userinfo (encode_cp c) ++ ui).
      rewrite <- app_assoc. split; [reflexivity|]. rewrite all_ascii_app, pct_encode_ascii, Hui. reflexivity.
Qed.

Lemma parse_userinfo_spec ser input sp ser' rem :
  parse_userinfo ser input sp = POk (ser', rem) ->
  exists ui, ser' = ser ++ ui /\ all_ascii ui = true.
Proof.
  unfold parse_userinfo. intros H.
  assert (Hnil : exists ui, ser = ser ++ ui /\ all_ascii ui = true)
    by (exists []; rewrite app_nil_r; split; reflexivity).
  destruct (find_last_at sp input 0 None) as [[n remaining]|]; [|inversion H; subst; exact Hnil].
  destruct n as [|n]; [inversion H; subst; exact Hnil|].
  destruct (userinfo_loop (S n) input ser false false false) as [[[s1 hu] hp]|] eqn:E; [|discriminate].
  apply userinfo_loop_spec in E as (ui & -> & Hui). inversion H; subst.
  destruct (hu || hp).
  - exists (ui ++ [AT]). rewrite <- app_assoc. split; [reflexivity|]. rewrite all_ascii_app, Hui. reflexivity.
  - exists ui. split; [reflexivity|exact Hui].
Qed.

(* ------------------------------------------------------------------ host *)
Section WithOracles.
Variable idna : str -> option str.
Variable psl : str -> nat * nat.
Variable hash : str -> N.
Variable tokenize : str -> list N.
Hypothesis Hidna : idna_contract idna.

Lemma parse_host_spec ser input sp ser' he rem :
  parse_host idna ser input sp = POk (ser', he, rem) ->
  exists host, ser' = ser ++ host /\ he = length ser' /\ all_ascii host = true.
Proof.
  unfold parse_host. destruct (host_scan sp input false false 0 0) as [[[hi ni] co] remaining].
  set (hs := encode_all (if hi then take ni input else take co input)).
  destruct (all_ascii hs) eqn:E.
  - intros H; inversion H; subst. exists hs. repeat split; auto.
  - destruct (idna hs) as [e|] eqn:Ei; [|discriminate].
    intros H; inversion H; subst. exists e. repeat split; auto. eapply Hidna; eauto.
Qed.

(* what a successful scan looks like: scheme ':' mid host rest, everything up to the end of the
   host is ASCII, the scheme has no ':' and the rest starts at a character boundary *)
Record scanned (ser : str) (se hs he : nat) (scheme mid host rest : str) : Prop := {
  sc_ser : ser = scheme ++ COLON :: mid ++ host ++ rest;
  sc_se : se = length scheme;
  sc_hs : hs = length (scheme ++ COLON :: mid);
  sc_he : he = (hs + length host)%nat;
  sc_scheme : forallb scheme_char scheme = true;
  sc_mid : all_ascii mid = true;
  sc_host : all_ascii host = true;
  sc_rest : starts_char rest }.

Lemma after_double_slash_scanned scheme input sp ser se hs he :
  forallb scheme_char scheme = true ->
  after_double_slash idna (scheme ++ [COLON]) input sp (length scheme) = POk (ser, se, hs, he) ->
  exists mid host rest, scanned ser se hs he scheme mid host rest.
Proof.
  intros Hs. unfold after_double_slash.
  destruct (parse_userinfo ((scheme ++ [COLON]) ++ [SLASH; SLASH]) input sp) as [[s1 rem1]|] eqn:E1; [|discriminate].
  apply parse_userinfo_spec in E1 as (ui & -> & Hui).
  destruct (parse_host idna _ rem1 sp) as [[[s2 he2] rem2]|] eqn:E2; [|discriminate].
  apply parse_host_spec in E2 as (host & -> & -> & Hh).
  intros H; inversion H; subst; clear H.
  exists ([SLASH; SLASH] ++ ui), host, (encode_all rem2).
  constructor; auto.
  - rewrite <- !app_assoc. cbn. reflexivity.
  - rewrite <- !app_assoc. cbn. reflexivity.
  - rewrite !app_length. cbn [length]. lia.
  - apply encode_all_starts.
Qed.

Lemma scan_chars_scanned input ser se hs he :
  scan_chars idna input = POk (ser, se, hs, he) ->
  exists scheme mid host rest, scanned ser se hs he scheme mid host rest.
Proof.
  unfold scan_chars. destruct (parse_scheme (trim_input input)) as [[scheme rem]|] eqn:E; [|discriminate].
  assert (Hs : forallb scheme_char scheme = true).
  { unfold parse_scheme in E. destruct (trim_input input) as [|c l]; [discriminate|].
    destruct (is_alpha c); [|discriminate]. apply scheme_loop_spec in E. apply E. }
  unfold parse_with_scheme. destruct (scheme_type_from scheme); [discriminate| |].
  - intros H. exists scheme. eapply after_double_slash_scanned; eauto.
  - unfold parse_non_special. destruct (split_double_slash rem) as [rest|].
    + intros H. exists scheme. eapply after_double_slash_scanned; eauto.
    + intros H; inversion H; subst; clear H.
      exists scheme, [], [], (lower_str (encode_all rem)). constructor; auto.
      * rewrite <- app_assoc. reflexivity.
      * apply lower_starts. apply encode_all_starts.
Qed.

End WithOracles.
