(* C12_Proofs.v *)
From Adb Require Import Base BaseProofs Generated C12_Model.
From Coq Require Import ZifyBool ZifyNat ZifyN.
