(* C12_Proofs.v — lemmas and proofs for property C12 (request normalisation). *)
From Adb Require Import Base BaseProofs Generated C12_Model.
From Coq Require Import ZifyBool ZifyNat ZifyN.

(* ------------------------------------------------------------------ small list facts *)
Lemma all_ascii_app a b : all_ascii (a ++ b) = all_ascii a && all_ascii b.
Proof. unfold all_ascii. apply forallb_app. Qed.

Lemma all_ascii_nth s i : all_ascii s = true -> (i < length s)%nat -> is_ascii (nth i s 0) = true.
Proof.
  intros H Hi. unfold all_ascii in H. rewrite forallb_forall in H. apply H. apply nth_In. exact Hi.
Qed.

Lemma ascii_not_cont b : is_ascii b = true -> is_cont b = false.
Proof. unfold is_ascii, is_cont, in_range. lia. Qed.

Lemma length_take_le {A} n (l : list A) : (n <= length l)%nat -> length (take n l) = n.
Proof. intros H. unfold take. rewrite firstn_length. lia. Qed.

Lemma take_drop_mid {A} (a b c : list A) :
  take (length b) (drop (length a) (a ++ b ++ c)) = b.
Proof. rewrite drop_app_length. apply take_app_length. Qed.

Lemma nth_mid {A} (a b : list A) (x d : A) : nth (length a) (a ++ x :: b) d = x.
Proof. rewrite app_nth2 by lia. rewrite Nat.sub_diag. reflexivity. Qed.

(* ------------------------------------------------------------------ char boundaries, slices *)
Lemma boundary_zero s : is_char_boundary s 0 = true.
Proof. reflexivity. Qed.

Lemma boundary_len s : is_char_boundary s (length s) = true.
Proof. unfold is_char_boundary. rewrite Nat.eqb_refl, orb_true_r. reflexivity. Qed.

Lemma boundary_at a x b : is_cont x = false -> is_char_boundary (a ++ x :: b) (length a) = true.
Proof.
  intros H. unfold is_char_boundary. rewrite nth_mid, H.
  rewrite app_length. cbn [length].
  destruct (Nat.ltb_spec (length a) (length a + S (length b))); [|lia].
  cbn. apply orb_true_r.
Qed.

(* an offset followed by nothing or by a byte that is not a continuation byte *)
Definition starts_char (rest : str) : Prop := rest = [] \/ exists b r, rest = b :: r /\ is_cont b = false.

Lemma boundary_before a rest : starts_char rest -> is_char_boundary (a ++ rest) (length a) = true.
Proof.
  intros [->|(b & r & -> & H)].
  - rewrite app_nil_r. apply boundary_len.
  - apply boundary_at. exact H.
Qed.

Lemma slice_mid a b c :
  starts_char (b ++ c) -> starts_char c ->
  slice (a ++ b ++ c) (length a) (length a + length b) = Ok b.
Proof.
  intros Hb Hc. unfold slice.
  assert (H1 : is_char_boundary (a ++ b ++ c) (length a) = true) by (apply boundary_before; exact Hb).
  assert (H2 : is_char_boundary (a ++ b ++ c) (length a + length b) = true).
  { replace (a ++ b ++ c) with ((a ++ b) ++ c) by (rewrite app_assoc; reflexivity).
    rewrite <- app_length. apply boundary_before. exact Hc. }
  rewrite H1, H2.
  assert (H3 : Nat.leb (length a) (length a + length b) = true) by (apply Nat.leb_le; lia).
  assert (H4 : Nat.leb (length a + length b) (length (a ++ b ++ c)) = true).
  { apply Nat.leb_le. rewrite !app_length. lia. }
  rewrite H3, H4. cbn [andb].
  replace (length a + length b - length a)%nat with (length b) by lia.
  rewrite take_drop_mid. reflexivity.
Qed.

Lemma starts_char_ascii s rest : all_ascii s = true -> starts_char rest -> starts_char (s ++ rest).
Proof.
  intros Ha Hr. destruct s as [|x s]; [exact Hr|].
  right. exists x, (s ++ rest). split; [reflexivity|].
  apply ascii_not_cont. cbn in Ha. apply andb_true_iff in Ha. apply Ha.
Qed.

(* ------------------------------------------------------------------ UTF-8 encoding *)
Lemma encode_cp_starts c : exists b r, encode_cp c = b :: r /\ is_cont b = false.
Proof.
  unfold encode_cp.
  destruct (N.ltb c 128) eqn:E1; [exists c, []; split; [reflexivity|unfold is_cont, in_range; lia]|].
  destruct (N.ltb c 2048) eqn:E2;
    [eexists; eexists; split; [reflexivity|unfold is_cont, in_range; lia]|].
  destruct (N.ltb c 65536) eqn:E3;
    eexists; eexists; (split; [reflexivity|unfold is_cont, in_range; lia]).
Qed.

Lemma encode_all_starts l : starts_char (encode_all l).
Proof.
  destruct l as [|c l]; [left; reflexivity|].
  right. cbn [encode_all flat_map]. destruct (encode_cp_starts c) as (b & r & -> & H).
  exists b, (r ++ flat_map encode_cp l). split; [reflexivity|exact H].
Qed.

Lemma is_cont_to_lower b : is_cont (to_lower b) = is_cont b.
Proof. unfold to_lower, is_upper, is_cont, in_range. destruct (N.leb 65 b && N.leb b 90) eqn:E; lia. Qed.

Lemma lower_starts s : starts_char s -> starts_char (lower_str s).
Proof.
  intros [->|(b & r & -> & H)]; [left; reflexivity|].
  right. exists (to_lower b), (lower_str r). split; [reflexivity|]. rewrite is_cont_to_lower. exact H.
Qed.

(* ------------------------------------------------------------------ scheme *)
Definition scheme_char (c : N) : bool := is_lower c || is_digit c || N.eqb c PLUS || N.eqb c MINUS || N.eqb c DOT.

Lemma scheme_loop_spec l s r :
  scheme_loop l = Some (s, r) ->
  forallb scheme_char s = true /\ length l = (length s + 1 + length r)%nat.
Proof.
  revert s r; induction l as [|c l IH]; intros s r H; cbn in H; [discriminate|].
  destruct (N.eqb c COLON) eqn:E0.
  { inversion H; subst. cbn. split; [reflexivity|lia]. }
  destruct (is_lower c || is_digit c || N.eqb c PLUS || N.eqb c MINUS || N.eqb c DOT) eqn:E1.
  { destruct (scheme_loop l) as [[s' r']|] eqn:E; [|discriminate]. inversion H; subst.
    destruct (IH _ _ eq_refl) as [A B]. cbn [forallb length]. unfold scheme_char at 1. rewrite E1, A.
    split; [reflexivity|lia]. }
  destruct (is_upper c) eqn:E2; [|discriminate].
  destruct (scheme_loop l) as [[s' r']|] eqn:E; [|discriminate]. inversion H; subst.
  destruct (IH _ _ eq_refl) as [A B]. cbn [forallb length]. rewrite A.
  split; [|lia]. rewrite andb_true_r. unfold scheme_char, is_lower, is_upper in *. lia.
Qed.

Lemma scheme_char_facts c : scheme_char c = true -> is_ascii c = true /\ c <> COLON.
Proof.
  unfold scheme_char, is_lower, is_digit, is_ascii, PLUS, MINUS, DOT, COLON. intros H. split; lia.
Qed.

Lemma scheme_chars_facts s : forallb scheme_char s = true -> all_ascii s = true /\ ~ In COLON s.
Proof.
  induction s as [|c s IH]; cbn [forallb]; intros H; [split; [reflexivity|cbn; tauto]|].
  apply andb_true_iff in H as [H1 H2]. destruct (IH H2) as [A B].
  destruct (scheme_char_facts c H1) as [C D]. unfold all_ascii in *. cbn [forallb]. rewrite C, A.
  split; [reflexivity|]. intros [E|E]; [congruence|tauto].
Qed.

(* ------------------------------------------------------------------ userinfo *)
Lemma hex_upper_ascii d : d < 16 -> is_ascii (hex_upper d) = true.
Proof. unfold hex_upper, is_ascii. intros H. destruct (N.ltb d 10); lia. Qed.

Lemma pct_encode_byte_ascii b : all_ascii (pct_encode_byte b) = true.
Proof.
  unfold pct_encode_byte. destruct (N.leb 128 b || in_userinfo_set b) eqn:E.
  - cbn [all_ascii forallb].
    rewrite (hex_upper_ascii ((b / 16) mod 16)) by (apply N.mod_lt; lia).
    rewrite (hex_upper_ascii (b mod 16)) by (apply N.mod_lt; lia). reflexivity.
  - cbn. unfold is_ascii. apply orb_false_iff in E. lia.
Qed.

Lemma pct_encode_ascii s : all_ascii (pct_encode_userinfo s) = true.
Proof.
  induction s as [|b s IH]; [reflexivity|]. unfold pct_encode_userinfo in *. cbn [flat_map].
  rewrite all_ascii_app, pct_encode_byte_ascii, IH. reflexivity.
Qed.

Lemma userinfo_loop_spec n : forall input ser ues hp hu ser' hu' hp',
  userinfo_loop n input ser ues hp hu = Some (ser', hu', hp') ->
  exists ui, ser' = ser ++ ui /\ all_ascii ui = true.
Proof.
  induction n as [|n IH]; intros input ser ues hp hu ser' hu' hp' H; cbn [userinfo_loop] in H.
  - inversion H; subst. exists []. rewrite app_nil_r. split; reflexivity.
  - destruct (next_utf8 input) as [[c input']|]; [|discriminate].
    destruct (N.eqb c COLON && negb ues).
    + destruct (Nat.ltb 0 n).
      * apply IH in H as (ui & -> & Hui). exists ([COLON] ++ ui). rewrite <- app_assoc.
        split; [reflexivity|]. rewrite all_ascii_app, Hui. reflexivity.
      * apply IH in H. exact H.
    + apply IH in H as (ui & -> & Hui). exists (pct_encode_userinfo (encode_cp c) ++ ui).
      rewrite <- app_assoc. split; [reflexivity|]. rewrite all_ascii_app, pct_encode_ascii, Hui. reflexivity.
Qed.

Lemma parse_userinfo_spec ser input sp ser' rem :
  parse_userinfo ser input sp = POk (ser', rem) ->
  exists ui, ser' = ser ++ ui /\ all_ascii ui = true.
Proof.
  unfold parse_userinfo. intros H.
  assert (Hnil : exists ui, ser = ser ++ ui /\ all_ascii ui = true)
    by (exists []; rewrite app_nil_r; split; reflexivity).
  destruct (find_last_at sp input 0 None) as [[n remaining]|]; [|inversion H; subst; exact Hnil].
  destruct n as [|n]; [inversion H; subst; exact Hnil|].
  destruct (userinfo_loop (S n) input ser false false false) as [[[s1 hu] hp]|] eqn:E; [|discriminate].
  apply userinfo_loop_spec in E as (ui & -> & Hui). inversion H; subst.
  destruct (hu || hp).
  - exists (ui ++ [AT]). rewrite <- app_assoc. split; [reflexivity|]. rewrite all_ascii_app, Hui. reflexivity.
  - exists ui. split; [reflexivity|exact Hui].
Qed.

(* ------------------------------------------------------------------ scheme flags *)
Lemma scheme_flags_spec schema t :
  let fl := scheme_flags schema t in
  (fst (fst (fst fl)) = true <-> schema = S_HTTP) /\
  (snd (fst (fst fl)) = true <-> schema = S_HTTPS \/ schema = []) /\
  (snd (fst fl) = true <-> schema = [] \/ In schema supported_schemes) /\
  (In schema websocket_schemes -> snd fl = RT_Websocket) /\
  (~ In schema websocket_schemes -> snd fl = cpt_match_type t).
Proof.
  destruct schema as [|c0 s0]; cbn zeta.
  { unfold scheme_flags. cbn [fst snd].
    split; [split; intros H; discriminate|].
    split; [split; [intros _; right; reflexivity|reflexivity]|].
    split; [split; [intros _; left; reflexivity|reflexivity]|].
    split; [intros [H|[H|[]]]; discriminate|reflexivity]. }
  unfold scheme_flags. cbv iota beta zeta.
  remember (c0 :: s0) as sch eqn:Es.
  assert (Hne : sch <> []) by (subst; discriminate). cbn [fst snd].
  unfold supported_schemes, websocket_schemes.
  pose proof (str_eqb_eq sch S_HTTP) as E1. pose proof (str_eqb_eq sch S_HTTPS) as E2.
  pose proof (str_eqb_eq sch S_WS) as E3. pose proof (str_eqb_eq sch S_WSS) as E4.
  assert (D12 : S_HTTP <> S_HTTPS) by discriminate. assert (D13 : S_HTTP <> S_WS) by discriminate.
  assert (D14 : S_HTTP <> S_WSS) by discriminate. assert (D23 : S_HTTPS <> S_WS) by discriminate.
  assert (D24 : S_HTTPS <> S_WSS) by discriminate. assert (D34 : S_WS <> S_WSS) by discriminate.
  destruct (str_eqb sch S_HTTP) eqn:B1; destruct (str_eqb sch S_HTTPS) eqn:B2;
    destruct (str_eqb sch S_WS) eqn:B3; destruct (str_eqb sch S_WSS) eqn:B4; cbn [negb andb orb In];
    repeat match goal with
           | H : true = true <-> _ |- _ => pose proof (proj1 H eq_refl); clear H
           | H : false = true <-> _ |- _ =>
               let H' := fresh in assert (H' := fun x => Bool.diff_false_true (proj2 H x)); clear H
           end;
    try congruence; clear Es;
    (repeat split; intros; try reflexivity; try congruence; try tauto;
     repeat match goal with H : _ \/ _ |- _ => destruct H end; try congruence; try tauto;
     try subst sch; try (exfalso; tauto); auto 10).
Qed.

(* ------------------------------------------------------------------ authority: nothing is lost *)
Lemma suffix_refl {A} (l : list A) : suffix_of l l.
Proof. exists []. reflexivity. Qed.
Lemma suffix_trans {A} (a b c : list A) : suffix_of a b -> suffix_of b c -> suffix_of a c.
Proof. intros [p ->] [q ->]. exists (q ++ p). rewrite app_assoc. reflexivity. Qed.
Lemma suffix_cons {A} (x : A) (a l : list A) : suffix_of a l -> suffix_of a (x :: l).
Proof. intros [p ->]. exists (x :: p). reflexivity. Qed.
Lemma suffix_app_r {A} (a b : list A) : suffix_of b (a ++ b).
Proof. exists a. reflexivity. Qed.

Lemma drop_while_suffix {A} (f : A -> bool) l : suffix_of (drop_while f l) l.
Proof.
  induction l as [|x l IH]; cbn; [apply suffix_refl|].
  destruct (f x); [apply suffix_cons; exact IH|apply suffix_refl].
Qed.

Lemma scheme_loop_suffix l s r : scheme_loop l = Some (s, r) -> suffix_of r l.
Proof.
  revert s r; induction l as [|c l IH]; intros s r H; cbn in H; [discriminate|].
  destruct (N.eqb c COLON). { inversion H; subst. apply suffix_cons, suffix_refl. }
  destruct (is_lower c || is_digit c || N.eqb c PLUS || N.eqb c MINUS || N.eqb c DOT).
  { destruct (scheme_loop l) as [[s' r']|] eqn:E; [|discriminate]. inversion H; subst.
    apply suffix_cons. eapply IH; eauto. }
  destruct (is_upper c); [|discriminate].
  destruct (scheme_loop l) as [[s' r']|] eqn:E; [|discriminate]. inversion H; subst.
  apply suffix_cons. eapply IH; eauto.
Qed.

Definition auth_break (sp : bool) (c : N) : bool :=
  N.eqb c SLASH || N.eqb c QMARK || N.eqb c HASH || (sp && N.eqb c BSLASH).

Lemma authority_chars_cons sp c r :
  authority_chars sp (c :: r) = if auth_break sp c then [] else c :: authority_chars sp r.
Proof. reflexivity. Qed.

Lemma authority_chars_no_break sp l c : In c (authority_chars sp l) -> auth_break sp c = false.
Proof.
  induction l as [|x l IH]; [intros []|]. rewrite authority_chars_cons.
  destruct (auth_break sp x) eqn:E; [intros []|]. intros [<-|H]; auto.
Qed.

(* what find_last_at returns is either the accumulator or a suffix of the input that lies inside
   the authority and has no '@' left in its own authority part *)
Lemma find_last_at_spec sp l : forall n last k rem,
  find_last_at sp l n last = Some (k, rem) ->
  (last = Some (k, rem) /\ existsb (N.eqb AT) (authority_chars sp l) = false) \/
  (exists pre, l = pre ++ rem /\ authority_chars sp l = pre ++ authority_chars sp rem /\
               existsb (N.eqb AT) (authority_chars sp rem) = false).
Proof.
  induction l as [|c r IH]; intros n last k rem H; cbn [find_last_at] in H.
  - left. split; [exact H|reflexivity].
  - rewrite authority_chars_cons. unfold auth_break.
    destruct (N.eqb c AT) eqn:Eat.
    + apply N.eqb_eq in Eat. subst c.
      change (N.eqb AT SLASH || N.eqb AT QMARK || N.eqb AT HASH || (sp && N.eqb AT BSLASH))
        with (false || (sp && false)). rewrite andb_false_r. cbn [orb].
      apply IH in H as [(E & Hn)|(pre & -> & Ha & Hn)].
      * inversion E; subst. right. exists [AT]. repeat split; auto.
      * right. exists (AT :: pre). rewrite Ha. repeat split; auto.
    + destruct (N.eqb c SLASH || N.eqb c QMARK || N.eqb c HASH) eqn:Eb.
      { cbn [orb]. left. split; [exact H|reflexivity]. }
      destruct (N.eqb c BSLASH && sp) eqn:Es.
      { rewrite andb_comm in Es. rewrite Es. cbn [orb]. left. split; [exact H|reflexivity]. }
      rewrite andb_comm in Es. rewrite Es. cbn [orb].
      apply IH in H as [(E & Hn)|(pre & -> & Ha & Hn)].
      * left. split; [exact E|]. cbn [existsb]. rewrite N.eqb_sym, Eat. exact Hn.
      * right. exists (c :: pre). rewrite Ha. repeat split; auto.
Qed.

Lemma find_last_at_none sp l : forall n last,
  find_last_at sp l n last = None ->
  last = None /\ existsb (N.eqb AT) (authority_chars sp l) = false.
Proof.
  induction l as [|c r IH]; intros n last H; cbn [find_last_at] in H; [split; [exact H|reflexivity]|].
  rewrite authority_chars_cons. unfold auth_break.
  destruct (N.eqb c AT) eqn:Eat.
  { apply IH in H as [H _]. discriminate. }
  destruct (N.eqb c SLASH || N.eqb c QMARK || N.eqb c HASH) eqn:Eb.
  { cbn [orb]. split; [exact H|reflexivity]. }
  destruct (N.eqb c BSLASH && sp) eqn:Es; rewrite andb_comm in Es; rewrite Es; cbn [orb].
  { split; [exact H|reflexivity]. }
  apply IH in H as [H Hn]. split; [exact H|]. cbn [existsb]. rewrite N.eqb_sym, Eat. exact Hn.
Qed.

Lemma parse_userinfo_detail ser a sp ser' rem :
  parse_userinfo ser a sp = POk (ser', rem) ->
  exists ui pre, ser' = ser ++ ui /\ all_ascii ui = true /\ a = pre ++ rem /\
    authority_chars sp a = pre ++ authority_chars sp rem /\
    existsb (N.eqb AT) (authority_chars sp rem) = false.
Proof.
  intros H. destruct (parse_userinfo_spec _ _ _ _ _ H) as (ui & -> & Hui). exists ui.
  unfold parse_userinfo in H.
  destruct (find_last_at sp a 0 None) as [[n remaining]|] eqn:E.
  - assert (rem = remaining).
    { destruct n; [inversion H; reflexivity|].
      destruct (userinfo_loop (S n) a ser false false false) as [[[s1 hu] hp]|]; [|discriminate].
      inversion H; reflexivity. }
    subst remaining. apply find_last_at_spec in E as [(E & _)|(pre & Ha & Hb & Hn)]; [discriminate|].
    exists pre. auto.
  - inversion H; subst. exists []. apply find_last_at_none in E as [_ E]. repeat split; auto.
Qed.

Definition host_stop (sp ins : bool) (c : N) : bool :=
  (N.eqb c COLON && negb ins) || (N.eqb c BSLASH && sp) || (N.eqb c SLASH || N.eqb c QMARK || N.eqb c HASH).

Lemma host_stop_terminator sp ins c : host_stop sp ins c = true -> host_terminator sp c = true.
Proof. unfold host_stop, host_terminator. destruct sp, ins; lia. Qed.

Lemma encode_cp_high c b : 128 <= c -> In b (encode_cp c) -> 128 <= b.
Proof.
  intros Hc. unfold encode_cp. destruct (N.ltb c 128) eqn:E1; [lia|].
  destruct (N.ltb c 2048); [|destruct (N.ltb c 65536)]; cbn [In]; intros H;
    repeat (destruct H as [<-|H]; [lia|]); destruct H.
Qed.

Lemma existsb_encode_all (f : N -> bool) l :
  (forall b, f b = true -> b < 128) -> existsb f l = false -> existsb f (encode_all l) = false.
Proof.
  intros Hf. induction l as [|c l IH]; [reflexivity|]. cbn [existsb encode_all flat_map].
  intros H. apply orb_false_iff in H as [Hc Hl]. rewrite existsb_app. fold (encode_all l). rewrite (IH Hl), orb_false_r.
  destruct (N.ltb c 128) eqn:E.
  - unfold encode_cp. rewrite E. cbn [existsb]. rewrite Hc. reflexivity.
  - destruct (existsb f (encode_cp c)) eqn:X; [|reflexivity].
    apply existsb_exists in X as (b & Hb & Hfb). apply Hf in Hfb.
    apply encode_cp_high in Hb; lia.
Qed.

Lemma host_forbidden_low sp b : host_forbidden sp b = true -> b < 128.
Proof. unfold host_forbidden, SLASH, QMARK, HASH, AT, BSLASH. destruct sp; lia. Qed.

Lemma host_forbidden_mono sp b : host_forbidden sp b = true -> host_forbidden true b = true.
Proof. unfold host_forbidden. destruct sp; lia. Qed.

Lemma existsb_mono {A} (f g : A -> bool) l : (forall x, f x = true -> g x = true) -> existsb g l = false -> existsb f l = false.
Proof.
  intros H Hg. destruct (existsb f l) eqn:E; [|reflexivity].
  apply existsb_exists in E as (x & Hx & Hfx). apply H in Hfx.
  assert (existsb g l = true) by (apply existsb_exists; eauto). congruence.
Qed.

(* the host loop consumes a prefix of the authority that ends at a terminator (or at the end),
   counts every character it consumes and remembers whether one of them was tab/LF/CR *)
Lemma host_scan_spec sp l : forall ins hi ni ig co,
  exists k hi' ni' ig',
    host_scan sp l ins hi ni ig co = (hi', ni', ig', co + k, drop k l)%nat /\
    (ni' + ig' = ni + ig + k)%nat /\
    hi' = hi || existsb ignored_host (take k l) /\
    authority_chars sp l = take k l ++ authority_chars sp (drop k l) /\
    (drop k l = [] \/ exists c r, drop k l = c :: r /\ host_terminator sp c = true).
Proof.
  induction l as [|c r IH]; intros ins hi ni ig co.
  - exists O, hi, ni, ig. cbn. rewrite !Nat.add_0_r, orb_false_r. repeat split; auto.
  - cbn [host_scan].
    assert (Stop : host_stop sp ins c = true ->
              exists k hi' ni' ig',
                (hi, ni, ig, co, c :: r) = (hi', ni', ig', co + k, drop k (c :: r))%nat /\
                (ni' + ig' = ni + ig + k)%nat /\ hi' = hi || existsb ignored_host (take k (c :: r)) /\
                authority_chars sp (c :: r) = take k (c :: r) ++ authority_chars sp (drop k (c :: r)) /\
                (drop k (c :: r) = [] \/ exists c' r', drop k (c :: r) = c' :: r' /\ host_terminator sp c' = true)).
    { intros Hs. exists O, hi, ni, ig. cbn [take firstn drop skipn existsb app]. rewrite !Nat.add_0_r, orb_false_r.
      repeat split; auto. right. exists c, r. split; [reflexivity|]. eapply host_stop_terminator; eauto. }
    destruct (N.eqb c COLON && negb ins) eqn:E1.
    { apply Stop. unfold host_stop. rewrite E1. reflexivity. }
    destruct (N.eqb c BSLASH && sp) eqn:E2.
    { apply Stop. unfold host_stop. rewrite E1, E2. reflexivity. }
    destruct (N.eqb c SLASH || N.eqb c QMARK || N.eqb c HASH) eqn:E3.
    { apply Stop. unfold host_stop. rewrite E1, E2, E3. reflexivity. }
    clear Stop.
    assert (Hb : auth_break sp c = false).
    { unfold auth_break. rewrite E3. rewrite andb_comm in E2. rewrite E2. reflexivity. }
    assert (G : forall ins' hi0 ni0 ig0, (ni0 + ig0 = S (ni + ig))%nat -> hi0 = hi || ignored_host c ->
              exists k hi' ni' ig',
                host_scan sp r ins' hi0 ni0 ig0 (S co) = (hi', ni', ig', co + k, drop k (c :: r))%nat /\
                (ni' + ig' = ni + ig + k)%nat /\ hi' = hi || existsb ignored_host (take k (c :: r)) /\
                authority_chars sp (c :: r) = take k (c :: r) ++ authority_chars sp (drop k (c :: r)) /\
                (drop k (c :: r) = [] \/ exists c' r', drop k (c :: r) = c' :: r' /\ host_terminator sp c' = true)).
    { intros ins' hi0 ni0 ig0 Hsum Hhi.
      destruct (IH ins' hi0 ni0 ig0 (S co)) as (k & hi' & ni' & ig' & Hk & Hs & Hh & Ha & Ht).
      exists (S k), hi', ni', ig'.
      split; [rewrite Hk; f_equal; f_equal; lia|]. split; [lia|].
      split; [rewrite Hh, Hhi; cbn [take firstn existsb]; rewrite orb_assoc; reflexivity|].
      split; [|exact Ht]. rewrite authority_chars_cons, Hb. cbn [take firstn drop skipn app]. f_equal. exact Ha. }
    destruct (ignored_host c) eqn:Ei.
    { apply G; [lia|symmetry; apply orb_true_r]. }
    rewrite orb_false_r in G.
    destruct (N.eqb c LBRACK); [apply G; [lia|reflexivity]|].
    destruct (N.eqb c RBRACK); apply G; try lia; reflexivity.
Qed.

Lemma host_filter_id l : existsb ignored_host l = false -> host_filter l = l.
Proof.
  induction l as [|c l IH]; [reflexivity|]. cbn [existsb]. intros H. apply orb_false_iff in H as [Hc Hl].
  unfold host_filter. cbn [filter]. change (memN c url_ignored_host_filter) with (ignored_host c).
  rewrite Hc. cbn [negb]. f_equal. apply IH. exact Hl.
Qed.

Lemma host_filter_forbidden sp l : existsb (host_forbidden sp) l = false -> existsb (host_forbidden sp) (host_filter l) = false.
Proof.
  intros H. destruct (existsb (host_forbidden sp) (host_filter l)) eqn:E; [|reflexivity].
  apply existsb_exists in E as (x & Hx & Hf). unfold host_filter in Hx. apply filter_In in Hx as [Hx _].
  assert (existsb (host_forbidden sp) l = true) by (apply existsb_exists; eauto). congruence.
Qed.

Lemma forbidden_is_rejected sp b : host_forbidden sp b = true -> idna_rejected b = true.
Proof.
  intros H.
  assert (D : b = 47 \/ b = 63 \/ b = 35 \/ b = 64 \/ b = 92)
    by (unfold host_forbidden, SLASH, QMARK, HASH, AT, BSLASH in H; destruct sp; lia).
  destruct D as [-> | [-> | [-> | [-> | ->]]]]; reflexivity.
Qed.

Section Scanner.
Variable idna : str -> option str.
Hypothesis Hidna : idna_contract idna.

Lemma parse_host_spec ser input sp ser' he rem :
  parse_host idna ser input sp = POk (ser', he, rem) ->
  exists host, ser' = ser ++ host /\ he = length ser' /\ all_ascii host = true.
Proof.
  unfold parse_host. destruct (host_scan sp input false false 0 0 0) as [[[[hi ni] ig] co] remaining].
  set (hs := encode_all (if hi then host_filter (take (ni + ig) input) else take co input)).
  destruct (all_ascii hs) eqn:E.
  - intros H; inversion H; subst. exists hs. repeat split; auto.
  - destruct (idna hs) as [e|] eqn:Ei; [|discriminate].
    destruct (existsb idna_rejected e); [discriminate|].
    intros H; inversion H; subst. exists e. repeat split; auto. eapply Hidna; eauto.
Qed.

(* what a successful scan looks like: scheme ':' mid host rest, everything up to the end of the
   host is ASCII, the scheme has no ':' and the rest starts at a character boundary *)
Record scanned (ser : str) (se hs he : nat) (scheme mid host rest : str) : Prop := {
  sc_ser : ser = scheme ++ COLON :: mid ++ host ++ rest;
  sc_se : se = length scheme;
  sc_hs : hs = length (scheme ++ COLON :: mid);
  sc_he : he = (hs + length host)%nat;
  sc_scheme : forallb scheme_char scheme = true;
  sc_scheme_ne : scheme <> [];
  sc_mid : all_ascii mid = true;
  sc_host : all_ascii host = true;
  sc_rest : starts_char rest }.

Lemma after_double_slash_scanned scheme input sp ser se hs he :
  forallb scheme_char scheme = true -> scheme <> [] ->
  after_double_slash idna (scheme ++ [COLON]) input sp (length scheme) = POk (ser, se, hs, he) ->
  exists mid host rest, scanned ser se hs he scheme mid host rest.
Proof.
  intros Hs Hne. unfold after_double_slash.
  destruct (parse_userinfo ((scheme ++ [COLON]) ++ [SLASH; SLASH]) input sp) as [[s1 rem1]|] eqn:E1; [|discriminate].
  apply parse_userinfo_spec in E1 as (ui & -> & Hui).
  destruct (parse_host idna _ rem1 sp) as [[[s2 he2] rem2]|] eqn:E2; [|discriminate].
  apply parse_host_spec in E2 as (host & -> & -> & Hh).
  intros H; inversion H; subst; clear H.
  exists ([SLASH; SLASH] ++ ui), host, (encode_all rem2).
  constructor; auto.
  - rewrite <- !app_assoc. cbn. reflexivity.
  - rewrite <- !app_assoc. cbn. reflexivity.
  - rewrite !app_length. cbn [length]. lia.
  - apply encode_all_starts.
Qed.

Lemma scan_chars_scanned input ser se hs he :
  scan_chars idna input = POk (ser, se, hs, he) ->
  exists scheme mid host rest, scanned ser se hs he scheme mid host rest.
Proof.
  unfold scan_chars. destruct (parse_scheme (trim_input input)) as [[scheme rem]|] eqn:E; [|discriminate].
  assert (Hs : forallb scheme_char scheme = true).
  { unfold parse_scheme in E. destruct (trim_input input) as [|c l]; [discriminate|].
    destruct (is_alpha c); [|discriminate]. apply scheme_loop_spec in E. apply E. }
  assert (Hne : scheme <> []).
  { unfold parse_scheme in E. destruct (trim_input input) as [|c l]; [discriminate|].
    destruct (is_alpha c) eqn:Ea; [|discriminate]. cbn [scheme_loop] in E.
    assert (Hc : N.eqb c COLON = false) by (unfold is_alpha, is_upper, is_lower, COLON in *; lia).
    rewrite Hc in E.
    destruct (is_lower c || is_digit c || N.eqb c PLUS || N.eqb c MINUS || N.eqb c DOT).
    - destruct (scheme_loop l) as [[s' r']|]; [|discriminate]. inversion E. discriminate.
    - destruct (is_upper c); [|discriminate].
      destruct (scheme_loop l) as [[s' r']|]; [|discriminate]. inversion E. discriminate. }
  unfold parse_with_scheme. destruct (scheme_type_from scheme); [discriminate| |].
  - intros H. exists scheme. eapply after_double_slash_scanned; eauto.
  - unfold parse_non_special. destruct (split_double_slash rem) as [rest|].
    + intros H. exists scheme. eapply after_double_slash_scanned; eauto.
    + intros H; inversion H; subst; clear H.
      exists scheme, [], [], (lower_str (encode_all rem)). constructor; auto.
      * rewrite <- app_assoc. reflexivity.
      * apply lower_starts. apply encode_all_starts.
Qed.

(* ------------------------------------------------------------------ RequestUrl *)
Lemma scanned_assoc scheme mid host rest :
  scheme ++ COLON :: mid ++ host ++ rest = (scheme ++ COLON :: mid) ++ host ++ rest.
Proof. rewrite <- app_assoc. reflexivity. Qed.

Lemma scanned_schema ser se hs he scheme mid host rest :
  scanned ser se hs he scheme mid host rest -> slice ser 0 se = Ok scheme.
Proof.
  intros [-> -> _ _ Hs _ _ _ _].
  apply scheme_chars_facts in Hs as [Ha _].
  apply (slice_mid [] scheme (COLON :: mid ++ host ++ rest)).
  - apply starts_char_ascii; [exact Ha|]. right. eexists; eexists; split; reflexivity.
  - right. eexists; eexists; split; reflexivity.
Qed.

Lemma scanned_colon ser se hs he scheme mid host rest :
  scanned ser se hs he scheme mid host rest -> find_byte COLON ser = Some se.
Proof.
  intros [-> -> _ _ Hs _ _ _ _].
  apply scheme_chars_facts in Hs as [_ Hn].
  rewrite find_byte_app_notin by exact Hn. cbn [find_byte]. rewrite N.eqb_refl. f_equal. lia.
Qed.

Lemma scanned_host ser se hs he scheme mid host rest :
  scanned ser se hs he scheme mid host rest -> slice ser hs he = Ok host.
Proof.
  intros [-> _ -> -> _ _ _ Hh Hr]. rewrite scanned_assoc.
  apply slice_mid; [|exact Hr]. apply starts_char_ascii; assumption.
Qed.

Lemma all_ascii_drop n s : all_ascii s = true -> all_ascii (drop n s) = true.
Proof.
  intros H. rewrite <- (take_drop n s) in H. rewrite all_ascii_app in H.
  apply andb_true_iff in H. apply H.
Qed.

Lemma scanned_suffix ser se hs he scheme mid host rest a :
  scanned ser se hs he scheme mid host rest -> (a <= length host)%nat ->
  slice ser (hs + a) (hs + length host) = Ok (drop a host).
Proof.
  intros [-> _ -> _ _ _ _ Hh Hr] Ha. rewrite scanned_assoc.
  rewrite <- (take_drop a host) at 1.
  replace ((scheme ++ COLON :: mid) ++ (take a host ++ drop a host) ++ rest)
    with (((scheme ++ COLON :: mid) ++ take a host) ++ drop a host ++ rest)
    by (rewrite <- !app_assoc; reflexivity).
  assert (L1 : (length (scheme ++ COLON :: mid) + a)%nat = length ((scheme ++ COLON :: mid) ++ take a host)).
  { rewrite (app_length _ (take a host)). rewrite length_take_le by exact Ha. reflexivity. }
  assert (L2 : (length (scheme ++ COLON :: mid) + length host)%nat
               = (length ((scheme ++ COLON :: mid) ++ take a host) + length (drop a host))%nat).
  { rewrite <- L1. unfold drop. rewrite skipn_length. lia. }
  rewrite L1, L2. apply slice_mid; [|exact Hr].
  apply starts_char_ascii; [apply all_ascii_drop; exact Hh|exact Hr].
Qed.

(* ------------------------------------------------------------------ nothing is lost (outside F21) *)
Lemma encode_all_app a b : encode_all (a ++ b) = encode_all a ++ encode_all b.
Proof. unfold encode_all. apply flat_map_app. Qed.

Lemma existsb_false_In {A} (f : A -> bool) l x : existsb f l = false -> In x l -> f x = false.
Proof.
  intros H Hx. destruct (f x) eqn:E; [|reflexivity].
  assert (existsb f l = true) by (apply existsb_exists; eauto). congruence.
Qed.

Lemma parse_host_detail ser l sp ser' he rem :
  parse_host idna ser l sp = POk (ser', he, rem) ->
  existsb (N.eqb AT) (authority_chars sp l) = false ->
  exists consumed h,
    l = consumed ++ rem /\ ser' = ser ++ h /\ he = length ser' /\
    host_out idna (encode_all (host_filter consumed)) h /\
    existsb (host_forbidden sp) consumed = false /\
    existsb (host_forbidden sp) h = false /\
    (rem = [] \/ exists c r, rem = c :: r /\ host_terminator sp c = true).
Proof.
  intros H Hat. unfold parse_host in H.
  destruct (host_scan_spec sp l false false 0 0 0) as (k & hi & ni & ig & Hk & Hsum & Hhi & Ha & Ht).
  rewrite Hk in H. cbn [Nat.add orb] in H, Hsum, Hhi.
  assert (Hstr : (if hi then host_filter (take (ni + ig) l) else take k l) = host_filter (take k l)).
  { rewrite Hsum. destruct hi; [reflexivity|]. symmetry. apply host_filter_id. symmetry. exact Hhi. }
  rewrite Hstr in H. clear Hstr Hsum Hhi.
  exists (take k l).
  assert (Hf : existsb (host_forbidden sp) (take k l) = false).
  { destruct (existsb (host_forbidden sp) (take k l)) eqn:E; [|reflexivity].
    apply existsb_exists in E as (c & Hc & Hfc).
    assert (Hin : In c (authority_chars sp l)) by (rewrite Ha; apply in_or_app; left; exact Hc).
    pose proof (authority_chars_no_break sp l c Hin) as Hb.
    pose proof (existsb_false_In _ _ c Hat Hin) as Hn. cbn beta in Hn.
    unfold host_forbidden in Hfc. unfold auth_break in Hb. rewrite (N.eqb_sym c AT) in Hfc. lia. }
  destruct (all_ascii (encode_all (host_filter (take k l)))) eqn:E.
  - inversion H; subst. exists (encode_all (host_filter (take k l))).
    repeat split; auto; [symmetry; apply take_drop|left; auto|].
    apply existsb_encode_all; [apply host_forbidden_low|apply host_filter_forbidden; exact Hf].
  - destruct (idna (encode_all (host_filter (take k l)))) as [e|] eqn:Ei; [|discriminate].
    destruct (existsb idna_rejected e) eqn:Er; [discriminate|].
    inversion H; subst. exists e. repeat split; auto; [symmetry; apply take_drop|right; auto|].
    eapply existsb_mono; [apply forbidden_is_rejected|exact Er].
Qed.

(* shape of a scan through the authority branch *)
Lemma after_double_slash_detail ser0 a sp se0 ser se hs he :
  after_double_slash idna ser0 a sp se0 = POk (ser, se, hs, he) ->
  exists ui consumed rest_cps h,
    suffix_of (consumed ++ rest_cps) a /\
    ser = (ser0 ++ [SLASH; SLASH] ++ ui) ++ h ++ encode_all rest_cps /\
    hs = length (ser0 ++ [SLASH; SLASH] ++ ui) /\ he = (hs + length h)%nat /\
    host_out idna (encode_all (host_filter consumed)) h /\
    existsb (host_forbidden sp) consumed = false /\
    existsb (host_forbidden sp) h = false /\
    (rest_cps = [] \/ exists c r, rest_cps = c :: r /\ host_terminator sp c = true).
Proof.
  unfold after_double_slash. intros H.
  destruct (parse_userinfo (ser0 ++ [SLASH; SLASH]) a sp) as [[s1 rem1]|] eqn:E1; [|discriminate].
  apply parse_userinfo_detail in E1 as (ui & pre & -> & Hui & Ha & Hauth & Hat).
  destruct (parse_host idna _ rem1 sp) as [[[s2 he2] rem2]|] eqn:E2; [|discriminate].
  apply (parse_host_detail _ _ _ _ _ _) in E2 as (hc & h & Hl & -> & -> & Ho & Hf & Hfh & Ht); auto.
  inversion H; subst; clear H.
  exists ui, hc, rem2, h. rewrite <- !app_assoc. repeat split; auto.
  - exists pre. reflexivity.
  - rewrite !app_length. cbn [length]. lia.
Qed.

(* For every URL with a host: the host text of the input (tab/LF/CR dropped) becomes the
   hostname, the rest of the input follows it unchanged. *)
Theorem scan_preserves_tail input ser se hs he :
  scan_chars idna input = POk (ser, se, hs, he) -> (hs < he)%nat ->
  exists sp consumed rest_cps h,
    suffix_of (consumed ++ rest_cps) (trim_input input) /\
    slice ser hs he = Ok h /\ drop he ser = encode_all rest_cps /\
    host_out idna (encode_all (host_filter consumed)) h /\
    existsb (host_forbidden sp) consumed = false /\
    existsb (host_forbidden sp) h = false /\
    (rest_cps = [] \/ exists c r, rest_cps = c :: r /\ host_terminator sp c = true).
Proof.
  intros H Hlt.
  destruct (scan_chars_scanned _ _ _ _ _ H) as (scheme0 & mid0 & host0 & rest0 & Hsc).
  pose proof (scanned_host _ _ _ _ _ _ _ _ Hsc) as Hslice.
  unfold scan_chars in H.
  destruct (parse_scheme (trim_input input)) as [[scheme rem]|] eqn:E; [|discriminate].
  assert (Hsuf : suffix_of rem (trim_input input)).
  { unfold parse_scheme in E. destruct (trim_input input) as [|c l]; [discriminate|].
    destruct (is_alpha c); [|discriminate]. eapply scheme_loop_suffix; eauto. }
  unfold parse_with_scheme in H.
  assert (G : forall sp a, suffix_of a rem ->
              after_double_slash idna (scheme ++ [COLON]) a sp (length scheme) = POk (ser, se, hs, he) ->
              exists sp consumed rest_cps h,
                suffix_of (consumed ++ rest_cps) (trim_input input) /\
                slice ser hs he = Ok h /\ drop he ser = encode_all rest_cps /\
                host_out idna (encode_all (host_filter consumed)) h /\
                existsb (host_forbidden sp) consumed = false /\
                existsb (host_forbidden sp) h = false /\
                (rest_cps = [] \/ exists c r, rest_cps = c :: r /\ host_terminator sp c = true)).
  { intros sp a Hsa Had.
    apply after_double_slash_detail in Had as (ui & hc & rc & h & Hs1 & Hser & Hhs & Hhe & Ho & Hf & Hfh & Ht).
    exists sp, hc, rc, h. split; [eapply suffix_trans; [exact Hs1|eapply suffix_trans; eauto]|].
    assert (Hh0 : host0 = take (he - hs) (drop hs ser)).
    { destruct Hsc. rewrite sc_ser0, sc_he0, sc_hs0. rewrite scanned_assoc.
      replace (length (scheme0 ++ COLON :: mid0) + length host0 - length (scheme0 ++ COLON :: mid0))%nat
        with (length host0) by lia.
      rewrite take_drop_mid. reflexivity. }
    rewrite Hslice, Hh0. clear Hh0 Hslice Hsc.
    remember ((scheme ++ [COLON]) ++ [SLASH; SLASH] ++ ui) as P eqn:HP. subst ser hs he.
    assert (Hd : drop (length P + length h) (P ++ h ++ encode_all rc) = encode_all rc).
    { rewrite (app_assoc P h), <- app_length. apply drop_app_length. }
    assert (Hsl : take (length P + length h - length P) (drop (length P) (P ++ h ++ encode_all rc)) = h).
    { replace (length P + length h - length P)%nat with (length h) by lia. apply take_drop_mid. }
    rewrite Hsl.
    repeat split; auto. }
  destruct (scheme_type_from scheme); [discriminate| |].
  - eapply (G true); eauto. apply drop_while_suffix.
  - unfold parse_non_special in H. destruct (split_double_slash rem) as [rest|] eqn:Ed.
    + eapply (G false); eauto.
      unfold split_double_slash in Ed. destruct rem as [|c1 [|c2 r2]]; try discriminate.
      destruct (N.eqb c1 SLASH && N.eqb c2 SLASH); inversion Ed; subst.
      apply suffix_cons, suffix_cons, suffix_refl.
    + inversion H; subst. lia.
Qed.

End Scanner.

Section WithOracles.
Variable idna : str -> option str.
Variable psl : str -> nat * nat.
Variable hash : str -> N.
Variable tokenize : str -> list N.
Hypothesis Hidna : idna_contract idna.

Definition parsed (ru : request_url) (scheme mid host rest : str) : Prop :=
  scanned (ru_url ru) (ru_schema_end ru) (fst (ru_hostname_pos ru)) (snd (ru_hostname_pos ru))
          scheme mid host rest /\ host <> [] /\ ru_domain ru = psl host.

Lemma parse_url_parsed u ru :
  parse_url idna psl u = Ok (Some ru) ->
  scan idna u = Ok (POk (ru_url ru, ru_schema_end ru, fst (ru_hostname_pos ru), snd (ru_hostname_pos ru)))
  /\ exists scheme mid host rest, parsed ru scheme mid host rest.
Proof.
  unfold parse_url. destruct (scan idna u) as [p|w] eqn:Es; [|discriminate]. cbn [rbind].
  destruct p as [[[[ser se] hs] he]|e]; [|discriminate].
  destruct (Nat.ltb hs he) eqn:L; [|discriminate].
  unfold scan in Es. destruct (decode_utf8 u) as [cps|]; [|discriminate]. inversion Es as [Es'].
  destruct (scan_chars_scanned idna Hidna _ _ _ _ _ Es') as (scheme & mid & host & rest & Hsc).
  rewrite (scanned_host _ _ _ _ _ _ _ _ Hsc). cbn [rbind]. intros H; inversion H; subst; clear H. cbn.
  split; [exact Es|]. exists scheme, mid, host, rest. split; [exact Hsc|]. split; [|reflexivity].
  apply Nat.ltb_lt in L. destruct Hsc. intros ->. cbn in *. lia.
Qed.

Lemma parse_url_total u : valid_utf8 u -> exists o, parse_url idna psl u = Ok o.
Proof.
  unfold valid_utf8, parse_url, scan. destruct (decode_utf8 u) as [cps|]; [intros _|congruence]. cbn [rbind].
  destruct (scan_chars idna cps) as [[[[ser se] hs] he]|e] eqn:Es; [|eexists; reflexivity].
  destruct (Nat.ltb hs he); [|eexists; reflexivity].
  destruct (scan_chars_scanned idna Hidna _ _ _ _ _ Es) as (scheme & mid & host & rest & Hsc).
  rewrite (scanned_host _ _ _ _ _ _ _ _ Hsc). cbn [rbind]. eexists; reflexivity.
Qed.

Hypothesis Hpsl : psl_contract psl.

Lemma parsed_schema ru scheme mid host rest : parsed ru scheme mid host rest -> ru_schema ru = Ok scheme.
Proof. intros [H _]. unfold ru_schema. eapply scanned_schema; eauto. Qed.

Lemma parsed_hostname ru scheme mid host rest : parsed ru scheme mid host rest -> ru_hostname ru = Ok host.
Proof. intros [H _]. unfold ru_hostname. eapply scanned_host; eauto. Qed.


Lemma parsed_domain ru scheme mid host rest :
  parsed ru scheme mid host rest -> ru_domain_str ru = Ok (domain_of psl host).
Proof.
  intros (H & _ & Hd). unfold ru_domain_str, domain_of. rewrite Hd.
  destruct (psl host) as [a b] eqn:E. destruct (Hpsl _ _ _ E) as (Hab & -> & _). cbn [fst snd].
  eapply scanned_suffix; eauto.
Qed.

(* ------------------------------------------------------------------ from_detailed_parameters *)
Lemma dot_suffixes_ascii s : all_ascii s = true -> exists l, dot_suffixes s = Ok l.
Proof.
  induction s as [|c r IH]; intros H; [eexists; reflexivity|].
  unfold all_ascii in H. cbn [forallb] in H. apply andb_true_iff in H as [Hc Hr].
  destruct (IH Hr) as [l Hl]. cbn [dot_suffixes]. destruct (N.eqb c DOT); [|eauto].
  destruct r as [|b r']; [eexists; reflexivity|].
  cbn [forallb] in Hr. apply andb_true_iff in Hr as [Hb _].
  rewrite (ascii_not_cont b Hb), Hl. cbn [rbind]. eexists; reflexivity.
Qed.

Lemma fdp_total t u schema host src tp orig :
  all_ascii src = true -> exists r, from_detailed_parameters hash tokenize t u schema host src tp orig = Ok r.
Proof.
  intros H. unfold from_detailed_parameters, source_hash_inputs.
  destruct src as [|c r]; [cbn [rbind]; eexists; reflexivity|].
  destruct (dot_suffixes_ascii _ H) as [l ->]. cbn [rbind]. eexists; reflexivity.
Qed.

Lemma parsed_host_ascii ru scheme mid host rest : parsed ru scheme mid host rest -> all_ascii host = true.
Proof. intros [[] _]. assumption. Qed.

(* ------------------------------------------------------------------ Request::new *)
(* third-party flag and source hostname that Request::new hands to from_detailed_parameters *)
Inductive source_view (s : str) (host : str) : str -> bool -> Prop :=
| SrcUnparsable : parse_url idna psl s = Ok None -> source_view s host [] true
| SrcParsed ps sc' mid' host' rest' :
    parse_url idna psl s = Ok (Some ps) -> parsed ps sc' mid' host' rest' ->
    source_view s host host' (negb (str_eqb (domain_of psl host') (domain_of psl host))).

Lemma request_new_char u s t r :
  Request_new idna psl hash tokenize u s t = Ok (Some r) ->
  exists pu scheme mid host rest srchost tp,
    parse_url idna psl u = Ok (Some pu) /\ parsed pu scheme mid host rest /\
    source_view s host srchost tp /\
    from_detailed_parameters hash tokenize t (ru_url pu) scheme host srchost tp u = Ok r.
Proof.
  unfold Request_new. destruct (parse_url idna psl u) as [[pu|]|w] eqn:Eu; cbn [rbind]; try discriminate.
  destruct (parse_url_parsed _ _ Eu) as (_ & scheme & mid & host & rest & Hp).
  rewrite (parsed_schema _ _ _ _ _ Hp), (parsed_hostname _ _ _ _ _ Hp).
  destruct (parse_url idna psl s) as [[ps|]|w] eqn:Es; cbn [rbind]; try discriminate.
  - destruct (parse_url_parsed _ _ Es) as (_ & sc' & mid' & host' & rest' & Hq).
    rewrite (parsed_domain _ _ _ _ _ Hq), (parsed_domain _ _ _ _ _ Hp), (parsed_hostname _ _ _ _ _ Hq).
    cbn [rbind].
    destruct (from_detailed_parameters _ _ _ _ _ _ _ _ _) as [r'|w] eqn:Ef; cbn [rbind]; [|discriminate].
    intros H; inversion H; subst r'. exists pu, scheme, mid, host, rest, host', (negb (str_eqb (domain_of psl host') (domain_of psl host))).
    split; [reflexivity|]. split; [exact Hp|]. split; [eapply SrcParsed; eauto|exact Ef].
  - destruct (from_detailed_parameters _ _ _ _ _ _ _ _ _) as [r'|w] eqn:Ef; cbn [rbind]; [|discriminate].
    intros H; inversion H; subst r'. exists pu, scheme, mid, host, rest, [], true.
    split; [reflexivity|]. split; [exact Hp|]. split; [apply SrcUnparsable; exact Es|exact Ef].
Qed.

Theorem request_new_total u s t :
  valid_utf8 u -> valid_utf8 s -> exists o, Request_new idna psl hash tokenize u s t = Ok o.
Proof.
  intros Vu Vs. unfold Request_new.
  destruct (parse_url_total u Vu) as [[pu|] Eu]; rewrite Eu; cbn [rbind]; [|eexists; reflexivity].
  destruct (parse_url_parsed _ _ Eu) as (_ & scheme & mid & host & rest & Hp).
  rewrite (parsed_schema _ _ _ _ _ Hp), (parsed_hostname _ _ _ _ _ Hp).
  destruct (parse_url_total s Vs) as [[ps|] Es]; rewrite Es; cbn [rbind].
  - destruct (parse_url_parsed _ _ Es) as (_ & sc' & mid' & host' & rest' & Hq).
    rewrite (parsed_domain _ _ _ _ _ Hq), (parsed_domain _ _ _ _ _ Hp), (parsed_hostname _ _ _ _ _ Hq).
    cbn [rbind].
    destruct (fdp_total t (ru_url pu) scheme host host'
                (negb (str_eqb (domain_of psl host') (domain_of psl host))) u (parsed_host_ascii _ _ _ _ _ Hq)) as [r ->].
    cbn [rbind]. eexists; reflexivity.
  - destruct (fdp_total t (ru_url pu) scheme host [] true u eq_refl) as [r ->].
    cbn [rbind]. eexists; reflexivity.
Qed.

(* ------------------------------------------------------------------ fields of the built request *)
Lemma fdp_fields t u schema host src tp orig r :
  from_detailed_parameters hash tokenize t u schema host src tp orig = Ok r ->
  exists inputs, source_hash_inputs src = Ok inputs /\
    r = {| request_type_of := snd (scheme_flags schema t);
           is_http := fst (fst (fst (scheme_flags schema t)));
           is_https := snd (fst (fst (scheme_flags schema t)));
           is_supported := snd (fst (scheme_flags schema t)); is_third_party := tp;
           url := u; hostname := host; source_hostname_hashes := option_map (map hash) inputs;
           url_lower_cased := lower_str u; request_tokens := tokenize (lower_str u) ++ [0];
           original_url := orig |}.
Proof.
  unfold from_detailed_parameters. destruct (source_hash_inputs src) as [i|w]; [|discriminate].
  cbn [rbind]. intros H; inversion H. exists i. split; reflexivity.
Qed.

Lemma fdp_original t u schema host src tp orig orig' r :
  from_detailed_parameters hash tokenize t u schema host src tp orig = Ok r ->
  from_detailed_parameters hash tokenize t u schema host src tp orig' = Ok (with_original r orig').
Proof.
  intros H. apply fdp_fields in H as (i & Hi & ->). unfold from_detailed_parameters. rewrite Hi.
  reflexivity.
Qed.

(* ------------------------------------------------------------------ dot suffixes *)
Lemma dot_suffix_cons c r x :
  dot_suffix_of (c :: r) x <-> (c = DOT /\ x = r /\ r <> []) \/ dot_suffix_of r x.
Proof.
  unfold dot_suffix_of. split.
  - intros ([|p pre] & H & Hx).
    + cbn in H. inversion H; subst. left. auto.
    + cbn in H. inversion H; subst. right. exists pre. auto.
  - intros [(-> & -> & H)|(pre & -> & H)].
    + exists []. auto.
    + exists (c :: pre). auto.
Qed.

Lemma dot_suffix_nil x : ~ dot_suffix_of [] x.
Proof. intros ([|p pre] & H & _); discriminate. Qed.

Lemma dot_suffixes_spec s : forall l, dot_suffixes s = Ok l -> forall x, In x l <-> dot_suffix_of s x.
Proof.
  induction s as [|c r IH]; intros l H x.
  - inversion H; subst. split; [intros []|intros Hx; exfalso; eapply dot_suffix_nil; eauto].
  - cbn [dot_suffixes] in H. rewrite dot_suffix_cons. destruct (N.eqb c DOT) eqn:E.
    + apply N.eqb_eq in E. destruct r as [|b r'].
      * inversion H; subst. split; [intros []|].
        intros [(_ & _ & Hn)|Hx]; [congruence|exfalso; eapply dot_suffix_nil; eauto].
      * destruct (is_cont b); [discriminate|].
        destruct (dot_suffixes (b :: r')) as [l'|w] eqn:El; [|discriminate]. cbn [rbind] in H.
        inversion H; subst. cbn [In]. rewrite (IH l' eq_refl x). split.
        -- intros [<-|Hx]; [left; repeat split; auto; discriminate|right; exact Hx].
        -- intros [(_ & -> & _)|Hx]; [left; reflexivity|right; exact Hx].
    + apply N.eqb_neq in E. rewrite (IH l H x). split; [auto|]. intros [(Hc & _)|Hx]; [congruence|exact Hx].
Qed.

(* ------------------------------------------------------------------ the property theorems *)
Theorem host_is_slice u s t r :
  Request_new idna psl hash tokenize u s t = Ok (Some r) ->
  exists se hs he,
    scan idna u = Ok (POk (url r, se, hs, he)) /\ (hs < he <= length (url r))%nat /\
    slice (url r) hs he = Ok (hostname r) /\ all_ascii (hostname r) = true /\
    original_url r = u /\ url_lower_cased r = lower_str (url r).
Proof.
  intros H. apply request_new_char in H as (pu & scheme & mid & host & rest & sh & tp & Eu & Hp & _ & Hf).
  apply fdp_fields in Hf as (i & _ & ->). cbn [url hostname original_url url_lower_cased].
  destruct (parse_url_parsed _ _ Eu) as (Hs & _).
  exists (ru_schema_end pu), (fst (ru_hostname_pos pu)), (snd (ru_hostname_pos pu)).
  split; [exact Hs|]. destruct Hp as (Hsc & Hne & _).
  pose proof (scanned_host _ _ _ _ _ _ _ _ Hsc) as Hh. destruct Hsc.
  repeat split; auto.
  all: try (destruct host; [congruence|]; cbn [length] in *; lia).
  all: try (rewrite sc_ser0, sc_he0, sc_hs0; rewrite !app_length; cbn [length]; rewrite !app_length; lia).
Qed.

Theorem scheme_flags_of_request u s t r :
  Request_new idna psl hash tokenize u s t = Ok (Some r) ->
  exists scheme se hs he,
    scan idna u = Ok (POk (url r, se, hs, he)) /\ slice (url r) 0 se = Ok scheme /\ scheme <> [] /\
    find_byte COLON (url r) = Some se /\
    (is_supported r = true <-> In scheme supported_schemes) /\
    (is_http r = true <-> scheme = S_HTTP) /\ (is_https r = true <-> scheme = S_HTTPS) /\
    (In scheme websocket_schemes -> request_type_of r = RT_Websocket) /\
    (~ In scheme websocket_schemes -> request_type_of r = cpt_match_type t).
Proof.
  intros H. apply request_new_char in H as (pu & scheme & mid & host & rest & sh & tp & Eu & Hp & _ & Hf).
  apply fdp_fields in Hf as (i & _ & ->). cbn [url is_supported is_http is_https request_type_of].
  destruct (parse_url_parsed _ _ Eu) as (Hs & _). destruct Hp as (Hsc & _ & _).
  exists scheme, (ru_schema_end pu), (fst (ru_hostname_pos pu)), (snd (ru_hostname_pos pu)).
  split; [exact Hs|]. split; [eapply scanned_schema; eauto|].
  assert (Hne : scheme <> []) by (destruct Hsc; assumption). split; [exact Hne|].
  split; [eapply scanned_colon; eauto|].
  destruct (scheme_flags_spec scheme t) as (A & B & C & D & E).
  repeat split; tauto.
Qed.

Theorem third_party_iff u s t r :
  Request_new idna psl hash tokenize u s t = Ok (Some r) ->
  match parse_url idna psl s with
  | Ok None => is_third_party r = true
  | Ok (Some ps) =>
      exists sh, ru_hostname ps = Ok sh /\ ru_domain_str ps = Ok (domain_of psl sh) /\
                 (is_third_party r = true <-> domain_of psl sh <> domain_of psl (hostname r))
  | Panic _ => False
  end /\
  exists pu, parse_url idna psl u = Ok (Some pu) /\ ru_domain_str pu = Ok (domain_of psl (hostname r)).
Proof.
  intros H. apply request_new_char in H as (pu & scheme & mid & host & rest & sh & tp & Eu & Hp & Hv & Hf).
  apply fdp_fields in Hf as (i & _ & ->). cbn [is_third_party hostname].
  split; [|exists pu; split; [exact Eu|eapply parsed_domain; eauto]].
  destruct Hv as [Es|ps sc' mid' host' rest' Es Hq]; rewrite Es; [reflexivity|].
  exists host'. split; [eapply parsed_hostname; eauto|]. split; [eapply parsed_domain; eauto|].
  rewrite negb_true_iff. apply str_eqb_neq.
Qed.

Theorem preparsed_eq_new u s t r :
  Request_new idna psl hash tokenize u s t = Ok (Some r) ->
  exists sh, source_hostname_of idna psl s = Ok sh /\
    Request_preparsed hash tokenize (url r) (hostname r) sh t (is_third_party r)
    = Ok (with_original r (url r)).
Proof.
  intros H. apply request_new_char in H as (pu & scheme & mid & host & rest & sh & tp & Eu & Hp & Hv & Hf).
  exists sh. split.
  - unfold source_hostname_of. destruct Hv as [Es|ps sc' mid' host' rest' Es Hq]; rewrite Es; cbn [rbind]; [reflexivity|].
    eapply parsed_hostname; eauto.
  - pose proof (fdp_original _ _ _ _ _ _ _ (ru_url pu) _ Hf) as Hf'.
    apply fdp_fields in Hf as (i & _ & ->). cbn [url hostname is_third_party] in *.
    destruct Hp as (Hsc & _ & _). unfold Request_preparsed.
    rewrite (scanned_colon _ _ _ _ _ _ _ _ Hsc), (scanned_schema _ _ _ _ _ _ _ _ Hsc). cbn [rbind].
    exact Hf'.
Qed.

Theorem source_hashes_are_dot_suffixes u s t r :
  Request_new idna psl hash tokenize u s t = Ok (Some r) ->
  exists sh, source_hostname_of idna psl s = Ok sh /\
    match source_hostname_hashes r with
    | None => sh = []
    | Some hs => sh <> [] /\ exists l, hs = map hash (sh :: l) /\ forall x, In x l <-> dot_suffix_of sh x
    end.
Proof.
  intros H. apply request_new_char in H as (pu & scheme & mid & host & rest & sh & tp & Eu & Hp & Hv & Hf).
  exists sh. split.
  - unfold source_hostname_of. destruct Hv as [Es|ps sc' mid' host' rest' Es Hq]; rewrite Es; cbn [rbind]; [reflexivity|].
    eapply parsed_hostname; eauto.
  - apply fdp_fields in Hf as (i & Hi & ->). cbn [source_hostname_hashes].
    unfold source_hash_inputs in Hi. destruct sh as [|c sh'].
    + inversion Hi; subst. reflexivity.
    + destruct (dot_suffixes (c :: sh')) as [l|w] eqn:El; [|discriminate]. cbn [rbind] in Hi.
      inversion Hi; subst. cbn [option_map]. split; [discriminate|]. exists l. split; [reflexivity|].
      apply dot_suffixes_spec. exact El.
Qed.

(* ------------------------------------------------------------------ faithful normalisation *)
(* The normalised URL keeps the host text and everything after it: the hostname is the host text
   of the input with tab/LF/CR dropped (or its idna image when that is not ASCII), what follows
   the host in the normalised URL is what follows it in the input, that starts with a delimiter,
   and the hostname contains no / ? # @ (\ for special schemes). *)
Theorem normalisation_faithful u s t r input :
  Request_new idna psl hash tokenize u s t = Ok (Some r) ->
  decode_utf8 u = Some input ->
  exists sp consumed rest_cps se hs he,
    scan idna u = Ok (POk (url r, se, hs, he)) /\
    suffix_of (consumed ++ rest_cps) (trim_input input) /\
    host_out idna (encode_all (host_filter consumed)) (hostname r) /\
    drop he (url r) = encode_all rest_cps /\
    existsb (host_forbidden sp) consumed = false /\
    (rest_cps = [] \/ exists c r', rest_cps = c :: r' /\ host_terminator sp c = true) /\
    existsb (host_forbidden sp) (hostname r) = false.
Proof.
  intros H Hd.
  destruct (host_is_slice _ _ _ _ H) as (se & hs & he & Hs & Hlt & Hsl & _).
  pose proof Hs as Hs'. unfold scan in Hs'. rewrite Hd in Hs'. inversion Hs' as [Hsc].
  destruct (scan_preserves_tail idna Hidna _ _ _ _ _ Hsc (proj1 Hlt)) as (sp & hc & rc & h & A & B & C & D & E & F & G).
  rewrite Hsl in B. inversion B; subst h.
  exists sp, hc, rc, se, hs, he. repeat split; auto.
Qed.

End WithOracles.

(* ------------------------------------------------------------------ domain_of under the contract *)
Lemma firstn_S_nth a : forall (h : str), (a < length h)%nat -> firstn (S a) h = firstn a h ++ [nth a h 0].
Proof.
  induction a as [|a IH]; intros [|x h] H; cbn [length] in H; try lia.
  - reflexivity.
  - change (x :: firstn (S a) h = x :: (firstn a h ++ [nth a h 0])). f_equal. apply IH. lia.
Qed.

Lemma domain_of_suffix psl (Hpsl : psl_contract psl) host :
  exists pre, host = pre ++ domain_of psl host /\ (pre = [] \/ exists p, pre = p ++ [DOT]).
Proof.
  unfold domain_of. destruct (psl host) as [a b] eqn:E. destruct (Hpsl _ _ _ E) as (Hab & -> & Hdot).
  cbn [fst]. exists (take a host). split; [symmetry; apply take_drop|].
  destruct Hdot as [->|Hd]; [left; reflexivity|].
  destruct a as [|a]; [left; reflexivity|]. right.
  exists (take a host). cbn [Nat.sub] in Hd. rewrite Nat.sub_0_r in Hd.
  unfold take. rewrite <- Hd. apply firstn_S_nth. lia.
Qed.

(* ------------------------------------------------------------------ ASCII URLs: a decidable corollary *)
Lemma is_suffixb_complete x l : suffix_of x l -> is_suffixb x l = true.
Proof.
  intros [pre ->]. induction pre as [|a pre IH].
  - destruct x; cbn [is_suffixb app]; rewrite str_eqb_refl; reflexivity.
  - cbn [is_suffixb app]. rewrite IH. apply orb_true_r.
Qed.

Lemma skipn_skipn' {A} a b : forall (l : list A), skipn a (skipn b l) = skipn (a + b) l.
Proof.
  induction b as [|b IH]; intros l; [rewrite Nat.add_0_r; reflexivity|].
  destruct l as [|x l]; [rewrite !skipn_nil; reflexivity|].
  replace (a + S b)%nat with (S (a + b)) by lia. cbn [skipn]. apply IH.
Qed.

Lemma slice_ok_eq s a b h : slice s a b = Ok h -> h = take (b - a) (drop a s) /\ (a <= b)%nat.
Proof.
  unfold slice. destruct (Nat.leb a b) eqn:E; cbn [andb]; [|discriminate].
  destruct (_ && _ && _); [|discriminate]. intros H; inversion H. split; [reflexivity|]. apply Nat.leb_le. exact E.
Qed.

(* decidable corollary: from host_end on, the normalised URL is a suffix of the trimmed input *)
Theorem rest_copied idna input ser se hs he :
  idna_contract idna ->
  scan_chars idna input = POk (ser, se, hs, he) -> (hs < he)%nat ->
  is_suffixb (drop he ser) (encode_all (trim_input input)) = true.
Proof.
  intros Hidna H Hlt.
  destruct (scan_preserves_tail idna Hidna _ _ _ _ _ H Hlt) as (sp & hc & rc & h & [pre A] & _ & C & _).
  rewrite A, C, app_assoc, encode_all_app. apply is_suffixb_complete. exists (encode_all (pre ++ hc)). reflexivity.
Qed.

(* former finding F21 (fixed in /repo 115106e): the tab is dropped, the whole host is kept *)
Example F21_input_now_handled :
  scan (fun _ => None) (bs "http://a" ++ [9] ++ bs "b.com/x") = Ok (POk (bs "http://ab.com/x", 4%nat, 7%nat, 13%nat)).
Proof. vm_compute. reflexivity. Qed.

Definition psl_whole (h : str) : nat * nat := (O, length h).
Lemma psl_whole_contract : psl_contract psl_whole.
Proof. intros h a b H. inversion H; subst. repeat split; [lia|left; reflexivity]. Qed.

(* former finding F25 (fixed in /repo 115106e): an idna answer with a '/' inside (what the real
   idna returns for "é<U+FF0F>b.com") is rejected, the request is not built *)
Example F25_input_now_rejected :
  let idna := fun _ : str => Some (bs "xn--/b-9ia.com") in
  let u := hx "687474703a2f2fc3a9efbc8f622e636f6d2f78" in
  idna_contract idna /\ scan idna u = Ok (PErr IdnaError) /\
  Request_new idna psl_whole (fun _ => 0) (fun _ => []) u [] [] = Ok None.
Proof. split; [intros h e H; inversion H; reflexivity|]. split; vm_compute; reflexivity. Qed.

(* ------------------------------------------------------------------ examples: the hypotheses are satisfiable *)
Definition psl_example (h : str) : nat * nat :=
  if str_eqb h (bs "sub.example.com") || str_eqb h (bs "www.example.com") then (4%nat, 15%nat)
  else (O, length h).
Lemma psl_example_contract : psl_contract psl_example.
Proof.
  intros h a b H. unfold psl_example in H.
  destruct (str_eqb h (bs "sub.example.com")) eqn:E1.
  { apply str_eqb_eq in E1. subst h. inversion H; subst. vm_compute. repeat split; auto; lia. }
  destruct (str_eqb h (bs "www.example.com")) eqn:E2.
  { apply str_eqb_eq in E2. subst h. inversion H; subst. vm_compute. repeat split; auto; lia. }
  inversion H; subst. repeat split; [lia|left; reflexivity].
Qed.
Lemma idna_none_contract : idna_contract (fun _ => None).
Proof. intros h e H. discriminate. Qed.

(* a first-party websocket request with userinfo, port and upper-case scheme *)
Example request_new_example :
  exists r input,
    Request_new (fun _ => None) psl_example (fun _ => 0) (fun _ => [])
                (bs " WSS://user:pw@sub.example.com:8080/ad.js?x=1") (bs "https://www.example.com/") (bs "script")
    = Ok (Some r) /\
    decode_utf8 (bs " WSS://user:pw@sub.example.com:8080/ad.js?x=1") = Some input /\
    url r = bs "wss://user:pw@sub.example.com:8080/ad.js?x=1" /\ hostname r = bs "sub.example.com" /\
    is_third_party r = false /\ is_supported r = true /\ request_type_of r = RT_Websocket /\
    all_ascii (encode_all (trim_input input)) = true.
Proof. eexists. eexists. split; [vm_compute; reflexivity|]. split; [vm_compute; reflexivity|]. repeat split. Qed.

(* ------------------------------------------------------------------ generated tables vs hand-written ones *)
Lemma cpt_table_is_L0 : cpt_table = cpt_table_L0 /\ cpt_default = RT_Other.
Proof. split; reflexivity. Qed.

Lemma url_tables_are_L0 :
  url_special_schemes = special_schemes_L0 /\ url_file_schemes = ["file"%string] /\
  url_ignored_next_utf8 = [9; 10; 13] /\ url_ignored_parse_host = [9; 10; 13] /\
  url_ignored_host_filter = [9; 10; 13] /\ url_trim_max = 32 /\
  (forall b, idna_rejected b = true <-> b <= 32 \/ b = 127 \/ In b (bs "#/:<>?@[\]^|")).
Proof.
  repeat split; try reflexivity.
  - intros H. unfold idna_rejected in H. apply memN_In in H. cbn in H.
    repeat (destruct H as [<-|H]; [try (left; lia); try (right; left; reflexivity); right; right; cbn; tauto|]).
    destruct H.
  - intros [H|[->|H]].
    + assert (F : forallb (fun n => idna_rejected (N.of_nat n)) (seq 0 33) = true) by (vm_compute; reflexivity).
      rewrite forallb_forall in F. specialize (F (N.to_nat b)). rewrite N2Nat.id in F. apply F. apply in_seq. lia.
    + reflexivity.
    + cbn in H. repeat (destruct H as [<-|H]; [reflexivity|]). destruct H.
Qed.

Lemma userinfo_set_is_whatwg b : b < 128 -> in_userinfo_set b = whatwg_userinfo_encode b.
Proof.
  intros H.
  assert (F : forallb (fun n => Bool.eqb (in_userinfo_set (N.of_nat n)) (whatwg_userinfo_encode (N.of_nat n)))
                      (seq 0 128) = true) by (vm_compute; reflexivity).
  rewrite forallb_forall in F. specialize (F (N.to_nat b)).
  rewrite N2Nat.id in F. apply Bool.eqb_prop. apply F. apply in_seq. lia.
Qed.
