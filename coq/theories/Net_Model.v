(* Net_Model.v — L1 model of the network index: tokenizer (src/utils.rs), rule tokens
   (NetworkFilter::get_tokens), NetworkFilterList (new / add_filter / check / check_all),
   Blocker::new category split with $badfilter cancellation, the verdict combiner of
   Blocker::check_parameterised, and the tag operations.  The per-rule matcher is a parameter
   (C02/C03 model it); everything else mirrors the Rust code.  Definitions only. *)
From Adb Require Import Base Generated Hashing.

(* ------------------------------------------------------------------ tokenizer *)
(* is_allowed_filter: alphanumeric or '%'.  Bytes >= 128 are treated as allowed: every byte of
   an alphanumeric non-ASCII character (the theorems about tokens assume ASCII; see DESIGN §6). *)
Definition allowed (c : N) : bool := is_alnum c || N.eqb c allowed_extra_char || N.leb 128 c.
Definition STAR : N := 42.
Definition is_star_opt (p : option N) : bool := match p with Some c => N.eqb c STAR | None => false end.

(* [cur] = the token being read: (start offset, bytes in reverse); [prec] = preceding_ch;
   [n] = number of tokens pushed so far. Returns the token texts (hashing is applied by callers). *)
Fixpoint tk (skip_first skip_last : bool) (s : str) (i : nat) (cur : option (nat * str))
         (prec : option N) (n : nat) : list str :=
  match s with
  | [] =>
      match cur with
      | Some (st, t) =>
          if negb skip_last && (negb (Nat.eqb st 0) || negb skip_first) && Nat.ltb 1 (length t)
             && negb (is_star_opt prec) then [rev t] else []
      | None => []
      end
  | c :: r =>
      if Nat.leb TOKENS_MAX n then []
      else if allowed c then
        match cur with
        | None => tk skip_first skip_last r (S i) (Some (i, [c])) prec n
        | Some (st, t) => tk skip_first skip_last r (S i) (Some (st, c :: t)) prec n
        end
      else
        match cur with
        | Some (st, t) =>
            if (negb (Nat.eqb st 0) || negb skip_first) && Nat.ltb 1 (length t)
               && negb (N.eqb c STAR) && negb (is_star_opt prec)
            then rev t :: tk skip_first skip_last r (S i) None (Some c) (S n)
            else tk skip_first skip_last r (S i) None (Some c) n
        | None => tk skip_first skip_last r (S i) None (Some c) n
        end
  end.
Definition tokenize_filter (s : str) (skip_first skip_last : bool) : list str :=
  tk skip_first skip_last s O None None O.
Definition tokenize (s : str) : list str := tokenize_filter s false false.

(* ------------------------------------------------------------------ rules *)
Inductive fpart := FEmpty | FSimple (s : str) | FAnyOf (l : list str).
Record rule := {
  rid : N;                       (* fast_hash of the line *)
  rmask : N;
  rfilter : fpart;
  rhost : option str;
  rdomains : option (list N);    (* sorted hashes *)
  rnotdomains : option (list N);
  rmod : option str;             (* redirect / csp / removeparam argument *)
  rtag : option str }.

Definition has (m bit : N) : bool := N.eqb (N.land m bit) bit.
Definition flag (f : rule) (bit : N) : bool := has (rmask f) bit.
Definition is_exception f := flag f M_IS_EXCEPTION.
Definition is_important f := flag f M_IS_IMPORTANT.
Definition is_redirect f := flag f M_IS_REDIRECT.
Definition is_removeparam f := flag f M_IS_REMOVEPARAM.
Definition also_block_redirect f := flag f M_ALSO_BLOCK_REDIRECT.
Definition is_badfilter f := flag f M_BAD_FILTER.
Definition is_generic_hide f := flag f M_GENERIC_HIDE.
Definition is_csp f := flag f M_IS_CSP.
Definition is_regex f := flag f M_IS_REGEX.
Definition is_complete_regex f := flag f M_IS_COMPLETE_REGEX.
Definition is_left_anchor f := flag f M_IS_LEFT_ANCHOR.
Definition is_right_anchor f := flag f M_IS_RIGHT_ANCHOR.

(* VALID_PARAM = ^[a-zA-Z0-9_\-]+$ *)
Definition valid_param (p : str) : bool :=
  negb (match p with [] => true | _ => false end)
  && forallb (fun c => is_alnum c || N.eqb c 95 || N.eqb c 45) p.

Definition nullb {A} (l : list A) : bool := match l with [] => true | _ => false end.

Section WithHash.
Variable h : str -> N.           (* utils::fast_hash *)

Definition get_tokens (f : rule) : list (list N) :=
  let t0 := match rdomains f, rnotdomains f with
            | Some [d], None => [d]
            | _, _ => []
            end in
  let t1 := match rfilter f with
            | FSimple s =>
                if is_complete_regex f then []
                else
                  (* (is_plain || is_regex) is always true *)
                  let skip_last := negb (is_right_anchor f) in
                  let skip_first := negb (is_left_anchor f) in
                  map h (tokenize_filter s skip_first skip_last)
            | _ => []
            end in
  let t2 := if flag f M_IS_HOSTNAME_REGEX then []
            else match rhost f with Some hn => map h (tokenize hn) | None => [] end in
  let toks := t0 ++ t1 ++ t2 in
  let toks := if nullb toks && is_removeparam f then
                match rmod f with
                | Some p => if valid_param p then map h (tokenize (lower_str p)) else []
                | None => []
                end
              else toks in
  match nullb toks, rdomains f, rnotdomains f with
  | true, Some ds, None => map (fun d => [d]) ds
  | _, _, _ =>
      let for_http := flag f M_FROM_HTTP in
      let for_https := flag f M_FROM_HTTPS in
      [toks ++ (if for_http && negb for_https then [h (bs "http")]
                else if for_https && negb for_http then [h (bs "https")] else [])]
  end.

(* request side: tokens of the lower-cased URL plus the fallback 0 (request.rs calculate_tokens),
   probed after the source-hostname hashes (get_tokens_for_match) *)
Definition request_tokens (url_lower : str) : list N := map h (tokenize url_lower) ++ [0].
Definition probes (source_hashes : option (list N)) (url_lower : str) : list N :=
  (match source_hashes with Some l => l | None => [] end) ++ request_tokens url_lower.

(* ------------------------------------------------------------------ NetworkFilterList *)
Definition fmap := list (N * list rule).

Fixpoint lookup (m : fmap) (k : N) : option (list rule) :=
  match m with
  | [] => None
  | (k', b) :: r => if N.eqb k k' then Some b else lookup r k
  end.
Definition bucket (m : fmap) (k : N) : list rule :=
  match lookup m k with Some b => b | None => [] end.

(* binary_search_by(id) + insert: bucket sorted by id, an equal id is dropped *)
Fixpoint ins_sorted (f : rule) (b : list rule) : list rule :=
  match b with
  | [] => [f]
  | g :: r => if N.ltb (rid f) (rid g) then f :: b
              else if N.eqb (rid f) (rid g) then b else g :: ins_sorted f r
  end.
Fixpoint insert_dup (m : fmap) (k : N) (f : rule) : fmap :=
  match m with
  | [] => [(k, [f])]
  | (k', b) :: r => if N.eqb k k' then (k', ins_sorted f b) :: r
                    else (k', b) :: insert_dup r k f
  end.

(* token_histogram *)
Definition all_tokens (L : list rule) : list N := flat_map (fun f => List.concat (get_tokens f)) L.
Fixpoint count_occ_N (x : N) (l : list N) : N :=
  match l with [] => 0 | y :: r => (if N.eqb x y then 1 else 0) + count_occ_N x r end.
Definition bad_hashes : list N := map (fun s => h (bs s)) bad_tokens.
Definition histogram (L : list rule) : N * (N -> option N) :=
  let toks := all_tokens L in
  let total := N.of_nat (length toks) in
  (total, fun t => if memN t bad_hashes then Some total
                   else let c := count_occ_N t toks in if N.eqb c 0 then None else Some c).

(* the best-token loop, parametric in the count lookup *)
Fixpoint best_loop (cnt : N -> option N) (g : list N) (best minc : N) : N :=
  match g with
  | [] => best
  | t :: r =>
      match cnt t with
      | None => best_loop cnt r t 0
      | Some c => if N.ltb c minc then best_loop cnt r t c else best_loop cnt r best minc
      end
  end.
Definition best_token (cnt : N -> option N) (total : N) (g : list N) : N :=
  best_loop cnt g 0 (total + 1).

Definition place (cnt : N -> option N) (total : N) (m : fmap) (f : rule) : fmap :=
  fold_left (fun m g => insert_dup m (best_token cnt total g) f) (get_tokens f) m.

Definition fl_new (L : list rule) : fmap :=
  let '(total, cnt) := histogram L in
  fold_left (place cnt total) L [].

(* add_filter: counts are current bucket sizes *)
Definition map_len (m : fmap) : N := fold_left (fun a kb => a + N.of_nat (length (snd kb))) m 0.
Definition fl_add (m : fmap) (f : rule) : fmap :=
  let total := map_len m in
  fold_left (fun m' g =>
     insert_dup m' (best_token (fun t => match lookup m' t with
                                         | Some b => Some (N.of_nat (length b))
                                         | None => None end) total g) f)
    (get_tokens f) m.

Definition tag_ok (tags : list str) (f : rule) : bool :=
  match rtag f with Some t => mem_str t tags | None => true end.

Section WithMatcher.
Variable matches : rule -> bool.       (* NetworkFilter::matches against the request at hand *)

Definition hit (tags : list str) (f : rule) : bool := matches f && tag_ok tags f.
Definition check_all (m : fmap) (pr : list N) (tags : list str) : list rule :=
  match m with
  | [] => []
  | _ => flat_map (fun k => filter (hit tags) (bucket m k)) pr
  end.
Definition check (m : fmap) (pr : list N) (tags : list str) : option rule :=
  match check_all m pr tags with [] => None | f :: _ => Some f end.
End WithMatcher.

(* ------------------------------------------------------------------ Blocker *)
Definition fpart_view (p : fpart) : option str :=
  match p with
  | FEmpty => None
  | FSimple s => Some s
  | FAnyOf l => Some (join_with [124] l)
  end.
Definition get_id (f : rule) : N :=
  compute_filter_id (rmod f) (rmask f) (fpart_view (rfilter f)) (rhost f) (rdomains f) (rnotdomains f).
Definition get_id_without_badfilter (f : rule) : N :=
  compute_filter_id (rmod f) (N.land (rmask f) (N.lxor MASK64 M_BAD_FILTER))
                    (fpart_view (rfilter f)) (rhost f) (rdomains f) (rnotdomains f).

Inductive category := CCsp | CRemoveparam | CGenericHide | CException | CImportant | CTagged | CNormal | CNone.
(* the if-chain of Blocker::new (redirect membership is separate) *)
Definition category_of (f : rule) : category :=
  if is_csp f then CCsp
  else if is_removeparam f then CRemoveparam
  else if is_generic_hide f then CGenericHide
  else if is_exception f then CException
  else if is_important f && (negb (is_redirect f) || also_block_redirect f) then CImportant
  else if (match rtag f with Some _ => true | None => false end) && negb (is_redirect f) then CTagged
  else if (is_redirect f && also_block_redirect f) || negb (is_redirect f) then CNormal
  else CNone.
Definition cat_eqb (a b : category) : bool :=
  match a, b with
  | CCsp, CCsp | CRemoveparam, CRemoveparam | CGenericHide, CGenericHide | CException, CException
  | CImportant, CImportant | CTagged, CTagged | CNormal, CNormal | CNone, CNone => true
  | _, _ => false
  end.

Definition badfilter_ids (L : list rule) : list N :=
  map get_id_without_badfilter (filter is_badfilter L).
(* rules that survive $badfilter cancellation, in list order *)
Definition live (L : list rule) : list rule :=
  let bad := badfilter_ids L in
  filter (fun f => negb (memN (get_id f) bad || is_badfilter f)) L.
Definition of_cat (c : category) (L : list rule) : list rule :=
  filter (fun f => cat_eqb (category_of f) c) (live L).

Record blocker := {
  b_csp : fmap; b_exceptions : fmap; b_importants : fmap; b_redirects : fmap;
  b_removeparam : fmap; b_tagged : fmap; b_filters : fmap; b_generic_hide : fmap;
  b_tags : list str; b_tagged_all : list rule }.

Definition tagged_active (tags : list str) (all : list rule) : list rule :=
  filter (fun f => match rtag f with Some t => mem_str t tags | None => false end) all.

Definition blocker_new (L : list rule) : blocker :=
  {| b_csp := fl_new (of_cat CCsp L);
     b_exceptions := fl_new (of_cat CException L);
     b_importants := fl_new (of_cat CImportant L);
     b_redirects := fl_new (filter is_redirect (live L));
     b_removeparam := fl_new (of_cat CRemoveparam L);
     b_tagged := fl_new [];
     b_filters := fl_new (of_cat CNormal L);
     b_generic_hide := fl_new (of_cat CGenericHide L);
     b_tags := [];
     b_tagged_all := of_cat CTagged L |}.

(* use_tags / enable_tags / disable_tags -> tags_with_set *)
Definition tags_with_set (b : blocker) (tags : list str) : blocker :=
  {| b_csp := b_csp b; b_exceptions := b_exceptions b; b_importants := b_importants b;
     b_redirects := b_redirects b; b_removeparam := b_removeparam b;
     b_tagged := fl_new (tagged_active tags (b_tagged_all b));
     b_filters := b_filters b; b_generic_hide := b_generic_hide b;
     b_tags := tags; b_tagged_all := b_tagged_all b |}.
Fixpoint dedup_str (l : list str) : list str :=
  match l with [] => [] | x :: r => if mem_str x r then dedup_str r else x :: dedup_str r end.
Definition use_tags (b : blocker) (ts : list str) := tags_with_set b (dedup_str ts).
Definition enable_tags (b : blocker) (ts : list str) := tags_with_set b (dedup_str (ts ++ b_tags b)).
Definition disable_tags (b : blocker) (ts : list str) :=
  tags_with_set b (filter (fun t => negb (mem_str t ts)) (b_tags b)).
Definition tag_exists (b : blocker) (t : str) : bool := mem_str t (b_tags b).

Record verdict := { v_matched : bool; v_important : bool; v_exception : bool; v_filter : bool }.

Section Verdict.
Variable matches : rule -> bool.
Variable pr : list N.                    (* probes of the request *)

Definition orelse {A} (a b : option A) : option A := match a with Some _ => a | None => b end.

(* check_parameterised(request, resources, matched_rule = false, force_check_exceptions = false),
   blocking part; the request is supported *)
Definition blocker_check (b : blocker) : verdict :=
  let important_filter := check matches (b_importants b) pr (b_tags b) in
  let filter_ := match important_filter with
                 | None => orelse (check matches (b_tagged b) pr (b_tags b))
                                  (check matches (b_filters b) pr [])
                 | Some _ => important_filter
                 end in
  let exception_ := match filter_ with
                    | None => None
                    | Some f => if is_important f then None
                                else check matches (b_exceptions b) pr (b_tags b)
                    end in
  let important := match filter_ with Some f => is_important f | None => false end in
  {| v_matched := (match exception_ with None => true | Some _ => false end)
                  && (match filter_ with Some _ => true | None => false end);
     v_important := important;
     v_exception := match exception_ with Some _ => true | None => false end;
     v_filter := match filter_ with Some _ => true | None => false end |}.

(* check_parameterised with both flags (Engine::check_network_request_subset):
   [mr] = matched_rule (an earlier engine already matched), [fc] = force_check_exceptions *)
Definition blocker_check_p (mr fc : bool) (b : blocker) : verdict :=
  let important_filter := check matches (b_importants b) pr (b_tags b) in
  let filter_ := match important_filter with
                 | None => if mr then None
                           else orelse (check matches (b_tagged b) pr (b_tags b))
                                       (check matches (b_filters b) pr [])
                 | Some _ => important_filter
                 end in
  let exception_ := match filter_ with
                    | None => if mr || fc then check matches (b_exceptions b) pr (b_tags b) else None
                    | Some f => if is_important f then None
                                else check matches (b_exceptions b) pr (b_tags b)
                    end in
  let important := match filter_ with Some f => is_important f | None => false end in
  {| v_matched := (match exception_ with None => true | Some _ => false end)
                  && ((match filter_ with Some _ => true | None => false end) || mr);
     v_important := important;
     v_exception := match exception_ with Some _ => true | None => false end;
     v_filter := match filter_ with Some _ => true | None => false end |}.

(* the lists whose every hit matters *)
Definition redirect_hits (b : blocker) : list rule := check_all matches (b_redirects b) pr [].
Definition removeparam_hits (b : blocker) : list rule := check_all matches (b_removeparam b) pr [].
Definition csp_hits (b : blocker) : list rule := check_all matches (b_csp b) pr (b_tags b).
(* check_generic_hide: the generic_hide list receives the enabled tags (/repo b8d0ade; before that
   fix it was probed with the empty set and a tagged generichide exception could never fire) *)
Definition generic_hide_hit (b : blocker) : bool :=
  match check matches (b_generic_hide b) pr (b_tags b) with Some _ => true | None => false end.

(* ------------------------------------------------------------------ L0: rule-by-rule *)
Definition act (tags : list str) (f : rule) : bool := matches f && tag_ok tags f.
Definition spec_verdict (L : list rule) (tags : list str) : verdict :=
  let imp := existsb (act tags) (of_cat CImportant L) in
  let blk := existsb (act tags) (tagged_active tags (of_cat CTagged L))
             || existsb (act []) (of_cat CNormal L) in
  let exc := existsb (act tags) (of_cat CException L) in
  {| v_matched := imp || (blk && negb exc);
     v_important := imp;
     v_exception := negb imp && blk && exc;
     v_filter := imp || blk |}.
(* rule-by-rule reading of the subset query: with matched_rule only important rules can add a
   blocking match; exceptions are consulted when something blocks un-importantly, or an earlier
   engine matched, or the caller forces it; "matched" also reports the earlier match *)
Definition spec_verdict_p (mr fc : bool) (L : list rule) (tags : list str) : verdict :=
  let imp := existsb (act tags) (of_cat CImportant L) in
  let blk := negb mr && (existsb (act tags) (tagged_active tags (of_cat CTagged L))
                         || existsb (act []) (of_cat CNormal L)) in
  let exc := existsb (act tags) (of_cat CException L) in
  let excp := negb imp && exc && (blk || mr || fc) in
  {| v_matched := negb excp && (imp || blk || mr);
     v_important := imp;
     v_exception := excp;
     v_filter := imp || blk |}.
Definition spec_redirect_hits (L : list rule) : list rule :=
  filter (act []) (filter is_redirect (live L)).
Definition spec_removeparam_hits (L : list rule) : list rule := filter (act []) (of_cat CRemoveparam L).
Definition spec_csp_hits (L : list rule) (tags : list str) : list rule := filter (act tags) (of_cat CCsp L).
Definition spec_generic_hide (L : list rule) (tags : list str) : bool := existsb (act tags) (of_cat CGenericHide L).
End Verdict.

End WithHash.

Definition verdict_eqb (a b : verdict) : bool :=
  Bool.eqb (v_matched a) (v_matched b) && Bool.eqb (v_important a) (v_important b)
  && Bool.eqb (v_exception a) (v_exception b) && Bool.eqb (v_filter a) (v_filter b).

(* ------------------------------------------------------------------ helpers for case files *)
Definition mkr (id mask : N) (fp : fpart) (host : option str) (d nd : option (list N))
           (md tg : option str) : rule :=
  {| rid := id; rmask := mask; rfilter := fp; rhost := host; rdomains := d; rnotdomains := nd;
     rmod := md; rtag := tg |}.

Definition ids_of (l : list rule) : list N := map rid l.
Fixpoint sorted_strict (l : list N) : bool :=
  match l with
  | a :: ((b :: _) as r) => N.ltb a b && sorted_strict r
  | _ => true
  end.
(* WellIndexed, evaluated on a dumped implementation list: [dump] = (token, rule ids in stored order) *)
Definition dump_bucket (dump : list (N * list N)) (k : N) : list N :=
  match find (fun kb => N.eqb (fst kb) k) dump with Some kb => snd kb | None => [] end.
Definition placed_b (h : str -> N) (dump : list (N * list N)) (f : rule) : bool :=
  forallb (fun g => match g with
                    | [] => memN (rid f) (dump_bucket dump 0)
                    | _ => existsb (fun k => memN (rid f) (dump_bucket dump k)) g
                    end) (get_tokens h f).
Definition well_indexed_b (h : str -> N) (L : list rule) (dump : list (N * list N)) : bool :=
  forallb (placed_b h dump) L
  && forallb (fun kb => forallb (fun i => memN i (ids_of L)) (snd kb) && sorted_strict (snd kb)) dump.
Definition tokens_eqb (a b : list (list N)) : bool := list_eqb (list_eqb N.eqb) a b.
Definition with_tags (h : str -> N) (b : blocker) (tags : list str) : blocker := tags_with_set h b tags.
