(* C16_Proofs.v — the label functions enumerate the label-aligned suffixes (S host), the bins hold
   what store_rule put there, hostname_cosmetic_resources is populate-minus-prune, and under hash
   injectivity on the strings of the case that is the covers semantics. *)
From Adb Require Import Base BaseProofs C17_Model C17_Proofs C16_Model.
From Adb Require Generated.
From Coq Require Import ZifyBool ZifyNat ZifyN.

(* ------------------------------------------------------------------ rfind_byte *)
Lemma rfind_byte_None c s : rfind_byte c s = None <-> ~ In c s.
Proof.
  induction s as [|x s IH]; cbn; [tauto|].
  destruct (rfind_byte c s) as [j|].
  - split; [discriminate|]. intros H. exfalso. apply H. right.
    destruct (in_dec N.eq_dec c s) as [G|G]; [exact G|]. apply IH in G. discriminate.
  - destruct (N.eqb x c) eqn:E.
    + apply N.eqb_eq in E. split; [discriminate|]. intros H. exfalso. apply H. auto.
    + apply N.eqb_neq in E. split; [|reflexivity]. intros _ [G|G]; [congruence|].
      apply (proj1 IH); auto.
Qed.

Lemma rfind_byte_Some c s i :
  rfind_byte c s = Some i -> exists a b, s = a ++ c :: b /\ length a = i /\ ~ In c b.
Proof.
  revert i; induction s as [|x s IH]; cbn; intros i H; [discriminate|].
  destruct (rfind_byte c s) as [j|] eqn:F.
  - inversion H; subst i. destruct (IH j eq_refl) as (a & b & -> & Hl & Hb).
    exists (x :: a), b. cbn. auto.
  - destruct (N.eqb x c) eqn:E; [|discriminate]. inversion H; subst i.
    apply N.eqb_eq in E. subst x. exists [], s. cbn. repeat split; auto.
    apply rfind_byte_None. exact F.
Qed.

(* ------------------------------------------------------------------ label-aligned suffixes *)
Lemma after_dots_In s x : In x (after_dots s) <-> exists a, s = a ++ DOT :: x.
Proof.
  induction s as [|c r IH]; cbn.
  - split; [intros []|]. intros (a & H). destruct a; discriminate.
  - rewrite in_app_iff, IH. split.
    + intros [H|(a & ->)].
      * destruct (N.eqb c DOT) eqn:E; [|destruct H]. destruct H as [<-|[]].
        apply N.eqb_eq in E. subst c. exists []. reflexivity.
      * exists (c :: a). reflexivity.
    + intros (a & H). destruct a as [|c' a]; cbn in H; inversion H; subst.
      * left. change (N.eqb DOT DOT) with true. cbn. auto.
      * right. eauto.
Qed.

Theorem label_suffixes_In s x : In x (label_suffixes s) <-> x = s \/ exists a, s = a ++ DOT :: x.
Proof. unfold label_suffixes. cbn. rewrite after_dots_In. split; intros [H|H]; auto. Qed.

Lemma slice_after a b : slice (a ++ DOT :: b) (S (length a)) (length (a ++ DOT :: b)) = b.
Proof.
  unfold slice.
  replace (drop (S (length a)) (a ++ DOT :: b)) with b.
  - rewrite app_length. cbn [length].
    replace (length a + S (length b) - S (length a))%nat with (length b) by lia.
    unfold take. apply firstn_all.
  - replace (a ++ DOT :: b) with ((a ++ [DOT]) ++ b) by (rewrite <- app_assoc; reflexivity).
    symmetry. apply drop_app_length'. rewrite app_length. cbn. lia.
Qed.

Lemma take_app_lt {A} (a b : list A) p : (length a < p)%nat ->
  take p (a ++ b) = a ++ take (p - length a) b.
Proof. intros H. unfold take. rewrite firstn_app. rewrite firstn_all2 by lia. reflexivity. Qed.

Lemma label_loop_In x fuel host e p :
  (p <= fuel)%nat -> (p <= length host)%nat ->
  (In x (label_loop fuel host e p) <->
   exists a b, host = a ++ DOT :: b /\ (length a < p)%nat /\ x = slice host (S (length a)) e).
Proof.
  revert p; induction fuel as [|f IH]; intros p Hf Hp.
  - cbn. split; [intros []|]. intros (a & b & _ & H & _). lia.
  - cbn [label_loop]. destruct (rfind_byte DOT (take p host)) as [i|] eqn:Hr.
    + destruct (rfind_byte_Some _ _ _ Hr) as (a0 & b0 & Ht & Hl & Hb0).
      assert (Hlen : length (take p host) = p) by (apply take_length_le; exact Hp).
      assert (Hip : (i < p)%nat).
      { rewrite <- Hlen, Ht, app_length. cbn. lia. }
      assert (Hhost : host = a0 ++ DOT :: (b0 ++ drop p host)).
      { rewrite <- (take_drop p host) at 1. rewrite Ht, <- app_assoc. reflexivity. }
      cbn [In]. rewrite (IH i) by lia. split.
      * intros [<-|(a & b & Ha & Hla & ->)].
        -- exists a0, (b0 ++ drop p host). subst i. repeat split; auto.
        -- exists a, b. repeat split; auto. lia.
      * intros (a & b & Ha & Hla & ->).
        destruct (Nat.lt_trichotomy (length a) i) as [Hlt|[Heq|Hgt]].
        -- right. exists a, b. auto.
        -- left. rewrite Heq. reflexivity.
        -- exfalso. apply Hb0.
           assert (Hn : nth (length a) (take p host) 0 = DOT).
           { rewrite Ha, take_app_lt by exact Hla.
             rewrite app_nth2 by lia. rewrite Nat.sub_diag.
             destruct (p - length a)%nat eqn:E; [lia|]. reflexivity. }
           rewrite Ht in Hn. rewrite app_nth2 in Hn by lia.
           destruct (length a - length a0)%nat as [|k] eqn:E; [lia|]. cbn in Hn.
           rewrite <- Hn. apply nth_In.
           assert (length (a0 ++ DOT :: b0) = p) by (rewrite <- Ht; exact Hlen).
           rewrite app_length in H. cbn in H. lia.
    + apply rfind_byte_None in Hr. split; [intros []|].
      intros (a & b & Ha & Hla & _). apply Hr. rewrite Ha, take_app_lt by exact Hla.
      apply in_or_app. right. destruct (p - length a)%nat eqn:E; [lia|]. cbn. auto.
Qed.

Lemma label_strings_all s x :
  s <> [] -> (In x (label_strings s (length s) (length s)) <-> In x (label_suffixes s)).
Proof.
  intros Hs. unfold label_strings.
  destruct (Nat.eqb (length s) 0) eqn:E; [apply Nat.eqb_eq in E; destruct s; [contradiction|discriminate]|].
  rewrite in_app_iff, label_loop_In by lia. rewrite label_suffixes_In. cbn [In].
  unfold take at 1. rewrite firstn_all. split.
  - intros [(a & b & Ha & Hl & ->)|[H|[]]]; [right|left; auto].
    exists a. rewrite Ha at 1. rewrite Ha, slice_after. reflexivity.
  - intros [->|(a & Ha)]; [right; auto|]. left. exists a, x. split; [exact Ha|]. split.
    + rewrite Ha, app_length. cbn. lia.
    + rewrite Ha, slice_after. reflexivity.
Qed.

(* hostname part: the label-aligned suffixes of the host at least as long as the domain *)
Theorem hostname_strings_enum host dom x :
  host <> [] -> (length dom <= length host)%nat ->
  (In x (hostname_strings host dom) <-> In x (label_suffixes host) /\ (length dom <= length x)%nat).
Proof.
  intros Hs Hd. unfold hostname_strings, label_strings.
  destruct (Nat.eqb (length host) 0) eqn:E; [apply Nat.eqb_eq in E; destruct host; [contradiction|discriminate]|].
  rewrite in_app_iff, label_loop_In by lia. rewrite label_suffixes_In. cbn [In].
  unfold take at 1. rewrite firstn_all. split.
  - intros [(a & b & Ha & Hl & ->)|[H|[]]].
    + rewrite Ha at 1 2. rewrite Ha, slice_after. split; [right; exists a; reflexivity|].
      rewrite Ha, app_length in Hl. cbn in Hl. lia.
    + subst x. auto.
  - intros [[->|(a & Ha)] Hx]; [right; auto|]. left. exists a, x. split; [exact Ha|]. split.
    + rewrite Ha, app_length. cbn. lia.
    + rewrite Ha, slice_after. reflexivity.
Qed.

(* entity part *)
Lemma hwps_contract pre l1 ps :
  ~ In DOT l1 ->
  get_hostname_without_public_suffix (pre ++ l1 ++ DOT :: ps) (l1 ++ DOT :: ps) = Some (pre ++ l1, ps).
Proof.
  intros Hl. unfold get_hostname_without_public_suffix.
  rewrite find_byte_app_notin by exact Hl. cbn [find_byte]. rewrite N.eqb_refl. rewrite Nat.add_0_r.
  assert (E1 : drop (S (length l1)) (l1 ++ DOT :: ps) = ps).
  { replace (l1 ++ DOT :: ps) with ((l1 ++ [DOT]) ++ ps) by (rewrite <- app_assoc; reflexivity).
    apply drop_app_length'. rewrite app_length. cbn. lia. }
  rewrite E1. f_equal. f_equal.
  - replace (pre ++ l1 ++ DOT :: ps) with ((pre ++ l1) ++ DOT :: ps) by (rewrite <- app_assoc; reflexivity).
    replace (length ((pre ++ l1) ++ DOT :: ps) - length ps - 1)%nat with (length (pre ++ l1))
      by (rewrite !app_length; cbn; lia).
    apply take_app_length.
  - replace (pre ++ l1 ++ DOT :: ps) with ((pre ++ l1 ++ [DOT]) ++ ps)
      by (rewrite <- !app_assoc; reflexivity).
    apply drop_app_length'. repeat (rewrite app_length; cbn [length]). lia.
Qed.

Theorem entity_strings_enum pre l1 ps x :
  ~ In DOT l1 -> pre ++ l1 <> [] ->
  (In x (entity_strings (pre ++ l1 ++ DOT :: ps) (l1 ++ DOT :: ps)) <->
   In x (label_suffixes (pre ++ l1)) \/ x = ps).
Proof.
  intros Hl Hne. unfold entity_strings. rewrite hwps_contract by exact Hl.
  rewrite in_app_iff, label_strings_all by exact Hne. cbn. intuition congruence.
Qed.

Theorem entity_strings_nodot host dom : ~ In DOT dom -> entity_strings host dom = [].
Proof.
  intros H. unfold entity_strings, get_hostname_without_public_suffix.
  apply find_byte_None in H. rewrite H. reflexivity.
Qed.

(* the strings hashed for the bin lookup are S host, as a set *)
Theorem lookup_set_is_S host dom x :
  psl_contract host dom -> (In x (lookup_strings host dom) <-> In x (S_host host dom)).
Proof.
  intros (pre & -> & Hpre & Hdom).
  assert (Hne : pre ++ dom <> []) by (destruct dom; [contradiction|destruct pre; discriminate]).
  unfold lookup_strings, S_host. rewrite !in_app_iff, filter_In, Nat.leb_le.
  rewrite hostname_strings_enum by (auto; rewrite app_length; lia).
  destruct (find_byte DOT dom) as [i|] eqn:Hf.
  - destruct (find_byte_Some _ _ _ Hf) as (Hi & _ & Hno & Hd).
    apply find_byte_None in Hno.
    set (l1 := take i dom) in *. set (ps := drop (S i) dom) in *.
    assert (Hl1 : pre ++ l1 <> []).
    { destruct dom as [|c d]; [contradiction|]. destruct i as [|i].
      - cbn in Hd. inversion Hd. contradiction.
      - unfold l1. cbn. destruct pre; discriminate. }
    rewrite Hd. rewrite entity_strings_enum by auto.
    replace (take (length (pre ++ l1 ++ DOT :: ps) - length ps - 1) (pre ++ l1 ++ DOT :: ps)) with (pre ++ l1).
    + rewrite in_app_iff. cbn [In]. intuition congruence.
    + replace (pre ++ l1 ++ DOT :: ps) with ((pre ++ l1) ++ DOT :: ps) by (rewrite <- app_assoc; reflexivity).
      replace (length ((pre ++ l1) ++ DOT :: ps) - length ps - 1)%nat with (length (pre ++ l1))
        by (rewrite !app_length; cbn; lia).
      symmetry. apply take_app_length.
  - apply find_byte_None in Hf. rewrite entity_strings_nodot by exact Hf. cbn [In]. tauto.
Qed.

(* ------------------------------------------------------------------ bins *)
Lemma tag_eqb_eq a b : tag_eqb a b = true <-> a = b.
Proof. destruct a, b; cbn; split; congruence. Qed.

Lemma bkey_eqb_eq a b : bkey_eqb a b = true <-> a = b.
Proof.
  destruct a as [t1 n1], b as [t2 n2]. unfold bkey_eqb. cbn.
  rewrite andb_true_iff, tag_eqb_eq, N.eqb_eq. split; [intros [-> ->]; reflexivity|].
  intros H; inversion H; auto.
Qed.

Lemma bkey_eqb_refl a : bkey_eqb a a = true.
Proof. apply bkey_eqb_eq. reflexivity. Qed.

Lemma bget_bpush k k' v m :
  bget k (bpush k' v m) = if bkey_eqb k k' then bget k m ++ [v] else bget k m.
Proof.
  induction m as [|[k'' b] m IH]; cbn.
  - destruct (bkey_eqb k k'); reflexivity.
  - destruct (bkey_eqb k' k'') eqn:E1; cbn.
    + apply bkey_eqb_eq in E1; subst k''. destruct (bkey_eqb k k'); reflexivity.
    + destruct (bkey_eqb k k'') eqn:E3; [|exact IH].
      apply bkey_eqb_eq in E3; subst k''. destruct (bkey_eqb k k') eqn:E4; [|reflexivity].
      apply bkey_eqb_eq in E4; subst. rewrite bkey_eqb_refl in E1. discriminate.
Qed.

Lemma bget_fold k es m :
  bget k (fold_left store es m) = bget k m ++ map snd (filter (fun e => bkey_eqb k (fst e)) es).
Proof.
  revert m; induction es as [|e es IH]; intros m; cbn [fold_left filter map].
  - rewrite app_nil_r. reflexivity.
  - rewrite IH. unfold store at 1. rewrite bget_bpush.
    destruct (bkey_eqb k (fst e)); cbn [map]; [rewrite <- app_assoc|]; reflexivity.
Qed.

(* ------------------------------------------------------------------ set operations *)
Lemma fold_insert_In (l : list (str * N)) acc s :
  In s (fold_left (fun acc e => set_insert (fst e) acc) l acc) <-> In s acc \/ In s (map fst l).
Proof.
  revert acc; induction l as [|a l IH]; intros acc; cbn; [tauto|].
  rewrite IH, set_insert_In. intuition (subst; auto).
Qed.

Lemma fold_insert_str_In (l acc : list str) s :
  In s (fold_left (fun acc x => set_insert x acc) l acc) <-> In s acc \/ In s l.
Proof.
  revert acc; induction l as [|a l IH]; intros acc; cbn; [tauto|].
  rewrite IH, set_insert_In. intuition (subst; auto).
Qed.

Lemma set_remove_In x l y : In y (set_remove x l) <-> In y l /\ y <> x.
Proof.
  unfold set_remove. rewrite filter_In, negb_true_iff. split; intros [A B]; split; auto.
  - intros ->. rewrite str_eqb_refl in B. discriminate.
  - apply str_eqb_neq. congruence.
Qed.

Lemma fold_remove_In (l : list (str * N)) acc s :
  In s (fold_left (fun acc e => set_remove (fst e) acc) l acc) <-> In s acc /\ ~ In s (map fst l).
Proof.
  revert acc; induction l as [|a l IH]; intros acc; cbn; [tauto|].
  rewrite IH, set_remove_In. intuition (subst; auto).
Qed.

Lemma script_or_fst s mask m x : In x (map fst (script_or s mask m)) <-> x = s \/ In x (map fst m).
Proof.
  induction m as [|[s' p] m IH]; cbn; [intuition|].
  destruct (str_eqb s s') eqn:E; cbn.
  - apply str_eqb_eq in E; subst. intuition.
  - rewrite IH. intuition.
Qed.

Lemma fold_script_or_In (l : list (str * N)) m x :
  In x (map fst (fold_left (fun acc e => script_or (fst e) (snd e) acc) l m)) <->
  In x (map fst m) \/ In x (map fst l).
Proof.
  revert m; induction l as [|a l IH]; intros m; cbn; [tauto|].
  rewrite IH, script_or_fst. intuition (subst; auto).
Qed.

Lemma script_remove_fst s m x : In x (map fst (script_remove s m)) <-> In x (map fst m) /\ x <> s.
Proof.
  unfold script_remove. rewrite !in_map_iff. split.
  - intros ([a b] & <- & H). apply filter_In in H as [H1 H2]. cbn in *.
    apply negb_true_iff, str_eqb_neq in H2. split; [exists (a, b); auto|congruence].
  - intros (([a b] & <- & H) & Hn). exists (a, b). split; [reflexivity|]. apply filter_In.
    split; [exact H|]. cbn in *. apply negb_true_iff, str_eqb_neq. congruence.
Qed.

Definition blanket (l : list (str * N)) : bool := existsb (fun e => null (fst e)) l.

Lemma blanket_In l : blanket l = true <-> In [] (map fst l).
Proof.
  unfold blanket. rewrite existsb_exists, in_map_iff. split.
  - intros (e & He & Hn). apply null_true in Hn. eauto.
  - intros (e & He & Hn). exists e. split; [exact Hn|]. apply null_true. exact He.
Qed.

Lemma uninject_one_spec m e a :
  (e = true -> m = []) ->
  snd (uninject_one (m, e) a) = e || null (fst a) /\
  (snd (uninject_one (m, e) a) = true -> fst (uninject_one (m, e) a) = []) /\
  (snd (uninject_one (m, e) a) = false ->
   forall x, In x (map fst (fst (uninject_one (m, e) a))) <-> In x (map fst m) /\ x <> fst a).
Proof.
  intros Hinv. unfold uninject_one. cbn [fst snd].
  destruct (null (fst a)) eqn:En; cbn [fst snd].
  - rewrite orb_true_r. split; [reflexivity|]. split; [reflexivity|]. intros H; discriminate.
  - rewrite orb_false_r. destruct e; cbn [fst snd].
    + split; [reflexivity|]. split; [intros _; apply Hinv; reflexivity|]. intros H; discriminate.
    + split; [reflexivity|]. split; [intros H; discriminate|]. intros _ x. apply script_remove_fst.
Qed.

Lemma uninject_fold l m e :
  (e = true -> m = []) ->
  snd (fold_left uninject_one l (m, e)) = e || blanket l /\
  (snd (fold_left uninject_one l (m, e)) = true -> fst (fold_left uninject_one l (m, e)) = []) /\
  (snd (fold_left uninject_one l (m, e)) = false ->
   forall x, In x (map fst (fst (fold_left uninject_one l (m, e)))) <->
             In x (map fst m) /\ ~ In x (map fst l)).
Proof.
  revert m e; induction l as [|a l IH]; intros m e Hinv; cbn [fold_left].
  - cbn. rewrite orb_false_r. split; [reflexivity|]. split; [exact Hinv|]. intros _ x. tauto.
  - destruct (uninject_one_spec m e a Hinv) as (H1 & H2 & H3).
    destruct (uninject_one (m, e) a) as [m' e'] eqn:Ha. cbn [fst snd] in *.
    destruct (IH m' e' H2) as (I1 & I2 & I3).
    split; [|split].
    + rewrite I1, H1. cbn [blanket existsb]. rewrite orb_assoc. reflexivity.
    + exact I2.
    + intros Hf x. rewrite (I3 Hf x). rewrite I1 in Hf. apply orb_false_iff in Hf as [He' _].
      rewrite (H3 He' x). cbn [map In]. intuition (subst; auto).
Qed.

(* ------------------------------------------------------------------ populate / prune over the hashes *)
Definition U (d : hdb) (tg : tag) (hashes : list N) : list (str * N) :=
  flat_map (fun hh => bget (tg, hh) d) hashes.

Lemma U_cons d tg hh hs : U d tg (hh :: hs) = bget (tg, hh) d ++ U d tg hs.
Proof. reflexivity. Qed.

Lemma populate_fold d hashes st :
  (forall s, In s (st_hide (fold_left (populate_step d) hashes st)) <->
             In s (st_hide st) \/ In s (map fst (U d THide hashes))) /\
  (forall s, In s (st_proc (fold_left (populate_step d) hashes st)) <->
             In s (st_proc st) \/ In s (map fst (U d TProc hashes))) /\
  (forall s, In s (map fst (st_scripts (fold_left (populate_step d) hashes st))) <->
             In s (map fst (st_scripts st)) \/ In s (map fst (U d TInject hashes))) /\
  st_exc (fold_left (populate_step d) hashes st) = st_exc st /\
  st_except_all (fold_left (populate_step d) hashes st) = st_except_all st.
Proof.
  revert st; induction hashes as [|hh hs IH]; intros st; cbn [fold_left].
  - cbn. split; [intros s; tauto|]. split; [intros s; tauto|]. split; [intros s; tauto|]. auto.
  - destruct (IH (populate_step d st hh)) as (A & B & C & D & E).
    split; [|split; [|split; [|split]]].
    + intros s. rewrite A. cbn [populate_step st_hide]. rewrite fold_insert_In, U_cons, map_app, in_app_iff. tauto.
    + intros s. rewrite B. cbn [populate_step st_proc]. rewrite fold_insert_In, U_cons, map_app, in_app_iff. tauto.
    + intros s. rewrite C. cbn [populate_step st_scripts]. rewrite fold_script_or_In, U_cons, map_app, in_app_iff. tauto.
    + rewrite D. reflexivity.
    + rewrite E. reflexivity.
Qed.

Lemma blanket_app a b : blanket (a ++ b) = blanket a || blanket b.
Proof. unfold blanket. apply existsb_app. Qed.

Lemma prune_fold d hashes st :
  (st_except_all st = true -> st_scripts st = []) ->
  (forall s, In s (st_hide (fold_left (prune_step d) hashes st)) <->
             In s (st_hide st) /\ ~ In s (map fst (U d TUnhide hashes))) /\
  (forall s, In s (st_proc (fold_left (prune_step d) hashes st)) <->
             In s (st_proc st) /\ ~ In s (map fst (U d TProcExc hashes))) /\
  (forall s, In s (st_exc (fold_left (prune_step d) hashes st)) <->
             In s (st_exc st) \/ In s (map fst (U d TUnhide hashes))) /\
  st_except_all (fold_left (prune_step d) hashes st) = st_except_all st || blanket (U d TUninject hashes) /\
  (st_except_all (fold_left (prune_step d) hashes st) = true ->
   st_scripts (fold_left (prune_step d) hashes st) = []) /\
  (st_except_all (fold_left (prune_step d) hashes st) = false ->
   forall x, In x (map fst (st_scripts (fold_left (prune_step d) hashes st))) <->
             In x (map fst (st_scripts st)) /\ ~ In x (map fst (U d TUninject hashes))).
Proof.
  revert st; induction hashes as [|hh hs IH]; intros st Hinv; cbn [fold_left].
  - cbn. rewrite orb_false_r.
    split; [intros s; tauto|]. split; [intros s; tauto|]. split; [intros s; tauto|].
    split; [reflexivity|]. split; [exact Hinv|]. intros _ x. tauto.
  - destruct (uninject_fold (bget (TUninject, hh) d) (st_scripts st) (st_except_all st) Hinv) as (U1 & U2 & U3).
    assert (Hinv' : st_except_all (prune_step d st hh) = true -> st_scripts (prune_step d st hh) = []).
    { cbn [prune_step st_except_all st_scripts]. exact U2. }
    destruct (IH (prune_step d st hh) Hinv') as (A & B & C & D & E & F).
    split; [|split; [|split; [|split; [|split]]]].
    + intros s. rewrite A. cbn [prune_step st_hide]. rewrite fold_remove_In, U_cons, map_app, in_app_iff. tauto.
    + intros s. rewrite B. cbn [prune_step st_proc]. rewrite fold_remove_In, U_cons, map_app, in_app_iff. tauto.
    + intros s. rewrite C. cbn [prune_step st_exc]. rewrite fold_insert_In, U_cons, map_app, in_app_iff. tauto.
    + rewrite D. cbn [prune_step st_except_all]. rewrite U1, U_cons, blanket_app, orb_assoc. reflexivity.
    + exact E.
    + intros Hf x. rewrite (F Hf x). rewrite D in Hf. apply orb_false_iff in Hf as [Hf1 _].
      cbn [prune_step st_except_all st_scripts] in Hf1 |- *. rewrite (U3 Hf1 x).
      rewrite U_cons, map_app, in_app_iff. tauto.
Qed.

(* ------------------------------------------------------------------ the cache *)
Section Cache.
Variable h : str -> N.
Variable uw : N -> bool.

Lemma contrib_unconstrained r : has_hostname_constraint r = false -> contrib r = [].
Proof.
  unfold has_hostname_constraint, contrib. intros H.
  apply orb_false_iff in H as [H H4]. apply orb_false_iff in H as [H H3]. apply orb_false_iff in H as [H1 H2].
  apply negb_false_iff, null_true in H1, H2, H3, H4. rewrite H1, H2, H3, H4.
  destruct (rule_kind_signed r); reflexivity.
Qed.

Lemma db_add_filter c r : db (add_filter h uw c r) = store_rule h (db c) r.
Proof.
  unfold add_filter. destruct (has_hostname_constraint r) eqn:E; cbn [db]; [reflexivity|].
  unfold store_rule, rule_entries. rewrite contrib_unconstrained by exact E. reflexivity.
Qed.

Lemma db_fold rules c :
  db (fold_left (add_filter h uw) rules c) = fold_left store (flat_map (rule_entries h) rules) (db c).
Proof.
  revert c; induction rules as [|r rules IH]; intros c; cbn [fold_left flat_map]; [reflexivity|].
  rewrite IH, db_add_filter, fold_left_app. reflexivity.
Qed.

Lemma gen_fold rules c :
  gen (fold_left (add_filter h uw) rules c) = fold_left (add_generic uw) (generic_selectors rules) (gen c).
Proof.
  revert c; induction rules as [|r rules IH]; intros c; [reflexivity|].
  unfold generic_selectors in *. cbn [fold_left flat_map]. rewrite IH, fold_left_app. f_equal.
  unfold add_filter, add_generic_rule.
  destruct (has_hostname_constraint r); cbn [gen]; [destruct (hidden_generic r)|];
    destruct (r_plain r); reflexivity.
Qed.

Theorem gen_build rules : gen (build_cache h uw rules) = build uw (generic_selectors rules).
Proof. unfold build_cache. rewrite gen_fold. reflexivity. Qed.

(* what the bins hold: in insertion order, the payloads store_rule put under that hash *)
Theorem bin_spec rules tg hh :
  bget (tg, hh) (db (build_cache h uw rules)) =
  map snd (filter (fun e => bkey_eqb (tg, hh) (fst e)) (flat_map (rule_entries h) rules)).
Proof. unfold build_cache. rewrite db_fold, bget_fold. reflexivity. Qed.

Lemma bin_In rules tg hh v :
  In v (bget (tg, hh) (db (build_cache h uw rules))) <->
  exists r x k, In r rules /\ In (x, k) (contrib r) /\ fst k = tg /\ h x = hh /\ v = payload k.
Proof.
  rewrite bin_spec, in_map_iff. split.
  - intros (e & <- & He). apply filter_In in He as (He & Hk). apply bkey_eqb_eq in Hk.
    apply in_flat_map in He as (r & Hr & He). unfold rule_entries in He.
    apply in_map_iff in He as ([x k] & <- & Hxk). cbn in Hk. inversion Hk.
    exists r, x, k. auto.
  - intros (r & x & k & Hr & Hxk & <- & <- & ->). exists ((fst k, h x), payload k).
    split; [reflexivity|]. apply filter_In. split; [|apply bkey_eqb_refl].
    apply in_flat_map. exists r. split; [exact Hr|]. unfold rule_entries. apply in_map_iff.
    exists (x, k). auto.
Qed.

Lemma payload_fst k : fst (payload k) = fst (snd k).
Proof. unfold payload. destruct (fst k); reflexivity. Qed.

(* ---------------------------------------------------------------- populate minus prune *)
Definition lookup_hashes host dom : list N := map h (lookup_strings host dom).
Definition Us (c : cache) host dom tg : list str := map fst (U (db c) tg (lookup_hashes host dom)).

Theorem resources_algebra c host dom gh :
  let R := hostname_cosmetic_resources h c host dom gh in
  (forall s, In s (hide_selectors R) <->
     (In s (Us c host dom THide) /\ ~ In s (Us c host dom TUnhide)) \/
     (gh = false /\ In s (misc (gen c)) /\ ~ In s (Us c host dom TUnhide))) /\
  (forall s, In s (exceptions R) <-> In s (Us c host dom TUnhide)) /\
  (forall s, In s (procedural_actions R) <->
     In s (Us c host dom TProc) /\ ~ In s (Us c host dom TProcExc)) /\
  (forall s, In s (map fst (script_injections R)) <->
     In s (Us c host dom TInject) /\ ~ In s (Us c host dom TUninject) /\ ~ In [] (Us c host dom TUninject)) /\
  generichide R = gh.
Proof.
  unfold hostname_cosmetic_resources, Us, lookup_hashes, lookup_strings,
    get_entity_hashes_from_labels, get_hostname_hashes_from_labels.
  rewrite <- map_app.
  set (hashes := map h (entity_strings host dom ++ hostname_strings host dom)).
  destruct (populate_fold (db c) hashes init_state) as (P1 & P2 & P3 & P4 & P5).
  set (st1 := fold_left (populate_step (db c)) hashes init_state) in *.
  assert (Hinv : st_except_all st1 = true -> st_scripts st1 = []).
  { rewrite P5. cbn. discriminate. }
  destruct (prune_fold (db c) hashes st1 Hinv) as (Q1 & Q2 & Q3 & Q4 & Q5 & Q6).
  set (st2 := fold_left (prune_step (db c)) hashes st1) in *.
  cbn zeta. cbn [hide_selectors exceptions procedural_actions script_injections generichide].
  assert (Hexc : forall s, In s (st_exc st2) <-> In s (map fst (U (db c) TUnhide hashes))).
  { intros s. rewrite Q3, P4. cbn. tauto. }
  split; [|split; [|split; [|split]]].
  - intros s. destruct gh.
    + rewrite Q1, P1. cbn [init_state st_hide In]. intuition discriminate.
    + rewrite fold_insert_str_In, filter_In, not_mem_str, Hexc, Q1, P1. cbn [init_state st_hide In]. tauto.
  - exact Hexc.
  - intros s. rewrite Q2, P2. cbn [init_state st_proc In]. tauto.
  - intros s. rewrite <- blanket_In.
    assert (Hb : st_except_all st2 = blanket (U (db c) TUninject hashes)) by (rewrite Q4, P5; reflexivity).
    destruct (blanket (U (db c) TUninject hashes)) eqn:Hbl.
    + rewrite (Q5 Hb). cbn. intuition congruence.
    + rewrite (Q6 Hb s), P3. cbn [init_state st_scripts map In]. intuition congruence.
  - reflexivity.
Qed.

(* ---------------------------------------------------------------- covers semantics *)
Lemma Us_spec rules host dom tg s :
  In s (Us (build_cache h uw rules) host dom tg) <->
  exists r x p, In r rules /\ In (x, (tg, (s, p))) (contrib r) /\ In (h x) (lookup_hashes host dom).
Proof.
  unfold Us, U. rewrite in_map_iff. split.
  - intros (v & <- & Hv). apply in_flat_map in Hv as (hh & Hhh & Hv).
    apply bin_In in Hv as (r & x & k & Hr & Hxk & <- & <- & ->).
    rewrite payload_fst. destruct k as [tg [s p]]. cbn. eauto 7.
  - intros (r & x & p & Hr & Hxk & Hh). exists (payload (tg, (s, p))). split; [apply payload_fst|].
    apply in_flat_map. exists (h x). split; [exact Hh|]. apply bin_In.
    exists r, x, (tg, (s, p)). auto.
Qed.

Lemma covers_hash rules host dom r x k :
  inj_on h (lookup_strings host dom ++ all_locations rules) ->
  In r rules -> In (x, k) (contrib r) ->
  (In (h x) (lookup_hashes host dom) <-> covers host dom x).
Proof.
  intros Hinj Hr Hxk. unfold lookup_hashes, covers. rewrite in_map_iff. split.
  - intros (y & Hy & Hin). assert (y = x); [|subst; exact Hin].
    apply Hinj; auto; apply in_or_app; [left; exact Hin|right].
    unfold all_locations. apply in_flat_map. exists r. split; [exact Hr|].
    apply in_map_iff. exists (x, k). auto.
  - intros Hin. eauto.
Qed.

Lemma Us_applies rules host dom tg s :
  inj_on h (lookup_strings host dom ++ all_locations rules) ->
  (In s (Us (build_cache h uw rules) host dom tg) <-> applies_s rules host dom tg s).
Proof.
  intros Hinj. rewrite Us_spec. unfold applies_s, applies. split.
  - intros (r & x & p & Hr & Hxk & Hh). exists p, r, x. repeat split; auto.
    apply (covers_hash rules host dom r x _ Hinj Hr Hxk). exact Hh.
  - intros (p & r & x & Hr & Hxk & Hc). exists r, x, p. repeat split; auto.
    apply (covers_hash rules host dom r x _ Hinj Hr Hxk). exact Hc.
Qed.

Lemma misc_spec rules s :
  In s (misc (gen (build_cache h uw rules))) <->
  In s (generic_selectors rules) /\ key_from_selector uw s = None.
Proof.
  rewrite gen_build. rewrite (inv_mi uw _ _ (build_inv uw (generic_selectors rules))).
  rewrite classify_misc_iff. tauto.
Qed.

Theorem cosmetic_spec rules host dom gh :
  inj_on h (lookup_strings host dom ++ all_locations rules) ->
  let R := hostname_cosmetic_resources h (build_cache h uw rules) host dom gh in
  let A := applies_s rules host dom in
  (forall s, In s (hide_selectors R) <->
     (A THide s /\ ~ A TUnhide s) \/
     (gh = false /\ In s (generic_selectors rules) /\ key_from_selector uw s = None /\ ~ A TUnhide s)) /\
  (forall s, In s (exceptions R) <-> A TUnhide s) /\
  (forall s, In s (procedural_actions R) <-> A TProc s /\ ~ A TProcExc s) /\
  (forall s, In s (map fst (script_injections R)) <->
     A TInject s /\ ~ A TUninject s /\ ~ A TUninject []) /\
  generichide R = gh.
Proof.
  intros Hinj R A.
  destruct (resources_algebra (build_cache h uw rules) host dom gh) as (H1 & H2 & H3 & H4 & H5).
  fold R in H1, H2, H3, H4, H5.
  pose proof (fun tg s => Us_applies rules host dom tg s Hinj) as HU.
  split; [|split; [|split; [|split]]].
  - intros s. rewrite H1, !HU, misc_spec. unfold A. tauto.
  - intros s. rewrite H2, HU. unfold A. tauto.
  - intros s. rewrite H3, !HU. unfold A. tauto.
  - intros s. rewrite H4, !HU. unfold A. tauto.
  - exact H5.
Qed.
End Cache.

(* ------------------------------------------------------------------ permission masks of injections *)
(* HashMap::get on the script_injections map *)
Fixpoint sget (s : str) (m : list (str * N)) : option N :=
  match m with
  | [] => None
  | (s', p) :: r => if str_eqb s s' then Some p else sget s r
  end.
Definition or_opt (o : option N) (q : N) : option N :=
  Some (match o with Some p => N.lor p q | None => q end).
Definition acc_perm (s : str) (o : option N) (l : list (str * N)) : option N :=
  fold_left (fun o e => if str_eqb s (fst e) then or_opt o (snd e) else o) l o.

Lemma sget_script_or x s mask m :
  sget x (script_or s mask m) = if str_eqb x s then or_opt (sget s m) mask else sget x m.
Proof.
  induction m as [|[s' p] m IH]; cbn.
  - destruct (str_eqb x s); reflexivity.
  - destruct (str_eqb s s') eqn:E; cbn.
    + apply str_eqb_eq in E; subst s'. destruct (str_eqb x s) eqn:E2; [|reflexivity].
      rewrite ?str_eqb_refl; reflexivity.
    + destruct (str_eqb x s') eqn:E3.
      * apply str_eqb_eq in E3; subst s'. destruct (str_eqb x s) eqn:E4; [|reflexivity].
        apply str_eqb_eq in E4; subst. rewrite str_eqb_refl in E. discriminate.
      * rewrite IH. destruct (str_eqb x s); reflexivity.
Qed.

Lemma sget_fold x l m :
  sget x (fold_left (fun acc e => script_or (fst e) (snd e) acc) l m) = acc_perm x (sget x m) l.
Proof.
  revert m; induction l as [|a l IH]; intros m; cbn; [reflexivity|].
  unfold acc_perm in *. rewrite IH, sget_script_or. cbn [fold_left].
  destruct (str_eqb x (fst a)) eqn:E; [|reflexivity]. apply str_eqb_eq in E; subst. reflexivity.
Qed.

Lemma sget_script_remove x s m : sget x (script_remove s m) = if str_eqb x s then None else sget x m.
Proof.
  unfold script_remove. induction m as [|[s' p] m IH]; cbn [filter sget fst].
  - destruct (str_eqb x s); reflexivity.
  - destruct (str_eqb s s') eqn:E; cbn [negb sget].
    + rewrite IH. destruct (str_eqb x s) eqn:E2; [reflexivity|].
      apply str_eqb_eq in E; subst s'. rewrite E2. reflexivity.
    + destruct (str_eqb x s') eqn:E3; [|exact IH].
      apply str_eqb_eq in E3; subst s'. destruct (str_eqb x s) eqn:E4; [|reflexivity].
      apply str_eqb_eq in E4; subst. rewrite str_eqb_refl in E. discriminate.
Qed.

Lemma sget_uninject_sub l m e x p :
  sget x (fst (fold_left uninject_one l (m, e))) = Some p -> sget x m = Some p.
Proof.
  revert m e; induction l as [|a l IH]; intros m e; cbn [fold_left]; [auto|].
  intros H. destruct (uninject_one (m, e) a) as [m' e'] eqn:Ha. apply IH in H.
  unfold uninject_one in Ha. cbn [fst snd] in Ha.
  destruct (null (fst a)); cbn [fst snd] in Ha.
  - inversion Ha; subst. discriminate.
  - destruct e; inversion Ha; subst; [exact H|].
    rewrite sget_script_remove in H. destruct (str_eqb x (fst a)); [discriminate|exact H].
Qed.

Lemma populate_sget d hashes st x :
  sget x (st_scripts (fold_left (populate_step d) hashes st)) =
  acc_perm x (sget x (st_scripts st)) (U d TInject hashes).
Proof.
  revert st; induction hashes as [|hh hs IH]; intros st; cbn [fold_left]; [reflexivity|].
  rewrite IH. cbn [populate_step st_scripts]. rewrite sget_fold, U_cons.
  unfold acc_perm. rewrite fold_left_app. reflexivity.
Qed.

Lemma prune_sget_sub d hashes st x p :
  sget x (st_scripts (fold_left (prune_step d) hashes st)) = Some p -> sget x (st_scripts st) = Some p.
Proof.
  revert st; induction hashes as [|hh hs IH]; intros st; cbn [fold_left]; [auto|].
  intros H. apply IH in H. cbn [prune_step st_scripts] in H. apply sget_uninject_sub in H. exact H.
Qed.

Lemma acc_perm_bits s l : forall o p,
  acc_perm s o l = Some p ->
  forall i, N.testbit p i = true <->
            (exists p0, o = Some p0 /\ N.testbit p0 i = true) \/
            (exists q, In (s, q) l /\ N.testbit q i = true).
Proof.
  induction l as [|[s' q'] l IH]; intros o p H i.
  - cbn in H. subst o. split.
    + intros Hb. left. eauto.
    + intros [(p0 & E & Hb)|(q & [] & _)]. inversion E; subst. exact Hb.
  - unfold acc_perm in H. cbn [fold_left fst snd] in H.
    destruct (str_eqb s s') eqn:E.
    + apply str_eqb_eq in E; subst s'. fold (acc_perm s (or_opt o q') l) in H.
      rewrite (IH _ _ H i). unfold or_opt. split.
      * intros [(p0 & Ep & Hb)|(q & Hq & Hb)].
        -- inversion Ep; subst p0. destruct o as [p1|].
           ++ rewrite N.lor_spec in Hb. apply orb_true_iff in Hb as [Hb|Hb].
              ** left. eauto.
              ** right. exists q'. split; [left; reflexivity|exact Hb].
           ++ right. exists q'. split; [left; reflexivity|exact Hb].
        -- right. exists q. split; [right; exact Hq|exact Hb].
      * intros [(p0 & -> & Hb)|(q & [Hq|Hq] & Hb)].
        -- left. eexists. split; [reflexivity|]. rewrite N.lor_spec, Hb. reflexivity.
        -- inversion Hq; subst q. left. eexists. split; [reflexivity|].
           destruct o; [rewrite N.lor_spec, Hb; apply orb_true_r|exact Hb].
        -- right. eauto.
    + fold (acc_perm s o l) in H. rewrite (IH _ _ H i). split.
      * intros [A|(q & Hq & Hb)]; [left; exact A|]. right. exists q. split; [right; exact Hq|exact Hb].
      * intros [A|(q & [Hq|Hq] & Hb)]; [left; exact A| |right; eauto].
        inversion Hq; subst. rewrite str_eqb_refl in E. discriminate.
Qed.

Section Perm.
Variable h : str -> N.
Variable uw : N -> bool.

(* the mask the result holds for an injected scriptlet is the union of the masks of the
   identical injections found under the lookup hashes *)
Theorem script_mask_algebra c host dom gh s p :
  sget s (script_injections (hostname_cosmetic_resources h c host dom gh)) = Some p ->
  forall i, N.testbit p i = true <->
            exists q, In (s, q) (U (db c) TInject (lookup_hashes h host dom)) /\ N.testbit q i = true.
Proof.
  unfold hostname_cosmetic_resources, lookup_hashes, lookup_strings,
    get_entity_hashes_from_labels, get_hostname_hashes_from_labels.
  rewrite <- map_app. cbn [script_injections].
  intros H i. apply prune_sget_sub in H. rewrite populate_sget in H. cbn [init_state st_scripts sget] in H.
  rewrite (acc_perm_bits _ _ _ _ H i). split.
  - intros [(p0 & E & _)|A]; [discriminate|exact A].
  - intros A. right. exact A.
Qed.

Lemma U_inject_spec rules hashes s q :
  In (s, q) (U (db (build_cache h uw rules)) TInject hashes) <->
  exists r x, In r rules /\ In (x, (TInject, (s, q))) (contrib r) /\ In (h x) hashes.
Proof.
  unfold U. rewrite in_flat_map. split.
  - intros (hh & Hhh & Hv). apply bin_In in Hv as (r & x & k & Hr & Hxk & Hk & <- & Hp).
    destruct k as [tg [s' q']]. cbn in Hk. subst tg. cbn in Hp. inversion Hp; subst. eauto.
  - intros (r & x & Hr & Hxk & Hh). exists (h x). split; [exact Hh|]. apply bin_In.
    exists r, x, (TInject, (s, q)). auto.
Qed.

Theorem script_mask_spec rules host dom gh s p :
  inj_on h (lookup_strings host dom ++ all_locations rules) ->
  sget s (script_injections (hostname_cosmetic_resources h (build_cache h uw rules) host dom gh)) = Some p ->
  forall i, N.testbit p i = true <->
            exists q, applies rules host dom TInject s q /\ N.testbit q i = true.
Proof.
  intros Hinj H i. rewrite (script_mask_algebra _ _ _ _ _ _ H i). unfold applies. split.
  - intros (q & Hq & Hb). apply U_inject_spec in Hq as (r & x & Hr & Hxk & Hh).
    exists q. split; [|exact Hb]. exists r, x. repeat split; auto.
    apply (covers_hash h rules host dom r x _ Hinj Hr Hxk). exact Hh.
  - intros (q & (r & x & Hr & Hxk & Hc) & Hb). exists q. split; [|exact Hb].
    apply U_inject_spec. exists r, x. repeat split; auto.
    apply (covers_hash h rules host dom r x _ Hinj Hr Hxk). exact Hc.
Qed.
End Perm.

Lemma hash_lists h host dom :
  get_entity_hashes_from_labels h host dom = map h (entity_strings host dom) /\
  get_hostname_hashes_from_labels h host dom = map h (hostname_strings host dom) /\
  (forall e sod, get_hashes_from_labels h host e sod = map h (label_strings host e sod)).
Proof. repeat split. Qed.

(* ------------------------------------------------------------------ examples: the hypotheses of
   the conditional theorems hold on non-trivial inputs *)
Definition inj_onb (h : str -> N) (l : list str) : bool :=
  forallb (fun a => forallb (fun b => negb (N.eqb (h a) (h b)) || str_eqb a b) l) l.
Lemma inj_onb_sound h l : inj_onb h l = true -> inj_on h l.
Proof.
  unfold inj_onb, inj_on. intros H a b Ha Hb E. rewrite forallb_forall in H.
  specialize (H a Ha). rewrite forallb_forall in H. specialize (H b Hb).
  apply N.eqb_eq in E. rewrite E in H. cbn in H. apply str_eqb_eq. exact H.
Qed.

Local Open Scope string_scope.
(* an injective stand-in for the 64-bit hash *)
Definition ex_h (s : str) : N := fold_left (fun acc c => acc * 257 + c + 1) s 0.
Definition ex_uw (c : N) : bool := false.
Definition ex_rules : list crule :=
  [ mkRule [] [bs "example"] [] [] false false (Some (bs ".ad")) false (bs "{}") 0;          (* example.*##.ad *)
    mkRule [] [] [bs "sub.example.com"] [] false false (Some (bs ".ad")) false (bs "{}") 0;  (* ~sub.example.com##.ad *)
    mkRule [bs "example.com"] [] [] [] false true (Some (bs "set, a, 1")) false (bs "{}") 0; (* example.com##+js(set, a, 1) *)
    mkRule [bs "co.uk"] [] [] [] true true (Some []) false (bs "{}") 0;                      (* co.uk#@#+js() *)
    mkRule [] [] [] [] false false (Some (bs "div[ad]")) false (bs "{}") 0;                  (* ##div[ad] *)
    mkRule [bs "com"] [] [] [] false false (Some (bs ".x")) true (bs "{style}") 0 ].         (* com##.x:style(..) *)

Example ex_contract : psl_contract (bs "a.b.example.co.uk") (bs "example.co.uk").
Proof.
  exists (bs "a.b."). split; [reflexivity|]. split; [right; exists (bs "a.b"); reflexivity|]. cbn. discriminate.
Qed.
Example ex_lookup_strings :
  lookup_strings (bs "a.b.example.co.uk") (bs "example.co.uk") =
  [bs "example"; bs "b.example"; bs "a.b.example"; bs "co.uk";
   bs "example.co.uk"; bs "b.example.co.uk"; bs "a.b.example.co.uk"].
Proof. vm_compute. reflexivity. Qed.
Example ex_inj :
  inj_on ex_h (lookup_strings (bs "sub.example.com") (bs "example.com") ++ all_locations ex_rules).
Proof. apply inj_onb_sound. vm_compute. reflexivity. Qed.
Example ex_resources :
  hostname_cosmetic_resources ex_h (build_cache ex_h ex_uw ex_rules) (bs "sub.example.com") (bs "example.com") false
  = mkRes [bs "div[ad]"] [bs "{style}"] [bs ".ad"] [(bs "set, a, 1", 0)] false.
Proof. vm_compute. reflexivity. Qed.
Example ex_resources_blanket :
  script_injections (hostname_cosmetic_resources ex_h (build_cache ex_h ex_uw
     (ex_rules ++ [mkRule [bs "example.co.uk"] [] [] [] false true (Some (bs "noop")) false (bs "{}") 0]))
     (bs "www.example.co.uk") (bs "example.co.uk") true) = [].
Proof. vm_compute. reflexivity. Qed.

(* ------------------------------------------------------------------ tie to the source text *)
Definition all_tags : list tag := [THide; TUnhide; TInject; TUninject; TProc; TProcExc].
Definition tag_name (t : tag) : string :=
  match t with
  | THide => "Hide" | TUnhide => "Unhide" | TInject => "InjectScript" | TUninject => "UninjectScript"
  | TProc => "ProceduralOrAction" | TProcExc => "ProceduralOrActionException"
  end.
Definition bin_name (t : tag) : string :=
  match t with
  | THide => "hide" | TUnhide => "unhide" | TInject => "inject_script" | TUninject => "uninject_script"
  | TProc => "procedural_action" | TProcExc => "procedural_action_exception"
  end.
Lemma tables_as_modelled :
  Generated.c16_negated_table = map (fun t => (tag_name t, tag_name (neg_tag t))) all_tags /\
  Generated.c16_store_table = map (fun t => (tag_name t, bin_name t)) all_tags /\
  Generated.c16_hash_chain = ["request_entities"; "request_hostnames"].
Proof. repeat split. Qed.

Example ex_mask :
  sget (bs "set, a, 1") (script_injections (hostname_cosmetic_resources ex_h (build_cache ex_h ex_uw ex_rules)
        (bs "sub.example.com") (bs "example.com") false)) = Some 0%N.
Proof. vm_compute. reflexivity. Qed.
Example ex_entity_hyps : ~ In DOT (bs "example") /\ (bs "a.b." ++ bs "example")%list <> [].
Proof. split; [cbn; intuition discriminate|discriminate]. Qed.
