(* C08_Engine_Proofs.v — proofs for C08_Engine_Model.v: serialize -> deserialize at the level of
   the whole Engine answer (BlockerResult incl. the redirect resolved against the engine's own
   resources and the rewritten URL; the CSP directives; the generichide bit).

   What the round trip is.  Engine::deserialize replaces blocker and cosmetic cache, re-applies the
   RECEIVER's enabled tags and keeps the RECEIVER's resources (resources are not part of the
   format).  Hence three premises beyond the state-level ones (rules_ok, keys_distinct):
     - stores_agree: the receiver's resources answer get_redirect_resource like the sender's
       (needed: engine_roundtrip_store_refuted);
     - the tag sets: either a tag set T is installed on both sides after loading
       (engine_roundtrip, the shape of C08_Query_Proofs.network_query_roundtrip), or the receiver
       already has T enabled and nothing is called after loading (engine_roundtrip_kept_tags), or
       receiver and sender have the same enabled set and the sender is compared as it stands
       (engine_roundtrip_same; needed: engine_roundtrip_tags_refuted);
     - no_removeparam for the rewritten URL only (F8; without it the theorem still gives every
       other field and `rewritten_url = None` after loading). *)
From Adb Require Import Base BaseProofs Generated Wire_Model Wire_Proofs C09_Model C09_Proofs
                        C08_Model C08_Proofs C08_Query_Model C08_Query_Proofs C08_Engine_Model.
From Adb Require Net_Model Engine_Model C13_Model C14_Model C15_Model C10_Model C10_Proofs.
From Coq Require Import Permutation.

(* ================================================================ resources: only get_redirect_resource is read *)
Lemma stores_agree_refl s : stores_agree s s.
Proof. intros name. reflexivity. Qed.
Lemma stores_agree_sym s s' : stores_agree s s' -> stores_agree s' s.
Proof. intros H name. symmetry. apply H. Qed.
Lemma stores_agree_trans s s' s'' : stores_agree s s' -> stores_agree s' s'' -> stores_agree s s''.
Proof. intros H H' name. rewrite (H name). apply H'. Qed.

Lemma redirect_of_agree s s' m : stores_agree s s' -> C13_Model.redirect_of s m = C13_Model.redirect_of s' m.
Proof.
  intros H. unfold C13_Model.redirect_of. destruct (C13_Model.pick_redirect m) as [name|]; [apply H|reflexivity].
Qed.

Theorem engine_check_store matches pr supported url s s' mr fc b : stores_agree s s' ->
  Engine_Model.engine_check matches pr supported url s mr fc b =
  Engine_Model.engine_check matches pr supported url s' mr fc b.
Proof.
  intros H. unfold Engine_Model.engine_check. rewrite (redirect_of_agree s s' _ H). reflexivity.
Qed.

(* ================================================================ same_answers: an equivalence, and what implies it *)
Lemma same_answers_refl g : same_answers g g.
Proof. intros matches pr supported url rtype mr fc. repeat split. Qed.
Lemma same_answers_sym g g' : same_answers g g' -> same_answers g' g.
Proof.
  intros H matches pr supported url rtype mr fc.
  destruct (H matches pr supported url rtype mr fc) as (H1 & H2 & H3). repeat split; symmetry; assumption.
Qed.
Lemma same_answers_trans g g' g'' : same_answers g g' -> same_answers g' g'' -> same_answers g g''.
Proof.
  intros H H' matches pr supported url rtype mr fc.
  destruct (H matches pr supported url rtype mr fc) as (H1 & H2 & H3).
  destruct (H' matches pr supported url rtype mr fc) as (H1' & H2' & H3').
  repeat split; etransitivity; eassumption.
Qed.

Lemma same_but_rewritten_trans r r' r'' :
  same_but_rewritten r r' -> same_but_rewritten r' r'' -> same_but_rewritten r r''.
Proof.
  intros (A1 & A2 & A3 & A4 & A5) (B1 & B2 & B3 & B4 & B5).
  repeat split; etransitivity; eassumption.
Qed.
Lemma same_but_rewritten_of_eq r r' : r = r' -> same_but_rewritten r r'.
Proof. intros <-. repeat split. Qed.

Lemma same_answers_weaken g g' : same_answers g g' -> same_answers_but_rewritten g g'.
Proof.
  intros H matches pr supported url rtype mr fc.
  destruct (H matches pr supported url rtype mr fc) as (H1 & H2 & H3).
  split; [apply same_but_rewritten_of_eq; exact H1|]. split; assumption.
Qed.
Lemma same_answers_but_rewritten_trans g g' g'' :
  same_answers_but_rewritten g g' -> same_answers_but_rewritten g' g'' -> same_answers_but_rewritten g g''.
Proof.
  intros H H' matches pr supported url rtype mr fc.
  destruct (H matches pr supported url rtype mr fc) as (H1 & H2 & H3).
  destruct (H' matches pr supported url rtype mr fc) as (H1' & H2' & H3').
  split; [eapply same_but_rewritten_trans; eassumption|]. split; etransitivity; eassumption.
Qed.

Theorem same_answers_of_agree g g' :
  net_agree_full (fe_net g) (fe_net g') -> stores_agree (fe_store g) (fe_store g') -> same_answers g g'.
Proof.
  intros A S matches pr supported url rtype mr fc. unfold fe_check, fe_csp, fe_generic_hide.
  split; [|split].
  - rewrite (engine_check_store matches pr supported url _ _ mr fc (fe_net g) S).
    apply engine_check_agree. exact A.
  - apply engine_csp_agree. apply A.
  - apply generic_hide_agree. apply A.
Qed.

Theorem same_answers_but_rewritten_of_agree g g' :
  net_agree (fe_net g) (fe_net g') -> stores_agree (fe_store g) (fe_store g') -> same_answers_but_rewritten g g'.
Proof.
  intros A S matches pr supported url rtype mr fc. unfold fe_check, fe_csp, fe_generic_hide.
  split; [|split].
  - rewrite (engine_check_store matches pr supported url _ _ mr fc (fe_net g) S).
    apply engine_check_agree_but_rewritten. exact A.
  - apply engine_csp_agree. exact A.
  - apply generic_hide_agree. exact A.
Qed.

(* ================================================================ tags *)
Section Tags.
  Variable build_list : list rule -> bool -> bucket_map.

  Lemma use_tags_idem tags b : use_tags build_list tags (use_tags build_list tags b) = use_tags build_list tags b.
  Proof. reflexivity. Qed.

  (* Engine::deserialize has already applied the receiver's tag set: a use_tags with the same set
     afterwards changes nothing (C07 has the general statement) *)
  Lemma install_kept_tags l w tags : b_tags_enabled (e_blocker l) = tags ->
    engine_use_tags build_list tags (install build_list l w) = install build_list l w.
  Proof. intros <-. reflexivity. Qed.

  (* a state whose tagged list is the one its own tag set builds reads like itself after use_tags
     with that set *)
  Lemma tags_installed_reads_same b : tags_installed build_list b ->
    reads_same_full (use_tags build_list (b_tags_enabled b) b) b.
  Proof.
    intros TI. split; [constructor|];
      cbn [use_tags b_csp b_exceptions b_importants b_redirects b_removeparam b_filters_tagged b_filters
           b_generic_hide b_tags_enabled];
      try (intros k; reflexivity); try reflexivity.
    intros k. symmetry. apply TI.
  Qed.

  Lemma tags_installed_use_tags tags b : tags_installed build_list (use_tags build_list tags b).
  Proof. intros k. reflexivity. Qed.

  Theorem tags_installed_same_answers g : tags_installed build_list (e_blocker (fe_state g)) ->
    same_answers (fe_use_tags build_list (b_tags_enabled (e_blocker (fe_state g))) g) g.
  Proof.
    intros TI. apply same_answers_of_agree; [|apply stores_agree_refl].
    apply reads_same_full_net_agree. apply tags_installed_reads_same. exact TI.
  Qed.
End Tags.

(* ================================================================ the round trip *)
Section RoundTrip.
  Variable as_css : str -> option (str * str).
  Variable build_list : list rule -> bool -> bucket_map.

  Section Engines.
    Variable l e : full_engine.           (* receiver, sender *)
    Hypothesis RO : rules_ok (e_blocker (fe_state e)).
    Hypothesis KD : keys_distinct (e_blocker (fe_state e)).

    (* the sender's rules and cosmetic state beside the receiver's resources *)
    Let e_l : full_engine := {| fe_state := fe_state e; fe_store := fe_store l |}.

    (* ---- no premise on the resources: the reloaded engine answers like the sender's rules
            with the RECEIVER's resources *)
    Theorem engine_roundtrip_receiver_store tags :
      let g' := fe_use_tags build_list tags (fe_install build_list l (fe_wire as_css e)) in
      let g0 := fe_use_tags build_list tags {| fe_state := fe_state e; fe_store := fe_store l |} in
      same_answers_but_rewritten g' g0 /\
      (forall matches pr supported url mr fc,
         Engine_Model.r_rewritten (fe_check matches pr supported url mr fc g') = None) /\
      (no_removeparam (e_blocker (fe_state e)) -> same_answers g' g0).
    Proof.
      cbv zeta. split; [|split].
      - apply same_answers_but_rewritten_of_agree; [|apply stores_agree_refl].
        exact (roundtrip_net_agree as_css build_list (fe_state l) (fe_state e) tags RO KD).
      - intros matches pr supported url mr fc. unfold fe_check. apply engine_check_no_rewrite.
        exact (roundtrip_net_removeparam as_css build_list (fe_state l) (fe_state e) tags RO KD).
      - intros NR. apply same_answers_of_agree; [|apply stores_agree_refl].
        exact (roundtrip_net_agree_full as_css build_list (fe_state l) (fe_state e) tags RO KD NR).
    Qed.

    Hypothesis SA : stores_agree (fe_store l) (fe_store e).

    Lemma receiver_store_same tags :
      same_answers (fe_use_tags build_list tags {| fe_state := fe_state e; fe_store := fe_store l |})
                   (fe_use_tags build_list tags e).
    Proof.
      apply same_answers_of_agree; [|exact SA].
      split; [constructor|]; try (intros k; reflexivity); reflexivity.
    Qed.

    (* ---- the shape of network_query_roundtrip: load, then install a tag set on both sides ---- *)
    Theorem engine_roundtrip tags :
      let g' := fe_use_tags build_list tags (fe_install build_list l (fe_wire as_css e)) in
      let g0 := fe_use_tags build_list tags e in
      same_answers_but_rewritten g' g0 /\
      (forall matches pr supported url mr fc,
         Engine_Model.r_rewritten (fe_check matches pr supported url mr fc g') = None) /\
      (no_removeparam (e_blocker (fe_state e)) -> same_answers g' g0).
    Proof.
      cbv zeta. destruct (engine_roundtrip_receiver_store tags) as (H1 & H2 & H3).
      split; [|split].
      - eapply same_answers_but_rewritten_trans; [exact H1|].
        apply same_answers_weaken. apply receiver_store_same.
      - exact H2.
      - intros NR. eapply same_answers_trans; [exact (H3 NR)|]. apply receiver_store_same.
    Qed.

    (* ---- the receiver has the tag set T enabled; nothing is called after deserialize ---- *)
    Theorem engine_roundtrip_kept_tags :
      let T := b_tags_enabled (e_blocker (fe_state l)) in
      let g' := fe_install build_list l (fe_wire as_css e) in
      let g0 := fe_use_tags build_list T e in
      same_answers_but_rewritten g' g0 /\
      (forall matches pr supported url mr fc,
         Engine_Model.r_rewritten (fe_check matches pr supported url mr fc g') = None) /\
      (no_removeparam (e_blocker (fe_state e)) -> same_answers g' g0).
    Proof.
      cbv zeta.
      pose proof (engine_roundtrip (b_tags_enabled (e_blocker (fe_state l)))) as H. cbv zeta in H.
      unfold fe_use_tags at 1 3 4 in H. unfold fe_install at 1 2 3 4 in H.
      cbn [fe_state fe_store] in H.
      rewrite (install_kept_tags build_list (fe_state l) (fe_wire as_css e) _ eq_refl) in H.
      exact H.
    Qed.

    (* ---- literally "deserialize (serialize e) answers like e": the sender as it stands, a
            receiver with the sender's enabled tags ---- *)
    Theorem engine_roundtrip_same :
      tags_installed build_list (e_blocker (fe_state e)) ->
      b_tags_enabled (e_blocker (fe_state l)) = b_tags_enabled (e_blocker (fe_state e)) ->
      let g' := fe_install build_list l (fe_wire as_css e) in
      same_answers_but_rewritten g' e /\
      (forall matches pr supported url mr fc,
         Engine_Model.r_rewritten (fe_check matches pr supported url mr fc g') = None) /\
      (no_removeparam (e_blocker (fe_state e)) -> same_answers g' e).
    Proof.
      intros TI ET. cbv zeta. destruct engine_roundtrip_kept_tags as (H1 & H2 & H3). rewrite ET in H1, H3.
      pose proof (tags_installed_same_answers build_list e TI) as S.
      split; [|split].
      - eapply same_answers_but_rewritten_trans; [exact H1|]. apply same_answers_weaken. exact S.
      - exact H2.
      - intros NR. eapply same_answers_trans; [exact (H3 NR)|exact S].
    Qed.
  End Engines.

  (* ---- an engine reloaded from its own bytes (l = e): no premise on resources or tags ---- *)
  Theorem engine_self_roundtrip e :
    rules_ok (e_blocker (fe_state e)) -> keys_distinct (e_blocker (fe_state e)) ->
    tags_installed build_list (e_blocker (fe_state e)) ->
    let g' := fe_install build_list e (fe_wire as_css e) in
    same_answers_but_rewritten g' e /\
    (no_removeparam (e_blocker (fe_state e)) -> same_answers g' e).
  Proof.
    intros RO KD TI. cbv zeta.
    destruct (engine_roundtrip_same e e RO KD (stores_agree_refl _) TI eq_refl) as (H1 & _ & H3).
    split; assumption.
  Qed.

  (* ---- the usual deployment: a fresh engine, use_resources with the sender's resources,
          use_tags T (in either order), then deserialize ---- *)
  Theorem engine_roundtrip_fresh e rs opt tags :
    rules_ok (e_blocker (fe_state e)) -> keys_distinct (e_blocker (fe_state e)) ->
    fe_store e = C13_Model.from_resources rs ->
    let l := fe_use_tags build_list tags (fe_use_resources rs (fe_new opt)) in
    let g' := fe_install build_list l (fe_wire as_css e) in
    let g0 := fe_use_tags build_list tags e in
    same_answers_but_rewritten g' g0 /\ (no_removeparam (e_blocker (fe_state e)) -> same_answers g' g0).
  Proof.
    intros RO KD ST. cbv zeta.
    assert (SA : stores_agree (fe_store (fe_use_tags build_list tags (fe_use_resources rs (fe_new opt)))) (fe_store e)).
    { cbn [fe_use_tags fe_use_resources fe_store]. rewrite ST. apply stores_agree_refl. }
    destruct (engine_roundtrip_kept_tags _ e RO KD SA) as (H1 & _ & H3).
    split; assumption.
  Qed.

  (* ================================================================ through the bytes *)
  (* The msgpack decoder is not modelled (C10_Model): it is a parameter, and the one thing asked of
     it is that it reads back the value the encoder was given for THIS engine. *)
  Section Bytes.
    Variable decode : list N -> option wire.

    Theorem engine_deserialize_own l e :
      decode (encode (wire_tree (fe_wire as_css e))) = Some (fe_wire as_css e) ->
      fe_deserialize build_list decode l (fe_serialize as_css e) =
      Ok (fe_install build_list l (fe_wire as_css e), None).
    Proof.
      intros D. unfold fe_deserialize, fe_serialize, serialize, C10_Model.deserialize.
      rewrite C10_Proofs.own_output_dispatch. unfold fe_wire in D. rewrite D. reflexivity.
    Qed.

    Theorem engine_bytes_roundtrip l e :
      decode (encode (wire_tree (fe_wire as_css e))) = Some (fe_wire as_css e) ->
      rules_ok (e_blocker (fe_state e)) -> keys_distinct (e_blocker (fe_state e)) ->
      stores_agree (fe_store l) (fe_store e) ->
      tags_installed build_list (e_blocker (fe_state e)) ->
      b_tags_enabled (e_blocker (fe_state l)) = b_tags_enabled (e_blocker (fe_state e)) ->
      exists g', fe_deserialize build_list decode l (fe_serialize as_css e) = Ok (g', None) /\
                 same_answers_but_rewritten g' e /\
                 (no_removeparam (e_blocker (fe_state e)) -> same_answers g' e).
    Proof.
      intros D RO KD SA TI ET. exists (fe_install build_list l (fe_wire as_css e)).
      split; [apply engine_deserialize_own; exact D|].
      destruct (engine_roundtrip_same l e RO KD SA TI ET) as (H1 & _ & H3). split; assumption.
    Qed.
  End Bytes.

  (* ================================================================ the matcher on the stored rule *)
  (* On a state with canonical unions a matcher given on the wire-side rule (all eleven fields,
     raw line ignored) sees through net_rule / net_matcher exactly what it sees on the stored
     rules, bucket by bucket; and the lists that travel over the wire come back with the very same
     rules (so canonical unions come back canonical). *)
  Theorem wire_matcher_bucket wm m k : ignores_raw wm -> bucket_unions_ok m ->
    map (net_matcher wm) (Net_Model.bucket (net_map m) k) = map wm (getn k m).
  Proof.
    intros IR U. rewrite bucket_net_map, map_map.
    pose proof (getn_forall unions_canonical k m U) as F.
    induction F as [|r rs UC _ IH]; cbn [map]; [reflexivity|].
    rewrite (wire_matcher_transport wm r IR UC), IH. reflexivity.
  Qed.

  Lemma bucket_unions_bins m : bucket_unions_ok m -> bins_unions_ok m.
  Proof. intros U k. apply getn_forall. exact U. Qed.

  Lemma filter_net_rule wm tags l : ignores_raw wm -> Forall unions_canonical l ->
    filter (Net_Model.hit (net_matcher wm) tags) (map net_rule l) =
    map net_rule (filter (fun r => wm r && w_tag_ok tags r) l).
  Proof.
    intros IR F. induction F as [|r rs UC _ IH]; cbn [map filter]; [reflexivity|].
    unfold Net_Model.hit at 1. rewrite (wire_matcher_transport wm r IR UC).
    change (Net_Model.tag_ok tags (net_rule r)) with (w_tag_ok tags r).
    destruct (wm r && w_tag_ok tags r); cbn [map]; rewrite IH; reflexivity.
  Qed.

  (* NetworkFilterList::check_all under the transported matcher = the stored rules the wire-side
     matcher accepts, translated *)
  Theorem check_all_wire wm m pr tags : ignores_raw wm -> bins_unions_ok m ->
    Net_Model.check_all (net_matcher wm) (net_map m) pr tags = map net_rule (w_check_all wm m pr tags).
  Proof.
    intros IR U. rewrite check_all_flat. unfold w_check_all.
    induction pr as [|k r IH]; cbn [flat_map map]; [reflexivity|].
    rewrite map_app, IH, bucket_net_map, (filter_net_rule wm tags _ IR (U k)). reflexivity.
  Qed.

  (* the lists that travel over the wire come back with the very same rules, bucket by bucket
     (the tagged list: rebuilt by the same build_list call on both sides) ... *)
  Theorem roundtrip_same_rules l e tags k :
    rules_ok (e_blocker e) -> keys_distinct (e_blocker e) ->
    let b' := e_blocker (engine_use_tags build_list tags (install build_list l (to_wire as_css (e_blocker e) (e_cosmetic e)))) in
    let b := e_blocker (engine_use_tags build_list tags e) in
    getn k (b_csp b') = getn k (b_csp b) /\ getn k (b_exceptions b') = getn k (b_exceptions b) /\
    getn k (b_importants b') = getn k (b_importants b) /\ getn k (b_redirects b') = getn k (b_redirects b) /\
    getn k (b_filters_tagged b') = getn k (b_filters_tagged b) /\ getn k (b_filters b') = getn k (b_filters b) /\
    getn k (b_generic_hide b') = getn k (b_generic_hide b) /\ getn k (b_removeparam b') = [].
  Proof.
    intros RO KD. cbv zeta.
    destruct (roundtrip_reads_same as_css build_list l e tags RO KD) as ([R1 R2 R3 R4 R5 R6 R7 _] & RP).
    rewrite RP. repeat split; [apply R1|apply R2|apply R3|apply R4|apply R5|apply R6|apply R7].
  Qed.

  (* ... hence canonical unions come back canonical: check_all_wire applies to the reloaded
     state wherever it applied to the original *)
  Theorem roundtrip_unions_ok l e tags :
    rules_ok (e_blocker e) -> keys_distinct (e_blocker e) ->
    let b' := e_blocker (engine_use_tags build_list tags (install build_list l (to_wire as_css (e_blocker e) (e_cosmetic e)))) in
    let b := e_blocker (engine_use_tags build_list tags e) in
    (bins_unions_ok (b_csp b) -> bins_unions_ok (b_csp b')) /\
    (bins_unions_ok (b_exceptions b) -> bins_unions_ok (b_exceptions b')) /\
    (bins_unions_ok (b_importants b) -> bins_unions_ok (b_importants b')) /\
    (bins_unions_ok (b_redirects b) -> bins_unions_ok (b_redirects b')) /\
    (bins_unions_ok (b_filters_tagged b) -> bins_unions_ok (b_filters_tagged b')) /\
    (bins_unions_ok (b_filters b) -> bins_unions_ok (b_filters b')) /\
    (bins_unions_ok (b_generic_hide b) -> bins_unions_ok (b_generic_hide b')) /\
    bins_unions_ok (b_removeparam b').
  Proof.
    intros RO KD. cbv zeta.
    assert (S := fun k => roundtrip_same_rules l e tags k RO KD). cbv zeta in S.
    repeat split; try (intros U k; destruct (S k) as (S1 & S2 & S3 & S4 & S5 & S6 & S7 & S8));
      [rewrite S1|rewrite S2|rewrite S3|rewrite S4|rewrite S5|rewrite S6|rewrite S7|]; try apply U.
    intros k. destruct (S k) as (_ & _ & _ & _ & _ & _ & _ & S8). rewrite S8. constructor.
  Qed.
End RoundTrip.

(* ================================================================ example *)
(* Four rules and one resource:
     1  ||ads.net^$redirect=noop.js        (redirects, and filters since redirect= also blocks)
     2  $removeparam=utm                    (removeparam)
     3  ||ads.net^$csp=img-src *            (csp)
     4  ||ads.net^$tag=t1                   (tagged_filters_all; in filters_tagged while t1 is enabled)
   tag t1 enabled, resource noop.js loaded. *)
Definition exe_rule (id mask : N) (pat : string) (mo tag : option str) : rule :=
  Build_rule mask (FSimple (bs pat)) None None mo (Some (bs "ads.net")) tag (Some (bs pat)) id None None.
(* rule 1 also carries $domain=..: two domain hashes 5, 2 and their union 5 | 2 = 7 *)
Definition exe_r1 : rule :=
  Build_rule (M_IS_REDIRECT + M_ALSO_BLOCK_REDIRECT + 1) (FSimple (bs "r")) (Some [5; 2]) None (Some (bs "noop.js"))
             (Some (bs "ads.net")) None (Some (bs "r")) 1 (Some 7) None.
Definition exe_r2 := exe_rule 2 (M_IS_REMOVEPARAM + 1) "p" (Some (bs "utm")) None.
Definition exe_r3 := exe_rule 3 (M_IS_CSP + M_FROM_DOCUMENT) "c" (Some (bs "img-src *")) None.
Definition exe_r4 := exe_rule 4 1 "t" None (Some (bs "t1")).
(* a stand-in for NetworkFilterList::new: everything under token 9 *)
Definition exe_build (l : list rule) (o : bool) : bucket_map := match l with [] => [] | _ => [(9, l)] end.
Definition exe_blocker (with_removeparam : bool) : blocker :=
  Build_blocker [(7, [exe_r3])] [] [] [(7, [exe_r1])] (if with_removeparam then [(1, [exe_r2])] else [])
                [(9, [exe_r4])] [(7, [exe_r1])] [] [bs "t1"] [exe_r4] true.
Definition exe_res : C13_Model.resource :=
  C13_Model.mk_res (bs "noop.js") [] (C13Gen.Kind_Mime C13Gen.Mime_ApplicationJavascript)
                   (bs "KGZ1bmN0aW9uKCkge30pKCk7") false true 0.
Definition exe_engine (with_removeparam : bool) : full_engine :=
  {| fe_state := Build_engine (exe_blocker with_removeparam) ex_cosmetic1 [];
     fe_store := C13_Model.from_resources [exe_res] |}.
(* the receiver: Engine::new(true), use_resources, use_tags *)
Definition exe_receiver (tags : list str) (rs : list C13_Model.resource) : full_engine :=
  fe_use_tags exe_build tags (fe_use_resources rs (fe_new true)).
Definition exe_reloaded (with_removeparam : bool) (tags : list str) (rs : list C13_Model.resource) : full_engine :=
  fe_install exe_build (exe_receiver tags rs) (fe_wire ex_css (exe_engine with_removeparam)).
(* the request: https://ads.net/a?utm=1&b=2, matched by every rule; probes 9, 7, 1, 0 *)
Definition exe_url : str := bs "https://ads.net/a?utm=1&b=2".
Definition exe_probes : list N := [9; 7; 1; 0].
Definition exe_all (f : Net_Model.rule) : bool := true.
Definition exe_data_url : str := bs "data:application/javascript;base64,KGZ1bmN0aW9uKCkge30pKCk7".

Lemma exe_rules_ok rp : rules_ok (exe_blocker rp).
Proof.
  constructor; unfold bucket_rules_ok; cbn [b_csp b_exceptions b_importants b_redirects
    b_filters_tagged b_filters b_generic_hide b_tagged_all exe_blocker snd]; forall_tac mo_tac.
Qed.
Lemma exe_keys_distinct rp : keys_distinct (exe_blocker rp).
Proof. constructor; cbn; nodup_tac. Qed.
Lemma exe_tags_installed rp : tags_installed exe_build (exe_blocker rp).
Proof. intros k. reflexivity. Qed.
Lemma exe_unions_ok rp : unions_ok (exe_blocker rp).
Proof.
  constructor; unfold bucket_unions_ok; destruct rp;
    cbn [b_csp b_exceptions b_importants b_redirects b_removeparam b_filters_tagged b_filters
         b_generic_hide exe_blocker snd]; forall_tac ltac:(split; reflexivity).
Qed.

(* without the removeparam rule: every premise of engine_roundtrip_same holds and the whole answer
   is the same before and after; it is not a trivial answer *)
Example engine_roundtrip_example :
  let e := exe_engine false in
  let g' := exe_reloaded false [bs "t1"] [exe_res] in
  rules_ok (e_blocker (fe_state e)) /\ keys_distinct (e_blocker (fe_state e)) /\
  tags_installed exe_build (e_blocker (fe_state e)) /\ no_removeparam (e_blocker (fe_state e)) /\
  stores_agree (fe_store (exe_receiver [bs "t1"] [exe_res])) (fe_store e) /\
  b_tags_enabled (e_blocker (fe_state (exe_receiver [bs "t1"] [exe_res]))) = b_tags_enabled (e_blocker (fe_state e)) /\
  fe_check exe_all exe_probes true exe_url false false g' = fe_check exe_all exe_probes true exe_url false false e /\
  fe_check exe_all exe_probes true exe_url false false e =
    Engine_Model.Build_result true false false true (Some exe_data_url) None /\
  fe_csp exe_all exe_probes RT_Document g' = Some [bs "img-src *"] /\
  fe_csp exe_all exe_probes RT_Document e = Some [bs "img-src *"].
Proof.
  cbv zeta. split; [apply exe_rules_ok|]. split; [apply exe_keys_distinct|].
  split; [apply exe_tags_installed|]. split; [reflexivity|]. split; [apply stores_agree_refl|].
  vm_compute. repeat split.
Qed.

(* with the removeparam rule (all four rules): before the round trip the URL is rewritten, after it
   it is not (F8); every other field, the CSP answer and the generichide bit are the same *)
Example engine_roundtrip_example_f8 :
  let e := exe_engine true in
  let g' := exe_reloaded true [bs "t1"] [exe_res] in
  rules_ok (e_blocker (fe_state e)) /\ keys_distinct (e_blocker (fe_state e)) /\
  tags_installed exe_build (e_blocker (fe_state e)) /\
  fe_check exe_all exe_probes true exe_url false false e =
    Engine_Model.Build_result true false false true (Some exe_data_url) (Some (bs "https://ads.net/a?b=2")) /\
  fe_check exe_all exe_probes true exe_url false false g' =
    Engine_Model.Build_result true false false true (Some exe_data_url) None /\
  fe_csp exe_all exe_probes RT_Document g' = fe_csp exe_all exe_probes RT_Document e /\
  fe_generic_hide exe_all exe_probes g' = fe_generic_hide exe_all exe_probes e.
Proof.
  cbv zeta. split; [apply exe_rules_ok|]. split; [apply exe_keys_distinct|].
  split; [apply exe_tags_installed|]. vm_compute. repeat split.
Qed.

(* ================================================================ the premises are needed *)
(* resources: a receiver that loaded no resources answers the same request without the redirect *)
Lemma engine_roundtrip_store_refuted : exists as_css build_list l e matches pr url,
  rules_ok (e_blocker (fe_state e)) /\ keys_distinct (e_blocker (fe_state e)) /\
  tags_installed build_list (e_blocker (fe_state e)) /\ no_removeparam (e_blocker (fe_state e)) /\
  b_tags_enabled (e_blocker (fe_state l)) = b_tags_enabled (e_blocker (fe_state e)) /\
  ~ stores_agree (fe_store l) (fe_store e) /\
  Engine_Model.r_redirect (fe_check matches pr true url false false e) = Some exe_data_url /\
  Engine_Model.r_redirect (fe_check matches pr true url false false
                             (fe_install build_list l (fe_wire as_css e))) = None.
Proof.
  exists ex_css, exe_build, (exe_receiver [bs "t1"] []), (exe_engine false), exe_all, exe_probes, exe_url.
  split; [apply exe_rules_ok|]. split; [apply exe_keys_distinct|]. split; [apply exe_tags_installed|].
  split; [reflexivity|]. split; [reflexivity|].
  split; [intros H; specialize (H (bs "noop.js")); vm_compute in H; discriminate|].
  vm_compute. split; reflexivity.
Qed.

(* tags: a receiver with no tag enabled (a fresh engine) does not apply the tagged rule: with only
   rule 4 matching, the sender blocks and the reloaded engine does not *)
Definition exe_only4 (f : Net_Model.rule) : bool := N.eqb (Net_Model.rid f) 4.
Lemma engine_roundtrip_tags_refuted : exists as_css build_list l e matches pr url,
  rules_ok (e_blocker (fe_state e)) /\ keys_distinct (e_blocker (fe_state e)) /\
  tags_installed build_list (e_blocker (fe_state e)) /\ no_removeparam (e_blocker (fe_state e)) /\
  stores_agree (fe_store l) (fe_store e) /\
  b_tags_enabled (e_blocker (fe_state l)) <> b_tags_enabled (e_blocker (fe_state e)) /\
  Engine_Model.r_matched (fe_check matches pr true url false false e) = true /\
  Engine_Model.r_matched (fe_check matches pr true url false false
                            (fe_install build_list l (fe_wire as_css e))) = false.
Proof.
  exists ex_css, exe_build, (exe_receiver [] [exe_res]), (exe_engine false), exe_only4, exe_probes, exe_url.
  split; [apply exe_rules_ok|]. split; [apply exe_keys_distinct|]. split; [apply exe_tags_installed|].
  split; [reflexivity|]. split; [apply stores_agree_refl|].
  split; [vm_compute; discriminate|]. vm_compute. split; reflexivity.
Qed.

(* the bytes: with a decoder that reads back this engine's own encoding, Engine::deserialize on
   Engine::serialize_raw's output is the install step the theorems talk about *)
Example engine_bytes_example :
  let e := exe_engine false in
  let l := exe_receiver [bs "t1"] [exe_res] in
  let w := fe_wire ex_css e in
  let decode := fun b => if bytes_eqb b (encode (wire_tree w)) then Some w else None in
  exists g', fe_deserialize exe_build decode l (fe_serialize ex_css e) = Ok (g', None) /\ same_answers g' e.
Proof.
  cbv zeta.
  set (decode := fun b => if bytes_eqb b (encode (wire_tree (fe_wire ex_css (exe_engine false))))
                          then Some (fe_wire ex_css (exe_engine false)) else None).
  assert (D : decode (encode (wire_tree (fe_wire ex_css (exe_engine false)))) = Some (fe_wire ex_css (exe_engine false)))
    by (vm_compute; reflexivity).
  destruct (engine_bytes_roundtrip ex_css exe_build decode (exe_receiver [bs "t1"] [exe_res]) (exe_engine false) D
              (exe_rules_ok false) (exe_keys_distinct false) (stores_agree_refl _) (exe_tags_installed false) eq_refl)
    as (g' & E & _ & S).
  exists g'. split; [exact E|]. apply S. reflexivity.
Qed.

(* the wire-side matcher on the example: rule 1 as stored vs. as the transported matcher sees it *)
Example wire_matcher_example :
  unions_ok (exe_blocker true) /\
  let wm := fun r : rule => match r_dunion r with Some 7 => N.eqb (r_id r) 1 | _ => false end in
  ignores_raw wm /\
  map (net_matcher wm) (Net_Model.bucket (net_map (b_filters (exe_blocker true))) 7) = [true] /\
  map r_id (w_check_all wm (b_filters (exe_blocker true)) exe_probes []) = [1] /\
  Net_Model.ids_of (Net_Model.check_all (net_matcher wm) (net_map (b_filters (exe_blocker true))) exe_probes []) = [1].
Proof.
  split; [apply exe_unions_ok|]. cbv zeta. split; [intros r raw; reflexivity|].
  vm_compute. repeat split.
Qed.
