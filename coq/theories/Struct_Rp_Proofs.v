(* Struct_Rp_Proofs.v — tie between Blocker::apply_removeparam as the translator extracts it on
   every run (Generated.RpGen: the bytes searched, the index expressions and slices, how the query
   is cut into parameters and printed back, the marking loop, the pieces of the answer) and the
   hand-written C14_Model.apply_removeparam.
   [interp_rp] executes the extracted statements in source order over an environment of the
   `let`-bound offsets; every slice `url[a..b]` is bounds-checked as Rust does (a <= b <= len,
   otherwise the interpretation is stuck = None), a variable used before it is bound is stuck.
   [interp_rp_is_model] proves, for every URL and every list of rule names (the modifier options of
   the hits, in the order check_all delivers them), that the interpretation is never stuck and IS
   apply_removeparam: the per-rule marking loop of the source equals the model's one-pass filter,
   the printed form of a parsed parameter is the parameter, and no slice is out of range. *)
From Coq Require Import String.
From Adb Require Import Base BaseProofs Generated C14_Model.
From Coq Require Import ZifyBool ZifyNat ZifyN.
Import RpGen.
Local Open Scope string_scope.
Local Open Scope list_scope.

(* ---- environment of let-bound offsets ---- *)
Definition env := list (string * nat).
Fixpoint lookup (e : env) (v : string) : option nat :=
  match e with
  | [] => None
  | (k, x) :: r => if String.eqb k v then Some x else lookup r v
  end.
Fixpoint ieval (e : env) (len : nat) (x : iexp) : option nat :=
  match x with
  | IVar v => lookup e v
  | ILen => Some len
  | IConst n => Some (N.to_nat n)
  | IAdd a b => match ieval e len a, ieval e len b with
                | Some p, Some q => Some (p + q)%nat
                | _, _ => None
                end
  end.
(* Rust `url[a..b]`: panics unless a <= b <= len (char boundaries: the offsets come from searches
   for ASCII bytes, see C14's level note) *)
Definition slice_of (e : env) (url : str) (sl : option iexp * option iexp) : option str :=
  let len := length url in
  let lo := match fst sl with None => Some O | Some a => ieval e len a end in
  let hi := match snd sl with None => Some len | Some b => ieval e len b end in
  match lo, hi with
  | Some a, Some b => if Nat.leb a b && Nat.leb b len then Some (take (b - a) (drop a url)) else None
  | _, _ => None
  end.

(* ---- parameters ---- *)
Inductive qparam := KeyOnly (k : str) | KeyValue (k v : str).
Definition parse_param (pair : str) : qparam :=
  match split_once kv_sep pair with
  | Some (k, v) => KeyValue k v
  | None => KeyOnly pair
  end.
Definition fpart_val (key value joined : str) (p : fpart) : str :=
  match p with F_lit s => s | F_key => key | F_value => value | F_joined => joined end.
Definition show (q : qparam) : str :=
  match q with
  | KeyOnly k => List.concat (map (fpart_val k [] []) show_keyonly)
  | KeyValue k v => List.concat (map (fpart_val k v []) show_keyvalue)
  end.

(* ---- the marking loop ---- *)
Definition rlit_val (name k v : str) (l : rlit) : bool :=
  match l with L_value_empty => null v | L_key_is_name => str_eqb k name end.
Definition hit (name : str) (q : qparam) : bool :=
  match q with
  | KeyValue k v => forallb (fun lp => Bool.eqb (rlit_val name k v (fst lp)) (snd lp)) mark_cond
  | KeyOnly _ => negb mark_only_keyvalue
  end.
Definition mark_one (name : str) (pm : qparam * bool) : qparam * bool :=
  if hit name (fst pm) then (fst pm, mark_sets_include) else pm.
Fixpoint mark_loop (names : list str) (params : list (qparam * bool)) (rewrite : bool)
  : list (qparam * bool) * bool :=
  match names with
  | [] => (params, rewrite)
  | n :: r =>
      mark_loop r (map (mark_one n) params)
                (if existsb (fun pm => hit n (fst pm)) params then mark_sets_rewrite else rewrite)
  end.

(* ---- the answer ---- *)
Fixpoint out_eval (e : env) (url new_param_str : str) (ps : list opart) : option str :=
  match ps with
  | [] => Some []
  | p :: r =>
      match (match p with
             | O_lit s => Some s
             | O_slice sl => slice_of e url sl
             | O_new_param_str => Some new_param_str
             end), out_eval e url new_param_str r with
      | Some a, Some b => Some (a ++ b)
      | _, _ => None
      end
  end.

Definition interp_rp (names : list str) (url : str) : option (option str) :=
  let len := length url in
  match (match find_byte fragment_byte url with
         | Some j => Some j
         | None => ieval [] len fragment_default end) with
  | None => None
  | Some fs =>
  let e1 := [(bind_fragment, fs)] in
  match slice_of e1 url query_slice with
  | None => None
  | Some qs =>
  match find_byte query_byte qs with
  | None => if no_query_is_none then Some None else None
  | Some i =>
  let e2 := (bind_query, i) :: e1 in
  match ieval e2 len params_start with
  | None => None
  | Some ps =>
  let e3 := (bind_params_start, ps) :: e2 in
  match slice_of e3 url hash_slice with
  | None => None
  | Some hs =>
  match (match find_byte hash_byte hs with
         | Some j => ieval ((bind_hash_j, j) :: e3) len hash_some
         | None => ieval e3 len hash_none end) with
  | None => None
  | Some hi =>
  let e4 := (bind_hash_index, hi) :: e3 in
  match slice_of e4 url qparams_slice with
  | None => None
  | Some qp =>
  let params := map (fun pair => (parse_param pair, initially_kept)) (split_on param_sep qp) in
  let '(params', rewrite) := mark_loop names params rewrite_start in
  if rewrite then
    let p := join_with join_sep (map (fun pm => show (fst pm)) (filter snd params')) in
    let new_param_str :=
      if null p then new_param_empty else List.concat (map (fpart_val [] [] p) new_param_nonempty) in
    match out_eval e4 url new_param_str out_parts with
    | Some s => Some (Some s)
    | None => None
    end
  else if no_rewrite_is_none then Some None else None
  end end end end end end end.

(* ================================================================ proofs *)

Lemma hit_spec name p :
  hit name (parse_param p) =
  match split_once EQS p with
  | Some (k, v) => negb (null v) && str_eqb k name
  | None => false
  end.
Proof.
  unfold parse_param, kv_sep. change 61%N with EQS.
  destruct (split_once EQS p) as [[k v]|]; [|reflexivity].
  unfold hit, mark_cond. cbn [forallb fst snd rlit_val].
  destruct (null v), (str_eqb k name); reflexivity.
Qed.

Lemma existsb_hit names p :
  existsb (fun n => hit n (parse_param p)) names = removed names p.
Proof.
  unfold removed. induction names as [|n r IH]; cbn [existsb].
  - destruct (split_once EQS p) as [[k v]|]; [|reflexivity]. cbn [mem_str]. now rewrite andb_false_r.
  - rewrite IH, hit_spec. destruct (split_once EQS p) as [[k v]|]; [|reflexivity].
    cbn [mem_str]. destruct (null v), (str_eqb k n), (mem_str k r); reflexivity.
Qed.

Lemma show_parse p : show (parse_param p) = p.
Proof.
  unfold parse_param, split_once, kv_sep.
  destruct (find_byte 61 p) as [i|] eqn:F.
  - unfold show, show_keyvalue. cbn [map fpart_val List.concat]. rewrite app_nil_r.
    destruct (find_byte_Some _ _ _ F) as (_ & _ & _ & E). symmetry. exact E.
  - unfold show, show_keyonly. cbn [map fpart_val List.concat]. now rewrite app_nil_r.
Qed.

(* the per-rule loop of the source = one pass with "some rule hits" *)
Lemma existsb_or {A} (f g : A -> bool) l :
  existsb (fun x => f x || g x) l = existsb f l || existsb g l.
Proof.
  induction l as [|x l IH]; [reflexivity|]. cbn [existsb]. rewrite IH.
  destruct (f x), (g x), (existsb f l), (existsb g l); reflexivity.
Qed.
Lemma existsb_false {A} (l : list A) : existsb (fun _ => false) l = false.
Proof. induction l as [|x l IH]; [reflexivity|exact IH]. Qed.

Lemma mark_loop_spec names : forall l rw,
  mark_loop names l rw =
  (map (fun pm => (fst pm, snd pm && negb (existsb (fun n => hit n (fst pm)) names))) l,
   rw || existsb (fun pm => existsb (fun n => hit n (fst pm)) names) l).
Proof.
  induction names as [|n r IH]; intros l rw; cbn [mark_loop].
  - f_equal.
    + rewrite <- (map_id l) at 1. apply map_ext. intros [q b]. cbn. now rewrite andb_true_r.
    + cbn [existsb]. now rewrite existsb_false, orb_false_r.
  - rewrite IH. f_equal.
    + rewrite map_map. apply map_ext. intros [q b]. unfold mark_one, mark_sets_include.
      cbn [fst snd existsb]. destruct (hit n q); cbn [fst snd]; [now rewrite andb_false_r|].
      reflexivity.
    + unfold mark_sets_rewrite.
      assert (E : existsb (fun pm => existsb (fun n0 => hit n0 (fst pm)) r) (map (mark_one n) l) =
                  existsb (fun pm => existsb (fun n0 => hit n0 (fst pm)) r) l).
      { induction l as [|x l IHl]; [reflexivity|]. cbn [map existsb]. rewrite IHl. f_equal.
        unfold mark_one. destruct (hit n (fst x)); reflexivity. }
      rewrite E. clear E IH.
      cbn [existsb].
      rewrite (existsb_or (fun pm => hit n (fst pm)) (fun pm => existsb (fun n0 => hit n0 (fst pm)) r)).
      destruct (existsb (fun pm => hit n (fst pm)) l), rw; reflexivity.
Qed.

Lemma marked_params names ps :
  mark_loop names (map (fun pair => (parse_param pair, initially_kept)) ps) rewrite_start =
  (map (fun p => (parse_param p, kept names p)) ps, negb (forallb (kept names) ps)).
Proof.
  rewrite mark_loop_spec, map_map. unfold initially_kept, rewrite_start. cbn [fst snd orb andb].
  f_equal.
  - apply map_ext. intros p. now rewrite existsb_hit.
  - induction ps as [|p ps IH]; [reflexivity|]. cbn [map existsb forallb fst]. rewrite IH, existsb_hit.
    unfold kept. destruct (removed names p); reflexivity.
Qed.

Lemma shown_kept names ps :
  map (fun pm => show (fst pm)) (filter snd (map (fun p => (parse_param p, kept names p)) ps)) =
  filter (kept names) ps.
Proof.
  induction ps as [|p ps IH]; [reflexivity|]. cbn [map filter snd].
  destruct (kept names p); cbn [map fst]; rewrite ?show_parse, IH; reflexivity.
Qed.

Lemma take_le_length {A} n (l : list A) : (length (take n l) <= length l)%nat.
Proof. unfold take. rewrite firstn_length. lia. Qed.
Lemma drop_length {A} n (l : list A) : length (drop n l) = (length l - n)%nat.
Proof. unfold drop. apply skipn_length. Qed.
Lemma find_byte_lt c s i : find_byte c s = Some i -> (i < length s)%nat.
Proof. intros H. apply (find_byte_Some _ _ _ H). Qed.
Lemma take_take_len {A} n (l : list A) : (n <= length l)%nat -> length (take n l) = n.
Proof. unfold take. intros H. rewrite firstn_length. lia. Qed.

Theorem interp_rp_is_model names url : interp_rp names url = Some (apply_removeparam names url).
Proof.
  unfold interp_rp, apply_removeparam.
  unfold fragment_byte, fragment_default, bind_fragment, query_slice, query_byte, no_query_is_none,
    bind_query, params_start, bind_params_start, hash_slice, hash_byte, bind_hash_j, hash_some,
    hash_none, bind_hash_index, qparams_slice, param_sep, join_sep, new_param_empty,
    new_param_nonempty, out_parts, no_rewrite_is_none.
  change 35%N with HASH. change 63%N with QMARK. change 38%N with AMP.
  set (fs := match find_byte HASH url with Some j => j | None => length url end).
  assert (Hfs : (fs <= length url)%nat).
  { unfold fs. destruct (find_byte HASH url) as [j|] eqn:F; [apply find_byte_lt in F; lia|lia]. }
  assert (E0 : match find_byte HASH url with Some j => Some j | None => ieval [] (length url) ILen end = Some fs).
  { unfold fs. destruct (find_byte HASH url); reflexivity. }
  rewrite E0. clear E0.
  unfold slice_of at 1. cbn [fst snd ieval lookup String.eqb Ascii.eqb Bool.eqb].
  cbn [Nat.leb andb]. replace (Nat.leb fs (length url)) with true by (symmetry; apply Nat.leb_le; exact Hfs).
  rewrite Nat.sub_0_r. change (drop 0 url) with url.
  destruct (find_byte QMARK (take fs url)) as [i|] eqn:Fq; [|reflexivity].
  assert (Hi : (i < length url)%nat).
  { apply find_byte_lt in Fq. pose proof (take_le_length fs url). lia. }
  cbn [ieval lookup String.eqb Ascii.eqb Bool.eqb N.to_nat].
  change (Pos.to_nat 1) with 1%nat.
  replace (i + 1)%nat with (S i) by lia.
  unfold slice_of at 1. cbn [fst snd ieval lookup String.eqb Ascii.eqb Bool.eqb].
  replace (Nat.leb (S i) (length url)) with true by (symmetry; apply Nat.leb_le; lia).
  rewrite Nat.leb_refl. cbn [andb].
  assert (Edrop : take (length url - S i) (drop (S i) url) = drop (S i) url).
  { unfold take. apply firstn_all2. rewrite drop_length. lia. }
  rewrite Edrop.
  set (hi := match find_byte HASH (drop (S i) url) with Some j => (S i + j)%nat | None => length url end).
  assert (Hhi : (S i <= hi <= length url)%nat).
  { unfold hi. destruct (find_byte HASH (drop (S i) url)) as [j|] eqn:F.
    - apply find_byte_lt in F. rewrite drop_length in F. lia.
    - lia. }
  assert (E1 : match find_byte HASH (drop (S i) url) with
               | Some j => Some (S i + j)%nat
               | None => Some (length url)
               end = Some hi).
  { unfold hi. destruct (find_byte HASH (drop (S i) url)); reflexivity. }
  rewrite E1. clear E1.
  unfold slice_of at 1. cbn [fst snd ieval lookup String.eqb Ascii.eqb Bool.eqb].
  replace (Nat.leb (S i) hi) with true by (symmetry; apply Nat.leb_le; lia).
  replace (Nat.leb hi (length url)) with true by (symmetry; apply Nat.leb_le; lia).
  cbn [andb].
  rewrite marked_params.
  destruct (forallb (kept names) (split_on AMP (take (hi - S i) (drop (S i) url)))) eqn:Fa;
    cbn [negb]; [reflexivity|].
  rewrite shown_kept.
  set (p := join_with [AMP] (filter (kept names) (split_on AMP (take (hi - S i) (drop (S i) url))))).
  cbn [out_eval]. unfold slice_of.
  cbn [fst snd ieval lookup String.eqb Ascii.eqb Bool.eqb N.to_nat].
  cbn [Nat.leb].
  replace (Nat.leb i (length url)) with true by (symmetry; apply Nat.leb_le; lia).
  replace (Nat.leb hi (length url)) with true by (symmetry; apply Nat.leb_le; lia).
  rewrite Nat.leb_refl. cbn [andb].
  rewrite Nat.sub_0_r. change (drop 0 url) with url.
  assert (Edrop2 : take (length url - hi) (drop hi url) = drop hi url).
  { unfold take. apply firstn_all2. rewrite drop_length. lia. }
  rewrite Edrop2. rewrite app_nil_r.
  do 3 f_equal.
  destruct (null p); [reflexivity|]. cbn [map fpart_val List.concat]. now rewrite app_nil_r.
Qed.

(* what the fragment records next to the string surgery *)
Theorem rp_hits_without_tags : hits_tags = "NO_TAGS".
Proof. reflexivity. Qed.

(* the same interpretation, read as "the Rust function never indexes out of range" *)
Corollary interp_rp_never_stuck names url : interp_rp names url <> None.
Proof. rewrite interp_rp_is_model. discriminate. Qed.

(* non-vacuity: a URL on which every statement of the function is executed *)
Example interp_rp_example :
  interp_rp [bs "utm"] (bs "https://x.com/p?a=1&utm=2&b#f") = Some (Some (bs "https://x.com/p?a=1&b#f")).
Proof. vm_compute. reflexivity. Qed.
