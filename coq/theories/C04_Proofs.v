(* C04_Proofs.v — precedence, $badfilter, and monotonicity of rule addition, on Net_Model. *)
From Adb Require Import Base BaseProofs Generated Hashing Net_Model Net_Proofs.
From Coq Require Import ZifyBool ZifyNat ZifyN.

Section C04.
Variable matches : rule -> bool.

Definition blocked_spec (L : list rule) (T : list str) : bool := v_matched (spec_verdict matches L T).

(* the three ingredients of the verdict *)
Definition imp L T := existsb (act matches T) (of_cat CImportant L).
Definition blk L T := existsb (act matches T) (tagged_active T (of_cat CTagged L))
                      || existsb (act matches []) (of_cat CNormal L).
Definition exc L T := existsb (act matches T) (of_cat CException L).

Lemma blocked_spec_eq L T : blocked_spec L T = imp L T || (blk L T && negb (exc L T)).
Proof. reflexivity. Qed.

(* ---- adding a rule that is not a $badfilter ---- *)
Lemma badfilter_ids_app L x : is_badfilter x = false -> badfilter_ids (L ++ [x]) = badfilter_ids L.
Proof.
  intros H. unfold badfilter_ids. rewrite filter_app. cbn. rewrite H. rewrite app_nil_r. reflexivity.
Qed.

Lemma live_app L x : is_badfilter x = false ->
  live (L ++ [x]) = live L ++ (if memN (get_id x) (badfilter_ids L) then [] else [x]).
Proof.
  intros H. unfold live. rewrite (badfilter_ids_app L x H). rewrite filter_app. f_equal.
  cbn. rewrite H. rewrite orb_false_r. destruct (memN _ _); reflexivity.
Qed.

Lemma of_cat_app c L x : is_badfilter x = false ->
  of_cat c (L ++ [x]) = of_cat c L ++
     (if memN (get_id x) (badfilter_ids L) then [] else if cat_eqb (category_of x) c then [x] else []).
Proof.
  intros H. unfold of_cat. rewrite (live_app L x H). rewrite filter_app. f_equal.
  destruct (memN _ _); [reflexivity|]. cbn. destruct (cat_eqb _ _); reflexivity.
Qed.

Lemma of_cat_app_other c L x : is_badfilter x = false -> category_of x <> c ->
  of_cat c (L ++ [x]) = of_cat c L.
Proof.
  intros H Hc. rewrite (of_cat_app c L x H). destruct (memN _ _); [apply app_nil_r|].
  destruct (cat_eqb (category_of x) c) eqn:E; [|apply app_nil_r].
  exfalso. apply Hc. destruct (category_of x), c; cbn in E; congruence.
Qed.

Lemma existsb_app_mono {A} (p : A -> bool) l l' : existsb p l = true -> existsb p (l ++ l') = true.
Proof. intros H. rewrite existsb_app, H. reflexivity. Qed.

(* Adding an exception rule never turns an allowed request into a blocked one. *)
Theorem add_exception_monotone L T x :
  is_badfilter x = false -> category_of x = CException ->
  blocked_spec (L ++ [x]) T = true -> blocked_spec L T = true.
Proof.
  intros Hb Hc. rewrite !blocked_spec_eq. unfold imp, blk, exc.
  rewrite (of_cat_app_other CImportant L x Hb) by (rewrite Hc; discriminate).
  rewrite (of_cat_app_other CTagged L x Hb) by (rewrite Hc; discriminate).
  rewrite (of_cat_app_other CNormal L x Hb) by (rewrite Hc; discriminate).
  rewrite (of_cat_app CException L x Hb). rewrite existsb_app.
  destruct (existsb (act matches T) (of_cat CImportant L)); [reflexivity|]. cbn [orb].
  destruct (existsb (act matches T) (of_cat CException L)); cbn [orb negb]; [rewrite !andb_false_r; auto|].
  intros H. apply andb_true_iff in H as [H1 _]. rewrite H1. reflexivity.
Qed.

Lemma tagged_active_app T l l' : tagged_active T (l ++ l') = tagged_active T l ++ tagged_active T l'.
Proof. unfold tagged_active. apply filter_app. Qed.

(* Adding a blocking rule never turns a blocked request into an allowed one. *)
Theorem add_blocking_monotone L T x :
  is_badfilter x = false ->
  (category_of x = CNormal \/ category_of x = CTagged \/ category_of x = CImportant) ->
  blocked_spec L T = true -> blocked_spec (L ++ [x]) T = true.
Proof.
  intros Hb Hc. rewrite !blocked_spec_eq. unfold imp, blk, exc.
  rewrite (of_cat_app_other CException L x Hb) by (destruct Hc as [E|[E|E]]; rewrite E; discriminate).
  rewrite (of_cat_app CImportant L x Hb), (of_cat_app CTagged L x Hb), (of_cat_app CNormal L x Hb).
  rewrite tagged_active_app, !existsb_app.
  destruct (existsb (act matches T) (of_cat CImportant L)); [reflexivity|]. cbn [orb].
  intros H. apply andb_true_iff in H as [H1 H2]. rewrite H2, andb_true_r.
  apply orb_true_iff in H1 as [H1|H1]; rewrite H1; cbn [orb]; rewrite ?orb_true_r; reflexivity.
Qed.

(* ---- $badfilter ---- *)
Theorem badfilter_never_active c L f : In f (of_cat c L) -> is_badfilter f = false.
Proof.
  unfold of_cat, live. intros H. apply filter_In in H as [H _]. apply filter_In in H as [_ H].
  apply negb_true_iff in H. apply orb_false_iff in H. tauto.
Qed.

Theorem badfilter_cancels_exactly L y :
  In y (live L) <->
  In y L /\ is_badfilter y = false /\
  (forall z, In z L -> is_badfilter z = true -> get_id_without_badfilter z <> get_id y).
Proof.
  unfold live. rewrite filter_In, negb_true_iff, orb_false_iff. split.
  - intros [Hy [Hm Hb]]. repeat split; auto. intros z Hz Hbz E.
    assert (In (get_id y) (badfilter_ids L)).
    { unfold badfilter_ids. rewrite <- E. apply in_map. apply filter_In; auto. }
    apply memN_In in H. congruence.
  - intros [Hy [Hb Hz]]. repeat split; auto.
    destruct (memN (get_id y) (badfilter_ids L)) eqn:E; [|reflexivity]. exfalso.
    apply memN_In in E. unfold badfilter_ids in E. apply in_map_iff in E as [z [E Hin]].
    apply filter_In in Hin as [Hin Hbz]. apply (Hz z Hin Hbz E).
Qed.

(* same pattern and same matching options as the badfilter rule (everything but the BAD_FILTER bit) *)
Definition same_modulo_badfilter (y z : rule) : Prop :=
  rmod y = rmod z /\ rmask y = N.land (rmask z) (N.lxor MASK64 M_BAD_FILTER) /\
  fpart_view (rfilter y) = fpart_view (rfilter z) /\ rhost y = rhost z /\
  rdomains y = rdomains z /\ rnotdomains y = rnotdomains z.

Theorem badfilter_cancels_same L y z :
  In z L -> is_badfilter z = true -> same_modulo_badfilter y z -> ~ In y (live L).
Proof.
  intros Hz Hb (E1 & E2 & E3 & E4 & E5 & E6) Hy.
  apply badfilter_cancels_exactly in Hy as (_ & _ & Hno). apply (Hno z Hz Hb).
  unfold get_id, get_id_without_badfilter. rewrite E1, E2, E3, E4, E5, E6. reflexivity.
Qed.

End C04.

(* engine-level corollaries: combine with the C01 engine theorem *)
Section C04Engine.
Variable h : str -> N.
Variable matches : rule -> bool.
Variable pr : list N.
Hypothesis pr_zero : In 0 pr.

Definition blocked_engine (L : list rule) (T : list str) : bool :=
  v_matched (blocker_check matches pr (tags_with_set h (blocker_new h L) T)).

Theorem blocked_engine_spec L T : id_inj L -> TG h matches pr L ->
  blocked_engine L T = imp matches L T || (blk matches L T && negb (exc matches L T)).
Proof.
  intros Hi Ht. unfold blocked_engine. rewrite (engine_eq_spec h matches pr pr_zero L T Hi Ht). reflexivity.
Qed.

Theorem engine_add_exception_monotone L T x :
  id_inj (L ++ [x]) -> TG h matches pr (L ++ [x]) ->
  is_badfilter x = false -> category_of x = CException ->
  blocked_engine (L ++ [x]) T = true -> blocked_engine L T = true.
Proof.
  intros Hi Ht Hb Hc.
  assert (Hi' : id_inj L) by (eapply id_inj_incl; [|exact Hi]; apply incl_appl, incl_refl).
  assert (Ht' : TG h matches pr L) by (eapply TG_incl; [|exact Ht]; apply incl_appl, incl_refl).
  unfold blocked_engine.
  rewrite (engine_eq_spec h matches pr pr_zero _ T Hi Ht), (engine_eq_spec h matches pr pr_zero _ T Hi' Ht').
  apply add_exception_monotone; auto.
Qed.

Theorem engine_add_blocking_monotone L T x :
  id_inj (L ++ [x]) -> TG h matches pr (L ++ [x]) ->
  is_badfilter x = false ->
  (category_of x = CNormal \/ category_of x = CTagged \/ category_of x = CImportant) ->
  blocked_engine L T = true -> blocked_engine (L ++ [x]) T = true.
Proof.
  intros Hi Ht Hb Hc.
  assert (Hi' : id_inj L) by (eapply id_inj_incl; [|exact Hi]; apply incl_appl, incl_refl).
  assert (Ht' : TG h matches pr L) by (eapply TG_incl; [|exact Ht]; apply incl_appl, incl_refl).
  unfold blocked_engine.
  rewrite (engine_eq_spec h matches pr pr_zero _ T Hi Ht), (engine_eq_spec h matches pr pr_zero _ T Hi' Ht').
  apply add_blocking_monotone; auto.
Qed.
End C04Engine.

(* non-vacuity: on the C01 example list, adding an exception unblocks and adding a blocker keeps *)
Example c04_example :
  let x := mkr 21 (N.lor M_DEFAULT_OPTIONS M_IS_EXCEPTION) (FSimple (bs "/ads/")) None None None None None in
  category_of x = CException /\ is_badfilter x = false /\
  blocked_spec (fun f => memN (rid f) [11; 14; 21]) (ex_rules ++ [x]) [] = false /\
  blocked_spec (fun f => memN (rid f) [11; 14; 21]) ex_rules [] = true.
Proof. vm_compute. auto. Qed.
