(* Struct_Resources_Proofs.v — tie between CosmeticFilterCache::hostname_cosmetic_resources as the
   translator extracts it on every run (Generated.ResGen: the order in which the two hash lists are
   chained, the statements of the collecting pass and of the excepting pass, the two shapes of the
   answer) and C16_Model.  The statements of a pass are run one after the other over the model's
   state, each naming the bin it reads and the set it writes; an unknown name is stuck (None).
   [interp_pass1_is_populate_step], [interp_pass2_is_prune_step]: one step of each pass IS the
   model's; [interp_resources_is_model]: the whole function IS hostname_cosmetic_resources — in
   particular the excepting pass runs over ALL hashes (entity forms and hostname forms) after the
   collecting pass has seen all of them, so an exception written in one form cancels a rule that
   reaches the host in the other (the seeded C16-13 interleaves them and fails the fragment). *)
From Coq Require Import String.
From Adb Require Import Base Generated C17_Model C16_Model.
Import ResGen.
Local Open Scope string_scope.
Local Open Scope list_scope.

Definition bin_tag (n : string) : option tag :=
  if String.eqb n "hide" then Some THide
  else if String.eqb n "unhide" then Some TUnhide
  else if String.eqb n "inject_script" then Some TInject
  else if String.eqb n "uninject_script" then Some TUninject
  else if String.eqb n "procedural_action" then Some TProc
  else if String.eqb n "procedural_action_exception" then Some TProcExc
  else None.

(* read / write one of the string sets of the state by the name the source gives it *)
Definition get_set (st : state) (n : string) : option (list str) :=
  if String.eqb n "specific_hide_selectors" then Some (st_hide st)
  else if String.eqb n "procedural_actions" then Some (st_proc st)
  else if String.eqb n "exceptions" then Some (st_exc st)
  else None.
Definition put_set (st : state) (n : string) (v : list str) : option state :=
  if String.eqb n "specific_hide_selectors" then Some (mkState v (st_proc st) (st_scripts st) (st_exc st) (st_except_all st))
  else if String.eqb n "procedural_actions" then Some (mkState (st_hide st) v (st_scripts st) (st_exc st) (st_except_all st))
  else if String.eqb n "exceptions" then Some (mkState (st_hide st) (st_proc st) (st_scripts st) v (st_except_all st))
  else None.

Definition run_act1 (d : hdb) (hh : N) (st : state) (a : act1) : option state :=
  match a with
  | P_populate bin dest =>
      match bin_tag bin, get_set st dest with
      | Some tg, Some s => put_set st dest (fold_left (fun acc e => set_insert (fst e) acc) (bget (tg, hh) d) s)
      | _, _ => None
      end
  | P_inject_or bin =>
      match bin_tag bin with
      | Some tg => Some (mkState (st_hide st) (st_proc st)
                           (fold_left (fun acc e => script_or (fst e) (snd e) acc) (bget (tg, hh) d) (st_scripts st))
                           (st_exc st) (st_except_all st))
      | None => None
      end
  end.
Definition run_act2 (d : hdb) (hh : N) (st : state) (a : act2) : option state :=
  match a with
  | Q_unhide bin hs es =>
      match bin_tag bin, get_set st hs, get_set st es with
      | Some tg, Some hset, Some eset =>
          let un := bget (tg, hh) d in
          match put_set st hs (fold_left (fun acc e => set_remove (fst e) acc) un hset) with
          | Some st' => put_set st' es (fold_left (fun acc e => set_insert (fst e) acc) un eset)
          | None => None
          end
      | _, _, _ => None
      end
  | Q_prune bin dest =>
      match bin_tag bin, get_set st dest with
      | Some tg, Some s => put_set st dest (fold_left (fun acc e => set_remove (fst e) acc) (bget (tg, hh) d) s)
      | _, _ => None
      end
  | Q_uninject bin =>
      match bin_tag bin with
      | Some tg =>
          let sc := fold_left uninject_one (bget (tg, hh) d) (st_scripts st, st_except_all st) in
          Some (mkState (st_hide st) (st_proc st) (fst sc) (st_exc st) (snd sc))
      | None => None
      end
  end.
Fixpoint run_acts {A} (f : state -> A -> option state) (acts : list A) (st : state) : option state :=
  match acts with
  | [] => Some st
  | a :: r => match f st a with Some st' => run_acts f r st' | None => None end
  end.
Definition interp_pass1 (d : hdb) (st : state) (hh : N) := run_acts (run_act1 d hh) pass1 st.
Definition interp_pass2 (d : hdb) (st : state) (hh : N) := run_acts (run_act2 d hh) pass2 st.

Theorem interp_pass1_is_populate_step d st hh : interp_pass1 d st hh = Some (populate_step d st hh).
Proof. destruct st. reflexivity. Qed.
Theorem interp_pass2_is_prune_step d st hh : interp_pass2 d st hh = Some (prune_step d st hh).
Proof. destruct st. reflexivity. Qed.

Fixpoint fold_opt (f : state -> N -> option state) (hs : list N) (st : state) : option state :=
  match hs with
  | [] => Some st
  | x :: r => match f st x with Some st' => fold_opt f r st' | None => None end
  end.
Lemma fold_opt_total (f : state -> N -> option state) (g : state -> N -> state) hs :
  (forall st x, f st x = Some (g st x)) -> forall st, fold_opt f hs st = Some (fold_left g hs st).
Proof. intros H. induction hs as [|x r IH]; intros st; [reflexivity|]. cbn. rewrite H. apply IH. Qed.

Section Hash.
  Variable h : str -> N.
  Definition hashes_named (hostname dom : str) (n : string) : option (list N) :=
    if String.eqb n "request_entities" then Some (get_entity_hashes_from_labels h hostname dom)
    else if String.eqb n "request_hostnames" then Some (get_hostname_hashes_from_labels h hostname dom)
    else None.
  Fixpoint chained (hostname dom : str) (ns : list string) : option (list N) :=
    match ns with
    | [] => Some []
    | n :: r => match hashes_named hostname dom n, chained hostname dom r with
                | Some a, Some b => Some (a ++ b)
                | _, _ => None
                end
    end.
  Definition interp_resources (c : cache) (hostname dom : str) (gh : bool) : option resources :=
    match chained hostname dom hash_order with
    | None => None
    | Some hashes =>
        match fold_opt (interp_pass1 (db c)) hashes init_state with
        | None => None
        | Some st1 =>
            if negb pass2_after_all_of_pass1 then None else
            match fold_opt (interp_pass2 (db c)) hashes st1 with
            | None => None
            | Some st2 =>
                if negb (String.eqb generichide_answer "specific_hide_selectors"
                         && String.eqb default_answer "misc_generic_selectors-exceptions+specific_hide_selectors")
                then None else
                let hide :=
                  if gh then st_hide st2
                  else fold_left (fun acc s => set_insert s acc) (st_hide st2)
                         (filter (fun s => negb (mem_str s (st_exc st2))) (misc (gen c))) in
                Some (mkRes hide (st_proc st2) (st_exc st2) (st_scripts st2) gh)
            end
        end
    end.

  Theorem interp_resources_is_model c hostname dom gh :
    interp_resources c hostname dom gh = Some (hostname_cosmetic_resources h c hostname dom gh).
  Proof.
    unfold interp_resources, hostname_cosmetic_resources, hash_order.
    cbn [chained hashes_named String.eqb Ascii.eqb Bool.eqb]. rewrite app_nil_r.
    rewrite (fold_opt_total _ (populate_step (db c)) _ (interp_pass1_is_populate_step (db c))).
    cbn [pass2_after_all_of_pass1 negb].
    rewrite (fold_opt_total _ (prune_step (db c)) _ (interp_pass2_is_prune_step (db c))).
    reflexivity.
  Qed.
End Hash.

(* ====================================================================================== *)
(* CosmeticFilterCache::add_filter — where a rule is stored (Generated.RouteGen)            *)
(* ====================================================================================== *)
Import RouteGen.
Section Route.
  Variable h : str -> N.
  Variable uw : N -> bool.
  Definition run_route (r : crule) (c : cache) (a : raction) : cache :=
    match a with
    | R_add_generic_hidden =>     (* `if let Some(generic_rule) = rule.hidden_generic_rule()` *)
        if hidden_generic r then mkCache (add_generic_rule uw (gen c) r) (db c) else c
    | R_store_specific => mkCache (gen c) (store_rule h (db c) r)
    | R_add_generic_self => mkCache (add_generic_rule uw (gen c) r) (db c)
    end.
  Definition interp_add_filter (c : cache) (r : crule) : cache :=
    fold_left (run_route r) (if has_hostname_constraint r then constrained else unconstrained) c.
  Theorem interp_add_filter_is_model c r : interp_add_filter c r = add_filter h uw c r.
  Proof.
    unfold interp_add_filter, add_filter, constrained, unconstrained.
    destruct (has_hostname_constraint r); cbn [fold_left run_route]; [|reflexivity].
    destruct (hidden_generic r); reflexivity.
  Qed.
End Route.
