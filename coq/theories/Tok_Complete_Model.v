(* Tok_Complete_Model.v — definitions for the token guarantee of complete-regex rules (`/re/`,
   IS_COMPLETE_REGEX, with or without `$match-case`) and for the list-level statement over the
   widened class [tg_class2] (Tok_Complete_Proofs.v).  Definitions only.

   NetworkFilter::get_tokens tokenizes no pattern for such a rule (`if !self.is_complete_regex()`),
   and NetworkFilter::parse gives it either no hostname or — for the spelling `||/re/` — the empty
   hostname (the `||` split is done for every pattern; a `/re/` pattern starts with the separator
   '/', so the text before the first separator is empty).  Its token group is therefore made of the
   single `$domain=` token / the per-domain dispatch / the scheme token only. *)
From Adb Require Import Base Generated Hashing Net_Model Tok_Proofs Tok_Ext_Model Tok_HostRegex_Model.
From Adb Require C02_Model C03_Model.

(* ---------------------------------------------------------------- the new disjunct *)
(* the hostname contributes no token (hash-free reading of `tok_host h f = []`): none, or one
   that is not tokenized (IS_HOSTNAME_REGEX), or one without a token — the empty hostname of
   `||/re/` in particular *)
Definition host_tokenless (f : rule) : bool :=
  flag f M_IS_HOSTNAME_REGEX
  || match rhost f with None => true | Some hn => nullb (tokenize hn) end.

(* complete-regex rules for which the token guarantee is a theorem: `/re/` with any options
   (`$match-case` included), not fused, not stored under the tokens of a `$removeparam` name *)
Definition complete_class (f : rule) : bool :=
  is_complete_regex f
  && negb (base_nil f && is_removeparam f)
  && match rfilter f with FAnyOf _ => false | _ => true end
  && host_tokenless f.

(* the class of Tok_HostRegex_Model widened by the complete-regex rules *)
Definition tg_class2 (f : rule) : bool := tg_class f || complete_class f.

(* ---------------------------------------------------------------- what the pattern parser builds *)
(* the (hostname, IS_COMPLETE_REGEX, MATCH_CASE) part of a parsed line, as the new disjunct needs
   it: a complete-regex line has no hostname or the empty one *)
Definition complete_shape_ok (cr : bool) (hostname : option str) : bool :=
  negb cr || match hostname with None => true | Some hn => nullb hn end.

(* ---------------------------------------------------------------- example material *)
(* a stand-in for the regex crate on the one true regex of the example, `ad[0-9]+\.js`
   (unanchored search) *)
Fixpoint skip_digits (s : str) : str :=
  match s with c :: r => if is_digit c then skip_digits r else s | [] => [] end.
Definition ad_digits_js_here (s : str) : bool :=
  prefixb (bs "ad") s
  && match drop 2 s with
     | d :: t => is_digit d && prefixb (bs ".js") (skip_digits t)
     | [] => false
     end.
Fixpoint ad_digits_js (s : str) : bool :=
  match s with
  | [] => false
  | _ :: r => ad_digits_js_here s || ad_digits_js r
  end.
