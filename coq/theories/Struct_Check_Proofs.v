(* Struct_Check_Proofs.v — tie between the precedence logic of Blocker::check_parameterised as the
   translator extracts it on every run (Generated.CheckGen: the condition under which the blocking
   lists are consulted and in which order, the arms that decide whether the exceptions are
   consulted, the expressions of `matched` and `important`, the replacement condition of the
   redirect loop; Generated.BlockerGen.tag_sites: which tag set each list receives) and the
   hand-written Net_Model.blocker_check_p / C13_Model.pick_loop.
   [interp_check] runs the extracted structure over the model's blocker; [interp_check_is_model]
   shows that it IS blocker_check_p for every matcher, probes, flags and blocker.  A swapped arm, a
   dropped `!matched_rule`, `filters` consulted before `filters_tagged`, a list handed the wrong
   tag set or an altered `matched` expression changes the generated data and breaks the proof. *)
From Coq Require Import String ZArith.
From Adb Require Import Base Generated Hashing Net_Model Struct_Proofs.
From Adb Require Net_Proofs.
From Adb Require C13_Model.
Import CheckGen.
Local Open Scope string_scope.
Local Open Scope list_scope.

Record qv := { q_imp_none : bool; q_mr : bool; q_fc : bool; q_exc_none : bool; q_fsome : bool;
               q_fimp : bool; q_sup : bool; q_gt : bool; q_eq : bool; q_lt : bool }.
Definition qatom_val (v : qv) (a : qatom) : bool :=
  match a with
  | Q_important_none => q_imp_none v | Q_matched_rule => q_mr v | Q_force_exceptions => q_fc v
  | Q_exception_none => q_exc_none v | Q_filter_some => q_fsome v | Q_filter_important => q_fimp v
  | Q_supported => q_sup v | Q_prio_gt => q_gt v | Q_prio_eq => q_eq v | Q_name_lt => q_lt v
  end.
Fixpoint qeval (v : qv) (c : qcond) : bool :=
  match c with
  | QTrue => true
  | QAtom a => qatom_val v a
  | QNot c => negb (qeval v c)
  | QAnd a b => qeval v a && qeval v b
  | QOr a b => qeval v a || qeval v b
  end.

Definition some_b {A} (o : option A) : bool := match o with Some _ => true | None => false end.
Definition none_b {A} (o : option A) : bool := match o with Some _ => false | None => true end.

Section Interp.
Variable matches : rule -> bool.
Variable pr : list N.

(* field of struct Blocker by name *)
Definition list_named (b : blocker) (n : string) : fmap :=
  if String.eqb n "importants" then b_importants b
  else if String.eqb n "filters_tagged" then b_tagged b
  else if String.eqb n "filters" then b_filters b
  else if String.eqb n "exceptions" then b_exceptions b
  else [].
(* the tag set a `check` on that list receives in check_parameterised, per the extracted call
   sites: the enabled tags iff every call site on that list passes them *)
Definition tags_for (b : blocker) (n : string) : list str :=
  match site_uses_tags "check_parameterised" n with
  | [] => []
  | l => if forallb (fun x => x) l then b_tags b else []
  end.
Definition chk (b : blocker) (n : string) : option rule :=
  check matches (list_named b n) pr (tags_for b n).
Fixpoint chain (b : blocker) (ns : list string) : option rule :=
  match ns with
  | [] => None
  | n :: r => orelse (chk b n) (chain b r)
  end.
Fixpoint run_arms (v : qv) (b : blocker) (is_some_filter : bool) (arms : list (bool * qcond * string))
  : option rule :=
  match arms with
  | [] => None
  | (pat, g, a) :: r =>
      if Bool.eqb pat is_some_filter && qeval v g
      then (if String.eqb a "none" then None else chk b a)
      else run_arms v b is_some_filter r
  end.

Definition interp_check (mr fc : bool) (b : blocker) : verdict :=
  let impf := chk b important_list in
  let v0 := {| q_imp_none := none_b impf; q_mr := mr; q_fc := fc; q_exc_none := false; q_fsome := false;
               q_fimp := false; q_sup := true; q_gt := false; q_eq := false; q_lt := false |} in
  let filter_ := if qeval v0 filter_cond then chain b filter_chain else impf in
  let v1 := {| q_imp_none := none_b impf; q_mr := mr; q_fc := fc; q_exc_none := false;
               q_fsome := some_b filter_;
               q_fimp := match filter_ with Some f => is_important f | None => false end;
               q_sup := true; q_gt := false; q_eq := false; q_lt := false |} in
  let exception_ := run_arms v1 b (some_b filter_) exception_arms in
  let v2 := {| q_imp_none := none_b impf; q_mr := mr; q_fc := fc; q_exc_none := none_b exception_;
               q_fsome := some_b filter_;
               q_fimp := match filter_ with Some f => is_important f | None => false end;
               q_sup := true; q_gt := false; q_eq := false; q_lt := false |} in
  {| v_matched := qeval v2 matched_cond; v_important := qeval v2 important_cond;
     v_exception := some_b exception_; v_filter := some_b filter_ |}.

Lemma tags_for_lists b :
  tags_for b "importants" = b_tags b /\ tags_for b "filters_tagged" = b_tags b
  /\ tags_for b "filters" = [] /\ tags_for b "exceptions" = b_tags b.
Proof. repeat split; reflexivity. Qed.

Lemma orelse_none {A} (a : option A) : orelse a None = a.
Proof. destruct a; reflexivity. Qed.

(* the extracted precedence logic denotes the model, for every blocker, request and flags *)
Theorem interp_check_is_model mr fc b : interp_check mr fc b = blocker_check_p matches pr mr fc b.
Proof.
  unfold interp_check, blocker_check_p, important_list, filter_cond, filter_chain, exception_arms,
    matched_cond, important_cond.
  cbn [chain run_arms qeval qatom_val q_imp_none q_mr q_fc q_exc_none q_fsome q_fimp].
  unfold chk. destruct (tags_for_lists b) as [-> [-> [-> ->]]].
  cbn [list_named String.eqb Ascii.eqb Bool.eqb]. rewrite orelse_none.
  destruct (check matches (b_importants b) pr (b_tags b)) as [fi|]; cbn [none_b some_b negb andb orb].
  - (* an important filter matched *)
    destruct (is_important fi); cbn [Bool.eqb andb orb negb some_b none_b];
      try destruct (check matches (b_exceptions b) pr (b_tags b)); reflexivity.
  - destruct mr; cbn [negb andb orb].
    + cbn [some_b Bool.eqb andb orb].
      destruct (check matches (b_exceptions b) pr (b_tags b)); reflexivity.
    + destruct (orelse (check matches (b_tagged b) pr (b_tags b)) (check matches (b_filters b) pr [])) as [f|];
        cbn [some_b Bool.eqb andb orb].
      * destruct (is_important f); cbn [andb orb];
          try destruct (check matches (b_exceptions b) pr (b_tags b)); reflexivity.
      * destruct fc; cbn [andb orb];
          try destruct (check matches (b_exceptions b) pr (b_tags b)); reflexivity.
Qed.
End Interp.

(* the public entry points: Engine::check_network_request / Blocker::check hand (false, false) to
   check_parameterised, Engine::check_network_request_subset hands its two flags on in the order it
   received them: the ordinary query IS blocker_check, the subset query IS blocker_check_p with
   (previously_matched_rule, force_check_exceptions) in that order *)
Definition flag_named (n : string) (a1 a2 : bool) : option bool :=
  if String.eqb n "false" then Some false else if String.eqb n "true" then Some true
  else if String.eqb n "arg1" then Some a1 else if String.eqb n "arg2" then Some a2 else None.
Definition interp_entry (matches : rule -> bool) (pr : list N) (flags : string * string) (a1 a2 : bool) (b : blocker)
  : option verdict :=
  match flag_named (fst flags) a1 a2, flag_named (snd flags) a1 a2 with
  | Some mr, Some fc => Some (interp_check matches pr mr fc b)
  | _, _ => None
  end.
Theorem entry_points_are_model matches pr previously_matched_rule force_check_exceptions b :
  interp_entry matches pr plain_query_flags previously_matched_rule force_check_exceptions b
  = Some (blocker_check matches pr b)
  /\ interp_entry matches pr subset_query_flags previously_matched_rule force_check_exceptions b
    = Some (blocker_check_p matches pr previously_matched_rule force_check_exceptions b).
Proof.
  unfold interp_entry, plain_query_flags, subset_query_flags.
  cbn [fst snd flag_named String.eqb Ascii.eqb Bool.eqb].
  rewrite !interp_check_is_model, Net_Proofs.blocker_check_p_ff. split; reflexivity.
Qed.

(* an unsupported request gets the default answer before any list is consulted (Engine_Model) *)
Theorem unsupported_returns_default : returns_default_when = QNot (QAtom Q_supported).
Proof. reflexivity. Qed.

(* the redirect loop replaces its candidate exactly when C13_Model.pick_loop does: higher priority,
   or equal priority and a resource name that sorts first *)
Definition redirect_env (rp : str * Z) (r1 : str) (p1 : Z) : qv :=
  {| q_imp_none := false; q_mr := false; q_fc := false; q_exc_none := false; q_fsome := false;
     q_fimp := false; q_sup := true;
     q_gt := (snd rp >? p1)%Z; q_eq := (snd rp =? p1)%Z; q_lt := C13_Model.str_ltb (fst rp) r1 |}.
Theorem redirect_replace_is_model exceptions f r r1 p1 s :
  C13_Model.rr_exception f = false -> C13_Model.rr_option f = Some s ->
  mem_str (fst (C13_Model.split_redirect_priority s)) exceptions = false ->
  C13_Model.pick_loop exceptions (f :: r) (Some (r1, p1))
  = if qeval (redirect_env (C13_Model.split_redirect_priority s) r1 p1) redirect_replace_cond
    then C13_Model.pick_loop exceptions r (Some (C13_Model.split_redirect_priority s))
    else C13_Model.pick_loop exceptions r (Some (r1, p1)).
Proof.
  intros He Ho Hm. cbn [C13_Model.pick_loop]. rewrite He, Ho, Hm. reflexivity.
Qed.
