(* C08_Query_Model.v — C08 at QUERY level for the network / CSP / generichide queries.
   Vocabulary that connects the two models of an engine's network side:

     Wire_Model.blocker  (the state that is serialized / reloaded: C08, C09, C10)
     Net_Model.blocker   (the state the query functions are modelled on: check / check_all /
                          blocker_check_p / redirect_hits / csp_hits / generic_hide_hit, and
                          Engine_Model.engine_check / engine_csp on top of them)

   Definitions only.  Net_Model and Engine_Model are NOT imported (both models have a `rule`, a
   `blocker`, `b_csp`, `fmap`, `FEmpty` ...): their names are written qualified.

   Fields of a wire-side rule that the translation drops, and why that is harmless:
     r_raw     (raw_line: debug text; no query function reads it)
     r_dunion / r_ndunion (opt_domains_union / opt_not_domains_union: the bitwise OR of the
                domain hashes, `fold(0, |acc, x| acc | x)` in filters/network.rs and optimizer.rs;
                a quick-reject cache that is a function of r_opt_domains / r_opt_not_domains in
                every state the crate builds: [unions_canonical])
   Field of a wire-side blocker that is dropped: b_opt (enable_optimizations: only steers how
   use_tags rebuilds the tagged list, i.e. it is an argument of `build_list`; its effect is
   already in b_filters_tagged).  Everything else is carried over one to one.

   The matcher.  Net_Model takes the per-rule matcher as `matches : Net_Model.rule -> bool`; the
   theorems of C08_Query_Proofs quantify over EVERY such function.  A matcher given on the wire
   rule (`wm : Wire_Model.rule -> bool`, e.g. one that also consults the two unions, as
   check_options does) is transported by [net_matcher]: it is evaluated on [lift_rule f], the
   wire rule rebuilt from the query-side rule with the unions recomputed from the domain lists and
   no raw line.  C08_Query_Proofs.wire_matcher_transport shows `net_matcher wm (net_rule r) = wm r`
   for every wm that ignores the raw line and every r whose unions are canonical, and
   net_rule_fields that net_rule is injective on the eight fields it keeps. *)
From Adb Require Import Base Generated Wire_Model Wire_Proofs C08_Model.
From Adb Require Net_Model Engine_Model.

(* ------------------------------------------------------------------ wire side -> query side *)
Definition net_fpart (p : filter_part) : Net_Model.fpart :=
  match p with
  | FEmpty => Net_Model.FEmpty
  | FSimple s => Net_Model.FSimple s
  | FAnyOf l => Net_Model.FAnyOf l
  end.

Definition net_rule (r : rule) : Net_Model.rule :=
  {| Net_Model.rid := r_id r; Net_Model.rmask := r_mask r; Net_Model.rfilter := net_fpart (r_filter r);
     Net_Model.rhost := r_hostname r; Net_Model.rdomains := r_opt_domains r;
     Net_Model.rnotdomains := r_opt_not_domains r; Net_Model.rmod := r_modifier r;
     Net_Model.rtag := r_tag r |}.

Definition net_map (m : bucket_map) : Net_Model.fmap :=
  map (fun kv => (fst kv, map net_rule (snd kv))) m.

Definition net_blocker (b : blocker) : Net_Model.blocker :=
  {| Net_Model.b_csp := net_map (b_csp b); Net_Model.b_exceptions := net_map (b_exceptions b);
     Net_Model.b_importants := net_map (b_importants b); Net_Model.b_redirects := net_map (b_redirects b);
     Net_Model.b_removeparam := net_map (b_removeparam b);
     Net_Model.b_tagged := net_map (b_filters_tagged b);
     Net_Model.b_filters := net_map (b_filters b); Net_Model.b_generic_hide := net_map (b_generic_hide b);
     Net_Model.b_tags := b_tags_enabled b;
     Net_Model.b_tagged_all := map net_rule (b_tagged_all b) |}.

(* ------------------------------------------------------------------ query side -> wire side (matcher transport) *)
Definition wire_fpart (p : Net_Model.fpart) : filter_part :=
  match p with
  | Net_Model.FEmpty => FEmpty
  | Net_Model.FSimple s => FSimple s
  | Net_Model.FAnyOf l => FAnyOf l
  end.

(* `Some(array.iter().fold(0, |acc, x| acc | x))`, None when there is no array *)
Definition union_of (o : option (list N)) : option N :=
  match o with Some l => Some (fold_left N.lor l 0) | None => None end.

Definition lift_rule (f : Net_Model.rule) : rule :=
  {| r_mask := Net_Model.rmask f; r_filter := wire_fpart (Net_Model.rfilter f);
     r_opt_domains := Net_Model.rdomains f; r_opt_not_domains := Net_Model.rnotdomains f;
     r_modifier := Net_Model.rmod f; r_hostname := Net_Model.rhost f; r_tag := Net_Model.rtag f;
     r_raw := None; r_id := Net_Model.rid f;
     r_dunion := union_of (Net_Model.rdomains f); r_ndunion := union_of (Net_Model.rnotdomains f) |}.

Definition net_matcher (wm : rule -> bool) : Net_Model.rule -> bool := fun f => wm (lift_rule f).

Definition unions_canonical (r : rule) : Prop :=
  r_dunion r = union_of (r_opt_domains r) /\ r_ndunion r = union_of (r_opt_not_domains r).

Definition set_raw (raw : option str) (r : rule) : rule :=
  {| r_mask := r_mask r; r_filter := r_filter r; r_opt_domains := r_opt_domains r;
     r_opt_not_domains := r_opt_not_domains r; r_modifier := r_modifier r; r_hostname := r_hostname r;
     r_tag := r_tag r; r_raw := raw; r_id := r_id r; r_dunion := r_dunion r; r_ndunion := r_ndunion r |}.
Definition ignores_raw (wm : rule -> bool) : Prop := forall r raw, wm (set_raw raw r) = wm r.

(* ------------------------------------------------------------------ "the queries cannot tell them apart" *)
(* query side: every probe `filter_map.get(token)` answers alike (absent = empty) *)
Definition maps_agree (m1 m2 : Net_Model.fmap) : Prop :=
  forall k, Net_Model.bucket m1 k = Net_Model.bucket m2 k.

(* the seven lists read by the blocking verdict, the redirect, the CSP and the generichide
   queries, and the enabled tags; the removeparam list (read by the URL rewrite only) is kept
   apart because it is what the format loses (F8) *)
Record net_agree (a b : Net_Model.blocker) : Prop := {
  na_csp : maps_agree (Net_Model.b_csp a) (Net_Model.b_csp b);
  na_exceptions : maps_agree (Net_Model.b_exceptions a) (Net_Model.b_exceptions b);
  na_importants : maps_agree (Net_Model.b_importants a) (Net_Model.b_importants b);
  na_redirects : maps_agree (Net_Model.b_redirects a) (Net_Model.b_redirects b);
  na_tagged : maps_agree (Net_Model.b_tagged a) (Net_Model.b_tagged b);
  na_filters : maps_agree (Net_Model.b_filters a) (Net_Model.b_filters b);
  na_generic_hide : maps_agree (Net_Model.b_generic_hide a) (Net_Model.b_generic_hide b);
  na_tags : Net_Model.b_tags a = Net_Model.b_tags b }.
Definition net_agree_full (a b : Net_Model.blocker) : Prop :=
  net_agree a b /\ maps_agree (Net_Model.b_removeparam a) (Net_Model.b_removeparam b).

(* wire side: the same in terms of `getn` (C08_Model.bins_equiv) *)
Record reads_same (a b : blocker) : Prop := {
  rs_csp : bins_equiv (b_csp a) (b_csp b);
  rs_exceptions : bins_equiv (b_exceptions a) (b_exceptions b);
  rs_importants : bins_equiv (b_importants a) (b_importants b);
  rs_redirects : bins_equiv (b_redirects a) (b_redirects b);
  rs_filters_tagged : bins_equiv (b_filters_tagged a) (b_filters_tagged b);
  rs_filters : bins_equiv (b_filters a) (b_filters b);
  rs_generic_hide : bins_equiv (b_generic_hide a) (b_generic_hide b);
  rs_tags : b_tags_enabled a = b_tags_enabled b }.
Definition reads_same_full (a b : blocker) : Prop :=
  reads_same a b /\ bins_equiv (b_removeparam a) (b_removeparam b).

(* distinct keys (what a HashMap guarantees) in the six lists that travel over the wire and are
   read by these queries; filters_tagged is rebuilt by use_tags on both sides and needs nothing *)
Record keys_distinct (b : blocker) : Prop := {
  kd_csp : NoDup (map fst (b_csp b)); kd_exceptions : NoDup (map fst (b_exceptions b));
  kd_importants : NoDup (map fst (b_importants b)); kd_redirects : NoDup (map fst (b_redirects b));
  kd_filters : NoDup (map fst (b_filters b)); kd_generic_hide : NoDup (map fst (b_generic_hide b)) }.

(* BlockerResult up to rewritten_url *)
Definition same_but_rewritten (r r' : Engine_Model.result) : Prop :=
  Engine_Model.r_matched r = Engine_Model.r_matched r' /\
  Engine_Model.r_important r = Engine_Model.r_important r' /\
  Engine_Model.r_exception r = Engine_Model.r_exception r' /\
  Engine_Model.r_filter r = Engine_Model.r_filter r' /\
  Engine_Model.r_redirect r = Engine_Model.r_redirect r'.
