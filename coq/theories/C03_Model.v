(* C03_Model.v — L1 model of option handling in brave/adblock-rust and the L0 vocabulary used to
   state "a rule applies to a request only if every option on it is satisfied".

   L1 (mirrors the Rust one to one):
     src/filters/abstract_network.rs  parse_filter_options           -> parse_filter_options
                                      (its (name, negation) table is GENERATED: option_table)
     src/filters/network.rs           validate_options               -> validate_options
                                      NetworkFilter::parse (options) -> apply_option / build_rule
                                      check_cpt_allowed              -> check_cpt_allowed
     src/filters/network_matchers.rs  check_options                  -> check_options
     src/utils.rs                     bin_lookup                     -> bin_lookup
     src/request.rs                   cpt_match_type,
                                      Request::from_detailed_parameters -> from_detailed_parameters
     src/blocker.rs                   check_parameterised (first test)  -> check_parameterised
   The pattern part of a rule line enters only through [shape] (what NetworkFilter::parse derives
   from the pattern and then uses when it builds the option bits).
   The hash function (seahash, third party) is a parameter [h : str -> N] everywhere.

   L0: type classes, the documentation table of option names, [dom_covers], [sem_*].
   Definitions only. *)
From Adb Require Import Base Generated.
Open Scope N_scope.

Scheme Equality for nf_option_ctor.
Scheme Equality for request_type.

Definition is_nil {A} (l : list A) : bool := match l with [] => true | _ => false end.

(* ------------------------------------------------------------------------------------------ *)
(* bitflags                                                                                    *)
(* ------------------------------------------------------------------------------------------ *)
(* bitflags `contains`: (m & v) == v *)
Definition has_flag (m v : N) : bool := N.eqb (N.land m v) v.
(* bitflags `set(v, on)` *)
Definition set_flag (m v : N) (on : bool) : N := if on then N.lor m v else N.ldiff m v.
(* `(a & b).is_empty()` / `== NONE` *)
Definition disjoint (a b : N) : bool := N.eqb (N.land a b) 0.

Definition is_badfilter (m : N) := has_flag m M_BAD_FILTER.
Definition is_exception (m : N) := has_flag m M_IS_EXCEPTION.
Definition for_http (m : N) := has_flag m M_FROM_HTTP.
Definition for_https (m : N) := has_flag m M_FROM_HTTPS.
Definition first_party (m : N) := has_flag m M_FIRST_PARTY.
Definition third_party (m : N) := has_flag m M_THIRD_PARTY.

(* NetworkFilterMaskHelper::check_cpt_allowed *)
Definition check_cpt_allowed (m : N) (t : request_type) : bool :=
  let rm := mask_of_request_type t in
  if N.eqb rm M_FROM_DOCUMENT then has_flag m M_FROM_DOCUMENT || is_exception m
  else has_flag m rm.

(* ------------------------------------------------------------------------------------------ *)
(* requests                                                                                    *)
(* ------------------------------------------------------------------------------------------ *)
Record request := mkReq {
  rq_type : request_type;
  rq_http : bool;
  rq_https : bool;
  rq_supported : bool;
  rq_third : bool;
  rq_src : option (list N)       (* source_hostname_hashes *)
}.

Fixpoint assoc_str {A} (k : str) (l : list (string * A)) : option A :=
  match l with
  | [] => None
  | (s, v) :: r => if str_eqb (bs s) k then Some v else assoc_str k r
  end.

(* request.rs: cpt_match_type (table generated from the match arms) *)
Definition cpt_match_type (raw : str) : request_type :=
  match assoc_str raw cpt_table with Some t => t | None => cpt_default end.

Definition DOT : N := 46.

(* hashes of every suffix that follows a '.', provided the suffix is not empty
   (`c == '.' && i + 1 < source_hostname.len()`) *)
Fixpoint suffix_hashes (h : str -> N) (s : str) : list N :=
  match s with
  | [] => []
  | c :: r => if N.eqb c DOT && negb (is_nil r) then h r :: suffix_hashes h r
              else suffix_hashes h r
  end.

Definition source_hostname_hashes (h : str -> N) (src : str) : option (list N) :=
  if is_nil src then None else Some (h src :: suffix_hashes h src).

(* Request::from_detailed_parameters (the fields option handling looks at) *)
Definition from_detailed_parameters (h : str -> N) (raw_type schema source_hostname : str)
           (third : bool) : request :=
  if is_nil schema then
    mkReq (cpt_match_type raw_type) false true true third (source_hostname_hashes h source_hostname)
  else
    let is_http := str_eqb schema (bs "http"%string) in
    let is_https := negb is_http && str_eqb schema (bs "https"%string) in
    let is_ws := negb is_http && negb is_https
                 && (str_eqb schema (bs "ws"%string) || str_eqb schema (bs "wss"%string)) in
    mkReq (if is_ws then RT_Websocket else cpt_match_type raw_type)
          is_http is_https (is_http || is_https || is_ws) third
          (source_hostname_hashes h source_hostname).

(* Blocker::check_parameterised: the very first test; [rest] is everything after it *)
Definition check_parameterised {R} (default : R) (rest : request -> R) (r : request) : R :=
  if negb (rq_supported r) then default else rest r.

(* ------------------------------------------------------------------------------------------ *)
(* check_options                                                                               *)
(* ------------------------------------------------------------------------------------------ *)
(* slice::binary_search(..).is_ok(): classic halving search on [lo, hi) *)
Fixpoint bsearch (fuel : nat) (l : list N) (lo hi : nat) (x : N) : bool :=
  match fuel with
  | O => false
  | S f =>
      if Nat.ltb lo hi then
        let mid := (lo + Nat.div2 (hi - lo))%nat in
        let v := nth mid l 0 in
        if N.eqb v x then true
        else if N.ltb v x then bsearch f l (S mid) hi x
        else bsearch f l lo mid x
      else false
  end.
Definition bin_lookup (l : list N) (x : N) : bool := bsearch (S (length l)) l 0 (length l) x.

(* `h & union != *h` *)
Definition not_in_union (u h : N) : bool := negb (N.eqb (N.land h u) h).

Definition included_rejects (od : option (list N)) (odu : option N) (src : option (list N)) : bool :=
  match od, src with
  | Some inc, Some hs =>
      (match odu with Some u => forallb (not_in_union u) hs | None => false end)
      || forallb (fun x => negb (bin_lookup inc x)) hs
  | _, _ => false
  end.

Definition excluded_rejects (ond : option (list N)) (ondu : option N) (src : option (list N)) : bool :=
  match ond, src with
  | Some exc, Some hs =>
      match ondu with
      | Some u => existsb (fun x => N.eqb (N.land x u) x && bin_lookup exc x) hs
      | None => existsb (fun x => bin_lookup exc x) hs
      end
  | _, _ => false
  end.

Definition check_options (m : N) (od : option (list N)) (odu : option N)
           (ond : option (list N)) (ondu : option N) (r : request) : bool :=
  if is_badfilter m then false
  else if negb (check_cpt_allowed m (rq_type r))
          || (rq_https r && negb (for_https m))
          || (rq_http r && negb (for_http m))
          || (negb (first_party m) && negb (rq_third r))
          || (negb (third_party m) && rq_third r) then false
  else if included_rejects od odu (rq_src r) then false
  else if excluded_rejects ond ondu (rq_src r) then false
  else true.

(* NetworkFilter::matches = check_options && check_pattern (the pattern part is property C02) *)
Definition rule_matches (opts_ok pattern_ok : bool) : bool := opts_ok && pattern_ok.

(* ------------------------------------------------------------------------------------------ *)
(* option text -> option list  (parse_filter_options)                                          *)
(* ------------------------------------------------------------------------------------------ *)
Inductive perr (A : Type) : Type := POk (a : A) | PErr (e : string).
Arguments POk {A} a.
Arguments PErr {A} e.

Inductive nfopt :=
| NUnit (c : nf_option_ctor)
| NBool (c : nf_option_ctor) (b : bool)
| NValue (c : nf_option_ctor) (v : str)
| NOptValue (c : nf_option_ctor) (v : option str)
| NDomains (c : nf_option_ctor) (l : list (bool * str)).

Definition opt_ctor (o : nfopt) : nf_option_ctor :=
  match o with NUnit c | NBool c _ | NValue c _ | NOptValue c _ | NDomains c _ => c end.

Definition TILDE : N := 126.  Definition COMMA : N := 44.  Definition EQSIGN : N := 61.
Definition PIPE : N := 124.   Definition SLASH : N := 47.

Fixpoint lookup_option_in (t : list (string * bool * opt_outcome)) (name : str) (neg : bool)
  : option opt_outcome :=
  match t with
  | [] => None
  | (n, g, o) :: r => if str_eqb (bs n) name && Bool.eqb g neg then Some o
                      else lookup_option_in r name neg
  end.
Definition lookup_option (name : str) (neg : bool) : opt_outcome :=
  match lookup_option_in option_table name neg with
  | Some o => o
  | None => OO_Err option_default_error
  end.

(* str::trim_start_matches(c) *)
Fixpoint strip_all (c : N) (s : str) : str :=
  match s with
  | x :: r => if N.eqb x c then strip_all c r else s
  | [] => []
  end.

(* splitn(2, '='): (first, rest or "") *)
Definition splitn2 (c : N) (s : str) : str * str :=
  match find_byte c s with
  | Some i => (take i s, drop (S i) s)
  | None => (s, [])
  end.

(* the `domain=` value: split on '|', one leading '~' negates, /regex/ entries are dropped *)
Definition parse_domain_entry (d : str) : bool * str :=
  match d with
  | x :: r => if N.eqb x TILDE then (false, r) else (true, d)
  | [] => (true, [])
  end.
Definition is_regex_domain (e : bool * str) : bool :=
  prefixb [SLASH] (snd e) && suffixb [SLASH] (snd e).
Definition parse_domain_value (value : str) : list (bool * str) :=
  filter (fun e => negb (is_regex_domain e)) (map parse_domain_entry (split_on PIPE value)).

(* VALID_PARAM = ^[a-zA-Z0-9_\-]+$ (Rust regex: `$` is end of text only) *)
Definition valid_param (v : str) : bool :=
  negb (is_nil v) && forallb (fun c => is_alnum c || N.eqb c 95 || N.eqb c 45) v.

Definition parse_one_option (raw : str) : perr nfopt :=
  let neg := match raw with x :: _ => N.eqb x TILDE | [] => false end in
  let body := strip_all TILDE raw in
  let (name, value) := splitn2 EQSIGN body in
  match lookup_option name neg with
  | OO_Err e => PErr e
  | OO_Unit c => POk (NUnit c)
  | OO_Bool c b => POk (NBool c b)
  | OO_Value c =>
      match ctor_payload c with
      | PK_domains =>
          let ds := parse_domain_value value in
          if is_nil ds then PErr "NoSupportedDomains"%string else POk (NDomains c ds)
      | PK_optvalue => POk (NOptValue c (if is_nil value then None else Some value))
      | PK_value =>
          match c with
          | OC_Redirect | OC_RedirectRule =>
              if is_nil value then PErr "EmptyRedirection"%string else POk (NValue c value)
          | OC_Removeparam =>
              if is_nil value then PErr "EmptyRemoveparam"%string
              else if negb (valid_param value) then PErr "RemoveparamRegexUnsupported"%string
              else POk (NValue c value)
          | _ => POk (NValue c value)
          end
      | _ => PErr "model: value outcome for an option without a value"%string
      end
  end.

Fixpoint parse_option_list (raws : list str) : perr (list nfopt) :=
  match raws with
  | [] => POk []
  | r :: rest =>
      match parse_one_option r with
      | PErr e => PErr e
      | POk o => match parse_option_list rest with
                 | PErr e => PErr e
                 | POk os => POk (o :: os)
                 end
      end
  end.
Definition parse_filter_options (raw : str) : perr (list nfopt) :=
  parse_option_list (split_on COMMA raw).

(* ------------------------------------------------------------------------------------------ *)
(* validate_options                                                                            *)
(* ------------------------------------------------------------------------------------------ *)
Definition ctor_in (c : nf_option_ctor) (l : list nf_option_ctor) : bool :=
  existsb (nf_option_ctor_beq c) l.
Definition is_content_type (o : nfopt) : bool := ctor_in (opt_ctor o) content_type_ctors.
Definition is_redirection (o : nfopt) : bool := ctor_in (opt_ctor o) redirection_ctors.
Definition is_csp (o : nfopt) : bool := nf_option_ctor_beq (opt_ctor o) OC_Csp.
Definition is_removeparam_opt (o : nfopt) : bool := nf_option_ctor_beq (opt_ctor o) OC_Removeparam.

(* (has_csp, has_content_type, modifier_options) after the loop *)
Fixpoint validate_scan (opts : list nfopt) (acc : bool * bool * nat) : bool * bool * nat :=
  match opts with
  | [] => acc
  | o :: r =>
      let '(csp, ct, n) := acc in
      validate_scan r
        (if is_csp o then (true, ct, S n)
         else if is_content_type o then (csp, true, n)
         else if is_redirection o || is_removeparam_opt o then (csp, ct, S n)
         else (csp, ct, n))
  end.
Definition validate_options (opts : list nfopt) : perr unit :=
  let '(csp, ct, n) := validate_scan opts (false, false, O) in
  if csp && ct then PErr "CspWithContentType"%string
  else if Nat.ltb 1 n then PErr "MultipleModifierOptions"%string
  else POk tt.

(* ------------------------------------------------------------------------------------------ *)
(* NetworkFilter::parse — everything that concerns options                                     *)
(* ------------------------------------------------------------------------------------------ *)
Inductive scheme_pat := SP_none | SP_ws | SP_http | SP_https | SP_httpstar.

(* what the pattern part of the line contributes *)
Record shape := mkShape {
  sh_exception : bool;          (* line starts with @@ *)
  sh_hostname_anchor : bool;    (* IS_HOSTNAME_ANCHOR (left anchor ||) *)
  sh_right_anchor : bool;       (* IS_RIGHT_ANCHOR after pattern analysis (trailing | , or ||host^) *)
  sh_end_url_anchor : bool;     (* the right anchor came from a trailing | *)
  sh_complete_regex : bool;     (* /.../ pattern *)
  sh_scheme : scheme_pat        (* left-anchored pattern that is exactly ws:// http:// https:// http*:// *)
}.

Record pstate := mkSt {
  st_mask : N; st_pos : N; st_neg : N;
  st_od : option (list N); st_ond : option (list N);
  st_odu : option N; st_ondu : option N
}.

(* Vec<(bool, String)>::sort_unstable: derived Ord on tuples, false < true, strings bytewise *)
Fixpoint str_compare (a b : str) : comparison :=
  match a, b with
  | [], [] => Eq
  | [], _ :: _ => Lt
  | _ :: _, [] => Gt
  | x :: a', y :: b' => match N.compare x y with Eq => str_compare a' b' | c => c end
  end.
Definition dom_leb (x y : bool * str) : bool :=
  match fst x, fst y with
  | false, true => true
  | true, false => false
  | _, _ => match str_compare (snd x) (snd y) with Gt => false | _ => true end
  end.
Definition dom_eqb (x y : bool * str) : bool := Bool.eqb (fst x) (fst y) && str_eqb (snd x) (snd y).

Fixpoint insert_by {A} (leb : A -> A -> bool) (x : A) (l : list A) : list A :=
  match l with
  | [] => [x]
  | y :: r => if leb x y then x :: l else y :: insert_by leb x r
  end.
Fixpoint sort_by {A} (leb : A -> A -> bool) (l : list A) : list A :=
  match l with [] => [] | x :: r => insert_by leb x (sort_by leb r) end.
(* Vec::dedup: drops an element equal to its predecessor *)
Fixpoint dedup_by {A} (eqb : A -> A -> bool) (l : list A) : list A :=
  match l with
  | x :: r => match r with
              | y :: _ => if eqb x y then dedup_by eqb r else x :: dedup_by eqb r
              | [] => [x]
              end
  | [] => []
  end.

Definition lor_list (l : list N) : N := fold_left N.lor l 0.

Definition apply_domains (h : str -> N) (st : pstate) (ds : list (bool * str)) : pstate :=
  let ds' := dedup_by dom_eqb (sort_by dom_leb ds) in
  let inc := map (fun e => h (snd e)) (filter (fun e => fst e) ds') in
  let exc := map (fun e => h (snd e)) (filter (fun e => negb (fst e)) ds') in
  let st1 :=
    if is_nil inc then st
    else let s := sort_by N.leb inc in
         mkSt (st_mask st) (st_pos st) (st_neg st) (Some s) (st_ond st) (Some (lor_list s)) (st_ondu st) in
  if is_nil exc then st1
  else let s := sort_by N.leb exc in
       mkSt (st_mask st1) (st_pos st1) (st_neg st1) (st_od st1) (Some s) (st_odu st1) (Some (lor_list s)).

Definition with_mask (st : pstate) (m : N) : pstate :=
  mkSt m (st_pos st) (st_neg st) (st_od st) (st_ond st) (st_odu st) (st_ondu st).
Definition with_pos (st : pstate) (p : N) : pstate :=
  mkSt (st_mask st) p (st_neg st) (st_od st) (st_ond st) (st_odu st) (st_ondu st).
Definition with_neg (st : pstate) (n : N) : pstate :=
  mkSt (st_mask st) (st_pos st) n (st_od st) (st_ond st) (st_odu st) (st_ondu st).

(* one arm of the `match option` in NetworkFilter::parse *)
Definition apply_option (h : str -> N) (st : pstate) (o : nfopt) : pstate :=
  match o with
  | NDomains _ ds => apply_domains h st ds
  | NUnit c =>
      match ctor_type_mask c with
      | Some bit => with_pos st (N.lor (st_pos st) bit)            (* Document *)
      | None =>
          match c with
          | OC_Badfilter => with_mask st (set_flag (st_mask st) M_BAD_FILTER true)
          | OC_Important => with_mask st (set_flag (st_mask st) M_IS_IMPORTANT true)
          | OC_MatchCase => with_mask st (set_flag (st_mask st) M_MATCH_CASE true)
          | OC_Generichide => with_mask st (set_flag (st_mask st) M_GENERIC_HIDE true)
          | _ => st
          end
      end
  | NBool c b =>
      match ctor_type_mask c with
      | Some bit => if b then with_pos st (N.lor (st_pos st) bit)  (* apply_content_type! *)
                    else with_neg st (N.lor (st_neg st) bit)
      | None =>
          match c with
          | OC_ThirdParty =>
              if b then with_mask st (set_flag (st_mask st) M_FIRST_PARTY false)
              else with_mask st (set_flag (st_mask st) M_THIRD_PARTY false)
          | OC_FirstParty =>
              if b then with_mask st (set_flag (st_mask st) M_THIRD_PARTY false)
              else with_mask st (set_flag (st_mask st) M_FIRST_PARTY false)
          | _ => st
          end
      end
  | NValue c _ =>
      match c with
      | OC_Redirect =>
          with_mask st (set_flag (set_flag (st_mask st) M_IS_REDIRECT true) M_ALSO_BLOCK_REDIRECT true)
      | OC_RedirectRule => with_mask st (set_flag (st_mask st) M_IS_REDIRECT true)
      | OC_Removeparam => with_mask st (set_flag (st_mask st) M_IS_REMOVEPARAM true)
      | _ => st                                                    (* Tag *)
      end
  | NOptValue c _ =>
      match c with
      | OC_Csp => with_mask st (set_flag (set_flag (st_mask st) M_IS_CSP true) M_FROM_DOCUMENT true)
      | _ => st
      end
  end.

Definition initial_mask (exception : bool) : N :=
  let m := N.lor (N.lor (N.lor M_THIRD_PARTY M_FIRST_PARTY) M_FROM_HTTPS) M_FROM_HTTP in
  if exception then set_flag m M_IS_EXCEPTION true else m.

Definition removeparam_default_types : N :=
  N.lor (N.lor M_FROM_DOCUMENT M_FROM_SUBDOCUMENT) M_FROM_XMLHTTPREQUEST.

(* mask after the option loop: positive types, implicit network types *)
Definition implicit_types (mask pos neg : N) : N :=
  let m1 := N.lor mask pos in
  let m2 := if negb (has_flag m1 M_IS_REMOVEPARAM) && negb (disjoint neg M_FROM_NETWORK_TYPES)
            then N.lor m1 M_FROM_NETWORK_TYPES else m1 in
  if disjoint pos M_FROM_ALL_TYPES then
    if has_flag m2 M_IS_REMOVEPARAM then N.lor m2 removeparam_default_types
    else N.lor m2 M_FROM_NETWORK_TYPES
  else m2.

(* "Transform filters on protocol (http, https, ws)" *)
Definition apply_scheme (m : N) (s : scheme_pat) : N :=
  match s with
  | SP_none => m
  | SP_ws => set_flag (set_flag (set_flag m M_FROM_WEBSOCKET true) M_FROM_HTTP false) M_FROM_HTTPS false
  | SP_http => set_flag (set_flag m M_FROM_HTTP true) M_FROM_HTTPS false
  | SP_https => set_flag (set_flag m M_FROM_HTTPS true) M_FROM_HTTP false
  | SP_httpstar => set_flag (set_flag m M_FROM_HTTPS true) M_FROM_HTTP true
  end.

(* `||example.com^` without type options applies to every type, documents included *)
Definition implicit_all_types (sh : shape) (m pos neg : N) : N :=
  if disjoint pos M_FROM_ALL_TYPES && disjoint neg M_FROM_ALL_TYPES
     && sh_hostname_anchor sh && sh_right_anchor sh && negb (sh_end_url_anchor sh)
     && negb (has_flag m M_IS_REMOVEPARAM)
  then N.lor m M_FROM_ALL_TYPES else m.

Record parsed := mkParsed {
  p_mask : N;                    (* the mask without the pattern-kind bits *)
  p_od : option (list N); p_ond : option (list N);
  p_odu : option N; p_ondu : option N
}.

Definition finish_rule (sh : shape) (st : pstate) : perr parsed :=
  let m1 := implicit_types (st_mask st) (st_pos st) (st_neg st) in
  if negb (sh_complete_regex sh) && negb (disjoint m1 M_MATCH_CASE)
  then PErr "MatchCaseWithoutFullRegex"%string
  else
    let m2 := apply_scheme m1 (sh_scheme sh) in
    if has_flag m2 M_GENERIC_HIDE && negb (sh_exception sh)
    then PErr "GenericHideWithoutException"%string
    else if has_flag m2 M_IS_REMOVEPARAM && sh_exception sh
    then PErr "RemoveparamWithException"%string
    else
      let m3 := implicit_all_types sh m2 (st_pos st) (st_neg st) in
      POk (mkParsed (N.ldiff m3 (st_neg st)) (st_od st) (st_ond st) (st_odu st) (st_ondu st)).

Definition initial_state (sh : shape) : pstate :=
  mkSt (initial_mask (sh_exception sh)) 0 0 None None None None.

Definition build_rule (h : str -> N) (sh : shape) (opts : list nfopt) : perr parsed :=
  finish_rule sh (fold_left (apply_option h) opts (initial_state sh)).

(* the option side of NetworkFilter::parse: [raw] = text after the last '$', if any *)
Definition parse_rule_options (h : str -> N) (sh : shape) (raw : option str) : perr parsed :=
  match raw with
  | None => build_rule h sh []
  | Some s =>
      match parse_filter_options s with
      | PErr e => PErr e
      | POk opts =>
          match validate_options opts with
          | PErr e => PErr e
          | POk _ => build_rule h sh opts
          end
      end
  end.

Definition rule_check_options (p : parsed) (r : request) : bool :=
  check_options (p_mask p) (p_od p) (p_odu p) (p_ond p) (p_ondu p) r.

(* ------------------------------------------------------------------------------------------ *)
(* helpers for the correspondence cases                                                        *)
(* ------------------------------------------------------------------------------------------ *)
(* hash function given by a finite table (values computed by the crate's fast_hash);
   a string outside the table gets 2^64, which is no u64 *)
Fixpoint tbl_hash (t : list (str * N)) (s : str) : N :=
  match t with
  | [] => 18446744073709551616
  | (k, v) :: r => if str_eqb k s then v else tbl_hash r s
  end.

Definition olist_eqb (a b : option (list N)) : bool := opt_eqb (list_eqb N.eqb) a b.
Definition oN_eqb (a b : option N) : bool := opt_eqb N.eqb a b.
Definition parsed_eqb (a b : parsed) : bool :=
  N.eqb (p_mask a) (p_mask b) && olist_eqb (p_od a) (p_od b) && olist_eqb (p_ond a) (p_ond b)
  && oN_eqb (p_odu a) (p_odu b) && oN_eqb (p_ondu a) (p_ondu b).
Definition perr_eqb {A} (eq : A -> A -> bool) (a b : perr A) : bool :=
  match a, b with
  | POk x, POk y => eq x y
  | PErr e, PErr f => String.eqb e f
  | _, _ => false
  end.
Definition request_eqb (a b : request) : bool :=
  request_type_beq (rq_type a) (rq_type b) && Bool.eqb (rq_http a) (rq_http b)
  && Bool.eqb (rq_https a) (rq_https b) && Bool.eqb (rq_supported a) (rq_supported b)
  && Bool.eqb (rq_third a) (rq_third b) && olist_eqb (rq_src a) (rq_src b).
(* the pattern-kind bits, which the option model leaves out *)
Definition PATTERN_BITS : N :=
  N.lor (N.lor (N.lor (N.lor (N.lor M_IS_REGEX M_IS_LEFT_ANCHOR) M_IS_RIGHT_ANCHOR)
        M_IS_HOSTNAME_ANCHOR) M_IS_COMPLETE_REGEX) M_IS_HOSTNAME_REGEX.

(* ------------------------------------------------------------------------------------------ *)
(* L0 — specification vocabulary (no mask bit below this line except in [class_mask])          *)
(* ------------------------------------------------------------------------------------------ *)
(* resource-type classes a rule can name (ABP "content types" / uBO "type options") *)
Inductive tclass := T_image | T_media | T_object | T_other | T_ping | T_script | T_stylesheet
                  | T_subdocument | T_websocket | T_xhr | T_font | T_document.
Scheme Equality for tclass.
Definition all_tclasses : list tclass :=
  [T_image; T_media; T_object; T_other; T_ping; T_script; T_stylesheet; T_subdocument;
   T_websocket; T_xhr; T_font; T_document].
Definition is_network (c : tclass) : bool := negb (tclass_beq c T_document).

(* which class a request of a given type belongs to (csp reports are never filtered) *)
Definition l0_class_of_request (t : request_type) : option tclass :=
  match t with
  | RT_Beacon => Some T_ping      | RT_Csp => None               | RT_Document => Some T_document
  | RT_Dtd => Some T_other        | RT_Fetch => Some T_other     | RT_Font => Some T_font
  | RT_Image => Some T_image      | RT_Media => Some T_media     | RT_Object => Some T_object
  | RT_Other => Some T_other      | RT_Ping => Some T_ping       | RT_Script => Some T_script
  | RT_Stylesheet => Some T_stylesheet                            | RT_Subdocument => Some T_subdocument
  | RT_Websocket => Some T_websocket | RT_Xlst => Some T_other   | RT_Xmlhttprequest => Some T_xhr
  end.

(* webRequest.ResourceType / nsIContentPolicy names -> request type (documentation table) *)
Definition l0_cpt_table : list (string * request_type) :=
  [("beacon", RT_Ping); ("csp_report", RT_Csp); ("document", RT_Document); ("main_frame", RT_Document);
   ("font", RT_Font); ("image", RT_Image); ("imageset", RT_Image); ("media", RT_Media);
   ("object", RT_Object); ("object_subrequest", RT_Object); ("ping", RT_Ping); ("script", RT_Script);
   ("stylesheet", RT_Stylesheet); ("sub_frame", RT_Subdocument); ("subdocument", RT_Subdocument);
   ("websocket", RT_Websocket); ("xhr", RT_Xmlhttprequest); ("xmlhttprequest", RT_Xmlhttprequest)]%string.
Definition l0_cpt (raw : str) : request_type :=
  match assoc_str raw l0_cpt_table with Some t => t | None => RT_Other end.

(* meaning of one option name *)
Inductive l0_atom :=
| A_type (c : tclass) (positive : bool)
| A_party (third_only : bool)          (* true: third-party requests only; false: first-party only *)
| A_domains | A_badfilter | A_important | A_matchcase | A_generichide
| A_tag | A_redirect | A_redirect_rule | A_csp | A_removeparam
| A_invalid.                           (* the rule is rejected *)
Scheme Equality for l0_atom.

(* ABP "Writing filters" / uBO "Static filter syntax": names, aliases, meaning, meaning when negated *)
Definition l0_option_table : list (list string * l0_atom * l0_atom) :=
  [ (["domain"; "from"], A_domains, A_domains);            (* a '~' before domain= is ignored *)
    (["badfilter"], A_badfilter, A_invalid);
    (["important"], A_important, A_invalid);
    (["match-case"], A_matchcase, A_invalid);
    (["third-party"; "3p"], A_party true, A_party false);
    (["first-party"; "1p"], A_party false, A_party true);
    (["tag"], A_tag, A_invalid);
    (["redirect"], A_redirect, A_invalid);
    (["redirect-rule"], A_redirect_rule, A_invalid);
    (["csp"], A_csp, A_csp);                               (* a '~' before csp is ignored *)
    (["removeparam"], A_removeparam, A_invalid);
    (["generichide"; "ghide"], A_generichide, A_invalid);
    (["document"; "doc"], A_type T_document true, A_invalid);
    (["image"], A_type T_image true, A_type T_image false);
    (["media"], A_type T_media true, A_type T_media false);
    (["object"; "object-subrequest"], A_type T_object true, A_type T_object false);
    (["other"], A_type T_other true, A_type T_other false);
    (["ping"; "beacon"], A_type T_ping true, A_type T_ping false);
    (["script"], A_type T_script true, A_type T_script false);
    (["stylesheet"; "css"], A_type T_stylesheet true, A_type T_stylesheet false);
    (["subdocument"; "frame"], A_type T_subdocument true, A_type T_subdocument false);
    (["xmlhttprequest"; "xhr"], A_type T_xhr true, A_type T_xhr false);
    (["websocket"], A_type T_websocket true, A_type T_websocket false);
    (["font"], A_type T_font true, A_type T_font false) ]%string.

Fixpoint l0_lookup_in (t : list (list string * l0_atom * l0_atom)) (name : str) (neg : bool) : l0_atom :=
  match t with
  | [] => A_invalid
  | (names, pos, ng) :: r =>
      if existsb (fun n => str_eqb (bs n) name) names then (if neg then ng else pos)
      else l0_lookup_in r name neg
  end.
Definition l0_lookup (name : str) (neg : bool) : l0_atom := l0_lookup_in l0_option_table name neg.

(* the bridge between classes and mask bits: the only place where L0 names meet the bit layout *)
Definition class_mask (c : tclass) : N :=
  match c with
  | T_image => M_FROM_IMAGE | T_media => M_FROM_MEDIA | T_object => M_FROM_OBJECT
  | T_other => M_FROM_OTHER | T_ping => M_FROM_PING | T_script => M_FROM_SCRIPT
  | T_stylesheet => M_FROM_STYLESHEET | T_subdocument => M_FROM_SUBDOCUMENT
  | T_websocket => M_FROM_WEBSOCKET | T_xhr => M_FROM_XMLHTTPREQUEST | T_font => M_FROM_FONT
  | T_document => M_FROM_DOCUMENT
  end.
Definition class_of_mask (m : N) : option tclass := find (fun c => N.eqb (class_mask c) m) all_tclasses.

(* meaning of a parsed option, through the generated constructor -> mask table *)
Definition atom_of_ctor (c : nf_option_ctor) (b : bool) : l0_atom :=
  match ctor_type_mask c with
  | Some bit => match class_of_mask bit with Some cl => A_type cl b | None => A_invalid end
  | None =>
      match c with
      | OC_Domain => A_domains | OC_Badfilter => A_badfilter | OC_Important => A_important
      | OC_MatchCase => A_matchcase | OC_ThirdParty => A_party b | OC_FirstParty => A_party (negb b)
      | OC_Tag => A_tag | OC_Redirect => A_redirect | OC_RedirectRule => A_redirect_rule
      | OC_Csp => A_csp | OC_Removeparam => A_removeparam | OC_Generichide => A_generichide
      | _ => A_invalid
      end
  end.
Definition atom_of_outcome (o : opt_outcome) : l0_atom :=
  match o with
  | OO_Err _ => A_invalid
  | OO_Unit c => atom_of_ctor c true
  | OO_Bool c b => atom_of_ctor c b
  | OO_Value c => atom_of_ctor c true
  end.
Definition atom_of_nfopt (o : nfopt) : l0_atom :=
  match o with
  | NBool c b => atom_of_ctor c b
  | NUnit c | NValue c _ | NOptValue c _ | NDomains c _ => atom_of_ctor c true
  end.

Definition has_atom (a : l0_atom) (l : list l0_atom) : bool := existsb (l0_atom_beq a) l.

(* --- which request classes the rule is for --- *)
Definition any_positive_type (l : list l0_atom) : bool :=
  existsb (fun c => has_atom (A_type c true) l) all_tclasses.
Definition any_negated_type (l : list l0_atom) : bool :=
  existsb (fun c => has_atom (A_type c false) l) all_tclasses.
Definition sem_allowed (sh : shape) (l : list l0_atom) (c : tclass) : bool :=
  let rp := has_atom A_removeparam l in
  let no_pos := negb (any_positive_type l) in
  let no_neg := negb (any_negated_type l) in
  (  has_atom (A_type c true) l                                        (* named *)
  || (has_atom A_csp l && tclass_beq c T_document)                     (* csp => documents *)
  || (negb rp && negb no_neg && is_network c)                          (* ~type => every network type *)
  || (no_pos && (if rp
                 then tclass_beq c T_document || tclass_beq c T_subdocument || tclass_beq c T_xhr
                 else is_network c))                                   (* no type named *)
  || (no_pos && no_neg && negb rp && sh_hostname_anchor sh && sh_right_anchor sh
      && negb (sh_end_url_anchor sh))                                  (* ||host^ : everything *)
  || (match sh_scheme sh with SP_ws => tclass_beq c T_websocket | _ => false end) )
  && negb (has_atom (A_type c false) l).                               (* exclusions win *)

(* a request of type [t] passes the type options of the rule ([exception]: documents always pass) *)
Definition l0_type_ok (allowed : tclass -> bool) (exception : bool) (t : request_type) : bool :=
  match l0_class_of_request t with
  | Some c => allowed c || (tclass_beq c T_document && exception)
  | None => false
  end.

(* --- party --- *)
Definition sem_third_ok (l : list l0_atom) : bool := negb (has_atom (A_party false) l).
Definition sem_first_ok (l : list l0_atom) : bool := negb (has_atom (A_party true) l).
Definition l0_party_ok (third_ok first_ok : bool) (is_third : bool) : bool :=
  if is_third then third_ok else first_ok.

(* --- scheme --- *)
Inductive req_scheme := RS_http | RS_https | RS_ws.   (* a URL without ':' counts as https *)
Definition l0_scheme_ok (s : scheme_pat) (q : req_scheme) : bool :=
  match s, q with
  | SP_none, _ => true
  | SP_http, RS_http => true
  | SP_https, RS_https => true
  | SP_httpstar, (RS_http | RS_https) => true
  | SP_ws, RS_ws => true
  | _, _ => false
  end.
Definition sem_http_ok (s : scheme_pat) : bool :=
  match s with SP_none | SP_http | SP_httpstar => true | _ => false end.
Definition sem_https_ok (s : scheme_pat) : bool :=
  match s with SP_none | SP_https | SP_httpstar => true | _ => false end.

(* --- initiator domains --- *)
(* [d] covers [host]: equal, or [host] ends with "." ++ d for a non-empty d *)
Definition dom_covers (d host : str) : Prop :=
  d = host \/ (d <> [] /\ exists pre, host = pre ++ DOT :: d).
(* host and its non-empty dot-suffixes *)
Fixpoint dot_suffixes (s : str) : list str :=
  match s with
  | [] => []
  | c :: r => if N.eqb c DOT && negb (is_nil r) then r :: dot_suffixes r else dot_suffixes r
  end.
Definition host_chain (host : str) : list str := host :: dot_suffixes host.
Definition dom_coversb (d host : str) : bool := mem_str d (host_chain host).

(* the include / exclude lists a rule ends up with: the last domain= option that has entries of
   that polarity (normally there is one domain= option) *)
Definition dom_names (positive : bool) (ds : list (bool * str)) : list str :=
  map snd (filter (fun e => Bool.eqb (fst e) positive) ds).
Fixpoint sem_domains (positive : bool) (opts : list nfopt) (acc : option (list str)) : option (list str) :=
  match opts with
  | [] => acc
  | NDomains _ ds :: r =>
      sem_domains positive r (if is_nil (dom_names positive ds) then acc else Some (dom_names positive ds))
  | _ :: r => sem_domains positive r acc
  end.

(* hash-level statement of the domain options (what check_options computes) *)
Definition hit (l hs : list N) : bool := existsb (fun x => memN x l) hs.
Definition domains_ok (od ond : option (list N)) (src : option (list N)) : bool :=
  match src with
  | None => true                                   (* no source: domain options are not looked at *)
  | Some hs =>
      (match od with Some inc => hit inc hs | None => true end)
      && (match ond with Some exc => negb (hit exc hs) | None => true end)
  end.
(* string-level statement *)
Definition l0_domains_ok (inc exc : option (list str)) (source : option str) : bool :=
  match source with
  | None => true
  | Some host =>
      (match inc with Some l => existsb (fun d => dom_coversb d host) l | None => true end)
      && (match exc with Some l => negb (existsb (fun d => dom_coversb d host) l) | None => true end)
  end.

(* the conjunction of the property text, at mask level *)
Definition allowed_type (m : N) (r : request) : bool :=
  has_flag m (mask_of_request_type (rq_type r))
  || (request_type_beq (rq_type r) RT_Document && is_exception m).
Definition party_ok (m : N) (r : request) : bool :=
  if rq_third r then third_party m else first_party m.
(* as the code has it: only an http request can fail FROM_HTTP, only an https one FROM_HTTPS *)
Definition scheme_ok (m : N) (r : request) : bool :=
  implb (rq_https r) (for_https m) && implb (rq_http r) (for_http m).

Definition sorted_N (l : list N) : Prop := forall i j, (i < j < length l)%nat -> nth i l 0 <= nth j l 0.
Definition union_consistent (l : option (list N)) (u : option N) : Prop :=
  match u with None => True | Some v => match l with Some x => v = lor_list x | None => True end end.
Definition osorted (l : option (list N)) : Prop := match l with Some x => sorted_N x | None => True end.

(* scheme of a supported request (supported = http, https, ws/wss) *)
Definition scheme_of_request (r : request) : req_scheme :=
  if rq_http r then RS_http else if rq_https r then RS_https else RS_ws.
