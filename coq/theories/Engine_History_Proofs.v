(* Engine_History_Proofs.v — the WHOLE answer of Blocker::check_parameterised (verdict bits, chosen
   redirect, rewritten URL) and of Blocker::get_csp_directives after ANY history of add_filter calls,
   tag switches and optimize() calls equals the rule-by-rule specification over the rules loaded so
   far and the set-algebra tag set.

   Engine_Proofs has this for a blocker built in one batch (tags_with_set h (blocker_new h L) T);
   C06_History_Proofs has, for every history, the verdict bits (history_verdict_p) and the hit SETS
   of the three lists whose every hit is used (history_redirect_hits / _removeparam_hits /
   _csp_hits).  The three consumers (C13 redirect choice, C14 rewrite, C15 merge) read only the SET
   of delivered rules, so the pieces compose into ONE equality of result records.

   Matcher: C06_History's invariant needs the structured matcher (rmatch om pm, because optimize()
   fuses patterns); Engine_Model takes any [matches : rule -> bool].  The theorems below are the
   instance matches := rmatch om pm. *)
From Coq Require Import Permutation ZArith.
From Adb Require Import Base BaseProofs Generated Hashing Net_Model Net_Proofs C05_Model C06_Model C07_Proofs
  C06_History_Model C06_History_Proofs Engine_Model Engine_Proofs Engine_History_Model.
From Adb Require C13_Model C13_Proofs C14_Model C14_Proofs C15_Model C15_Proofs.

(* ================================================================ the specification reads SETS *)
Section SpecSets.
Variable matches : rule -> bool.

Lemma spec_redirect_hits_set L1 L2 f : same_rule_set L1 L2 ->
  (In f (spec_redirect_hits matches L1) <-> In f (spec_redirect_hits matches L2)).
Proof. intros HL. unfold spec_redirect_hits. rewrite !filter_In, (live_ext L1 L2 f HL). tauto. Qed.

Lemma spec_removeparam_hits_set L1 L2 f : same_rule_set L1 L2 ->
  (In f (spec_removeparam_hits matches L1) <-> In f (spec_removeparam_hits matches L2)).
Proof. intros HL. unfold spec_removeparam_hits. rewrite !filter_In, (of_cat_ext CRemoveparam L1 L2 f HL). tauto. Qed.

Lemma spec_csp_hits_set L1 L2 T1 T2 f : same_rule_set L1 L2 -> same_tag_set T1 T2 ->
  (In f (spec_csp_hits matches L1 T1) <-> In f (spec_csp_hits matches L2 T2)).
Proof.
  intros HL HT. unfold spec_csp_hits.
  rewrite !filter_In, (of_cat_ext CCsp L1 L2 f HL), (act_ext matches T1 T2 f HT). tauto.
Qed.

(* the whole specified answer depends on the loaded rules and the enabled tags only as SETS *)
Theorem spec_result_set supported url st mr fc L1 L2 T1 T2 :
  same_rule_set L1 L2 -> same_tag_set T1 T2 ->
  spec_result matches supported url st mr fc L1 T1 = spec_result matches supported url st mr fc L2 T2.
Proof.
  intros HL HT. unfold spec_result. destruct (negb supported); [reflexivity|]. cbv zeta.
  rewrite (spec_verdict_p_set matches mr fc L1 L2 T1 T2 HL HT).
  assert (ER : C13_Model.redirect_of st (spec_redirects matches L1) = C13_Model.redirect_of st (spec_redirects matches L2)).
  { unfold C13_Model.redirect_of.
    rewrite (C13_Proofs.pick_redirect_set_only (spec_redirects matches L1) (spec_redirects matches L2)); [reflexivity|].
    unfold spec_redirects. apply map_In_ext. intros f. apply spec_redirect_hits_set. exact HL. }
  assert (EW : forall i, C14_Model.rewritten_url i (spec_param_names matches L1) url
                         = C14_Model.rewritten_url i (spec_param_names matches L2) url).
  { intros i. unfold C14_Model.rewritten_url. destruct i; [reflexivity|].
    apply apply_removeparam_set_only. unfold spec_param_names. apply names_of_ext.
    intros f. apply spec_removeparam_hits_set. exact HL. }
  rewrite ER, EW. reflexivity.
Qed.

Theorem spec_csp_set rtype L1 L2 T1 T2 :
  same_rule_set L1 L2 -> same_tag_set T1 T2 ->
  C15_Model.same_policy (C15_Model.get_csp_for rtype (spec_csp_rules matches L1 T1))
                        (C15_Model.get_csp_for rtype (spec_csp_rules matches L2 T2)).
Proof.
  intros HL HT. unfold C15_Model.get_csp_for. apply C15_Proofs.csp_set_only.
  unfold spec_csp_rules. apply map_In_ext. intros f. apply spec_csp_hits_set; assumption.
Qed.

(* the record packs the fields Engine_Model specifies one by one *)
Lemma spec_result_fields supported url st mr fc L T :
  let r := spec_result matches supported url st mr fc L T in
  {| v_matched := r_matched r; v_important := r_important r; v_exception := r_exception r; v_filter := r_filter r |}
  = spec_result_bits matches supported mr fc L T
  /\ (supported = true -> r_redirect r = C13_Model.redirect_of st (spec_redirects matches L))
  /\ (supported = true -> r_rewritten r
        = C14_Model.rewritten_url (v_important (spec_verdict_p matches mr fc L T)) (spec_param_names matches L) url).
Proof.
  cbv zeta. unfold spec_result, spec_result_bits. destruct supported; cbn [negb].
  - split; [|split; intros _; reflexivity]. destruct (spec_verdict_p matches mr fc L T); reflexivity.
  - split; [reflexivity|split; discriminate].
Qed.
End SpecSets.

(* ================================================================ one batch: the record equality
   (Engine_Proofs proves it field by field; here as ONE equality, for any [matches]) *)
Section Batch.
Variable h : str -> N.
Variable matches : rule -> bool.
Variable pr : list N.
Hypothesis pr_zero : In 0 pr.

Theorem batch_engine_check supported url st mr fc L T :
  id_inj L -> TG h matches pr L ->
  engine_check matches pr supported url st mr fc (tags_with_set h (blocker_new h L) T)
  = spec_result matches supported url st mr fc L T.
Proof using pr_zero.
  intros Hinj Htg. unfold engine_check, spec_result. destruct (negb supported); [reflexivity|]. cbv zeta.
  rewrite (engine_eq_spec_p h matches pr pr_zero mr fc L T Hinj Htg).
  assert (ER : C13_Model.redirect_of st (map rr_of (redirect_hits matches pr (tags_with_set h (blocker_new h L) T)))
               = C13_Model.redirect_of st (spec_redirects matches L)).
  { unfold C13_Model.redirect_of.
    rewrite (C13_Proofs.pick_redirect_set_only _ (spec_redirects matches L)); [reflexivity|].
    unfold spec_redirects. apply map_In_ext. intros f.
    apply (redirect_hits_exact h matches pr pr_zero L T f Hinj Htg). }
  assert (EW : forall i, C14_Model.rewritten_url i (names_of (removeparam_hits matches pr (tags_with_set h (blocker_new h L) T))) url
                         = C14_Model.rewritten_url i (spec_param_names matches L) url).
  { intros i. unfold C14_Model.rewritten_url. destruct i; [reflexivity|].
    apply apply_removeparam_set_only. unfold spec_param_names. apply names_of_ext.
    intros f. apply (removeparam_hits_exact h matches pr pr_zero L T f Hinj Htg). }
  rewrite ER, EW. reflexivity.
Qed.
End Batch.

(* ================================================================ every history *)
Section History.
Variable h : str -> N.
Variable om : N -> bool.
Variable pm : N -> str -> bool.
Variable pr : list N.
Hypothesis pr_zero : In 0 pr.
Notation rm := (rmatch om pm).

(* the premises of C06_History_Proofs.history_verdict_p, bundled:
   ids identify rules; every matching loaded rule is reachable through a probe (TG: the request
   tokenisation obligation discharged in Tok_*_Proofs); no rule is an empty AnyOf (the parser and
   the optimizer never produce one: fusion_wfp). *)
Definition hist_ok (ops : list hop) : Prop :=
  id_inj (loaded ops) /\ TG h rm pr (loaded ops) /\ (forall f, In f (loaded ops) -> wfp f = true).

Lemma hist_ok_set ops1 ops2 : same_rule_set (loaded ops1) (loaded ops2) -> hist_ok ops1 -> hist_ok ops2.
Proof using.
  intros HL (Hinj & Htg & Hw).
  assert (Hi21 : incl (loaded ops2) (loaded ops1)) by (intros x Hx; apply HL; exact Hx).
  split; [exact (id_inj_incl _ _ Hi21 Hinj)|]. split; [exact (TG_incl h rm pr _ _ Hi21 Htg)|].
  intros f Hf. exact (Hw f (Hi21 f Hf)).
Qed.

(* After ANY history, the whole BlockerResult is the rule-by-rule one. *)
Theorem history_engine_check supported url st mr fc ops :
  let L := loaded ops in let T := tagset ops in
  id_inj L -> TG h rm pr L -> (forall f, In f L -> wfp f = true) ->
  engine_check rm pr supported url st mr fc (hrun h ops) = spec_result rm supported url st mr fc L T.
Proof using pr_zero.
  intros L T Hinj Htg Hw. unfold engine_check, spec_result. destruct (negb supported); [reflexivity|]. cbv zeta.
  rewrite (history_verdict_p h om pm pr pr_zero mr fc ops Hinj Htg Hw). fold L T.
  assert (ER : C13_Model.redirect_of st (map rr_of (redirect_hits rm pr (hrun h ops)))
               = C13_Model.redirect_of st (spec_redirects rm L)).
  { unfold C13_Model.redirect_of.
    rewrite (C13_Proofs.pick_redirect_set_only _ (spec_redirects rm L)); [reflexivity|].
    unfold spec_redirects. apply map_In_ext. intros f.
    apply (history_redirect_hits h rm pr pr_zero ops f Hinj Htg Hw). }
  assert (EW : forall i, C14_Model.rewritten_url i (names_of (removeparam_hits rm pr (hrun h ops))) url
                         = C14_Model.rewritten_url i (spec_param_names rm L) url).
  { intros i. unfold C14_Model.rewritten_url. destruct i; [reflexivity|].
    apply apply_removeparam_set_only. unfold spec_param_names. apply names_of_ext.
    intros f. apply (history_removeparam_hits h rm pr pr_zero ops f Hinj Htg Hw). }
  rewrite ER, EW. reflexivity.
Qed.

(* ... and get_csp_directives yields the policy merged from the matching active csp rules *)
Theorem history_engine_csp rtype ops :
  let L := loaded ops in let T := tagset ops in
  id_inj L -> TG h rm pr L -> (forall f, In f L -> wfp f = true) ->
  C15_Model.same_policy (engine_csp rm pr rtype (hrun h ops))
                        (C15_Model.get_csp_for rtype (spec_csp_rules rm L T)).
Proof using pr_zero.
  intros L T Hinj Htg Hw. unfold engine_csp, C15_Model.get_csp_for. apply C15_Proofs.csp_set_only.
  unfold spec_csp_rules. apply map_In_ext. intros f.
  apply (history_csp_hits h rm pr pr_zero ops f Hinj Htg Hw).
Qed.

(* two histories that loaded the same SET of rules and end with the same SET of tags give the same
   whole answer: same bits, same redirect resource, same rewritten URL ... *)
Theorem history_engine_set_determined supported url st mr fc ops1 ops2 :
  id_inj (loaded ops1) -> TG h rm pr (loaded ops1) -> (forall f, In f (loaded ops1) -> wfp f = true) ->
  same_rule_set (loaded ops1) (loaded ops2) -> same_tag_set (tagset ops1) (tagset ops2) ->
  engine_check rm pr supported url st mr fc (hrun h ops1) = engine_check rm pr supported url st mr fc (hrun h ops2).
Proof using pr_zero.
  intros Hinj Htg Hw HL HT.
  destruct (hist_ok_set ops1 ops2 HL (conj Hinj (conj Htg Hw))) as (Hinj2 & Htg2 & Hw2).
  rewrite (history_engine_check supported url st mr fc ops1 Hinj Htg Hw).
  rewrite (history_engine_check supported url st mr fc ops2 Hinj2 Htg2 Hw2).
  apply spec_result_set; assumption.
Qed.

(* ... and the same CSP policy *)
Theorem history_engine_csp_set_determined rtype ops1 ops2 :
  id_inj (loaded ops1) -> TG h rm pr (loaded ops1) -> (forall f, In f (loaded ops1) -> wfp f = true) ->
  same_rule_set (loaded ops1) (loaded ops2) -> same_tag_set (tagset ops1) (tagset ops2) ->
  C15_Model.same_policy (engine_csp rm pr rtype (hrun h ops1)) (engine_csp rm pr rtype (hrun h ops2)).
Proof using pr_zero.
  intros Hinj Htg Hw HL HT.
  destruct (hist_ok_set ops1 ops2 HL (conj Hinj (conj Htg Hw))) as (Hinj2 & Htg2 & Hw2).
  unfold engine_csp, C15_Model.get_csp_for. apply C15_Proofs.csp_set_only. apply map_In_ext. intros f.
  rewrite (history_csp_hits h rm pr pr_zero ops1 f Hinj Htg Hw).
  rewrite (history_csp_hits h rm pr pr_zero ops2 f Hinj2 Htg2 Hw2).
  apply spec_csp_hits_set; assumption.
Qed.

(* one at a time in any interleaving = one batch: the live blocker gives the whole answer of the
   blocker built by Blocker::new from the loaded rules with the final tag set installed.
   (The batch side needs id_inj, TG and In 0 pr only; wfp is the history side's.) *)
Theorem history_engine_eq_batch supported url st mr fc ops :
  id_inj (loaded ops) -> TG h rm pr (loaded ops) -> (forall f, In f (loaded ops) -> wfp f = true) ->
  engine_check rm pr supported url st mr fc (hrun h ops)
  = engine_check rm pr supported url st mr fc (tags_with_set h (blocker_new h (loaded ops)) (tagset ops)).
Proof using pr_zero.
  intros Hinj Htg Hw. rewrite (history_engine_check supported url st mr fc ops Hinj Htg Hw).
  symmetry. apply (batch_engine_check h rm pr pr_zero); assumption.
Qed.

Theorem history_engine_csp_eq_batch rtype ops :
  id_inj (loaded ops) -> TG h rm pr (loaded ops) -> (forall f, In f (loaded ops) -> wfp f = true) ->
  C15_Model.same_policy (engine_csp rm pr rtype (hrun h ops))
    (engine_csp rm pr rtype (tags_with_set h (blocker_new h (loaded ops)) (tagset ops))).
Proof using pr_zero.
  intros Hinj Htg Hw.
  unfold engine_csp, C15_Model.get_csp_for. apply C15_Proofs.csp_set_only. apply map_In_ext. intros f.
  rewrite (history_csp_hits h rm pr pr_zero ops f Hinj Htg Hw).
  symmetry. apply (csp_hits_exact h rm pr pr_zero (loaded ops) (tagset ops) f Hinj Htg).
Qed.

End History.

(* ================================================================ non-vacuity *)
Lemma eh_loaded : loaded eh_ops
  = [eh_blk; eh_red1; eh_rp1; eh_csp2; eh_miss; eh_red2; eh_rp1; eh_rp2; eh_rp3; eh_csp1; eh_csp3; eh_redx].
Proof. vm_compute. reflexivity. Qed.

Lemma eh_premises :
  id_inj (loaded eh_ops) /\ TG seahash (rmatch eh_om eh_pm) eh_probes (loaded eh_ops)
  /\ (forall f, In f (loaded eh_ops) -> wfp f = true) /\ In 0 eh_probes.
Proof.
  split; [|split; [|split]].
  - apply (id_inj_incl [eh_blk; eh_red1; eh_rp1; eh_csp2; eh_miss; eh_red2; eh_rp2; eh_rp3; eh_csp1; eh_csp3; eh_redx]).
    + rewrite eh_loaded. intros x Hx. cbn [In] in *. tauto.
    + apply nodup_ids_inj. apply nodupN_b_sound. vm_compute. reflexivity.
  - apply TG_b_sound. vm_compute. reflexivity.
  - intros f Hf. assert (E : forallb wfp (loaded eh_ops) = true) by (vm_compute; reflexivity).
    rewrite forallb_forall in E. apply E. exact Hf.
  - apply memN_In. vm_compute. reflexivity.
Qed.

(* the expected whole answer at the end: /ads/banner blocks, but the redirect exception
   @@/banner.$redirect-rule=1x1.gif is ALSO a plain exception (Blocker::new / add_filter file an
   exception under exceptions whatever else it is), so the request is excepted; the 1x1.gif offer
   (priority 20) is excepted, so noopjs:10 wins and resolves through its alias to noop.js; utm and id
   are stripped, keep stays (its rule does not match) *)
Definition eh_expected : result :=
  {| r_matched := false; r_important := false; r_exception := true; r_filter := true;
     r_redirect := Some (bs "data:application/javascript;base64,KGZ1bmM=");
     r_rewritten := Some (bs "https://x.com/ads/banner.js?keep=3") |}.
(* before the redirect exception arrives (13 operations): blocked, redirected to the gif *)
Definition eh_expected13 : result :=
  {| r_matched := true; r_important := false; r_exception := false; r_filter := true;
     r_redirect := Some (bs "data:image/gif;base64,R0lG");
     r_rewritten := Some (bs "https://x.com/ads/banner.js?keep=3") |}.

Ltac conj_vm := repeat match goal with |- _ /\ _ => split; [vm_compute; reflexivity|] end; vm_compute; reflexivity.

Example history_engine_example :
  (* the premises of the theorems hold of a history with two optimize() calls, a duplicate add, a
     refused $badfilter rule, tag switches, redirect / removeparam / csp rules *)
  id_inj (loaded eh_ops) /\ TG seahash (rmatch eh_om eh_pm) eh_probes (loaded eh_ops)
  /\ (forall f, In f (loaded eh_ops) -> wfp f = true) /\ In 0 eh_probes
  /\ tagset eh_ops = [bs "t2"; bs "t1"]
  (* both sides of history_engine_check, evaluated *)
  /\ engine_check (rmatch eh_om eh_pm) eh_probes true eh_url eh_store false false (hrun seahash eh_ops) = eh_expected
  /\ spec_result (rmatch eh_om eh_pm) true eh_url eh_store false false (loaded eh_ops) (tagset eh_ops) = eh_expected
  /\ engine_check (rmatch eh_om eh_pm) eh_probes true eh_url eh_store false false (hrun seahash (firstn 13 eh_ops)) = eh_expected13
  /\ spec_result (rmatch eh_om eh_pm) true eh_url eh_store false false (loaded (firstn 13 eh_ops)) (tagset (firstn 13 eh_ops))
     = eh_expected13
  (* the first optimize() really fused something, and the duplicate add was refused *)
  /\ map (fun f => List.length (patterns_of f)) (bucket (b_filters (hrun seahash (firstn 6 eh_ops))) (seahash (bs "ads")))
     = [2%nat]
  /\ snd (blocker_add seahash (hrun seahash (firstn 7 eh_ops)) eh_rp1) = AddExists
  (* along the way: before any redirect rule; with one removeparam rule only; unsupported scheme *)
  /\ r_redirect (engine_check (rmatch eh_om eh_pm) eh_probes true eh_url eh_store false false (hrun seahash (firstn 1 eh_ops))) = None
  /\ r_rewritten (engine_check (rmatch eh_om eh_pm) eh_probes true eh_url eh_store false false (hrun seahash (firstn 9 eh_ops)))
     = Some (bs "https://x.com/ads/banner.js?id=2&keep=3")
  /\ engine_check (rmatch eh_om eh_pm) eh_probes false eh_url eh_store false false (hrun seahash eh_ops) = default_result
  (* CSP: a tagged rule counts exactly while its tag is enabled (the order of the directives is the
     model's; the theorems speak of same_policy) *)
  /\ engine_csp (rmatch eh_om eh_pm) eh_probes RT_Document (hrun seahash eh_ops)
     = Some [bs "img-src 'none'"; bs "script-src 'self'"]
  /\ C15_Model.get_csp_for RT_Document (spec_csp_rules (rmatch eh_om eh_pm) (loaded eh_ops) (tagset eh_ops))
     = Some [bs "img-src 'none'"; bs "script-src 'self'"]
  /\ engine_csp (rmatch eh_om eh_pm) eh_probes RT_Subdocument (hrun seahash (firstn 16 eh_ops))
     = Some [bs "img-src 'none'"; bs "script-src 'self'"; bs "font-src 'none'"]
  /\ engine_csp (rmatch eh_om eh_pm) eh_probes RT_Document (hrun seahash (firstn 17 eh_ops))
     = Some [bs "script-src 'self'"]
  /\ engine_csp (rmatch eh_om eh_pm) eh_probes RT_Script (hrun seahash eh_ops) = None.
Proof.
  destruct eh_premises as (H1 & H2 & H3 & H4).
  split; [exact H1|]. split; [exact H2|]. split; [exact H3|]. split; [exact H4|].
  conj_vm.
Qed.

(* the second history holds the same rule SET and tag SET, so the set-determination theorem applies
   to a non-trivial pair (no optimize(), other order, repeats on one side) *)
Example history_engine_set_example :
  same_rule_set (loaded eh_ops) (loaded eh_ops') /\ same_tag_set (tagset eh_ops) (tagset eh_ops')
  /\ loaded eh_ops <> loaded eh_ops' /\ tagset eh_ops <> tagset eh_ops'
  /\ hrun seahash eh_ops <> hrun seahash eh_ops'
  /\ engine_check (rmatch eh_om eh_pm) eh_probes true eh_url eh_store false false (hrun seahash eh_ops') = eh_expected.
Proof.
  split; [|split; [|split; [|split; [|split]]]].
  - assert (E : forall l1 l2, forallb (fun x => existsb (fun y => N.eqb (rid x) (rid y)) l2) l1 = true ->
                  (forall y, In y l2 -> In y (loaded eh_ops)) -> (forall x, In x l1 -> In x (loaded eh_ops)) ->
                  forall x, In x l1 -> In x l2).
    { intros l1 l2 Hb H2 H1 x Hx. rewrite forallb_forall in Hb. specialize (Hb x Hx).
      apply existsb_exists in Hb. destruct Hb as (y & Hy & Hid). apply N.eqb_eq in Hid.
      destruct eh_premises as (Hinj & _). rewrite (Hinj x y (H1 x Hx) (H2 y Hy) Hid). exact Hy. }
    assert (I21 : forall y, In y (loaded eh_ops') -> In y (loaded eh_ops)).
    { intros y Hy. rewrite eh_loaded. vm_compute in Hy. cbn [In].
      repeat (destruct Hy as [Hy|Hy]; [subst y; vm_compute; tauto|]). destruct Hy. }
    intros x. split.
    + apply (E (loaded eh_ops) (loaded eh_ops')); [vm_compute; reflexivity|exact I21|auto].
    + apply I21.
  - intros t. vm_compute tagset.
    cbn [mem_str]. repeat match goal with |- context [str_eqb t ?x] => destruct (str_eqb t x) end; reflexivity.
  - intros E. apply (f_equal (fun l => List.length l)) in E. vm_compute in E. discriminate E.
  - intros E. apply (f_equal (fun l => List.length l)) in E. vm_compute in E. discriminate E.
  - intros E. apply (f_equal (fun b => map (fun k => List.length (bucket (b_filters b) k)) (map fst (b_filters b)))) in E. vm_compute in E. discriminate E.
  - vm_compute. reflexivity.
Qed.

(* ================================================================ the premise wfp is needed
   (lifted from C06_History_Proofs.history_verdict_wfp_refuted: an empty AnyOf matches everything on
   its own but contributes no pattern to a fusion) *)
Lemma history_engine_wfp_refuted :
  exists ops,
    id_inj (loaded ops) /\ TG seahash (rmatch hx_om hx_pm) hx_probes (loaded ops) /\ In 0 hx_probes
    /\ engine_check (rmatch hx_om hx_pm) hx_probes true hx_url C13_Model.empty_store false false (hrun seahash ops)
       <> spec_result (rmatch hx_om hx_pm) true hx_url C13_Model.empty_store false false (loaded ops) (tagset ops).
Proof.
  exists [ HAdd (mkr 1 M_DEFAULT_OPTIONS (FAnyOf []) None None None None None);
           HAdd (mkr 2 M_DEFAULT_OPTIONS (FSimple (bs "/zzz")) None None None None None);
           HOptimize ].
  split; [|split; [|split]].
  - apply nodup_ids_inj. apply nodupN_b_sound. vm_compute. reflexivity.
  - apply TG_b_sound. vm_compute. reflexivity.
  - apply memN_In. vm_compute. reflexivity.
  - vm_compute. discriminate.
Qed.
