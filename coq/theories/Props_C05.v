(* Props_C05.v — pinned statements for C05: rule optimisation never changes any verdict.
   Matcher shape: [om mask] = the option check of a domain-less rule, [pm mask pattern] = one
   pattern against the request; a rule matches iff its options do and ANY of its patterns does
   (zero patterns match everything).  That a RegexSet built from several translated patterns
   matches iff one of the individual regexes does is the regex crate's contract (trusted; see
   the known finding about a set containing an uncompilable member). *)
From Adb Require Import Base Generated Hashing Net_Model Net_Proofs C05_Model C05_Proofs.
From Adb Require Struct_Opt_Proofs.

(* a fused rule matches exactly when one of its members does *)
Theorem C05_fusion_hit : forall om pm tags g fz,
  group_ok g -> forallb wfp g = true -> fusion g = Some fz ->
  hitb om pm tags fz = existsb (hitb om pm tags) g.
Proof. exact fusion_hit. Qed.
Print Assumptions C05_fusion_hit.

(* optimizer::optimize on a bucket: same hits *)
Theorem C05_optimize_exists : forall om pm tags fs,
  forallb wfp fs = true -> existsb (hitb om pm tags) (optimize fs) = existsb (hitb om pm tags) fs.
Proof. exact optimize_exists. Qed.
Print Assumptions C05_optimize_exists.

(* NetworkFilterList::optimize: check finds a rule iff it did before *)
Theorem C05_check_optimize_iff : forall om pm pr m tags, wf_map m ->
  (check (rmatch om pm) (fl_optimize m) pr tags <> None <-> check (rmatch om pm) m pr tags <> None).
Proof. exact check_optimize_iff. Qed.
Print Assumptions C05_check_optimize_iff.

(* masks (hence important / exception / category bits) and ids in an optimized bucket come from it *)
Theorem C05_fl_optimize_bucket_mask : forall m k x, forallb wfp (bucket m k) = true ->
  In x (bucket (fl_optimize m) k) -> exists y, In y (bucket m k) /\ rmask x = rmask y /\ rid x = rid y.
Proof. exact (fl_optimize_bucket_mask (fun _ => true) (fun _ _ => true)). Qed.
Print Assumptions C05_fl_optimize_bucket_mask.

(* Blocker::optimize (and an engine built with optimisation on, which is the optimized form of
   the one built with it off): matched / important / exception / filter unchanged *)
Theorem C05_blocker_optimize_verdict : forall om pm pr b, wf_blocker b -> Categorised b ->
  blocker_check (rmatch om pm) pr (blocker_optimize b) = blocker_check (rmatch om pm) pr b.
Proof. exact blocker_optimize_verdict. Qed.
Print Assumptions C05_blocker_optimize_verdict.

Theorem C05_blocker_optimize_generic_hide : forall om pm pr b, wf_blocker b ->
  generic_hide_hit (rmatch om pm) pr (blocker_optimize b) = generic_hide_hit (rmatch om pm) pr b.
Proof. exact blocker_optimize_generic_hide. Qed.
Print Assumptions C05_blocker_optimize_generic_hide.

(* redirect and csp rules are never selected for fusion: their hit sets are unchanged
   (rewritten URL: the removeparam list is not optimized at all, by definition of blocker_optimize) *)
Theorem C05_check_all_unselectable : forall om pm pr m tags x,
  (forall k f, In f (bucket m k) -> opt_select f = false) ->
  (In x (check_all (rmatch om pm) (fl_optimize m) pr tags) <-> In x (check_all (rmatch om pm) m pr tags)).
Proof. exact check_all_unselectable. Qed.
Print Assumptions C05_check_all_unselectable.

Theorem C05_removeparam_not_optimized : forall b, b_removeparam (blocker_optimize b) = b_removeparam b.
Proof. reflexivity. Qed.
Print Assumptions C05_removeparam_not_optimized.

(* ------------------------------------------------------------------ translator tie: the control
   structure of src/blocker.rs as extracted on this run (Generated.BlockerGen, written by
   tools/gen_fragments/c01_blocker_structure.py) denotes the hand-written model *)
From Coq Require Import String.
From Adb Require Import Struct_Proofs.
Import Generated.BlockerGen.

Theorem C05_src_optimize_lists : forall b, blocker_optimize_by optimize_lists b = blocker_optimize b.
Proof. exact optimize_lists_is_model. Qed.
Print Assumptions C05_src_optimize_lists.

Theorem C05_src_new_optimize_flags :
  map (fun x => (fst (fst x), snd x)) new_lists = map (fun n => (n, named optimize_lists n)) blocker_fields_sorted.
Proof. exact new_lists_flags. Qed.
Print Assumptions C05_src_new_optimize_flags.

(* ------------------------------------------------------------------ delivery ORDER of the rules
   that are never fused (redirect, csp): unchanged by optimisation, so that the redirect answer
   (which among equal priorities depends on the order) is literally the same.  False before /repo
   e89168f (finding F31: rules stored in several buckets were moved to the end of their bucket). *)
From Adb Require Import C05_Order_Proofs.

Theorem C05_buckets_sorted_by_id : forall h L, sorted_map (fl_new h L).
Proof. exact fl_new_sorted. Qed.
Print Assumptions C05_buckets_sorted_by_id.

Theorem C05_unselectable_list_untouched : forall m,
  unselectable_map m -> sorted_map m -> fl_optimize m = m.
Proof. exact fl_optimize_unselectable_id. Qed.
Print Assumptions C05_unselectable_list_untouched.

Theorem C05_redirect_hits_unchanged : forall h L T matches pr,
  redirect_hits matches pr (blocker_optimize (tags_with_set h (blocker_new h L) T))
  = redirect_hits matches pr (tags_with_set h (blocker_new h L) T).
Proof. exact redirect_hits_unchanged. Qed.
Print Assumptions C05_redirect_hits_unchanged.

Theorem C05_csp_hits_unchanged : forall h L T matches pr,
  csp_hits matches pr (blocker_optimize (tags_with_set h (blocker_new h L) T))
  = csp_hits matches pr (tags_with_set h (blocker_new h L) T).
Proof. exact csp_hits_unchanged. Qed.
Print Assumptions C05_csp_hits_unchanged.

Theorem C05_removeparam_hits_unchanged : forall h L T matches pr,
  removeparam_hits matches pr (blocker_optimize (tags_with_set h (blocker_new h L) T))
  = removeparam_hits matches pr (tags_with_set h (blocker_new h L) T).
Proof. exact removeparam_hits_unchanged. Qed.
Print Assumptions C05_removeparam_hits_unchanged.

(* ---- src/optimizer.rs itself, as the translator extracts it on every run (Generated.OptGen),
   interpreted over the model's rules: it IS the model's select / grouping key / fusion ---- *)
Theorem C05_src_select_is_model :
  forall f : rule, Struct_Opt_Proofs.interp_select f = opt_select f.
Proof. exact Struct_Opt_Proofs.interp_select_is_model. Qed.
Print Assumptions C05_src_select_is_model.

Theorem C05_src_group_key_is_model :
  forall f g : rule, Struct_Opt_Proofs.interp_same_key f g = Some (same_key f g).
Proof. exact Struct_Opt_Proofs.interp_same_key_is_model. Qed.
Print Assumptions C05_src_group_key_is_model.

Theorem C05_src_group_key_has_mask_and_tag :
  existsb (String.eqb "mask"%string) OptGen.group_key = true /\
  existsb (String.eqb "tag"%string) OptGen.group_key = true.
Proof. exact Struct_Opt_Proofs.key_has_mask_and_tag. Qed.
Print Assumptions C05_src_group_key_has_mask_and_tag.

Theorem C05_src_fusion_is_model :
  forall g : list rule, Struct_Opt_Proofs.interp_fusion g = fusion g.
Proof. exact Struct_Opt_Proofs.interp_fusion_is_model. Qed.
Print Assumptions C05_src_fusion_is_model.

Theorem C05_src_apply_structure :
  OptGen.fuse_groups_larger_than = 1%N /\ OptGen.optimize_final_sort = "id"%string.
Proof. exact Struct_Opt_Proofs.apply_structure_is_model. Qed.
Print Assumptions C05_src_apply_structure.

(* NetworkFilterList::optimize, bucket by bucket, from the extracted steps: it IS fl_optimize *)
Theorem C05_src_fl_optimize_is_model :
  forall m : fmap,
  map (fun kb => match Struct_Opt_Proofs.interp_bucket m (snd kb) with
                 | Some b => Some (fst kb, b) | None => None end) m
  = map Some (fl_optimize m).
Proof. exact Struct_Opt_Proofs.interp_fl_optimize_is_model. Qed.
Print Assumptions C05_src_fl_optimize_is_model.
